"""Command-word × argument generators shared by C08/C09/C10."""
WORDS = ["ack", "arbiter", "auth", "cluster-state", "create-db", "create-user", "debug", "election", "get", "get-safe",
         "increment", "join", "keys", "leave", "ls", "metrics-state", "remove", "replicate", "replicate-increment",
         "replicate-join", "replicate-leave", "replicate-remove", "replicate-since", "replicate-snapshot", "resolve", "rp",
         "set", "set-primary", "set-safe", "set-secoundary", "snapshot", "unwatch", "unwatch-all", "use", "use-db", "watch",
         "list-commands", "set-permissions"]

# argument variants per command (well-formed ones), with {k} = key placeholder
VARIANTS = {
    "ack": ["ack 5 n2", "ack x n2", "ack 5"],
    "arbiter": ["arbiter"],
    "auth": ["auth adm pw", "auth adm bad", "auth"],
    "cluster-state": ["cluster-state"],
    "create-db": ["create-db d2 tk2", "create-db d3 tk3 arbiter", "create-db t tok", "create-db d4"],
    "create-user": ["create-user bob bpw", "create-user bob"],
    "debug": ["debug pending-ops", "debug list-dbs", "debug process-info", "debug pendding-conflitcts", "debug force-election", "debug nope", "debug"],
    "election": ["election win", "election candidate 5 n9", "election candidate 0 n9", "election active n9", "election"],
    "get": ["get {k}", "get"],
    "get-safe": ["get-safe {k}"],
    "increment": ["increment {k}", "increment {k} 3", "increment {k} x"],
    "join": ["join n9"],
    "keys": ["keys", "keys {k}*", "keys *"],
    "leave": ["leave n9"],
    "ls": ["ls"],
    "metrics-state": ["metrics-state"],
    "remove": ["remove {k}"],
    "replicate": ["replicate t {k} -1 rv", "replicate nodb {k} -1 rv", "replicate t"],
    "replicate-increment": ["replicate-increment t {k} 2", "replicate-increment nodb {k}"],
    "replicate-join": ["replicate-join n9"],
    "replicate-leave": ["replicate-leave n9"],
    "replicate-remove": ["replicate-remove t {k}"],
    "replicate-since": ["replicate-since n9 0", "replicate-since n9 x"],
    "replicate-snapshot": ["replicate-snapshot t", "replicate-snapshot t|nodb true"],
    "resolve": ["resolve 77 t {k} 3 rz", "resolve x t {k} 3 rz", "resolve 77 t"],
    "rp": ["rp 9 set {k} viarp", "rp 9 get {k}", "rp 9 create-db d5 tk5", "rp x get {k}", "rp 9"],
    "set": ["set {k} nv", "set {k}"],
    "set-primary": ["set-primary n9"],
    "set-safe": ["set-safe {k} 0 sv", "set-safe {k} 9 sv", "set-safe {k}"],
    "set-secoundary": ["set-secoundary n9"],
    "snapshot": ["snapshot", "snapshot true", "snapshot false t", "snapshot false t|nodb"],
    "unwatch": ["unwatch {k}"],
    "unwatch-all": ["unwatch-all"],
    "use": ["use t tok", "use t bad"],
    "use-db": ["use-db t tok", "use-db t bad", "use-db nodb tok", "use-db t u upw", "use-db t u bad", "use-db t", "use-db"],
    "watch": ["watch {k}"],
    "list-commands": ["list-commands"],
    "set-permissions": ["set-permissions u rw *", "set-permissions u"],
}

def all_variants(keys):
    out = []
    for w in WORDS:
        for v in VARIANTS[w]:
            if "{k}" in v:
                for k in keys: out.append(v.replace("{k}", k))
            else: out.append(v)
    out += ["nonsense", "", " ", "get  ", ";", "set a b;", "GET a"]
    return out
