"""C06 — snapshot then restart restores exactly the snapshotted state."""
import re, itertools
from vlib import core
from vlib.runner import Spec, Failure

SETUP = ["RESET", "SESS 1", "C 1 auth adm pw", "C 1 create-db t tok newer", "C 1 use-db t tok"]
AFTER_RESTART = ["SESS 1", "C 1 auth adm pw", "C 1 use-db t tok"]
VALS = ["", "7", "h\\xc3\\xa9\\xe2\\x82\\xac", "L" * 300]

def alphabet(keys):
    al = []
    for k in keys:
        for v in VALS: al.append([f"C 1 set {k} {v}" if v else f"C 1 set {k}"])
        al += [[f"C 1 set-safe {k} 5 sv"], [f"C 1 remove {k}"], [f"C 1 increment {k}"]]
    al += [["C 1 snapshot false", "SNAP"], ["C 1 snapshot true", "SNAP"], ["RESTART"] + AFTER_RESTART]
    return al

def dataset(dump):
    """live dataset per database: name -> (id, strategy, {key: (value, version)})"""
    out = {}
    for d in dump:
        m = re.match(r"D db (\S+) id=(\d+) strat=(\S+) conns=", d)
        if m: out[m.group(1)] = [int(m.group(2)), m.group(3), {}]
        m = re.match(r"D k (\S+) (\S+) ver=(-?\d+) st=(\w) va=\d+ ka=\d+ op=\S+ v=(.*)", d)
        if m and m.group(1) in out and m.group(4) != "D":
            out[m.group(1)][2][m.group(2)] = (m.group(5), int(m.group(3)))
    return out

class C06(Spec):
    pid = "C06"
    lean_module = "NunVerif.Props.C06History"
    search_cap = 4000
    theorems = ["Nun.C06_key_record_is_generated", "Nun.C06_value_record_is_generated", "Nun.C06_key_writer_layout", "Nun.C06_value_writer_layout", "Nun.C06_value_status_written", "Nun.C06_disk_constants",
                "Nun.C06_key_disk_size_formula", "Nun.C06_update_key_offsets", "Nun.C06_loader_read_order", "Nun.C06_le64_roundtrip", "Nun.C06_version_roundtrip", "Nun.C06_key_record_size", "Nun.C06_value_record_size",
                "Nun.C06_snapshot_keeps_memory", "Nun.snapshotDb_sameData",
                "Nun.C06_reclaim_roundtrip", "Nun.snapshotDb_reclaim_files", "Nun.loadLoop_encFiles",
                "Nun.C06_incremental_roundtrip", "Nun.snapFold_inc", "Nun.loadLoop_recs", "Nun.pwrite_record",
                "Nun.C06_snapshot_restores_after_any_history", "Nun.C06_history_inv", "Nun.C06_reclaim_inv", "Nun.restart_inv", "Nun.J_fresh", "Nun.load_clean"]
    rule = ("all sequences of length L over {set (values of 0, 1, 6 multi-byte and 300 bytes), set-safe, remove, increment, snapshot false, snapshot true, restart} x keys, "
            "plus three databases queued for ONE write round (one request naming several, several requests before the round, same / different reclaim flags, a name twice) before and after further changes, plus version conflicts on new and on persisted keys of an ARBITER database (with and without the arbiter's answer) followed by snapshots of both kinds and a restart, plus every sequence of length 6 (7) over {set, increment, remove, incremental snapshot} on ONE key followed by snapshot + restart, plus seeded random sequences up to length 40 over 3 keys and 2 databases; the snapshot files are compared byte for byte with the Lean model after every snapshot and the reloaded dataset with the model's loader; "
            "oracle: dataset captured at each completed snapshot vs the dataset after the next restart. non-trivial = at least one snapshot that writes something and one restart; distinct by trace hash")

    def corpus(self):
        return [("stale-offset", SETUP + ["C 1 set a 1", "C 1 set bb 22", "C 1 snapshot false", "SNAP", "C 1 remove a", "C 1 snapshot true", "SNAP",
                                          "C 1 snapshot false", "SNAP", "RESTART"] + AFTER_RESTART + ["C 1 keys"]),
                ("inc-forgets-offset", SETUP + ["C 1 set n 5", "C 1 snapshot false", "SNAP", "C 1 increment n", "C 1 snapshot false", "SNAP", "RESTART"] + AFTER_RESTART + ["C 1 get-safe n"])]

    def generate(self, tier, seed):
        cases = []
        al = alphabet(("a",))
        for seq in itertools.product(al, repeat=3 if tier == "quick" else 4):
            c = list(SETUP)
            for x in seq: c += x
            c += ["C 1 snapshot false", "SNAP", "RESTART"]
            cases.append(c)
        # life cycles: (a few mutations; incremental snapshot; restart) repeated — what the loader rebuilds (disk positions of the
        # records, tombstones left in place) is only exercised by the NEXT snapshot and shows after the restart that follows it
        muts = [["C 1 set a 1"], ["C 1 set bb 22"], ["C 1 set a 3"], ["C 1 remove a"], ["C 1 remove bb"], ["C 1 set c x"], ["C 1 increment n"]]
        AFTER = ["SESS 1", "C 1 auth adm pw", "C 1 use-db t tok"]
        cyc = 0
        for m1 in itertools.product(muts, repeat=2):
            for m2 in muts:
                for m3 in muts:
                    cyc += 1
                    if tier == "quick" and cyc % 3: continue
                    c = list(SETUP)
                    for x in m1: c += x
                    c += ["C 1 snapshot false", "SNAP"] + m2 + ["C 1 snapshot false", "SNAP", "RESTART"] + AFTER + m3 + ["C 1 snapshot false", "SNAP", "RESTART"] + AFTER + ["C 1 keys"]
                    cases.append(c)
        # key NAMES that are not ASCII (two- and three-byte characters, next to ASCII neighbours): every length and offset of the keys file is
        # in BYTES; the same life cycles, so that the in-place update of a persisted multi-byte key and the records behind it are exercised
        umuts = [["C 1 set k\\xc3\\xa9 1"], ["C 1 set \\xe2\\x82\\xac\\xc3\\xa7 22"], ["C 1 set k\\xc3\\xa9 3"], ["C 1 remove k\\xc3\\xa9"], ["C 1 set z x"], ["C 1 set \\xe2\\x82\\xac\\xc3\\xa7 two words"], ["C 1 increment \\xc3\\xb1"]]
        for m1 in itertools.product(umuts[:3] + umuts[4:5], repeat=2):
            for m2 in umuts:
                for m3 in (umuts if tier != "quick" else umuts[2:6]):
                    c = list(SETUP)
                    for x in m1: c += x
                    c += ["C 1 snapshot false", "SNAP"] + m2 + ["C 1 snapshot false", "SNAP", "RESTART"] + AFTER + m3 + ["C 1 snapshot false", "SNAP", "RESTART"] + AFTER + ["C 1 keys", "C 1 get-safe k\\xc3\\xa9", "C 1 get-safe \\xe2\\x82\\xac\\xc3\\xa7"]
                    cases.append(c)
        # one key through its whole state machine: every sequence of {set, increment, remove, incremental snapshot} of length 6 (quick)
        # / 7 (thorough), then a snapshot and a restart — New / Updated / Deleted / re-created entries meeting records that already
        # exist for the key (a second record for a key, a tombstone on the wrong record, a version that restarts)
        one = [["C 1 set n 41"], ["C 1 increment n"], ["C 1 remove n"], ["C 1 snapshot false", "SNAP"]]
        for seq in itertools.product(one, repeat=6 if tier == "quick" else 7):
            if sum(1 for x in seq if x[0].startswith("C 1 snapshot")) not in (1, 2, 3): continue
            c = list(SETUP)
            for x in seq: c += x
            c += ["C 1 snapshot false", "SNAP", "RESTART"] + AFTER + ["C 1 get-safe n", "C 1 keys"]
            cases.append(c)
        # an ARBITER database: a version conflict parks the key at the in-conflict version and records the conflict under a key of
        # its own — entries written by the conflict code, not by set_value, go through the snapshot writer too
        ARB = ["RESET", "SESS 1", "C 1 auth adm pw", "C 1 create-db t tok arbiter", "C 1 use-db t tok", "SESS 3", "C 3 use-db t tok", "C 3 arbiter",
               "C 1 set a 1", "C 1 set bb 22", "C 1 set bb 23", "C 1 set ccc 333", "C 1 snapshot false", "SNAP"]
        # (bb is persisted at version 1 and CLEAN when the stale write arrives: the conflict code changes its version without set_value)
        conflicts = [["C 1 set-safe bb 0 stale"], ["C 1 set-safe bb 0 stale", "RESOLVE 3 0 win"], ["C 1 set-safe bb 0 s1", "C 1 set-safe bb 0 s2"],
                     ["C 1 set-safe nw 0 x", "C 1 set-safe nw 0 y"], ["C 1 set-safe a 0 stale"], ["C 1 set nw 1", "C 1 set-safe nw 0 z", "C 1 set nw again"],
                     ["C 1 set-safe a 0 s1", "C 1 set-safe a 0 s2"], ["C 1 set-safe nw 0 x", "C 1 set-safe nw 0 y", "RESOLVE 3 0 win"]]
        for cf in conflicts:
            for mid in ([], ["C 1 snapshot false", "SNAP"], ["C 1 set bb 23"]):
                for fin in (["C 1 snapshot false", "SNAP"], ["C 1 snapshot true", "SNAP"]):
                    cases.append(ARB + cf + mid + fin + ["RESTART"] + AFTER + ["C 1 get-safe a", "C 1 get-safe bb", "C 1 get-safe nw", "C 1 keys"])
        # several databases queued for ONE write round (one request naming both, or two requests before the round runs; same and different
        # reclaim flags; a database named twice): every queued database must be written
        TWO = ["RESET", "SESS 1", "C 1 auth adm pw", "C 1 create-db t tok newer", "C 1 create-db u tok2 newer", "C 1 create-db w tok3", "C 1 use-db t tok", "C 1 set a 1", "C 1 set bb 22",
               "C 1 use-db u tok2", "C 1 set a u1", "C 1 set c u3", "C 1 use-db w tok3", "C 1 set z w1"]
        rounds = [["C 1 snapshot false t|u"], ["C 1 snapshot true t|u"], ["C 1 snapshot false t|u|w"], ["C 1 snapshot false u|t"], ["C 1 snapshot false t", "C 1 snapshot false u"],
                  ["C 1 snapshot false t", "C 1 snapshot true u"], ["C 1 snapshot true t", "C 1 snapshot false u", "C 1 snapshot false w"], ["C 1 snapshot false t|t|u"],
                  ["C 1 snapshot false t", "C 1 snapshot false t", "C 1 snapshot false u"], ["C 1 snapshot false w|u", "C 1 snapshot false t"]]
        more = ["C 1 use-db t tok", "C 1 set a 2", "C 1 remove bb", "C 1 set nk n", "C 1 use-db u tok2", "C 1 set a u2", "C 1 remove c", "C 1 increment cnt", "C 1 use-db w tok3", "C 1 set z w2"]
        reads = ["SESS 1", "C 1 auth adm pw", "C 1 use-db t tok", "C 1 keys", "C 1 get-safe a", "C 1 use-db u tok2", "C 1 keys", "C 1 get-safe a", "C 1 use-db w tok3", "C 1 get-safe z"]
        for r1 in rounds:
            cases.append(TWO + r1 + ["SNAP", "RESTART"] + reads)
            for r2 in rounds[:6]:
                cases.append(TWO + r1 + ["SNAP"] + more + r2 + ["SNAP", "RESTART"] + reads)
        rng = core.XorShift(seed)
        al2 = alphabet(("a", "bb", "c"))
        for _ in range(500 if tier == "quick" else 8000):
            c = list(SETUP) + ["C 1 create-db u tok2 arbiter"]
            for _ in range(5 + rng.below(20 if tier == "quick" else 36)):
                c += rng.choice(al2)
                if rng.chance(1, 12): c += ["C 1 snapshot false u", "SNAP"]
            c += ["RESTART"]
            cases.append(c)
        return cases

    def nontrivial(self, case, impl):
        t = "\n".join(impl)
        return "> RESTART" in t and re.search(r"\nF t-nun\.data\.keys [0-9a-f]{10}", t) is not None

    def oracle(self, case, impl):
        fails = []
        snap = {}     # db -> dataset at its last completed snapshot
        queued = []
        for (inp, rest, dump) in core.parse_steps(impl):
            if any(x.startswith("R PANIC") for x in rest):
                fails.append(Failure("panic", f"{inp[:60]}: {[x for x in rest if x.startswith('R PANIC')][0][:120]}")); break
            ds = dataset(dump)
            if inp.startswith("SNAP"):
                # databases in the queue before this step were snapshotted now
                for name in queued:
                    if name in ds: snap[name] = (ds[name][0], ds[name][1], dict(ds[name][2]))
            if inp.startswith("RESTART"):
                for name, (sid, strat, keys) in snap.items():
                    if name not in ds:
                        fails.append(Failure("snapshotted-database-missing-after-restart", f"{name}")); break
                    rid, rstrat, rkeys = ds[name]
                    if rid != sid or rstrat != strat:
                        fails.append(Failure("database-metadata-changed-by-restart", f"{name}: id/strategy {sid}/{strat} -> {rid}/{rstrat}"))
                    for k, (v, ver) in keys.items():
                        if k not in rkeys: fails.append(Failure("snapshotted-key-missing-after-restart", f"{name}/{k}")); break
                        if rkeys[k] != (v, ver):
                            fails.append(Failure("snapshotted-key-differs-after-restart", f"{name}/{k}: snapshot {(v[:30], ver)} reloaded {(rkeys[k][0][:30], rkeys[k][1])}")); break
                    for k in rkeys:
                        if k not in keys:
                            fails.append(Failure("key-appeared-after-restart", f"{name}/{k} = {rkeys[k][0][:30]!r} (removed or never snapshotted)")); break
                # after a restart every reloaded database is exactly its on-disk image
                snap = {name: (ds[name][0], ds[name][1], dict(ds[name][2])) for name in snap if name in ds}
            queued = []
            for d in dump:
                m = re.match(r"D snapq (.*)", d)
                if m: queued = [x.split(":")[0] for x in m.group(1).split(",") if x]
            if fails: break
        return fails

SPEC = C06()
