"""C02 — set-safe is an atomic compare-and-set; versions only grow (sequential part; schedules in c02 conc stage)."""
import re
from vlib import core
from vlib.runner import Spec, Failure
from checks import kvgen

def entries(dump, db="t"):
    out = {}
    for d in dump:
        m = re.match(r"D k (\S+) (\S+) ver=(-?\d+) st=(\w) va=(\d+) ka=(\d+) op=(\S+) v=(.*)", d)
        if m and m.group(1) == db:
            out[m.group(2)] = dict(ver=int(m.group(3)), st=m.group(4), va=int(m.group(5)), ka=int(m.group(6)), op=m.group(7), v=m.group(8))
    return out

class C02(Spec):
    pid = "C02"
    lean_module = "NunVerif.Props.C02Atomic"
    theorems = ["Nun.C02_cas_rule", "Nun.C02_cas_absent", "Nun.C02_plain_write", "Nun.C02_cas_cases", "Nun.C02_version_monotone",
                "Nun.C02_set_value_is_one_critical_section", "Nun.C02_inc_value_is_one_critical_section", "Nun.C02_remove_value_is_one_critical_section"]
    rule = ("sequential: exhaustive sequences over {set, set-safe v in {0..4}, increment, get-safe, remove, snapshot} on 1-2 keys of a strategy-none "
            "database, two sessions; seeded random longer sequences; versions relative to the current one are covered because every absolute version 0..4 "
            "is tried at every reachable current version 0..4. non-trivial = at least one accepted and one refused versioned write; distinct by trace hash")
    assumptions = ["interleavings are covered by the schedule stage (see level_note)"]

    def extra_stage(self, tier, seed):
        """two clients at once: compare-and-set must stay atomic under every lock-level interleaving"""
        from vlib import sched
        pre = kvgen.setup() + ["SESS 4", "C 4 use-db t tok", "C 4 watch a", "C 1 set a 0"]
        tail = ["C 1 get-safe a", "C 2 get-safe a"]
        P = [("cas-vs-cas-same-version", pre, (1, "set-safe a 1 A"), (2, "set-safe a 1 B"), tail),
             ("cas-vs-cas-next-version", pre, (1, "set-safe a 1 A"), (2, "set-safe a 2 B"), tail),
             ("cas-vs-plain-set", pre, (1, "set-safe a 1 A"), (2, "set a B"), tail),
             ("plain-vs-plain", pre, (1, "set a A"), (2, "set a B"), tail),
             ("cas-vs-increment", pre, (1, "set-safe a 1 5"), (2, "increment a"), tail),
             ("increment-vs-increment", pre, (1, "increment a"), (2, "increment a 10"), tail),
             ("cas-vs-remove", pre, (1, "set-safe a 1 A"), (2, "remove a"), tail),
             ("cas-on-absent-key", kvgen.setup(), (1, "set-safe n 0 A"), (2, "set-safe n 0 B"), ["C 1 get-safe n"]),
             # the version a reader is told is the version OF the value it is told: a read against every kind of write
             ("read-vs-plain-set", pre, (1, "get-safe a"), (2, "set a B"), tail),
             ("read-vs-cas", pre, (1, "get-safe a"), (2, "set-safe a 1 B"), tail),
             ("read-vs-increment", pre + ["C 1 set a 7"], (1, "get-safe a"), (2, "increment a 5"), tail),
             ("read-vs-remove", pre, (1, "get-safe a"), (2, "remove a"), tail),
             ("plain-read-vs-set", pre, (1, "get a"), (2, "set a B"), tail),
             # an acknowledged remove against every kind of write, on a key that was never snapshotted and on one that was
             ("remove-vs-increment", pre + ["C 1 set a 5"], (1, "remove a"), (2, "increment a"), tail),
             ("remove-vs-plain-set", pre, (1, "remove a"), (2, "set a B"), tail),
             ("remove-vs-stale-cas", pre + ["C 1 set a 1", "C 1 set a 2"], (1, "remove a"), (2, "set-safe a 1 B"), tail),
             ("remove-vs-remove", pre, (1, "remove a"), (2, "remove a"), tail),
             ("remove-vs-increment-persisted", pre + ["C 1 set a 5", "C 1 snapshot false", "SNAP"], (1, "remove a"), (2, "increment a"), tail),
             ("remove-vs-plain-set-persisted", pre + ["C 1 snapshot false", "SNAP"], (1, "remove a"), (2, "set a B"), tail)]
        # compare-and-set is about replies and stored state; the order of notifications is C03's
        return sched.stage("C02", P, tier, seed, parts=("reply-A", "reply-B", "later-replies", "state"))

    def corpus(self):
        pre = kvgen.setup()
        return [("inc-resets-version", pre + ["C 1 set-safe k 7 x", "C 1 get-safe k", "C 1 increment k", "C 1 get-safe k", "C 1 set-safe k 8 y"]),
                ("version-overflow", pre + ["C 1 set-safe a 2147483646 big", "C 1 set a p", "C 2 get-safe a"]),
                ("inc-at-cap", pre + ["C 1 set-safe a 2147483646 7", "C 1 increment a", "C 2 get-safe a"])]

    def alphabet(self, keys):
        al = []
        for k in keys:
            al.append([f"C 1 set {k} p"])
            for v in (0, 1, 2, 3, 4): al.append([f"C 2 set-safe {k} {v} s{v}"])
            al.append([f"C 1 increment {k}"]); al.append([f"C 2 get-safe {k}"]); al.append([f"C 1 remove {k}"])
        al.append(["C 1 snapshot false", "SNAP"])
        return al

    def alphabet_cluster_form(self, keys):
        """the same versioned writes arriving in the form a cluster link (or an administrator) sends them: `replicate <db> <key> <version> <value>`
        is a versioned write like set-safe and must be judged by the same rule on the node that receives it"""
        al = []
        for k in keys:
            al.append([f"C 1 set {k} p"]); al.append([f"C 2 get-safe {k}"]); al.append([f"C 2 set-safe {k} 1 s1"])
            for v in (0, 1, 2, 3): al.append([f"C 1 replicate t {k} {v} r{v}"])
        return al

    def generate(self, tier, seed):
        pre = kvgen.setup()
        cases = list(kvgen.product_cases(pre, self.alphabet(("a",)), 4 if tier == "quick" else 5))
        cases += list(kvgen.product_cases(pre, self.alphabet_cluster_form(("a",)), 3 if tier == "quick" else 4))
        rng = core.XorShift(seed)
        cases += list(kvgen.random_cases(pre, self.alphabet(("a", "b")) + [["C 1 set-safe a 2147483646 big"], ["C 1 set-safe a -3 low"], ["C 2 set-safe b -7 low"], ["C 1 snapshot true", "SNAP"]], rng,
                                         1500 if tier == "quick" else 30000, 4, 14))
        return cases

    def nontrivial(self, case, impl):
        t = "\n".join(impl)
        return "R verr" in t and "R ok" in t

    def oracle(self, case, impl):
        fails = []; prev = {}
        for (inp, rest, dump) in core.parse_steps(impl):
            cur = entries(dump)
            if inp.startswith("C "):
                _, sid, cmd = inp.split(" ", 2)
                p = cmd.split(" ")
                r = next((x for x in rest if x.startswith("R ")), "R ?")
                if r.startswith("R PANIC"): fails.append(Failure("panic", f"{inp}: {r}")); break
                ok = r == "R ok"
                if p[0] == "replicate" and len(p) >= 5 and p[1] == "t": p = ["set-safe"] + p[2:]
                if p[0] == "set-safe" and len(p) >= 4 and re.fullmatch(r"\d+", p[2]):
                    k = p[1]; v = int(p[2])
                    if k in prev and prev[k]["ver"] >= 0:
                        want = v >= prev[k]["ver"]
                        if ok != want:
                            fails.append(Failure("cas-rule", f"{inp}: current version {prev[k]['ver']}, accepted={ok}"))
                    elif k not in prev and not ok:
                        fails.append(Failure("cas-rule", f"{inp}: key absent but refused"))
                    if ok and k in cur and cur[k]["ver"] != v + 1:
                        fails.append(Failure("cas-rule", f"{inp}: stored version {cur[k]['ver']} != {v + 1}"))
                if p[0] in ("set", "set-safe", "increment") and ok and len(p) >= 2:
                    k = p[1]
                    if k in prev and k in cur and not cur[k]["ver"] > prev[k]["ver"]:
                        fails.append(Failure("version-not-growing", f"{inp}: {prev[k]['ver']} -> {cur[k]['ver']}"))
                for k in cur:
                    if k in prev and cur[k]["ver"] < prev[k]["ver"]:
                        fails.append(Failure("version-not-growing", f"{inp}: key {k} {prev[k]['ver']} -> {cur[k]['ver']}"))
            prev = cur
            if fails: break
        return fails

SPEC = C02()
