"""C07 — elections end with exactly one primary, the oldest node, and all agree."""
import re, itertools
from vlib import core, cluster, netrunner
from vlib.runner import Failure

PID = "C07"
LEAN_MODULE = "NunVerif.Props.C07Wire"
THEOREMS = ["Nun.C07_candidate_line_is_generated", "Nun.C04_wire_arm_formats", "Nun.C04_election_active_line_is_generated", "Nun.C04_leave_line_is_generated", "Nun.C04_join_line_is_generated", "Nun.C04_set_primary_line_is_generated",
            "Nun.C07_election_terminates", "Nun.resume_decreases", "Nun.C07_lone_member_wins_at_once", "Nun.C07_older_candidate_wins_the_comparison",
            "Nun.parse_candidateLine", "Nun.replicateRequestCore_election", "Nun.parse_setPrimaryLine", "Nun.parse_setSecoundaryLine", "Nun.parseU128_ofNat"]

def roles(net, live):
    for i in live: net.op(i, "DUMP")
    d = netrunner.dumps_of(net)
    out = {}
    for i in live:
        role = next((l.split(" ")[2] for l in d[i] if l.startswith("D role ")), "?")
        prim = sorted(core.unesc(l.split(" ")[2]).decode() for l in d[i] if l.startswith("D member ") and l.split(" ")[3] == "Primary")
        members = sorted(core.unesc(l.split(" ")[2]).decode() for l in d[i] if l.startswith("D member "))
        out[i] = (role, prim, members)
    return out

def claims_without_candidacy(net):
    """nodes that claimed the primary role out of start_election's FIRST wait loop ('No opp registered, will set as primary') while they were
    a secondary: their candidate message was never sent (a secondary's replication loop fans nothing out), nobody could object, and the claim
    does not ask whether the node is eligible.  Returns [(node, script index)]."""
    role = {}; site = {}; out = []
    for ix, (s, o) in enumerate(zip(net.script, net.out)):
        m = re.match(r"@(\d+) ", s)
        if not m: continue
        i = int(m.group(1))
        before = role.get(i)
        for l in o:
            y = re.match(r"Y parked (\d+) (\S+)", l)
            if y: site[(i, int(y.group(1)))] = y.group(2)
        done = [int(y.group(1)) for l in o for y in [re.match(r"Y done (\d+)", l)] if y]
        newrole = next((l.split(" ")[2] for l in o if l.startswith("D role ")), None)
        for cid in done:
            if site.get((i, cid), "").endswith("wait-registered") and before == "Secoundary" and newrole == "Primary": out.append((i, ix))
        if newrole: role[i] = newrole
    return out

def verdict(net, live, pids, what, hist):
    """exactly one primary, the oldest live node; everybody else secondary; everybody names the same primary"""
    fails = []
    r = roles(net, live)
    oldest = min(live, key=lambda i: pids[i - 1])
    prims = [i for i in live if r[i][0] == "Primary"]
    ctx = f"after {what}; live nodes {[(f'n{i}', pids[i-1]) for i in live]}; roles {[(f'n{i}', r[i][0], r[i][1]) for i in live]}; history {hist}"
    if len(prims) == 0: fails.append(Failure(f"no-primary:{what}", ctx))
    elif len(prims) > 1: fails.append(Failure(f"two-primaries:{what}", ctx))
    elif prims[0] != oldest:
        usurpers = [i for (i, _) in claims_without_candidacy(net)]
        if what != "formation" and prims[0] in usurpers:
            fails.append(Failure("secondary-claimed-by-registration-timeout", f"n{prims[0]} claimed the primary role out of the registration wait of an election it ran as a SECONDARY (its candidacy was never sent); " + ctx))
        else: fails.append(Failure(f"primary-is-not-the-oldest:{what}", ctx))
    if len(prims) == 1:
        if any(r[i][0] != "Secoundary" for i in live if i != prims[0]): fails.append(Failure(f"node-neither-primary-nor-secondary:{what}", ctx))
        want = [f"n{prims[0]}"]
        if any(r[i][1] != want for i in live): fails.append(Failure(f"cluster-state-names-another-primary:{what}", ctx))
    return fails

def scenario(k, pids, trigger, targ, lazy=False):
    def fn(net, rng, pids=pids):
        pids = list(pids)
        # eager: a wait-loop turn is taken only when nothing can be delivered (the quantifier's schedules);
        # lazy: messages take 0-3 rounds of 2 ms (still below the 10 ms election timeout), so acknowledgements arrive BETWEEN turns
        settle = (lambda until=None: net.settle_lazy(rng, until=until)) if lazy else (lambda until=None: net.settle(rng, until=until))
        hist = [f"form {k} nodes pids {pids}"]
        ok = cluster.form_cluster(net, k, rng, co=True, pids=pids)
        if any("PANIC" in l for o in net.out for l in o): return [Failure("panic:formation", next(l for o in net.out for l in o if "PANIC" in l)[:200])]
        if not ok: return [Failure("election-does-not-terminate:formation", f"{k} nodes pids {pids}: parked {net.parked}, pending {net.pending()[:4]}, ticks {net.ticks}")]
        live = list(range(1, k + 1))
        if lazy: net.pump_rng = core.XorShift(rng.below(1 << 30) + 1)
        fails = verdict(net, live, pids, "formation", hist)
        if fails or trigger == "none": return fails
        for i in live: net.op(i, "SESS 1"); net.op(i, "C 1 auth adm pw")
        if trigger == "force":
            hist.append(f"debug force-election on n{targ}")
            net.cmd(targ, 1, "debug force-election")
        elif trigger == "force-two":
            a, b = targ
            hist.append(f"debug force-election on n{a} and n{b} at once")
            net.cmd(a, 1, "debug force-election"); net.cmd(b, 1, "debug force-election")
        elif trigger == "primary-dies":
            # the node that is primary now stops: every connection from and to it dies
            r = roles(net, live)
            p = next(i for i in live if r[i][0] == "Primary")
            hist.append(f"primary n{p} dies")
            net.kill(p)
            for j in live:
                if j != p: net.disconnect(p, j)
            live = [i for i in live if i != p]
        elif trigger == "force-staggered":
            # a second election starts while the first one sits in its final pause (acks received, 100 ms before claiming)
            a, b = targ
            hist.append(f"debug force-election on n{a}; when it has its acknowledgements and pauses before claiming: debug force-election on n{b}")
            net.cmd(a, 1, "debug force-election")
            if not settle(until=lambda nt: any(x[0] == a and x[2].endswith("final-wait") for x in nt.parked)):
                return [Failure(f"election-does-not-terminate:{trigger}", f"parked {net.parked}, ticks {net.ticks}; history {hist}")]
            hist.append(f"(n{a} parked: {[x for x in net.parked if x[0] == a]})")
            if lazy:
                r0 = net.round; extra = rng.below(50)
                settle(until=lambda nt: nt.round >= r0 + extra)
                hist.append(f"(the second election is forced {2 * extra} ms into the pause)")
            net.cmd(b, 1, "debug force-election")
        elif trigger == "primary-dies-staggered":
            # the survivors notice the primary's death at different times: the first one is already pausing before its claim when the second one notices
            r = roles(net, live)
            p = next(i for i in live if r[i][0] == "Primary")
            others = [i for i in live if i != p]
            first = others[targ % len(others)]
            hist.append(f"primary n{p} dies; n{first} notices first, the others when n{first} pauses before claiming")
            net.kill(p)
            net.disconnect(p, first)
            if not settle(until=lambda nt: any(x[0] == first and x[2].endswith("final-wait") for x in nt.parked)):
                return [Failure(f"election-does-not-terminate:{trigger}", f"parked {net.parked}, ticks {net.ticks}; history {hist}")]
            if lazy:
                # … at a random moment of that 100 ms pause
                r0 = net.round; extra = rng.below(50)
                settle(until=lambda nt: nt.round >= r0 + extra)
                hist.append(f"(the others notice {2 * extra} ms into the pause)")
            for j in others:
                if j != first: net.disconnect(p, j)
            live = others
            net.parked = [x for x in net.parked if x[0] != p]
        elif trigger == "primary-dies-twice":
            # two successive failures: the primary stops, the others elect; then the new primary stops too
            for round_ in range(2):
                r = roles(net, live)
                ps = [i for i in live if r[i][0] == "Primary"]
                if len(ps) != 1: return verdict(net, live, pids, f"primary-dies-{round_}", hist)
                p = ps[0]
                hist.append(f"primary n{p} dies")
                net.kill(p)
                for j in live:
                    if j != p: net.disconnect(p, j)
                live = [i for i in live if i != p]
                if not settle():
                    return [Failure(f"election-does-not-terminate:{trigger}", f"parked {net.parked}, ticks {net.ticks}; history {hist}")]
        elif trigger == "rejoin-older":
            # a node leaves and joins again (it keeps its start time only if it did not restart; here it restarts: new, youngest id)
            hist.append(f"n{targ} leaves and a new n{targ} joins")
            for j in live:
                if j != targ: net.disconnect(targ, j)
            if not settle(): return [Failure("election-does-not-terminate:leave", f"parked {net.parked}; history {hist}")]
            pids[targ - 1] = max(pids) + 100
            net.reset(targ, "startingup", f"n{targ}", pids[targ - 1], "pump,sup,co")
            r = roles(net, [i for i in live if i != targ])
            via = next(i for i in live if i != targ and r[i][0] == "Primary")
            net.join(targ, via)
        if not settle():
            return [Failure(f"election-does-not-terminate:{trigger}", f"parked {net.parked}, pending {net.pending()[:4]}, ticks {net.ticks}; history {hist}")]
        if any("PANIC" in l for o in net.out for l in o): return [Failure(f"panic:{trigger}", next(l for o in net.out for l in o if "PANIC" in l)[:200] + f"; history {hist}")]
        return verdict(net, live, pids, trigger, hist)
    return fn

def scenarios(tier):
    S = []
    for k in (2, 3):
        perms = list(itertools.permutations([100 * i for i in range(1, k + 1)]))
        if tier == "quick": perms = perms[:3]
        for pids in perms:
            pids = list(pids)
            S.append((f"k{k}-form-{pids}", scenario(k, pids, "none", None)))
            for t in range(1, k + 1): S.append((f"k{k}-force-n{t}-{pids}", scenario(k, pids, "force", t)))
            S.append((f"k{k}-primary-dies-{pids}", scenario(k, pids, "primary-dies", None)))
            if k == 3:
                S.append((f"k{k}-force-two-{pids}", scenario(k, pids, "force-two", (2, 3))))
                S.append((f"k{k}-force-two-12-{pids}", scenario(k, pids, "force-two", (1, 2))))
                S.append((f"k{k}-rejoin-{pids}", scenario(k, pids, "rejoin-older", 3)))
                S.append((f"k{k}-primary-dies-twice-{pids}", scenario(k, pids, "primary-dies-twice", None)))
                for t in (0, 1): S.append((f"k{k}-primary-dies-staggered{t}-{pids}", scenario(k, pids, "primary-dies-staggered", t)))
                for ab in ((2, 3), (3, 2), (1, 2), (2, 1), (3, 1), (1, 3)): S.append((f"k{k}-force-staggered-{ab}-{pids}", scenario(k, pids, "force-staggered", ab)))
            else:
                for ab in ((1, 2), (2, 1)): S.append((f"k{k}-force-staggered-{ab}-{pids}", scenario(k, pids, "force-staggered", ab)))
    # the same triggers with message delays above zero (below the timeout): the acknowledgement path of start_election
    # (acks observed by the wait loop, the 100 ms pause, the eligibility check after it) is only reachable this way
    L = []
    for k in (2, 3):
        perms = list(itertools.permutations([100 * i for i in range(1, k + 1)]))
        if tier == "quick": perms = perms[:2]
        for pids in perms:
            pids = list(pids)
            for t in range(1, k + 1): L.append((f"lazy-k{k}-force-n{t}-{pids}", scenario(k, pids, "force", t, lazy=True)))
            L.append((f"lazy-k{k}-primary-dies-{pids}", scenario(k, pids, "primary-dies", None, lazy=True)))
            if k == 3:
                L.append((f"lazy-k{k}-force-two-{pids}", scenario(k, pids, "force-two", (2, 3), lazy=True)))
                for t in (0, 1): L.append((f"lazy-k{k}-primary-dies-staggered{t}-{pids}", scenario(k, pids, "primary-dies-staggered", t, lazy=True)))
                L.append((f"lazy-k{k}-force-staggered-{pids}", scenario(k, pids, "force-staggered", (3, 2), lazy=True)))
    reps = 2 if tier == "quick" else 12
    for r in range(reps):
        for (n_, f_) in L: S.append((f"{n_}#{r}", f_))
    return S

RULE = ("clusters of 2 and 3 real nodes with distinct start times in every join order (permutations of the ages), formed through the real join path with elections running as coroutines: a command that reaches start_election runs on its own thread and parks at a yield point in each of the "
        "two wait loops and before the final pause; the network delivers every deliverable message (seeded-random FIFO order) before any parked election takes one 2 ms turn — messages are faster than the election timeout (NUN_ELECTION_TIMEOUT = 10 ms = 5 turns), so a timeout fires only when the awaited acknowledgement can never arrive. "
        "Triggers: initial start-up, joins, debug force-election on each node, two forced elections at once, the primary dying (all its connections end), the next primary dying as well, a node leaving and a fresh one joining, and STAGGERED triggers: a second forced election, or the second survivor noticing the primary's death, exactly when the first election has its acknowledgements and pauses before claiming. At quiescence: exactly one primary, it is the oldest live node, every other node is secondary, every cluster-state names that primary. "
        "An `election candidate` (or any command that can hold an election) that arrives over a peer connection as `rp <id> …` runs on its own thread as well, and — as in the real server, where the connection's handler thread is inside start_election — the following lines of THAT connection wait behind it. "
        "LAZY schedules (second half of the scenarios): time advances in rounds of 2 ms; in each round every deliverable message is delivered or held back at random, never longer than 3 rounds (6 ms < the 10 ms timeout), then every waiting election takes exactly one turn; an election in its 100 ms pause resumes 50 rounds after it got there; "
        "which of a node's two loops (replication / supervisor) gets to its queue first is drawn per operation. Only under these schedules do acknowledgements arrive BETWEEN two turns of the wait loop, so only here is the acknowledgement path of start_election (acks observed, pause, eligibility check) reached at all: with zero delays a fully acknowledged candidacy is removed from the pending table before the first look at it, and the election ends through its registration timeout. "
        "A node that stops (kill) receives nothing more and its parked commands never resume; the survivors notice at their own times. When model and implementation differ and no scenario fails, the differing scenarios are re-run under 80 further delivery orders each. "
        "The Lean model (Node.electionBegin / electionResume) runs every primitive operation in lockstep. distinct by trace hash")

def main(tier, seed):
    return netrunner.run(PID, LEAN_MODULE, THEOREMS, scenarios(tier), RULE, tier, seed,
                         assumptions=["message delays stay below the election timeout: eager scenarios take a wait-loop turn only when nothing can be delivered; lazy scenarios hold a message for at most 3 rounds = 6 ms (timeout 10 ms)", "links are FIFO and lossless",
                                      "one global clock: in a lazy round every waiting election takes exactly one 2 ms turn (threads of one machine do not drift against each other)"])
