"""C07 — elections end with exactly one primary, the oldest node, and all agree."""
import re, itertools
from vlib import core, cluster, netrunner
from vlib.runner import Failure

PID = "C07"
LEAN_MODULE = "NunVerif.Props.C07"
THEOREMS = ["Nun.C07_election_terminates", "Nun.resume_decreases", "Nun.C07_lone_member_wins_at_once", "Nun.C07_older_candidate_wins_the_comparison"]

def roles(net, live):
    for i in live: net.op(i, "DUMP")
    d = netrunner.dumps_of(net)
    out = {}
    for i in live:
        role = next((l.split(" ")[2] for l in d[i] if l.startswith("D role ")), "?")
        prim = sorted(core.unesc(l.split(" ")[2]).decode() for l in d[i] if l.startswith("D member ") and l.split(" ")[3] == "Primary")
        members = sorted(core.unesc(l.split(" ")[2]).decode() for l in d[i] if l.startswith("D member "))
        out[i] = (role, prim, members)
    return out

def verdict(net, live, pids, what, hist):
    """exactly one primary, the oldest live node; everybody else secondary; everybody names the same primary"""
    fails = []
    r = roles(net, live)
    oldest = min(live, key=lambda i: pids[i - 1])
    prims = [i for i in live if r[i][0] == "Primary"]
    ctx = f"after {what}; live nodes {[(f'n{i}', pids[i-1]) for i in live]}; roles {[(f'n{i}', r[i][0], r[i][1]) for i in live]}; history {hist}"
    if len(prims) == 0: fails.append(Failure(f"no-primary:{what}", ctx))
    elif len(prims) > 1: fails.append(Failure(f"two-primaries:{what}", ctx))
    elif prims[0] != oldest: fails.append(Failure(f"primary-is-not-the-oldest:{what}", ctx))
    if len(prims) == 1:
        if any(r[i][0] != "Secoundary" for i in live if i != prims[0]): fails.append(Failure(f"node-neither-primary-nor-secondary:{what}", ctx))
        want = [f"n{prims[0]}"]
        if any(r[i][1] != want for i in live): fails.append(Failure(f"cluster-state-names-another-primary:{what}", ctx))
    return fails

def scenario(k, pids, trigger, targ):
    def fn(net, rng, pids=pids):
        pids = list(pids)
        hist = [f"form {k} nodes pids {pids}"]
        ok = cluster.form_cluster(net, k, rng, co=True, pids=pids)
        if any("PANIC" in l for o in net.out for l in o): return [Failure("panic:formation", next(l for o in net.out for l in o if "PANIC" in l)[:200])]
        if not ok: return [Failure("election-does-not-terminate:formation", f"{k} nodes pids {pids}: parked {net.parked}, pending {net.pending()[:4]}, ticks {net.ticks}")]
        live = list(range(1, k + 1))
        fails = verdict(net, live, pids, "formation", hist)
        if fails or trigger == "none": return fails
        for i in live: net.op(i, "SESS 1"); net.op(i, "C 1 auth adm pw")
        if trigger == "force":
            hist.append(f"debug force-election on n{targ}")
            net.cmd(targ, 1, "debug force-election")
        elif trigger == "force-two":
            a, b = targ
            hist.append(f"debug force-election on n{a} and n{b} at once")
            net.cmd(a, 1, "debug force-election"); net.cmd(b, 1, "debug force-election")
        elif trigger == "primary-dies":
            # the node that is primary now stops: every connection from and to it dies
            r = roles(net, live)
            p = next(i for i in live if r[i][0] == "Primary")
            hist.append(f"primary n{p} dies")
            for j in live:
                if j != p: net.disconnect(p, j)
            live = [i for i in live if i != p]
            # nothing of the dead node is delivered or resumed any more
            net.parked = [x for x in net.parked if x[0] != p]
        elif trigger == "primary-dies-twice":
            # two successive failures: the primary stops, the others elect; then the new primary stops too
            for round_ in range(2):
                r = roles(net, live)
                ps = [i for i in live if r[i][0] == "Primary"]
                if len(ps) != 1: return verdict(net, live, pids, f"primary-dies-{round_}", hist)
                p = ps[0]
                hist.append(f"primary n{p} dies")
                for j in live:
                    if j != p: net.disconnect(p, j)
                live = [i for i in live if i != p]
                net.parked = [x for x in net.parked if x[0] != p]
                if not net.settle(rng):
                    return [Failure(f"election-does-not-terminate:{trigger}", f"parked {net.parked}, ticks {net.ticks}; history {hist}")]
        elif trigger == "rejoin-older":
            # a node leaves and joins again (it keeps its start time only if it did not restart; here it restarts: new, youngest id)
            hist.append(f"n{targ} leaves and a new n{targ} joins")
            for j in live:
                if j != targ: net.disconnect(targ, j)
            if not net.settle(rng): return [Failure("election-does-not-terminate:leave", f"parked {net.parked}; history {hist}")]
            pids[targ - 1] = max(pids) + 100
            net.reset(targ, "startingup", f"n{targ}", pids[targ - 1], "pump,sup,co")
            r = roles(net, [i for i in live if i != targ])
            via = next(i for i in live if i != targ and r[i][0] == "Primary")
            net.join(targ, via)
        if not net.settle(rng):
            return [Failure(f"election-does-not-terminate:{trigger}", f"parked {net.parked}, pending {net.pending()[:4]}, ticks {net.ticks}; history {hist}")]
        if any("PANIC" in l for o in net.out for l in o): return [Failure(f"panic:{trigger}", next(l for o in net.out for l in o if "PANIC" in l)[:200] + f"; history {hist}")]
        return verdict(net, live, pids, trigger, hist)
    return fn

def scenarios(tier):
    S = []
    for k in (2, 3):
        perms = list(itertools.permutations([100 * i for i in range(1, k + 1)]))
        if tier == "quick": perms = perms[:3]
        for pids in perms:
            pids = list(pids)
            S.append((f"k{k}-form-{pids}", scenario(k, pids, "none", None)))
            for t in range(1, k + 1): S.append((f"k{k}-force-n{t}-{pids}", scenario(k, pids, "force", t)))
            S.append((f"k{k}-primary-dies-{pids}", scenario(k, pids, "primary-dies", None)))
            if k == 3:
                S.append((f"k{k}-force-two-{pids}", scenario(k, pids, "force-two", (2, 3))))
                S.append((f"k{k}-force-two-12-{pids}", scenario(k, pids, "force-two", (1, 2))))
                S.append((f"k{k}-rejoin-{pids}", scenario(k, pids, "rejoin-older", 3)))
                S.append((f"k{k}-primary-dies-twice-{pids}", scenario(k, pids, "primary-dies-twice", None)))
    return S

RULE = ("clusters of 2 and 3 real nodes with distinct start times in every join order (permutations of the ages), formed through the real join path with elections running as coroutines: a command that reaches start_election runs on its own thread and parks at a yield point in each of the "
        "two wait loops and before the final pause; the network delivers every deliverable message (seeded-random FIFO order) before any parked election takes one 2 ms turn — messages are faster than the election timeout (NUN_ELECTION_TIMEOUT = 10 ms = 5 turns), so a timeout fires only when the awaited acknowledgement can never arrive. "
        "Triggers: initial start-up, joins, debug force-election on each node, two forced elections at once, the primary dying (all its connections end), the next primary dying as well, a node leaving and a fresh one joining. At quiescence: exactly one primary, it is the oldest live node, every other node is secondary, every cluster-state names that primary. "
        "The Lean model (Node.electionBegin / electionResume) runs every primitive operation in lockstep. distinct by trace hash")

def main(tier, seed):
    return netrunner.run(PID, LEAN_MODULE, THEOREMS, scenarios(tier), RULE, tier, seed,
                         assumptions=["message delays stay below the election timeout (a wait-loop turn is taken only when nothing can be delivered)", "links are FIFO and lossless"])
