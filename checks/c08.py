"""C08 — secure ($$) keys are invisible and immutable to non-administrators (two-run noninterference)."""
import re, itertools
from vlib import core
from vlib.runner import Spec, Failure
from checks import cmdgen

KEYS = ["$$token", "$$user_x", "$$permission_$x", "$$secret", "$secret", "secret"]
PATTERNS = ["*", "$$*", "*$$", "$$", "secret"]

def setup(variant, strategy=""):
    """two servers that differ only in the contents of $$ keys (other than the probing session's own credentials)"""
    s = ["RESET", "SESS 1", "C 1 auth adm pw", f"C 1 create-db t tok{(' ' + strategy) if strategy else ''}", "C 1 use-db t tok",
         "C 1 create-user u upw", "C 1 set-permissions u rwix *", "C 1 set $secret same", "C 1 set secret same"]
    if variant == "A":
        s += ["C 1 set $$secret alpha", "C 1 create-user x xpwA", "C 1 set-permissions x r a*"]
    else:
        s += ["C 1 set $$secret beta-longer", "C 1 set $$other zzz", "C 1 create-user x xpwB", "C 1 set-permissions x rwix *|r q"]
    return s

# {s} = the run's own secret value (alpha / beta-longer): rewriting it first makes the following versioned write stale
ADMIN_OPS = [["set $$secret {s}", "set-safe $$secret 0 newsecret"], ["set-safe $$secret 0 newsecret"], ["set-safe $$secret 9 newsecret"], ["set $$secret changed"], ["remove $$secret"],
             ["set $$secret {s}", "set $$secret {s}", "set-safe $$secret 1 {s}2"], ["set-safe $$other 0 o2"]]
SESSIONS = {"dbtoken": ["SESS 2", "C 2 use-db t tok"], "usertoken": ["SESS 2", "C 2 use-db t u upw"]}

def probes():
    out = []
    for w in cmdgen.WORDS:
        for v in cmdgen.VARIANTS[w]:
            if "{k}" in v:
                for k in KEYS: out.append(v.replace("{k}", k))
            else: out.append(v)
    # a $$ name with something around it that a later canonicalisation (trim, case folding, a cut at a separator) could remove: the guard
    # and the data access must agree on what the key IS
    deco = ["\\x09{}", "\\x0d{}", "\\x0b{}", "\\x0c{}", "\\xc2\\xa0{}", "\\xe2\\x80\\x83{}", "\\xc2\\x85{}", "{}\\x09", "{}\\x0d", "{}\\xc2\\xa0", "\\x09{}\\x0d",
            "{};", "{};x", "{},x", "x,{}", "{}|x", "\\x00{}", "{}\\x00"]
    for w in ("get", "get-safe", "set", "set-safe", "remove", "increment", "watch", "unwatch", "keys"):
        for v in cmdgen.VARIANTS[w]:
            if "{k}" not in v: continue
            for d in deco:
                for k in ("$$secret", "$$token"): out.append(v.replace("{k}", d.format(k)))
    for k in ("$$SECRET", "$$Secret", "$$TOKEN"): out += [f"get {k}", f"get-safe {k}", f"watch {k}"]
    for p in PATTERNS: out += [f"keys {p}", f"ls {p}"]
    out += ["use-db t x guess", "resolve 5 t $$secret 1 hack", "resolve 5 t $$token 1 hack", "rp 3 get $$secret", "rp 3 rp 4 keys $$*"]
    return [p for p in out if not p.startswith("auth adm pw")]

class C08(Spec):
    pid = "C08"
    lean_module = "NunVerif.Props.C08Confidential"
    theorems = ["Nun.C08_secure_refused_uniform", "Nun.C08_keys_hides_secure", "Nun.C08_token_irremovable_db", "Nun.C08_token_irremovable",
                "Nun.C08_token_irremovable_replicated", "Nun.C08_conflict_keys_not_secure", "Nun.C08_no_notice_for_secure_keys",
                "Nun.C08_request_keeps_secure_entries", "Nun.C08_line_keeps_secure_entries", "Nun.C08_history_keeps_secure_entries",
                "Nun.C08_only_administrators_change_secure_entries", "Nun.exec_namesOk",
                "Nun.C08_request_confidential", "Nun.C08_line_confidential", "Nun.C08_history_confidential", "Nun.sort_eq_of_same_members", "Nun.registerArbiter_lowEq"]
    rule = ("pairs of servers that differ only in $$ contents (value and existence of $$secret/$$other, another user's token and permission list); "
            "the same non-admin command sequence (length 1-3, every command word of the parser x key arguments {$$token, $$user_x, $$permission_$x, $$secret, $secret, secret}, the $$ names decorated with 18 prefixes / suffixes a canonicalisation could remove (tab, CR, VT, FF, NBSP, EM SPACE, NEL, NUL, `;`, `,`, `|`) and in other letter case, and patterns {*, $$*, *$$}) "
            "from a database-token and a user-token session runs on both, also with an administrator's own (stale-versioned, plain, removing) write to a $$ key in the middle of the session on databases of every strategy, before and after the session registers as arbiter / watches / lists keys; the probing session's replies and channel lines must be byte-identical and every $$ entry unchanged. "
            "non-trivial = at least one probe refused and one answered; distinct by trace hash")

    def corpus(self):
        return [("resolve-overwrites-token", setup("A") + SESSIONS["usertoken"] + ["C 2 resolve 5 t $$token 1 hack", "C 1 get $$token"] +
                 setup("B") + SESSIONS["usertoken"] + ["C 2 resolve 5 t $$token 1 hack", "C 1 get $$token"]),
                ("arbiter-notice-leak", self.arbiter_case())]

    def arbiter_case(self):
        c = []
        for v in ("A", "B"):
            c += setup(v, "arbiter") + SESSIONS["dbtoken"] + ["C 1 set $$secret " + ("alpha" if v == "A" else "beta-longer"), "C 2 arbiter",
                                                               "C 1 set-safe $$secret 0 newsecret", "C 2 keys"]
        return c

    def generate(self, tier, seed):
        ps = probes(); cases = []
        rng = core.XorShift(seed)
        def pair(sess, seq, strategy=""):
            c = []
            for v in ("A", "B"): c += setup(v, strategy) + SESSIONS[sess] + [f"C 2 {p}" for p in seq] + ["C 1 keys $$*"]
            return c
        for sess in SESSIONS:
            for p in ps: cases.append(pair(sess, [p]))
        # an administrator's own write to a $$ key happens WHILE the non-admin session is connected: whatever that write leaves
        # behind (conflict registry entries, notices, watcher pushes) must not carry the $$ contents to the session, neither at once
        # nor when it (re-)registers as arbiter, lists keys or reads afterwards
        for sess in SESSIONS:
            for strategy in ("", "newer", "arbiter"):
                for adm in ADMIN_OPS:
                    for pre in ([], ["arbiter"], ["watch $$secret"], ["arbiter", "watch $secret"]):
                        for post in (["arbiter"], ["keys", "arbiter", "keys $conflicts*"], ["unwatch-all", "arbiter", "get $$secret"]):
                            c = []
                            for v in ("A", "B"):
                                c += setup(v, strategy) + SESSIONS[sess] + [f"C 2 {p}" for p in pre] + [f"C 1 {a.replace('{s}', 'alpha' if v == 'A' else 'beta-longer')}" for a in adm] + [f"C 2 {p}" for p in post] + ["C 1 keys $$*"]
                            cases.append(c)
        # a USER-token session has no claim on the DEFAULT user's permission list ($$permission_$all is neither its token nor its own list): two
        # servers that also differ in that list must answer the user alike — whatever further logins (refused ones too) the session attempts
        logins = [[], ["use-db t wrongtok"], ["use-db t u wrongpw"], ["use-db nodb tok"], ["use-db t x guess"], ["use-db t wrongtok", "use-db t u upw"]]
        acts = ["set secret 1", "get secret", "increment n", "remove secret", "keys", "set a1 v", "get a1", "watch secret"]
        for lg in logins:
            for a1 in acts:
                for a2 in acts[:4]:
                    c = []
                    for v in ("A", "B"):
                        c += setup(v) + ["C 1 set-permissions all " + ("r a*" if v == "A" else "rwix *")] + SESSIONS["usertoken"] + [f"C 2 {x}" for x in lg + [a1, a2]] + ["C 1 keys $$*"]
                    cases.append(c)
        n2 = 1500 if tier == "quick" else 30000
        for _ in range(n2):
            sess = rng.choice(list(SESSIONS)); k = 2 + rng.below(2 if tier == "quick" else 5)
            cases.append(pair(sess, [rng.choice(ps) for _ in range(k)], rng.choice(["", "", "newer", "arbiter"])))
        return cases

    def nontrivial(self, case, impl):
        t = [l for l in impl if l.startswith("R ")]
        return any(l.startswith("R error") for l in t) and any(not l.startswith("R error") for l in t)

    def oracle(self, case, impl):
        fails = []
        steps = core.parse_steps(impl)
        runs = []; cur = None
        for st in steps:
            if st[0].startswith("RESET"): cur = []; runs.append(cur)
            if cur is not None: cur.append(st)
        if len(runs) != 2: return fails
        def view(run):
            out = []
            for (inp, rest, dump) in run:
                mask = lambda x: re.sub(r"#\d{4}", "#", x)
                if inp.startswith("C 2 "):
                    out.append((inp, [mask(x) for x in rest if x.startswith("R ") or x.startswith("M 2 ")]))
                else:
                    ms = [mask(x) for x in rest if x.startswith("M 2 ")]
                    if ms: out.append((inp + " (pushed to the probing session)", ms))
            return out
        va, vb = view(runs[0]), view(runs[1])
        for (ia, ra), (ib, rb) in zip(va, vb):
            if any(x.startswith("R PANIC") for x in ra + rb): fails.append(Failure("panic", f"{ia}: {ra} {rb}")); break
            if ra != rb:
                cls = "secure-value-leaked-via-arbiter-notice" if any("resolve " in x for x in ra + rb) else "replies-depend-on-secure-keys"
                fails.append(Failure(cls, f"{ia}: run A {ra[:2]} vs run B {rb[:2]}")); break
        # integrity: $$ entries unchanged by the probing session's commands
        for run in runs:
            for i, (inp, rest, dump) in enumerate(run):
                if inp.startswith("C 2 ") and i > 0:
                    before = sorted(d.split(" op=")[0] + " v=" + d.split(" v=", 1)[1] for d in run[i - 1][2] if re.match(r"D k \S+ \$\$", d))
                    after = sorted(d.split(" op=")[0] + " v=" + d.split(" v=", 1)[1] for d in dump if re.match(r"D k \S+ \$\$", d))
                    if before != after:
                        fails.append(Failure("secure-key-changed-by-non-admin", f"{inp}: {[x for x in after if x not in before][:1]}")); break
            if fails: break
        # $$token cannot be removed by anyone
        for run in runs:
            for (inp, rest, dump) in run:
                if dump and not any(re.match(r"D k t \$\$token ", d) for d in dump) and any(d.startswith("D db t ") for d in dump):
                    fails.append(Failure("token-removed", inp)); break
        return fails

SPEC = C08()
