"""C01 — reads return the latest successful write (single-node key-value semantics)."""
import re
from vlib import core
from vlib.runner import Spec, Failure
from checks import kvgen

I32_MIN, I32_MAX = -2**31, 2**31 - 1

def parse_i32(s):
    if not re.fullmatch(r"[+-]?[0-9]+", s): return None
    v = int(s)
    return v if I32_MIN <= v <= I32_MAX else None

def pattern_match(p, k):
    if p.endswith("*"): return k.startswith(p.replace("*", ""))
    if p.startswith("*"): return k.endswith(p.replace("*", ""))
    return p in k

class RefMap:
    """the 'plain map' of the property statement, for database t"""
    def __init__(self):
        self.m = {"$$token": "tok"}; self.conns = 0; self.admin = {}; self.bound = {}
    def step(self, sid, cmd, reply_is_error):
        """returns expected (kind, payload) or None when this oracle has no opinion"""
        p = cmd.split(" ", 2); w = p[0]
        a0 = p[1] if len(p) > 1 else None; a1 = p[2] if len(p) > 2 else None
        if w == "auth": self.admin[sid] = self.admin.get(sid, False) or (a0 == "adm" and a1 == "pw"); return None
        if w in ("use-db", "use") and not reply_is_error and a0 == "t":
            self.conns += 1; self.m["$connections"] = str(self.conns); self.bound[sid] = True; return None
        if not self.bound.get(sid): return None
        adm = self.admin.get(sid, False)
        key = a0 or ""
        if w in ("get", "get-safe", "set", "set-safe", "remove", "increment") and key.startswith("$$") and not adm:
            return ("error", None)
        if w == "get" or w == "get-safe":
            if a0 is None: return None
            return ("value", self.m.get(key, "<Empty>"))
        if w == "set":
            if reply_is_error: return ("unexpected-error", None)
            self.m[key] = (a1 or "").replace("\n", ""); return ("ok", None)
        if w == "set-safe":
            if a1 is None or " " not in a1: return ("error", None)
            if not reply_is_error: self.m[key] = a1.split(" ", 1)[1]
            return None   # acceptance rule is C02's business
        if w == "remove":
            if key == "$$token": return ("error", None)
            self.m.pop(key, None); return ("ok", None)
        if w == "increment":
            inc = parse_i32(a1) if a1 is not None else 1
            if inc is None: inc = 1
            cur = parse_i32(self.m.get(key, "0"))
            if cur is None or not (I32_MIN <= cur + inc <= I32_MAX): return ("error", None)
            self.m[key] = str(cur + inc); return ("ok", None)
        if w in ("keys", "ls"):
            pat = a0 or ""
            ks = sorted((k for k in self.m if pattern_match(pat, k) and (adm or not k.startswith("$$"))), key=lambda s: s.encode())
            return ("value", "".join("," + k for k in ks))
        return None

class C01(Spec):
    pid = "C01"
    lean_module = "NunVerif.Props.C01"
    theorems = ["Nun.C01_refines_map", "Nun.C01_keys_exact", "Nun.C01_refused_write_changes_nothing",
                "Nun.C01_refused_increment_changes_nothing", "Nun.C01_pin_tombstone_is_empty", "Nun.C01_wf_new"]
    rule = ("every value-carrying command form (set, set-safe at versions 0 / 5 / -1, from either session) x 11 value shapes (several words, leading / trailing / double blanks, digits first, multi-byte, `;` inside, empty) read back by get / get-safe from both sessions; every sequence of length 5 (6) over {set, remove, increment, incremental snapshot, reclaiming snapshot} on one key followed by get / get-safe / keys / increment probes; exhaustive sequences of length L over {set, set-safe, get, get-safe, remove, increment, keys, snapshot+SNAP} x 2 keys x values {'', '7', 'a b'} "
            "x patterns {a*, *b, a, *, ''} on an admin session of a strategy-none database, plus seeded random sequences mixing an admin and a token session; "
            "every reply, channel line, state dump and file byte is compared with the Lean model after every step; non-trivial = at least one mutation accepted and one read or refusal; distinct by trace hash")
    assumptions = ["single session at a time (concurrency is C02/C03)", "transport framing is C20"]

    def corpus(self):
        pre = kvgen.setup()
        return [("inc-tombstone", pre + ["C 1 set k 1", "C 1 snapshot false", "SNAP", "C 1 remove k", "C 1 increment k 5", "C 1 get k"]),
                ("inc-overflow", pre + ["C 1 set k 2147483647", "C 1 increment k 1", "C 1 get k", "C 2 get k"])]

    def generate(self, tier, seed):
        pre = kvgen.setup()
        al = kvgen.kv_alphabet()
        cases = list(kvgen.product_cases(pre, al, 2))
        al1 = kvgen.kv_alphabet(keys=("a",), values=("", "7"), versions=(0, 2), incs=(None, -2), patterns=("a*", "*"))
        cases += list(kvgen.product_cases(pre, al1, 3 if tier == "quick" else 4))
        if tier != "quick": cases += list(kvgen.product_cases(pre, al, 3))
        # one key through every storage state: all sequences of length 5 (6) over {set, remove, increment, incremental snapshot,
        # reclaiming snapshot}, then every kind of read — whatever the snapshots did to the entry's status must not show
        one = [["C 1 set a 7"], ["C 1 remove a"], ["C 1 increment a"], ["C 1 snapshot false", "SNAP"], ["C 1 snapshot true", "SNAP"]]
        probes = ["C 1 get a", "C 1 get-safe a", "C 1 keys", "C 1 keys a*", "C 1 increment a 5", "C 1 get a", "C 1 keys"]
        import itertools
        for seq in itertools.product(one, repeat=5 if tier == "quick" else 6):
            if not any(x[0].startswith("C 1 snapshot") for x in seq): continue
            c = list(pre)
            for x in seq: c += x
            cases.append(c + probes)
        # every command form that carries a value x every shape of value: what is read back is what was written, byte for byte
        shapes = ["two words", "three w o r d s", " lead", "trail ", "a  b", "7 8", "-1 x", "h\\xc3\\xa9 x y", "x;y z", "0", ""]
        forms = ["C 1 set a {v}", "C 1 set-safe a 0 {v}", "C 1 set-safe a 5 {v}", "C 1 set-safe a -1 {v}", "C 2 set-safe a 0 {v}"]
        for f in forms:
            for v in shapes:
                w = f.format(v=v) if v != "" else f.format(v="").rstrip()
                cases.append(pre + [w, "C 1 get a", "C 2 get-safe a", "C 1 keys"])
                cases.append(pre + ["C 1 set a old", w, "C 2 get a", w.replace(" 0 ", " 1 "), "C 1 get-safe a"])
        rng = core.XorShift(seed)
        al2 = kvgen.kv_alphabet(keys=("a", "b", "$$s"), values=("", "7", "a b", "-3", "2147483647", "h\\xc3\\xa9"), sess=(1, 2),
                                incs=(None, 5, -2, 2147483647), patterns=("a*", "*b", "a", "*", "", "$$*", "*$$"))
        cases += list(kvgen.random_cases(pre, al2, rng, 2500 if tier == "quick" else 40000, 3, 12))
        return cases

    def nontrivial(self, case, impl):
        txt = "\n".join(impl)
        return ("R ok" in txt) and ("R value" in txt or "R error" in txt or "R verr" in txt)

    def oracle(self, case, impl):
        fails = []; ref = RefMap()
        for (inp, rest, dump) in core.parse_steps(impl):
            if not inp.startswith("C "): continue
            _, sid, cmd = inp.split(" ", 2)
            cmd = core.unesc(cmd).decode("utf-8", "replace")
            r = next((x for x in rest if x.startswith("R ")), "R ?")
            if r.startswith("R PANIC"):
                fails.append(Failure("panic", f"{inp}: {r}")); break
            is_err = r.startswith("R error") or r.startswith("R verr")
            exp = ref.step(int(sid), cmd, is_err)
            if exp is None: continue
            kind, payload = exp
            if kind == "error" and not is_err: fails.append(Failure("accepted-what-map-refuses", f"{inp}: {r}"))
            elif kind in ("ok", "value") and is_err: fails.append(Failure("refused-what-map-accepts", f"{inp}: {r}"))
            elif kind == "unexpected-error": fails.append(Failure("refused-what-map-accepts", f"{inp}: {r}"))
            elif kind == "value":
                m = re.match(r"R value (\S+) (-?\d+) ?(.*)", r)
                got = core.unesc(m.group(3)).decode("utf-8", "replace") if m else None
                if got != payload: fails.append(Failure("read-differs-from-map", f"{inp}: got {got!r}, map says {payload!r}"))
            if is_err and dump is not None:
                pass
            if fails: break
        # refused commands change nothing: the state dump right after an error reply must be 'D =' (checked on raw lines)
        cur = None
        for l in impl:
            if l.startswith("> "): cur = l; err = False
            elif l.startswith("R error") or l.startswith("R verr"): err = True
            elif l.startswith("D ") and cur and cur.startswith("> C ") and err:
                if l != "D =" and not fails:
                    # arbiter/none strategies: an error must leave the dump unchanged
                    fails.append(Failure("refused-command-changed-state", f"{cur[2:]}"))
                err = False
        return fails

SPEC = C01()
