"""C10 — no client input can crash a handler or wedge the node."""
import re, itertools, os
from vlib import core
from vlib.runner import Spec, Failure
from checks import cmdgen

TOKENS = ["", "x", "-1", "-2", "0", "7", "2147483647", "2147483648", "-2147483648", "-2147483649", "2147483646",
          "18446744073709551615", "18446744073709551616", "340282366920938463463374607431768211455",
          "340282366920938463463374607431768211456", "$$token", "$$x", ";", "a;b", "\\n", "h\\xc3\\xa9", "+5", "1e3", "*", "k*",
          "t", "ta", "tok", "true", "candidate", "win", "L" * 600]

SETUP = ["RESET", "SESS 1", "C 1 auth adm pw", "C 1 create-db t tok", "C 1 create-db ta tok arbiter", "C 1 use-db t tok", "C 1 set k 1",
         "SESS 3", "C 3 use-db ta tok", "C 3 arbiter", "C 3 set k 1", "SESS 2", "SESS 9", "C 9 use-db t tok"]
PROBE = ["C 9 set probe pv", "C 9 get probe"]

def lines_for(tier, rng):
    words = cmdgen.WORDS + ["bogus", ""]
    out = []
    for w in words:
        out.append(w)
        for a in TOKENS: out.append(f"{w} {a}")
    n2 = 4000 if tier == "quick" else 40000
    for _ in range(n2):
        w = rng.choice(words); k = 2 + rng.below(4)
        out.append(" ".join([w] + [rng.choice(TOKENS) for _ in range(k)]))
    # random printable / UTF-8 strings
    alphabet = [chr(c) for c in range(32, 127) if c != 92] + ["\\\\", "\\n", "\\xc3\\xa9", "\\xe2\\x82\\xac", "\\x01", "\\x7f"]
    for _ in range(800 if tier == "quick" else 8000):
        out.append("".join(rng.choice(alphabet) for _ in range(rng.below(30))))
    # long lines of multi-byte characters at every alignment: any code that cuts, pads or indexes a line at a byte offset
    # (log truncation, buffers, fixed-size reads) meets a character boundary problem only when a character straddles that offset
    for w in ("set k", "get", "bogus", "auth adm", "set-safe k 1", "watch", "keys", "use-db t"):
        for ch in ("\\xc3\\xa9", "\\xe2\\x82\\xac", "\\xf0\\x9f\\x98\\x80"):
            for off in range(4):
                for count in (20, 40, 70, 130, 300, 700, 2100, 9000):
                    out.append(f"{w} " + "a" * off + ch * count)
    # self-similar lines: a command whose argument is a command (the replication envelope `rp <id> <request>` is handled by calling the
    # request handler again) nested to depths a stack does not survive if the recursion follows the input
    for depth in (3, 50, 400, 3000, 30000):
        for pad in ("", "\\n", " ", ";"):
            out.append(("rp 1 " + pad) * depth + "get k")
        out.append("rp 1 " * depth + "set k v")
        out.append("rp 1 " * depth)
        out.append("election candidate 1 " * min(depth, 3000) + "x")
        out.append("resolve 1 t k 1 " * min(depth, 3000) + "v")
    return out

class C10(Spec):
    pid = "C10"
    lean_module = "NunVerif.Props.C10Commands"
    theorems = ["Nun.C10_command_vocabulary", "Nun.C10_every_command_word_of_the_source_is_modelled", "Nun.C10_aliases_share_a_parser", "Nun.C10_unlisted_word_is_unknown", "Nun.C10_panic_sites_justified", "Nun.C10_replicate_needs_selection"]
    rule = ("every command word (and unknown ones) x 0-1 arguments exhaustively and 2-5 arguments seeded from the quantifier's token alphabet "
            "(empty, non-numeric, i32/u64/u128 boundaries, $$ keys, ';', newline, 600-byte token, non-ASCII), plus random printable/UTF-8 strings, plus long lines (20-9000 characters) of 2-, 3- and 4-byte UTF-8 characters at every byte alignment (so that a character straddles every possible byte offset); "
            "the replication envelope nested 3 to 30000 deep (blank, newline and `;` padded); every command word with its arguments dropped one by one (no key, empty key, blanks only) and every snapshot / replicate-snapshot form over database lists (known, unknown, mixed, both orders) and the replicate-* commands with the node's replication loop pumped after each; "
            "each line runs on an unauthenticated, an admin and an arbiter-database session, followed by a probe set/get from another client; "
            "catch_unwind around process_request, lock-poison flags in the dump. non-trivial = line is not answered 'unknown command'; distinct by trace hash")

    def corpus(self):
        return [("election-candidate-unwrap", SETUP + ["C 2 election candidate x n1"] + PROBE),
                ("snapshot-without-db", ["RESET", "SESS 1", "C 1 auth adm pw", "C 1 create-db a tok", "C 1 snapshot false a", "SESS 9", "C 9 use-db a tok"] + PROBE),
                ("arbiter-empty-queue", SETUP + ["C 3 set q a", "C 3 set-safe q -2 x", "C 3 set q y", "C 3 get-safe q"] + PROBE),
                ("inc-overflow", SETUP + ["C 1 set n 2147483647", "C 1 increment n"] + PROBE)]

    def extra_obligations(self, build):
        """the fuzz alphabet of the checks names every command word of the source (Gen/Commands.lean, regenerated on this run)"""
        try:
            g = open(os.path.join(core.LEAN, "NunVerif", "Gen", "Commands.lean")).read()
            words = re.findall(r"^  -- (\S+) ->", g, re.M)
            missing = [w for w in words if w not in cmdgen.WORDS]; extra = [w for w in cmdgen.WORDS if w not in words]
            return [("fuzz alphabet = command table of the source", not missing and not extra and len(words) > 30, f"{len(words)} words; missing from the alphabet {missing}; not in the source {extra}")]
        except Exception as e:
            return [("fuzz alphabet = command table of the source", False, str(e))]

    def extra_stage(self, tier, seed):
        from vlib import transport
        garbage = ["\\xff\\xfe\\xfd", "get\\x20\\xc3", "\\x00\\x00\\x00", "\\x0d", "get a\\x0d", ";;;;;;;;", "set\\x20k\\x20" + "v" * 70000, "rp 1 " * 3000 + "get a", "rp\\x201\\x20\\x20" * 3000 + "get a",
                   "x" * 300 + "\\xc3\\xa9" * 200, "\\xe2\\x82", "increment a 99999999999999999999", "election candidate x", "replicate-since n1 x", "use-db", "set-safe a x y", "keys \\xf0\\x9f\\x98\\x80*"]
        if tier == "quick": garbage = garbage[:12]
        return transport.liveness_stage("C10", garbage)

    def generate(self, tier, seed):
        rng = core.XorShift(seed)
        ls = lines_for(tier, rng)
        cases = []
        per = 4
        for sess in (2, 1, 3):
            for i in range(0, len(ls), per):
                c = list(SETUP)
                for l in ls[i:i + per]: c += [f"C {sess} {l}"] + PROBE
                cases.append(c)
        # the node's own replication loop is a handler too: every command word with database-list arguments (known, unknown, mixed, in both
        # orders), the loop pumped after each — a command answered `ok` must not hand the loop something it cannot digest
        SETUP_P = ["RESET primary,pump"] + SETUP[1:]
        lists = ["t", "ghost", "t|ghost", "ghost|t", "ghost|t|ta", "t|ta", "|", "t|", "|t", "ghost|ghost2"]
        for w in ("snapshot false", "snapshot true", "replicate-snapshot", "replicate-snapshot true", "replicate-snapshot false"):
            for l in lists:
                for form in (f"{w} {l}", f"{w} {l} false", f"{w} {l} true"):
                    cases.append(SETUP_P + [f"C 1 {form}", "PUMP"] + PROBE + ["PUMP", "C 1 set after 1", "PUMP"] + PROBE)
        for w in ("replicate", "replicate-remove", "replicate-increment"):
            for dbn in ("t", "ghost", "ta"):
                for rest in ("k 1 v", "k", "k x", ""):
                    cases.append(SETUP_P + [f"C 1 {w} {dbn} {rest}".rstrip(), "PUMP"] + PROBE + ["PUMP"])
        # every command word with its arguments dropped one by one (no key, an empty key, only blanks, a number where the key should be): what
        # the client-side parser accepts, the loop must digest too — it parses the line the command printed for it once more
        from checks import cmdgen
        for w in cmdgen.WORDS:
            forms = [w, w + " ", w + "  ", w + "  5", w + " k", w + " k ", w + " k  ", w + "  k v", w + " 5", w + " ; ", w + " k ;x", w + " k v;;", w + " k;;;", w + " k 0 v;;"]   # (terminators at the end of the line: all of them go, at the first parse)
            for v in cmdgen.VARIANTS[w]:
                forms.append(v.replace("{k}", "k1")); forms.append(v.replace("{k}", ""))
            for form in dict.fromkeys(forms):
                cases.append(SETUP_P + [f"C 1 {form}", "PUMP"] + PROBE + ["PUMP", "C 1 set after 1", "PUMP"] + PROBE)
        # STORED records that later requests are evaluated against: degenerate permission lists (kinds without a key pattern, a pattern without
        # kinds, separators only, nothing), users without a list, written with the administrator's commands and raw into the `$$` keys —
        # then every kind of data command from a session that is judged by that record (the default user's, a named user's)
        lists = ["i", "rw", "r|w", "|", "r ", " k*", "rwix", "r k*|", "|r k*", "x", "r k*|w", "r ,", ",", "r *|i"]
        cmds = ["get k", "set k 1", "increment x", "remove k", "keys", "watch k", "set-safe k 0 z", "resolve 1 t k 1 v"]
        for pl in lists:
            for who in ("all", "u"):
                for raw in (False, True):
                    store = f"C 1 set $$permission_${who} {pl}" if raw else f"C 1 set-permissions {who} {pl}"
                    c = list(SETUP) + ["C 1 use-db t tok", "C 1 create-user u upw", store, "SESS 7", "C 7 use-db t tok" if who == "all" else "C 7 use-db t u upw"]
                    for cm in cmds: c += [f"C 7 {cm}"]
                    cases.append(c + ["C 3 set probe pv", "C 3 get probe"])     # (the probe uses the OTHER database: on this one the record may refuse every session judged as the default user — the administrator's too)
        # stateful numeric boundaries: a stored boundary value / version followed by a boundary delta
        nums = [t for t in TOKENS if re.fullmatch(r"[+-]?[0-9]+", t)]
        for b in nums:
            for d in nums:
                cases.append(SETUP + [f"C 1 set n {b}", f"C 1 increment n {d}"] + PROBE + [f"C 1 increment m {b}", f"C 1 increment m {d}"] + PROBE)
                cases.append(SETUP + [f"C 1 set-safe v {b} x", f"C 1 set-safe v {d} y", "C 1 increment v", "C 1 remove v", "C 1 set v z"] + PROBE)
        return cases

    def nontrivial(self, case, impl):
        return any(l.startswith("R ") and "unknown command" not in l and "probe" not in l for l in impl)

    def oracle(self, case, impl):
        fails = []; last_reply = "-"
        steps = core.parse_steps(impl)
        for (inp, rest, dump) in steps:
            for r in rest:
                if r.startswith("R PANIC"): fails.append(Failure("panic", f"{inp[:80]}: {r[:160]}"))
                if r.startswith("K PANIC"): fails.append(Failure("replication-loop-died", f"{inp[:80]}: {r[:160]} (the command before it was answered: {last_reply})"))
            if inp.startswith("C "): last_reply = next((x for x in rest if x.startswith("R ")), "R ?")[:60]
            if any(d.startswith("D poisoned") for d in dump): fails.append(Failure("lock-poisoned", f"after {inp[:80]}"))
            if inp in ("C 9 get probe", "C 3 get probe"):
                r = next((x for x in rest if x.startswith("R ")), "R ?")
                if not r.startswith("R value probe") or not r.endswith(" pv"):
                    fails.append(Failure("probe-failed", f"{r[:120]}"))
            if inp.startswith("C ") and not any(x.startswith("R ") for x in rest):
                fails.append(Failure("no-answer", inp[:80]))
            if fails: break
        if impl and impl[-1] == "<missing>": fails.append(Failure("process-died", "harness output truncated"))
        return fails

SPEC = C10()
