"""C14 — every operation causes a bounded message burst, then silence."""
import re
from vlib import core, cluster, netrunner
from vlib.runner import Failure
from checks.c04 import setup

PID = "C14"
LEAN_MODULE = "NunVerif.Props.C14BurstData"
THEOREMS = ["Nun.C14_secondary_never_fans_out", "Nun.C14_fanout_bounded", "Nun.C14_ack_is_silent", "Nun.replStep_sends",
            "Nun.C14_write_burst", "Nun.loop_copies_are_the_envelope", "Nun.secondary_envelope_is_quiet", "Nun.replStep_of_envelope", "Nun.primary_set_emits",
            "Nun.C14_remove_burst", "Nun.secondary_remove_envelope_is_quiet", "Nun.replStep_of_remove_envelope", "Nun.primary_remove_emits", "Nun.primary_remove_frame",
            "Nun.C14_increment_burst", "Nun.secondary_inc_envelope_is_quiet", "Nun.replStep_of_inc_envelope", "Nun.primary_inc_emits", "Nun.primary_inc_frame"]

# every client-visible command (arguments chosen so that most are accepted)
COMMANDS = ["set a 1", "set a two words", "set-safe a 0 x", "set-safe a 9 y", "get a", "get-safe a", "remove a", "remove zz", "increment n", "increment n 3", "increment a",
            "keys", "keys a*", "watch a", "unwatch a", "unwatch-all", "snapshot false", "snapshot true t", "create-user u1 pw", "set-permissions u1 rw a*", "create-db d2 tk2",
            "create-db t tok", "use-db t tok", "use-db t bad", "auth adm pw", "auth adm bad", "arbiter", "resolve 7 t a 1 z", "cluster-state", "metrics-state", "debug pending-ops",
            "debug list-dbs", "ls", "bogus", "set $$secret 1", "election active n9", "ack 5 n9", "replicate t a -1 rv", "replicate-remove t a", "replicate-increment t n 2",
            "replicate-snapshot t false"]

def scenario(k, cmds, order_seed):
    def fn(net, rng):
        fails = []
        if not setup(net, k, rng): return [Failure("cluster-does-not-form", f"{k} nodes")]
        worst = {}
        for node in range(1, k + 1):
            for cmd in cmds:
                t0 = len(net.trace)
                net.cmd(node, 1, cmd)
                n = net.quiesce(rng, 200)
                burst = net.trace[t0:]
                role = "primary" if node == 1 else "secondary"
                if n is None:
                    return [Failure(f"self-sustaining-exchange:{cmd.split(' ')[0]}@{role}", f"{cmd!r} on n{node} of {k}: still exchanging messages after 200 deliveries; last {burst[-6:]}")]
                fwd = [b for b in burst if b[0] == "fwd"]
                forwards = [b for b in fwd if b[1] != 1 and b[2] == 1]
                copies = [b for b in fwd if b[1] == 1]
                lateral = [b for b in fwd if b[1] != 1 and b[2] != 1]
                acks = [b for b in burst if b[0] == "back" and b[3].startswith("ack ")]
                replies = [b for b in burst if b[0] == "back" and not b[3].startswith("ack ")]
                worst[(cmd.split(" ")[0], role)] = (len(forwards), len(copies), len(acks), len(replies))
                where = f"{cmd!r} on n{node} ({role}) of {k}: forwards={len(forwards)} copies={len(copies)} acks={len(acks)} replies={len(replies)} lateral={len(lateral)}; burst {burst}"
                if lateral: fails.append(Failure(f"secondary-fans-out:{cmd.split(' ')[0]}@{role}", where))
                if len(forwards) > 1: fails.append(Failure(f"more-than-one-forward:{cmd.split(' ')[0]}@{role}", where))
                if node == 1 and forwards: fails.append(Failure(f"primary-forwards:{cmd.split(' ')[0]}", where))
                if len(copies) > (k - 1): fails.append(Failure(f"more-than-one-copy-per-secondary:{cmd.split(' ')[0]}@{role}", where))
                if len(acks) > len(copies): fails.append(Failure(f"more-acks-than-copies:{cmd.split(' ')[0]}@{role}", where))
                if len(replies) > len(copies) + len(forwards): fails.append(Failure(f"more-replies-than-messages:{cmd.split(' ')[0]}@{role}", where))
        net.worst = worst
        seen = set(); out = []
        for f in fails:
            if f.cls not in seen: seen.add(f.cls); out.append(f)
        return out
    return fn

def scenario_first_operations(k, variant):
    """the bound from the very FIRST operation after the cluster formed: nothing is run unmeasured between formation and the measured
    commands (a node's first operation after its role changed is where a decision taken on an out-of-date role would show)"""
    firsts = [[(1, "auth adm pw"), (1, "create-db t tok"), (1, "use-db t tok"), (1, "set a 1")],
              [(1, "auth adm pw"), (1, "create-user u1 pw"), (1, "create-db t tok"), (1, "use-db t tok"), (1, "increment n")],
              [(2, "auth adm pw"), (2, "create-db t tok"), (2, "use-db t tok"), (2, "set a 1")]][variant]
    def fn(net, rng):
        if not cluster.form_cluster(net, k, rng): return [Failure("cluster-does-not-form", f"{k} nodes")]
        for i in range(1, k + 1): net.op(i, "SESS 1")
        plan = list(firsts)
        for i in range(1, k + 1):
            if not any(n == i for n, _ in plan): plan += [(i, "auth adm pw"), (i, "use-db t tok"), (i, "set b 2"), (i, "remove b")]
        fails = []
        for node, cmd in plan:
            t0 = len(net.trace)
            net.cmd(node, 1, cmd)
            n = net.quiesce(rng, 200)
            burst = net.trace[t0:]
            role = "primary" if node == 1 else "secondary"
            verb = cmd.split(" ")[0]
            if n is None: return [Failure(f"self-sustaining-exchange:first-operations:{verb}@{role}", f"{cmd!r} on n{node} of {k}: still exchanging messages after 200 deliveries; last {burst[-6:]}")]
            fwd = [b for b in burst if b[0] == "fwd"]
            forwards = [b for b in fwd if b[1] != 1 and b[2] == 1]; copies = [b for b in fwd if b[1] == 1]; lateral = [b for b in fwd if b[1] != 1 and b[2] != 1]
            acks = [b for b in burst if b[0] == "back" and b[3].startswith("ack ")]
            per_sec = max([len([c for c in copies if c[2] == t]) for t in {c[2] for c in copies}] or [0])
            where = f"{cmd!r} on n{node} ({role}) of {k}, the plan so far {plan[:plan.index((node, cmd)) + 1]}: forwards={len(forwards)} copies={len(copies)} acks={len(acks)} lateral={len(lateral)}; burst {burst}"
            if lateral: fails.append(Failure(f"secondary-fans-out:first-operations:{verb}@{role}", where))
            if len(forwards) > (0 if node == 1 else 1): fails.append(Failure(f"more-than-one-forward:first-operations:{verb}@{role}", where))
            if per_sec > 1: fails.append(Failure(f"more-than-one-copy-per-secondary:first-operations:{verb}@{role}", where))
            if len(acks) > len(copies): fails.append(Failure(f"more-acks-than-copies:first-operations:{verb}@{role}", where))
        seen = set(); out = []
        for f in fails:
            if f.cls not in seen: seen.add(f.cls); out.append(f)
        return out
    return fn

def measure(net, rng, primary, nodes, cmds, dead, label):
    """every command on every node of `nodes`; the burst of each is split into forwards to the primary, copies from it, lateral messages and acks"""
    fails = []
    for node in nodes:
        for cmd in cmds:
            t0 = len(net.trace)
            net.cmd(node, 1, cmd)
            ok = net.settle(rng, budget=200)
            burst = [b for b in net.trace[t0:] if not ({b[1], b[2]} & set(dead))]
            role = "new-primary" if node == primary else "secondary"
            if not ok:
                return [Failure(f"self-sustaining-exchange-after-{label}:{cmd.split(' ')[0]}@{role}", f"{cmd!r} on n{node}: still exchanging messages after 200 deliveries; last {burst[-6:]}")]
            fwd = [b for b in burst if b[0] == "fwd"]
            forwards = [b for b in fwd if b[1] != primary and b[2] == primary]; copies = [b for b in fwd if b[1] == primary]; lateral = [b for b in fwd if b[1] != primary and b[2] != primary]
            acks = [b for b in burst if b[0] == "back" and b[3].startswith("ack ")]
            per_sec = max([len([c for c in copies if c[2] == t]) for t in {c[2] for c in copies}] or [0])
            where = f"{cmd!r} on n{node} ({role}) after the {label}: forwards={len(forwards)} copies={len(copies)} acks={len(acks)} lateral={len(lateral)}; burst {burst}"
            if lateral: fails.append(Failure(f"secondary-fans-out:{cmd.split(' ')[0]}@{role}", where))
            if len(forwards) > 1: fails.append(Failure(f"more-than-one-forward:{cmd.split(' ')[0]}@{role}", where))
            if per_sec > 1: fails.append(Failure(f"more-than-one-copy-per-secondary:{cmd.split(' ')[0]}@{'primary' if node == primary else 'secondary'}", where))
            if len(acks) > len(copies): fails.append(Failure(f"more-acks-than-copies:{cmd.split(' ')[0]}@{role}", where))
    seen = set(); out = []
    for f in fails:
        if f.cls not in seen: seen.add(f.cls); out.append(f)
    return out

def scenario_failover(cmds):
    """3 nodes, the primary dies, the next-oldest node is elected (real elections as coroutines), then every command on both survivors"""
    def fn(net, rng):
        if not cluster.form_cluster(net, 3, rng, co=True): return [Failure("cluster-does-not-form", "3 nodes, coroutine mode")]
        net.op(1, "SESS 1"); net.cmd(1, 1, "auth adm pw"); net.cmd(1, 1, "create-db t tok")
        if not net.settle(rng): return [Failure("no-quiescence", "setup")]
        for i in (2, 3): net.op(i, "SESS 1"); net.cmd(i, 1, "auth adm pw"); net.cmd(i, 1, "use-db t tok")
        if not net.settle(rng): return [Failure("no-quiescence", "setup")]
        net.kill(1)
        for j in (2, 3): net.disconnect(1, j)
        if not net.settle(rng): return [Failure("election-does-not-terminate:primary-dies", f"parked {net.parked}")]
        return measure(net, rng, 2, (2, 3), cmds, (1,), "failover")
    return fn

def scenario_primary_change(cmds):
    """3 live nodes; the primary role moves to a node every other node already knows (the oldest node, which joined a younger primary,
    is forced to elect and wins): nobody leaves, every member table must end up with ONE primary; then every command on every node"""
    def fn(net, rng):
        pids = [200, 100, 300]
        if not cluster.form_cluster(net, 3, rng, co=True, pids=pids): return [Failure("cluster-does-not-form", "3 nodes, coroutine mode")]
        for i in (1, 2, 3): net.op(i, "SESS 1"); net.cmd(i, 1, "auth adm pw")
        if not net.settle(rng): return [Failure("no-quiescence", "setup")]
        from checks.c07 import roles
        r = roles(net, [1, 2, 3])
        old = next((i for i in (1, 2, 3) if r[i][0] == "Primary"), None)
        if old is None: return [Failure("cluster-does-not-form", f"no primary after formation: {r}")]
        net.cmd(old, 1, "create-db t tok")
        if not net.settle(rng): return [Failure("no-quiescence", "setup")]
        for i in (1, 2, 3): net.cmd(i, 1, "use-db t tok")
        if not net.settle(rng): return [Failure("no-quiescence", "setup")]
        # the oldest node (n2) is asked to elect: wherever the role is now, it ends with the oldest or stays; nobody leaves
        net.cmd(2, 1, "debug force-election")
        if not net.settle(rng): return [Failure("election-does-not-terminate:primary-change", f"parked {net.parked}")]
        r = roles(net, [1, 2, 3])
        prims = [i for i in (1, 2, 3) if r[i][0] == "Primary"]
        if len(prims) != 1: return []          # C07's business
        new = prims[0]
        return measure(net, rng, new, (1, 2, 3), cmds, (), "primary-change")
    return fn

FAILOVER_CMDS = ["set a 1", "remove a", "increment n", "resolve 7 t a 1 z", "snapshot false", "create-user u1 pw", "set-permissions u1 rw a*", "create-db d3 tk3", "set-safe a 0 x"]

ARBITER_CMDS = ["set k 1", "set-safe k 0 x", "set-safe k 0 stale", "set-safe k 7 jump", "set j 1", "set-safe j 0 y", "remove k", "increment n", "get-safe k"]

def scenario_arbiter(k, arb_node):
    """a database with the ARBITER strategy whose arbiter client is connected to node `arb_node` (the primary or a secondary): a versioned write
    that conflicts — also with its own copy coming back from the primary — registers the conflict under a key of its own, which is replicated
    like any write; the burst of every command must still end. Only the termination clause is applied here (the bounded bursts of the conflict
    path carry the registry key next to the write, as the recorded resolve findings describe); the model runs in lockstep."""
    def fn(net, rng):
        if not setup(net, k, rng): return [Failure("cluster-does-not-form", f"{k} nodes")]
        net.cmd(1, 1, "create-db ta tka arbiter")
        if net.quiesce(rng, 300) is None: return [Failure("no-quiescence", "create-db")]
        for i in range(1, k + 1): net.cmd(i, 1, "use-db ta tka")
        net.op(arb_node, "SESS 3"); net.cmd(arb_node, 3, "use-db ta tka"); net.cmd(arb_node, 3, "arbiter")
        if net.quiesce(rng, 300) is None: return [Failure("no-quiescence", "arbiter registration")]
        sizes = {}
        for node in range(1, k + 1):
            for cmd in ARBITER_CMDS:
                t0 = len(net.trace)
                net.cmd(node, 1, cmd)
                n = net.quiesce(rng, 200, max_line=20000)     # (lines on the clean tree: a few hundred bytes)
                role = "primary" if node == 1 else "secondary"
                if n is None:
                    burst = net.trace[t0:]
                    return [Failure(f"self-sustaining-exchange:arbiter-database:{cmd.split(' ')[0]}@{role}", f"{cmd!r} on n{node} of {k}, arbiter client on n{arb_node}: still exchanging messages after 200 deliveries (or a message in flight grew beyond 20000 bytes); last {[(b[0], b[1], b[2], b[3][:60]) for b in burst[-4:]]}")]
                sizes[(cmd, role)] = len(net.trace) - t0
        net.worst = sizes
        return []
    return fn

def scenarios(tier):
    S = []
    for k in (2, 3):
        for arb in (1, 2): S.append((f"k{k}-arbiter-database-arbiter-on-n{arb}", scenario_arbiter(k, arb)))
    for k in (2, 3):
        chunks = [COMMANDS[i::4] for i in range(4)] if tier == "quick" else ([COMMANDS[i::2] for i in range(2)] + [list(reversed(COMMANDS))]) * 4
        for j, ch in enumerate(chunks):
            S.append((f"k{k}-commands-{j}", scenario(k, ch, j)))
    for k in (2, 3):
        for v in range(3): S.append((f"k{k}-first-operations-{v}", scenario_first_operations(k, v)))
    S.append(("k3-after-failover", scenario_failover(FAILOVER_CMDS)))
    S.append(("k3-after-primary-change", scenario_primary_change(FAILOVER_CMDS)))
    if tier != "quick": S.append(("k3-after-failover-b", scenario_failover(list(reversed(FAILOVER_CMDS)))))
    return S

RULE = ("every client-visible command (41 command lines covering all request kinds a client can send, accepted and refused, including resolve, snapshot, create-user, set-permissions, increment, remove and the replicate-* / ack / election commands "
        "sent by a client) issued on every node (in the first-operations scenarios from the very first operation after the cluster formed, nothing unmeasured in between; and, in one scenario, on the two survivors after the primary died and a new one was elected) of 2- and 3-node clusters of real nodes; after each command messages are delivered in a seeded-random FIFO-respecting order with a budget of 200 deliveries (the bound is 1 + 2(k-1) + replies): "
        "and on a database with the ARBITER strategy with the arbiter client on the primary / on a secondary (termination clause only: every burst ends); "
        "the burst must end, with at most one forward to the primary, one copy per secondary, one acknowledgement per copy, no message between two secondaries. Every primitive operation also runs on the Lean model in lockstep. distinct by trace hash")

def main(tier, seed):
    return netrunner.run(PID, LEAN_MODULE, THEOREMS, scenarios(tier), RULE, tier, seed,
                         assumptions=["links are FIFO and lossless; no node joins or leaves during the burst (joins and elections: C07)"])
