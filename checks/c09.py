"""C09 — every command acts only with the credential it requires."""
import re, itertools
from vlib import core
from vlib.runner import Spec, Failure
from checks import cmdgen

ADMIN_ONLY = {"create-db", "snapshot", "create-user", "set-permissions", "join", "leave", "set-primary", "set-secoundary",
              "election", "replicate", "replicate-increment", "replicate-join", "replicate-leave", "replicate-remove",
              "replicate-since", "replicate-snapshot", "ack", "cluster-state", "metrics-state", "debug"}
DATA = {"get", "get-safe", "set", "set-safe", "remove", "increment", "watch", "unwatch", "unwatch-all", "keys", "ls", "arbiter", "resolve"}
KIND = {"get": "r", "get-safe": "r", "watch": "r", "set": "w", "set-safe": "w", "resolve": "w", "increment": "i", "remove": "x"}
HARMLESS_PUSH = ("error no-db-selected", "permission denied", "invalid auth", "valid auth")

def base_setup(perms=None):
    s = ["RESET", "SESS 1", "C 1 auth adm pw", "C 1 create-db t tok", "C 1 use-db t tok", "C 1 set k1 v1", "C 1 set zz v2",
         "C 1 create-user u upw"]
    if perms is not None: s.append(f"C 1 set-permissions u {perms}")
    return s

CREDS = {
    "none": ["SESS 2"],
    "wrongpwd": ["SESS 2", "C 2 auth adm bad"],
    "dbtoken": ["SESS 2", "C 2 use-db t tok"],
    "wrongtoken": ["SESS 2", "C 2 use-db t bad"],
    "usertoken": ["SESS 2", "C 2 use-db t u upw"],
}

def pattern_match(p, k):
    if p.endswith("*"): return k.startswith(p.replace("*", ""))
    if p.startswith("*"): return k.endswith(p.replace("*", ""))
    return p in k

def permits(perms, kind, key):
    """the property's own definition: some entry has the kind and a pattern matching the key"""
    if perms is None: return False
    for entry in perms.split("|"):
        parts = entry.split(" ", 1)
        kinds = parts[0]; pats = parts[1].split(",") if len(parts) > 1 else []
        if kind in kinds and any(pattern_match(p, key) for p in pats): return True
    return False

class C09(Spec):
    pid = "C09"
    lean_module = "NunVerif.Props.C09Removed"
    theorems = ["Nun.C09_missing_user_cannot_log_in", "Nun.C09_tombstoned_user_cannot_log_in", "Nun.C09_removed_user_cannot_log_in", "Nun.C09_unauth_noop", "Nun.C09_unauth_line_noop", "Nun.C09_user_management_needs_admin", "Nun.C09_needs_db",
                "Nun.C09_failed_usedb_keeps_selection", "Nun.C09_permits_is_spec", "Nun.C09_permission_sound",
                "Nun.C09_secure_key_refused", "Nun.C09_guard_table_pin"]
    rule = ("near-miss credentials (prefix of the secret, secret plus a suffix, none, other case, moved blanks) for the administrator's password, the database token and the user token, each followed by admin / data probes; a login is only accepted with the credentials the administrator's commands left; full matrix {no auth, wrong password, db token, wrong token, user token} x every command word (argument variants incl. malformed) x "
            "permission lists from subsets of {r,w,i,x} x pattern shapes {k*, *1, contains} x matching / non-matching key, plus permission changes mid-session; "
            "each cell = setup by an admin session, then the probe command on the probing session with a full state dump before and after. "
            "non-trivial = the probe is refused or acts under a non-admin credential; distinct by trace hash")

    def corpus(self):
        return [("election-active-unauth", base_setup() + CREDS["none"] + ["C 2 election active n9", "C 1 keys"]),
                ("resolve-unguarded", base_setup("r k*") + CREDS["usertoken"] + ["C 2 resolve 77 t k1 3 rz", "C 1 keys"]),
                ("resolve-token", base_setup("rwix *") + CREDS["usertoken"] + ["C 2 resolve 77 t $$token 3 rz", "C 1 keys"])]

    def generate(self, tier, seed):
        cases = []
        probes = cmdgen.all_variants(["k1", "$$token", "q"])
        for cred in ("none", "wrongpwd", "dbtoken", "wrongtoken"):
            for p in probes:
                cases.append(base_setup() + CREDS[cred] + [f"C 2 {p}", "C 1 keys"])
        # user sessions: permission matrix on data commands
        kinds = ["", "r", "w", "i", "x", "rw", "ix", "rwix"]
        pats = ["k*", "*1", "1", "zz"]
        dataprobes = [v for w in ("get", "get-safe", "set", "set-safe", "remove", "increment", "watch", "keys", "arbiter", "resolve", "unwatch", "unwatch-all")
                      for v in cmdgen.VARIANTS[w]]
        for kd in kinds:
            for pt in pats:
                perms = f"{kd} {pt}" if kd else None
                for pv in dataprobes:
                    for k in (["k1", "zz"] if "{k}" in pv else [""]):
                        cases.append(base_setup(perms) + CREDS["usertoken"] + [f"C 2 {pv.replace('{k}', k)}", "C 1 keys"])
        # admin-only probes from a user session with full permissions
        for p in probes:
            cases.append(base_setup("rwix *") + CREDS["usertoken"] + [f"C 2 {p}", "C 1 keys"])
        # multi-entry lists and mid-session change
        for perms2 in ("r k*|w zz", "w k*,zz|r zz", "rw q*"):
            for pv in ("get k1", "set k1 n", "get zz", "set zz n", "increment k1", "remove zz"):
                cases.append(base_setup("r nomatch") + CREDS["usertoken"] + [f"C 2 {pv}", f"C 1 set-permissions u {perms2}", f"C 2 {pv}", "C 1 keys"])
        # what the administrator does to the user's records while the user's session is open
        for mid in ("remove $$user_u", "remove $$permission_$u", "set $$user_u other", "create-user u other", "create-user u2 x", "set-permissions u2 rwix *"):
            for perms0 in ("r k*", "rwix zz"):
                for pv in ("get k1", "set k1 n", "get zz", "set zz n", "increment k1", "remove zz", "keys", "get $$token"):
                    cases.append(base_setup(perms0) + CREDS["usertoken"] + [f"C 2 {pv}", f"C 1 {mid}", f"C 2 {pv}", "C 2 get zz", "C 1 keys"])
        # degenerate permission lists (an entry without a key list, without kinds, empty pieces): whatever the parser makes of them,
        # an entry that names no key must grant nothing
        for perms0 in ("r", "rw", "rwix", "r |w zz", "|", "r ,", "r ,k1", " k*", "r  k*", "r k*|", "r k*|w", "x"):
            for pv in ("get k1", "get zz", "set k1 n", "set zz n", "increment k1", "remove zz", "watch zz", "keys"):
                cases.append(base_setup(perms0) + CREDS["usertoken"] + [f"C 2 {pv}", "C 1 keys"])
        # the user's list is REMOVED after it reached the disk: the entry stays in memory as a tombstone (value `<Empty>`), which is read as a list too
        for perms0 in ("r k*", "rwix *"):
            for snap in (["C 1 snapshot false", "SNAP"], []):
                for pv in ("get k1", "get zz", "set zz n", "watch zz", "get-safe q", "keys"):
                    cases.append(base_setup(perms0) + CREDS["usertoken"] + snap + [f"C 2 {pv}", "C 1 remove $$permission_$u", f"C 2 {pv}", "C 2 get zz", "C 2 get q", "C 1 keys"])
        # session-order cases: every short sequence of login attempts, then a probe outside / inside the user's list
        logins = ["use-db t u upw", "use-db t bad", "use-db t tok", "use-db nodb tok", "use-db t u bad", "use-db t x y z"]
        for n in (2, 3):
            for seq in itertools.product(logins, repeat=n):
                for pv in ("get zz", "set zz n", "get k1"):
                    cases.append(base_setup("r k*") + ["SESS 2"] + [f"C 2 {l}" for l in seq] + [f"C 2 {pv}", "C 1 keys"])
        # near-miss credentials: a prefix of the secret, the secret with something after it, no secret at all, a different case, blanks moved —
        # none of them is the credential, so what follows must be refused exactly as without any
        near_admin = ["auth adm p", "auth adm", "auth adm ", "auth adm pwx", "auth adm pw x", "auth ad pw", "auth adm PW", "auth admx pw", "auth  adm pw", "auth adm  pw", "auth", "auth pw adm"]
        admin_probes = ["create-db d2 tk2", "cluster-state", "debug list-dbs", "create-user u3 x", "set-permissions u rwix *", "snapshot false t", "replicate t k1 -1 zz", "replicate-remove t k1", "election win", "join n9"]
        for na in near_admin:
            for pv in admin_probes:
                cases.append(base_setup("r k*") + ["SESS 2", f"C 2 {na}", f"C 2 {pv}", "C 1 keys"])
            cases.append(base_setup("r k*") + ["SESS 2", "C 2 use-db t tok", f"C 2 {na}", "C 2 get $$token", "C 2 set $$x 1", "C 2 keys", "C 1 keys"])
        near_token = ["use-db t to", "use-db t tokx", "use-db t", "use-db t ", "use-db t tok x", "use-db t u up", "use-db t u upwx", "use-db t u", "use-db t u ", "use-db t upw", "use-db t u upw x", "use-db t U upw", "use-db t TOK", "use-db t  tok", "use-db T tok", "use-db t u  upw"]
        # … and the texts the code's own accessors hand out where NOTHING is stored (`<Empty>`, the empty text), offered as the token of a user
        # that does not exist, of the default user `all`, of an existing user
        near_token += ["use-db t ghost <Empty>", "use-db t all <Empty>", "use-db t u <Empty>", "use-db t ghost", "use-db t all all", "use-db t all", "use-db t ghost \\e", "use-db t all tok", "use-db t ghost tok"]
        # a user REMOVED by the administrator — before and after the removal reached the disk (then the entry stays in memory as a tombstone
        # whose text is `<Empty>`): nobody logs in as that user any more, with the old token, with `<Empty>`, with nothing
        for persisted in (False, True):
            for tok in ("<Empty>", "upw", "", "tok"):
                for pv in ("get k1", "set k1 n", "keys"):
                    cases.append(base_setup("rwix *") + (["C 1 snapshot false", "SNAP"] if persisted else []) + ["C 1 remove $$user_u", "SESS 2", f"C 2 use-db t u {tok}".rstrip(), f"C 2 {pv}", "C 1 set k1 again", "C 1 keys"])
        for nt in near_token:
            for pv in ("get k1", "set k1 n", "keys", "remove zz", "increment k1", "watch k1"):
                cases.append(base_setup("rwix *") + ["SESS 2", f"C 2 {nt}", f"C 2 {pv}", "C 1 set k1 again", "C 1 keys"])
        if tier != "quick":
            rng = core.XorShift(seed)
            for _ in range(20000):
                cred = rng.choice(list(CREDS)); perms = rng.choice([None, "r k*", "rw *", "x zz|i k*", "w 1"])
                seq = [f"C 2 {rng.choice(probes)}" for _ in range(1 + rng.below(4))]
                cases.append(base_setup(perms) + CREDS[cred] + seq + ["C 1 keys"])
        return cases

    def nontrivial(self, case, impl):
        return any(l.startswith("R error") for l in impl)

    def oracle(self, case, impl):
        fails = []
        steps = core.parse_steps(impl)
        perms = None; cred = "none"; user = False; bound = False; admin2 = False
        token = "tok"; users = {"u": "upw"}          # the credentials of database t as the administrator's commands leave them
        for i, (inp, rest, dump) in enumerate(steps):
            if not inp.startswith("C "): continue
            _, sid, cmd = inp.split(" ", 2) if inp.count(" ") >= 2 else (inp.split(" ") + [""])[:3]
            cmd = core.unesc(cmd).decode("utf-8", "replace")
            r = next((x for x in rest if x.startswith("R ")), "R ?")
            if r.startswith("R PANIC"):
                fails.append(Failure("panic", f"{inp}: {r}")); break
            word = cmd.strip("\n").rstrip(";").split(" ")[0]
            if sid == "1":
                if word == "set-permissions" and r == "R ok" and cmd.split(" ")[1] == "u": perms = cmd.split(" ", 2)[2]
                if cmd.strip() == "remove $$permission_$u" and r == "R ok": perms = None     # a user without a list reaches no value
                pp = cmd.strip("\n").split(" ")
                if word == "create-user" and r == "R ok" and len(pp) >= 3: users[pp[1]] = cmd.strip("\n").split(" ", 2)[2]
                if word == "set" and r == "R ok" and len(pp) >= 2 and pp[1].startswith("$$user_"): users[pp[1][len("$$user_"):]] = cmd.strip("\n").split(" ", 2)[2] if len(pp) > 2 else ""
                if word == "remove" and r == "R ok" and len(pp) >= 2 and pp[1].startswith("$$user_"): users.pop(pp[1][len("$$user_"):], None)
                continue
            is_err = r.startswith("R error") or r.startswith("R verr")
            prev_dump = steps[i - 1][2] if i > 0 else []
            changed = [d for d in dump if d not in prev_dump and not d.startswith("D sess")] + [d for d in prev_dump if d not in dump and not d.startswith("D sess")]
            pushes = [x for x in rest if x.startswith("M 2 ")]
            others = [x for x in rest if x[:2] in ("P ", "V ", "L ") or (x.startswith("M ") and not x.startswith("M 2 "))]
            data_pushes = [x for x in pushes if not any(h in x for h in HARMLESS_PUSH)]
            if word == "auth":
                if cmd.strip() == "auth adm pw": admin2 = True
                continue
            if word in ("use", "use-db"):
                if r == "R ok":
                    # the login must be one the credentials allow: `use-db <db> <token>` or `use-db <db> <user> <user token>`
                    pp = cmd.strip("\n").rstrip(";").split(" ", 2)
                    rest2 = pp[2].replace("\n", "").split(" ", 1) if len(pp) > 2 else []
                    good = len(pp) > 2 and pp[1] == "t" and ((len(rest2) == 1 and rest2[0] == token) or (len(rest2) == 2 and users.get(rest2[0]) == rest2[1]))
                    if not good and not admin2:
                        fails.append(Failure("login-accepted-with-wrong-credentials", f"{inp}: {r}; token {token!r}, users {users}")); break
                    bound = True; user = cmd.count(" ") >= 3
                elif changed:
                    fails.append(Failure("failed-usedb-changed-state", f"{inp}: {changed[:2]}"))
                continue
            if word in ADMIN_ONLY and not admin2:
                if not is_err: fails.append(Failure("admin-command-accepted-without-auth", f"{inp}: {r}"))
                if changed or others: fails.append(Failure("admin-command-changed-state-without-auth", f"{inp}: {(changed + others)[:2]}"))
                if data_pushes: fails.append(Failure("admin-command-returned-data-without-auth", f"{inp}: {data_pushes[:1]}"))
            elif word in DATA and not bound and not admin2:
                if changed or others: fails.append(Failure("data-command-acted-without-db", f"{inp}: {(changed + others)[:2]}"))
                if data_pushes: fails.append(Failure("data-command-returned-data-without-db", f"{inp}: {data_pushes[:1]}"))
            elif word in KIND and bound and user and not admin2:
                parts = cmd.split(" ")
                key = parts[1] if len(parts) > 1 else ""
                if word == "resolve": key = parts[3] if len(parts) > 3 else ""
                allowed = permits(perms, KIND[word], key) and not key.startswith("$$")
                acted = bool(changed or others or data_pushes)
                if acted and not allowed:
                    fails.append(Failure("user-acted-without-permission", f"{inp} with permissions {perms!r}: {(changed + others + data_pushes)[:2]}"))
            if fails: break
        return fails

SPEC = C09()
