"""C12 — the operation-log query never misses an operation."""
import re, itertools
from vlib import core
from vlib.runner import Spec, Failure

KINDS = 4
def rec(t, k, d, o): return f"{t},{k},{d},{o}"

def parse_recs(s):
    out = []
    for r in s.split(";"):
        if r and not r.startswith("partial"):
            t, k, d, o = r.split(","); out.append((int(t), int(k), int(d), int(o)))
    return out

class C12(Spec):
    pid = "C12"
    lean_module = "NunVerif.Props.C12Record"
    theorems = ["Nun.C12_record_roundtrip", "Nun.C12_file_roundtrip", "Nun.C12_record_constants", "Nun.C12_record_writer_layout", "Nun.C12_record_reader_layout", "Nun.C12_record_reader_decodes",
                "Nun.C12_record_constructor_call", "Nun.C12_operation_kinds", "Nun.C12_never_misses", "Nun.C12_bisection_total", "Nun.C12_label", "Nun.C12_last_op_time", "Nun.C12_append_keeps",
                "Nun.C12_declutter_keeps_newest", "Nun.scanStart_ok", "Nun.bisStep_ok"]
    impl_env = {"NUN_MAX_OP_LOG_SIZE": "2500"}
    rule = ("all timestamp shapes (which neighbours are equal) of logs of 0..N records, keys/dbs/kinds cycling through 2 dbs x 3 keys x 4 kinds, "
            "x every since in {0, before first, each record time and +-1, after last}; two- and three-file splits of the same logs; seeded random logs up to several hundred records; "
            "appends through the real try_write_op_log with NUN_MAX_OP_LOG_SIZE=2500 to force rotation, followed by the pruning of rotated files, incl. runs of 11 and 24 records under ONE id (a multi-database snapshot) starting at every offset of the current file. "
            "Oracle: linear scan of the files as listed after each step. non-trivial = the query has to skip at least one record and return at least one; distinct by trace hash")
    assumptions = ["files hold whole 25-byte records (a torn trailing record is C16's crash matter)", "rotated files are ordered by creation time (btime), files created 4 ms apart by the harness"]

    def corpus(self):
        return [("equal-timestamps", ["RESET", "OPLOG set " + ";".join(rec(t, i, 1, 0) for i, t in enumerate([10, 20, 20, 30, 30, 40, 50, 60, 60])), "OPLOG query 20"]),
                ("multifile-label", ["RESET", "OPLOG rot 100,1,0,0", "OPLOG set 200,1,0,1", "OPLOG query 50", "OPLOG last"]),
                ("rotation-nine-tenths", ["RESET"] + ["OPLOG append " + ";".join(rec(1000 + i * 11 + j, j % 3, 1, 0) for j in range(11)) for i in range(9)]
                 + ["OPLOG append 1099,0,1,0;1100,1,1,0", "OPLOG declutter", "OPLOG query 1"])]

    def logs(self, maxn):
        """all shapes: timestamps strictly / non-strictly increasing encoded by a bitmask of 'equal to previous'"""
        for n in range(0, maxn + 1):
            for mask in range(1 << max(0, n - 1)):
                ts = []; t = 10
                for i in range(n):
                    if i > 0 and not (mask >> (i - 1)) & 1: t += 10
                    ts.append(t)
                yield [(ts[i], i % 3, 1 + (i // 3) % 2, (i * 7 + n) % KINDS) for i in range(n)]

    def sinces(self, log):
        s = {0, 1, 5}
        for (t, _, _, _) in log: s |= {t - 1, t, t + 1}
        if log: s.add(log[-1][0] + 100)
        return sorted(x for x in s if x >= 0)

    def generate(self, tier, seed):
        cases = []
        maxn = 8 if tier == "quick" else 11
        for log in self.logs(maxn):
            c = ["RESET", "OPLOG set " + ";".join(rec(*r) for r in log)] + [f"OPLOG query {s}" for s in self.sinces(log)] + ["OPLOG last"]
            cases.append(c)
        # strictly increasing logs of every length up to 70 (bisection arithmetic depends on the length)
        for n in range(9, 70 if tier == "quick" else 260):
            log = [(100 + 10 * i, i % 3, 1 + i % 2, i % KINDS) for i in range(n)]
            ss = sorted({0, 95, 100 + 10 * n + 5} | {100 + 10 * i + dlt for i in (0, 1, n // 2 - 1, n // 2, n // 2 + 1, n - 3, n - 2, n - 1) for dlt in (-1, 0, 1) if 0 <= i < n})
            cases.append(["RESET", "OPLOG set " + ";".join(rec(*r) for r in log)] + [f"OPLOG query {s}" for s in ss] + ["OPLOG last"])
        rng = core.XorShift(seed)
        # multi-file splits
        for _ in range(300 if tier == "quick" else 5000):
            n = 2 + rng.below(14); t = 10; log = []
            for i in range(n):
                t += rng.choice([0, 0, 7, 10]) if i else 0
                log.append((t, rng.below(3), 1 + rng.below(2), rng.below(KINDS)))
            cuts = sorted({rng.below(n + 1) for _ in range(1 + rng.below(2))})
            parts = []; a = 0
            for cpt in cuts + [n]:
                parts.append(log[a:cpt]); a = cpt
            c = ["RESET"] + ["OPLOG rot " + ";".join(rec(*r) for r in p) for p in parts[:-1]] + ["OPLOG set " + ";".join(rec(*r) for r in parts[-1])]
            c += [f"OPLOG query {s}" for s in self.sinces(log)[:: max(1, len(self.sinces(log)) // 8)]] + ["OPLOG last"]
            cases.append(c)
        # rotation through the real append path
        for _ in range(40 if tier == "quick" else 400):
            c = ["RESET"]; t = 1000
            for _ in range(1 + rng.below(14)):
                k = 1 + rng.below(15); recs = []
                for _ in range(k):
                    t += 1 + rng.below(3); recs.append(rec(t, rng.below(3), 1 + rng.below(2), rng.below(KINDS)))
                c.append("OPLOG append " + ";".join(recs))
                if rng.chance(1, 3): c.append("OPLOG declutter")
                if rng.chance(1, 2): c.append(f"OPLOG query {1000 + rng.below(t - 999)}")
            c += ["OPLOG last", "OPLOG declutter", "OPLOG query 1"]
            cases.append(c)
        # one operation that writes MANY records under one id (a snapshot of several databases) across rotation boundaries:
        # whole rotated files whose records all carry the same id, starting at every offset of the current file
        for pre in range(0, 23):
            for run in (11, 24):
                t = 1000; recs = []
                for i in range(pre): t += 2; recs.append(rec(t, i % 3, 1 + i % 2, i % KINDS))
                t += 2
                for i in range(run): recs.append(rec(t, i % 3, 1 + i % 2, 3))
                for i in range(4): t += 2; recs.append(rec(t, i % 3, 1, 0))
                cases.append(["RESET", "OPLOG append " + ";".join(recs), "OPLOG query 1", f"OPLOG query {1000 + 2 * pre + 2}", "OPLOG last", "OPLOG declutter", "OPLOG query 1"])
        return cases

    def nontrivial(self, case, impl):
        for (inp, rest, dump) in core.parse_steps(impl):
            if inp.startswith("OPLOG query"):
                q = [x for x in rest if x.startswith("Q ")]
                files = [x for x in rest if x.startswith("O ")]
                total = sum(len(parse_recs(f.split(" ", 2)[2] if f.count(" ") >= 2 else "")) for f in files)
                if q and total > len(q): return True
        return False

    def oracle(self, case, impl):
        fails = []
        appended = []   # every record appended through the real path, in order
        for (inp, rest, dump) in core.parse_steps(impl):
            if any(x.startswith("R PANIC") for x in rest): fails.append(Failure("panic", f"{inp[:60]}: {[x for x in rest if x.startswith('R PANIC')][0][:140]}")); break
            files = {}
            for x in rest:
                if x.startswith("O "):
                    p = x.split(" ", 2); files[p[1]] = parse_recs(p[2] if len(p) > 2 else "")
            # log order: oldest rotated file first … newest rotated, then current
            rots = sorted((k for k in files if k.startswith("rot")), key=lambda k: -int(k[3:]))
            ordered = [r for k in rots for r in files[k]] + files.get("cur", [])
            if inp.startswith("OPLOG query"):
                since = int(inp.split(" ")[2])
                want = {}
                for (t, k, d, o) in ordered:
                    if t >= since: want[f"{d}_{k}"] = (o if o <= 3 else 0)
                got = {}
                for x in rest:
                    m = re.match(r"Q (\S+) opp=(\d+) ts=(\d+)", x)
                    if m: got[m.group(1)] = int(m.group(2))
                for key, kind in want.items():
                    if key not in got:
                        fails.append(Failure("query-missed-record", f"{inp}: {key} has a record at/after {since} but is not returned (log {ordered[:12]}…)")); break
                    # label = kind of the most recent record of that (db,key) in the whole log
                    last_kind = [ (o if o <= 3 else 0) for (t, k, d, o) in ordered if f"{d}_{k}" == key][-1]
                    if got[key] != last_kind:
                        fails.append(Failure("query-wrong-label", f"{inp}: {key} labelled {got[key]}, most recent record is kind {last_kind}")); break
            if inp.startswith("OPLOG last"):
                t = next((int(x[2:]) for x in rest if x.startswith("T ")), None)
                want = ordered[-1][0] if ordered else 0
                if t != want: fails.append(Failure("last-op-time-wrong", f"{inp}: reported {t}, newest record is {want}"))
            if inp.startswith("OPLOG append"):
                appended += parse_recs(inp.split(" ", 2)[2])
            if inp.startswith("OPLOG append") or inp.startswith("OPLOG declutter"):
                # rotation keeps the newest records: what is on disk is a suffix of what was appended (duplicates at file joins removed)
                distinct = []
                for r in ordered:
                    if not distinct or distinct[-1] != r: distinct.append(r)
                if appended and distinct != appended[len(appended) - len(distinct):]:
                    fails.append(Failure("rotation-lost-or-reordered-records", f"{inp[:40]}: on disk {len(distinct)} records are not the newest suffix of the {len(appended)} appended"))
                limit_records = 2500 // 25
                if appended and len(distinct) < min(len(appended), limit_records):
                    # recorded finding: exactly the 9 newest rotated files (9/10 of the size) + the current file survive the pruning
                    cls = "rotation-keeps-nine-files-of-ten" if len(distinct) >= 9 * (limit_records // 10) and len(rots) == 9 else "rotation-dropped-record-within-size"
                    fails.append(Failure(cls, f"{inp[:40]}: {len(distinct)} records kept of {len(appended)} appended, configured size holds {limit_records}"))
            if fails: break
        return fails

SPEC = C12()
