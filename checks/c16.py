"""C16 — after any restart the oplog is either discarded or still decodes correctly."""
import re, itertools, os, shutil, subprocess, struct
from concurrent.futures import ThreadPoolExecutor
from vlib import core
from vlib.runner import Spec, Failure

SETUP = ["RESET primary,pump", "SESS 1", "C 1 auth adm pw"]
AFTER = ["SESS 1", "C 1 auth adm pw"]

def alphabet(dbs=("a", "b", "c")):
    al = []
    for d in dbs:
        al += [[f"C 1 create-db {d} t{d}", "PUMP"], [f"C 1 use-db {d} t{d}", f"C 1 set k{d} 1", "PUMP"], [f"C 1 use-db {d} t{d}", "C 1 set shared 2", "PUMP"],
               [f"C 1 use-db {d} t{d}", f"C 1 remove k{d}", "PUMP"], [f"C 1 snapshot false {d}", "PUMP", "SNAP"]]
    al += [[f"C 1 use-db {d} t{d}", "C 1 increment n 2", "PUMP"] for d in dbs]      # (an increment is logged as an UPDATE of its key)
    al += [["RESTART"] + AFTER, ["PUMP"]]
    return al

def parse_meta(rest):
    m = {"keysmap": {}, "idname": {}, "recs": []}
    for x in rest:
        if x.startswith("G keysmap "):
            for kv in x[10:].split(","):
                if "=" in kv: k, i = kv.rsplit("=", 1); m["keysmap"][int(i)] = k
        elif x.startswith("G idname "):
            for kv in x[9:].split(","):
                if "=" in kv: i, n = kv.split("=", 1); m["idname"][int(i)] = n
        elif x.startswith("G valid "): m["valid"] = x[8:]
        elif x.startswith("G flagfile "): m["flag"] = x[11:]
        elif x.startswith("O "):
            p = x.split(" ", 2)
            if len(p) > 2 and p[2]:
                for r in p[2].split(";"):
                    if r and not r.startswith("partial"):
                        t, k, d, o = r.split(","); m["recs"].append((t, int(k), int(d), int(o)))
    return m

class C16(Spec):
    pid = "C16"
    lean_module = "NunVerif.Props.C16Flag"
    theorems = ["Nun.C16_flag_file_refines_the_abstract_flag", "Nun.C16_flag_memory_invalid_implies_disk_invalid", "Nun.C16_flag_invalidate_seeks_then_writes_0", "Nun.C16_flag_mark_invalid_seeks_then_writes_0",
                "Nun.C16_flag_mark_valid_seeks_then_writes_1", "Nun.C16_flag_reader_reads_first_byte_default_valid", "Nun.C16_flag_writer_is_unbuffered", "Nun.meta_keyId_is_invalidate", "Nun.meta_snapshotKeys_is_markValid", "Nun.meta_restart_is_reopen",
                "Nun.C16_record_decodes", "Nun.C16_key_ids_injective", "Nun.C16_flag_means_covered", "Nun.C16_restart_keeps_or_discards",
                "Nun.C16_loop_is_write", "Nun.C16_loop_is_machine", "Nun.C16_crash_is_a_run", "Nun.trace_is_step", "Nun.restartCrashed_cases", "Nun.C16_next_db_id_fresh", "Nun.C16_db_id_rule_pin", "Nun.C16_startup_pin", "Nun.step_inv", "Nun.step_stable"]
    impl_env = {"NUN_MAX_OP_LOG_SIZE": "2500"}
    rule = ("histories of create-db / first write of a new key / write of a known key / remove / snapshot of a subset of the databases / restart in every order over 1-3 databases, "
            "with the REAL replication loop polled by hand after every command (oplog records, key-id registration, oplog-valid flag) and the real start-up sequence at every restart; "
            "after every step the oplog records on disk are decoded through the node's own id maps and compared with what each record was written for. "
            "non-trivial = at least one restart with a non-empty oplog kept or discarded; distinct by trace hash")

    def corpus(self):
        return [("db-id-reuse", SETUP + ["C 1 create-db a ta", "PUMP", "C 1 create-db b tb", "PUMP", "C 1 create-db c tc", "PUMP", "C 1 snapshot false c", "PUMP", "SNAP",
                                         "RESTART"] + AFTER + ["C 1 create-db d td", "PUMP", "C 1 create-db e te", "PUMP", "C 1 use-db e te", "C 1 set x 1", "PUMP"]),
                ("flag-lost-after-discard", SETUP + ["C 1 create-db c tc", "PUMP", "C 1 create-db b tb", "PUMP", "C 1 snapshot false b", "PUMP", "SNAP", "C 1 snapshot false c", "PUMP", "SNAP",
                                                     "C 1 use-db b tb", "C 1 set kb 1", "PUMP", "RESTART"] + AFTER + ["C 1 use-db b tb", "C 1 remove kb", "C 1 remove kc", "PUMP", "RESTART"] + AFTER + ["PUMP"]),
                ("vanished-database", SETUP + ["C 1 create-db a ta", "PUMP", "RESTART"] + AFTER + ["PUMP"])]

    def generate(self, tier, seed):
        cases = []
        al = alphabet(("a", "b"))
        for seq in itertools.product(al, repeat=3 if tier == "quick" else 4):
            c = list(SETUP)
            for x in seq: c += x
            c += ["RESTART"] + AFTER + ["PUMP"]
            cases.append(c)
        rng = core.XorShift(seed)
        al3 = alphabet()
        for _ in range(400 if tier == "quick" else 6000):
            c = list(SETUP)
            for _ in range(4 + rng.below(12)): c += rng.choice(al3)
            c += ["RESTART"] + AFTER + ["PUMP"]
            cases.append(c)
        return cases

    def nontrivial(self, case, impl):
        t = "\n".join(impl)
        return "> RESTART" in t and re.search(r"\nO cur [#\d]", t) is not None

    def oracle(self, case, impl):
        fails = []; seen = set(); lost = set()
        intent = {}    # op id (timestamp) -> list of (db name, key or None, kind)
        for (inp, rest, dump) in core.parse_steps(impl):
            if any(x.startswith("R PANIC") or x.startswith("K PANIC") for x in rest):
                fails.append(Failure("panic", f"{inp[:60]}: {[x for x in rest if 'PANIC' in x][0][:160]}")); break
            for x in rest:
                m = re.match(r"P rp (\S+) (.*)", x)
                if not m: continue
                op, msg = m.group(1), core.unesc(m.group(2)).decode("utf-8", "replace")
                p = msg.split(" ")
                if p[0] == "create-db": intent.setdefault(op, []).append((p[1], None, 2))
                elif p[0] == "replicate-snapshot":
                    for d in p[1].split("|"): intent.setdefault(op, []).append((d, None, 3))
                elif p[0] in ("replicate", "replicate-increment"): intent.setdefault(op, []).append((p[1], p[2], 0))
                elif p[0] == "replicate-remove": intent.setdefault(op, []).append((p[1], p[2], 1))
            if not any(x.startswith("G ") for x in rest): continue
            m = parse_meta(rest)
            names = list(m["idname"].values())
            if inp.startswith("RESTART"):
                # records written for a database (incarnation) that did not survive this restart
                for op, ws in intent.items():
                    if any(w[0] not in names for w in ws): lost.add(op)
            # every record on disk decodes to what it was written for
            for (t, k, d, o) in m["recs"]:
                # whatever the log holds is a sequence of whole records: the time field of each is an operation id this run issued
                # (renamed `#NNNN` by the canonicaliser) — bytes that land between two records shift everything behind them
                if not (t.startswith("#") or re.fullmatch(r"1[0-9]{18}", t) or t == "0"):
                    if "log-is-not-a-sequence-of-records" not in seen:
                        seen.add("log-is-not-a-sequence-of-records")
                        fails.append(Failure("log-is-not-a-sequence-of-records", f"after {inp[:40]}: record (time {t}, key id {k}, db id {d}, kind {o}) is no record any operation wrote"))
                    break
                want = intent.get(t)
                if not want: continue
                dbname = m["idname"].get(d)
                ok = False; dbok = False
                for (wdb, wkey, wkind) in want:
                    if dbname == wdb: dbok = True
                    if dbname == wdb and (wkey is None or m["keysmap"].get(k) == core.esc(wkey, sp=True)) and wkind == (o if o <= 3 else 0): ok = True
                if not ok:
                    cls = "record-key-decodes-to-something-else" if dbok else ("record-of-vanished-database" if (t in lost or all(w[0] not in names for w in want)) else "record-database-decodes-to-something-else")
                    if cls not in seen:
                        seen.add(cls)
                        fails.append(Failure(cls,
                            f"after {inp[:40]}: record (op {t}, key id {k}, db id {d}, kind {o}) was written for {want} but decodes to db {dbname!r} key {m['keysmap'].get(k)!r}"))
                    if cls != "record-of-vanished-database": break
            # two databases never share an identifier: the dump lists every database with its id
            ids = {}
            for dl in dump:
                mm = re.match(r"D db (\S+) id=(\d+) ", dl)
                if mm:
                    if mm.group(2) in ids and ids[mm.group(2)] != mm.group(1):
                        fails.append(Failure("two-databases-share-an-identifier", f"after {inp[:40]}: {ids[mm.group(2)]} and {mm.group(1)} both have id {mm.group(2)}"))
                    ids[mm.group(2)] = mm.group(1)
            if [f for f in fails if f.cls != 'record-of-vanished-database']: break
        return fails

    # ------------------------------------------------------------------ crash points
    def extra_stage(self, tier, seed):
        return crash_stage(self, tier)

A_SNAP = ["C 1 create-db a ta", "PUMP", "C 1 snapshot false a", "PUMP", "SNAP"]
def crash_scenarios(tier):
    """(name, commands before the window, commands inside the window)"""
    w1 = ["C 1 use-db a ta", "C 1 set ka 1", "PUMP"]
    S = [("new-key-write", A_SNAP, w1),
         ("first-keys-snapshot", A_SNAP + w1 + ["C 1 set kb 2", "PUMP"], ["C 1 snapshot false a", "PUMP", "SNAP"]),
         ("second-keys-snapshot", A_SNAP + w1 + ["C 1 snapshot false a", "PUMP", "SNAP", "C 1 set kb 2", "PUMP", "C 1 set a-much-longer-key-name 3", "PUMP"], ["C 1 snapshot false a", "PUMP", "SNAP"]),
         ("startup-discards", A_SNAP + w1, ["RESTART"]),
         ("startup-keeps", A_SNAP + w1 + ["C 1 snapshot false a", "PUMP", "SNAP"], ["RESTART"]),
         ("known-key-write", A_SNAP + w1 + ["C 1 snapshot false a", "PUMP", "SNAP", "RESTART"] + AFTER, ["C 1 use-db a ta", "C 1 set ka 5", "C 1 remove ka", "PUMP"]),
         ("write-after-discard", A_SNAP + w1 + ["RESTART"] + AFTER, ["C 1 use-db a ta", "C 1 set kz 1", "PUMP"]),
         ("snapshot-after-discard", A_SNAP + w1 + ["RESTART"] + AFTER + ["C 1 use-db a ta", "C 1 set kz 1", "PUMP"], ["C 1 snapshot false a", "PUMP", "SNAP"])]
    if tier != "quick":
        two = A_SNAP + ["C 1 create-db b tb", "PUMP", "C 1 snapshot false b", "PUMP", "SNAP"]
        S += [("two-dbs-new-keys", two, ["C 1 use-db a ta", "C 1 set ka 1", "C 1 use-db b tb", "C 1 set kb 1", "C 1 set ka 2", "PUMP"]),
              ("two-dbs-snapshot", two + ["C 1 use-db a ta", "C 1 set ka 1", "C 1 use-db b tb", "C 1 set kb 1", "PUMP"], ["C 1 snapshot false a|b", "PUMP", "SNAP"]),
              ("restart-twice", A_SNAP + w1 + ["RESTART"] + AFTER, ["RESTART"]),
              ("increment-and-remove", A_SNAP, ["C 1 use-db a ta", "C 1 increment n", "C 1 remove n", "C 1 set m 1", "PUMP"])]
    return S

META_FILES = ("is-oplog.valid", "keys-nun.keys", "oplog-nun.op")

def parse_strace16(path, datadir):
    """file operations inside the MARK window, for every file of the data directory (seeks followed)"""
    from checks.c11 import unhex_marker
    ops = []; fds = {}; inside = False
    unhex = lambda t: bytes(int(x, 16) for x in re.findall(r"\\x([0-9a-f]{2})", t))
    dec = lambda t: unhex(t).decode() if "\\x" in t else t
    for line in open(path, errors="replace"):
        line = line.strip()
        m = re.match(r"^(\d+)\s+(.*)$", line)
        if m: line = m.group(2)
        mk = unhex_marker(line)
        if "NVHMARK" in mk:
            inside = "begin" in mk; continue
        mo = re.match(r'openat\(AT_FDCWD, "([^"]*)", ([A-Z_|0-9]+)(?:, [0-7]+)?\)\s+= (-?\d+)', line)
        if mo:
            pth = dec(mo.group(1)); fd = int(mo.group(3))
            if fd >= 0 and pth.startswith(datadir + "/"):
                rel = pth[len(datadir) + 1:]; flags = mo.group(2)
                fds[fd] = dict(path=rel, append="O_APPEND" in flags, pos=0)
                if inside and "O_CREAT" in flags: ops.append(("creat?", rel, 0, b""))
                if inside and "O_TRUNC" in flags: ops.append(("trunc", rel, 0, b""))
            elif fd >= 0: fds.pop(fd, None)
            continue
        mo = re.match(r"close\((\d+)\)", line)
        if mo: fds.pop(int(mo.group(1)), None); continue
        mo = re.match(r"lseek\((\d+), (-?\d+), (SEEK_\w+)\)\s+= (\d+)", line)
        if mo and int(mo.group(1)) in fds:
            fds[int(mo.group(1))]["pos"] = int(mo.group(4)); continue
        if not inside: continue
        mo = re.match(r'write\((\d+), "((?:\\x[0-9a-f]{2})*)", (\d+)\)\s+= (\d+)', line)
        if mo and int(mo.group(1)) in fds:
            f = fds[int(mo.group(1))]; data = unhex(mo.group(2))
            if f["append"]: ops.append(("append", f["path"], 0, data))
            else:
                ops.append(("pwrite", f["path"], f["pos"], data)); f["pos"] += len(data)
            continue
        mo = re.match(r'pwrite64\((\d+), "((?:\\x[0-9a-f]{2})*)", (\d+), (\d+)\)\s+= (\d+)', line)
        if mo and int(mo.group(1)) in fds:
            ops.append(("pwrite", fds[int(mo.group(1))]["path"], int(mo.group(4)), unhex(mo.group(2)))); continue
        mo = re.match(r'rename\("([^"]*)", "([^"]*)"\)\s+= 0', line)
        if mo:
            a, b = dec(mo.group(1)), dec(mo.group(2))
            if a.startswith(datadir + "/"): ops.append(("rename", a[len(datadir) + 1:], 0, b[len(datadir) + 1:].encode()))
            continue
        mo = re.match(r'unlink\("([^"]*)"\)\s+= 0', line)
        if mo:
            a = dec(mo.group(1))
            if a.startswith(datadir + "/"): ops.append(("unlink", a[len(datadir) + 1:], 0, b""))
    return ops

def decode_keys(buf):
    """bincode HashMap<String,u64> -> sorted 'k=id,...' or None"""
    try:
        n = struct.unpack_from("<Q", buf, 0)[0]; off = 8; items = []
        for _ in range(n):
            l = struct.unpack_from("<Q", buf, off)[0]; off += 8
            k = buf[off:off + l]; off += l
            if len(k) != l: return None
            v = struct.unpack_from("<Q", buf, off)[0]; off += 8
            items.append((v, k))
        return ",".join(f"{core.esc(k, sp=True)}={v}" for v, k in sorted(items))
    except struct.error:
        return None

def coarse_events(ops):
    """metadata writes as the model names them; each with the index (exclusive) of its last system call"""
    ev = []; i = 0
    while i < len(ops):
        k, f, off, d = ops[i]
        if f == "is-oplog.valid" and k in ("pwrite", "append") and d: ev.append((f"X flag {d[0]}", i + 1))
        elif f == "is-oplog.valid" and k == "unlink": ev.append(("X rmflag", i + 1))
        elif f == "oplog-nun.op" and k == "append":
            if len(d) == 25:
                t, kk, dd = struct.unpack("<QQQ", d[:24]); ev.append((f"X append {t},{kk},{dd},{d[24]}", i + 1))
            else: ev.append((f"X append-partial {len(d)}", i + 1))
        elif f == "oplog-nun.op" and k == "unlink": ev.append(("X rmoplog", i + 1))
        elif f == "keys-nun.keys" and k == "unlink": ev.append(("X rmkeys", i + 1))
        elif f == "oplog-nun.op" and k == "rename": ev.append(("X rotate", i + 1))
        elif f == "keys-nun.keys" and k in ("pwrite", "append"):
            j = i; buf = bytearray()
            while j < len(ops) and ops[j][1] == "keys-nun.keys" and ops[j][0] in ("pwrite", "append"):
                o = ops[j][2]; dd = ops[j][3]
                if len(buf) < o: buf.extend(b"\0" * (o - len(buf)))
                buf[o:o + len(dd)] = dd; j += 1
            ev.append((f"X keys {decode_keys(bytes(buf))}", j)); i = j; continue
        i += 1
    return ev

def crash_stage(spec, tier, only=None):
    from checks.c11 import resolve_creates, apply_ops
    from vlib.runner import Failure
    work = os.path.join(core.SCRATCH, f"c16crash_{os.getpid()}"); shutil.rmtree(work, ignore_errors=True); os.makedirs(work)
    known_classes = {k["class"] for k in core.load_known() if k["property"] == "C16" and k["status"] == "known"}
    def one(ix_sc):
        ix, (name, pre, win) = ix_sc
        d = os.path.join(work, f"s{ix}"); os.makedirs(d)
        lines = SETUP + pre + ["COPYDIR pre", "MARK begin"] + win + ["MARK end"]
        script = os.path.join(d, "script"); open(script, "w").write("\n".join(lines) + "\n")
        env = dict(core.ENV, NVH_DIR=d); env.update(spec.impl_env)
        tr = os.path.join(d, "trace")
        p = subprocess.run(["strace", "-f", "-xx", "-s", "4000000", "-e", "trace=openat,write,pwrite64,rename,unlink,close,lseek", "-o", tr, core.NVH, "run", script],
                           env=env, stdout=subprocess.PIPE, stderr=subprocess.PIPE, text=True, timeout=600)
        out1 = [l for l in p.stdout.split("\n") if l]
        m = next((l for l in out1 if l.startswith("# copied ")), None)
        if not m: return dict(name=name, error="harness did not reach the window: " + p.stderr[-300:])
        _, _, datadir, predir = m.split(" ")
        ops = resolve_creates([o for o in parse_strace16(tr, datadir)], predir)
        ops = [o for o in ops if o[0] != "trunc"]
        events = coarse_events(ops)
        # every prefix of the system-call sequence -> a directory -> the real start-up
        s2 = []
        for n in range(len(ops) + 1):
            dest = os.path.join(d, f"p{n}")
            try: apply_ops(predir, ops[:n], dest)
            except Exception as e: return dict(name=name, error=f"cannot rebuild prefix {n}: {e}")
            s2.append(f"LOADDIR {dest}")
        script2 = os.path.join(d, "script2"); open(script2, "w").write("\n".join(s2) + "\n")
        p2 = subprocess.run([core.NVH, "run", script2], env=env, stdout=subprocess.PIPE, stderr=subprocess.PIPE, text=True, timeout=600)
        out2 = [l for l in p2.stdout.split("\n") if l]
        can = core.canon_case(out1 + [re.sub(r"^> LOADDIR .*/p(\d+)$", r"> LOADDIR p\1", l) for l in out2])
        c1, c2 = can[:len(out1)], can[len(out1):]
        # model: the same script, then the start-up after every number of metadata writes
        mlines = []
        snap_lines = [l for l in out1 if l.startswith("@ SNAP")]; si = 0
        for l in lines:
            if l.startswith("SNAP"):
                mlines.append(snap_lines[si][2:] if si < len(snap_lines) else l); si += 1
            else: mlines.append(l)
        mlines += [f"CRASHMETA {n}" for n in range(len(events) + 1)]
        mscript = os.path.join(d, "mscript"); open(mscript, "w").write("\n".join(mlines) + "\n")
        mo = subprocess.run([core.MODEL], stdin=open(mscript), stdout=subprocess.PIPE, text=True, timeout=600).stdout.split("\n")
        mc = core.canon_case([l for l in mo if l])
        msteps = core.parse_steps(mc)
        inwin = False; mx = []
        for (inp, rest, dump) in msteps:
            if inp.startswith("MARK begin"): inwin = True; continue
            if inp.startswith("MARK end"): inwin = False
            if inwin: mx += [x for x in rest if x.startswith("X ")]
        mloads = [[x for x in rest if x[:2] in ("G ", "O ", "R ")] for (inp, rest, dump) in msteps if inp.startswith("CRASHMETA")]
        # the implementation's events in canonical ids: re-canonicalise through the table of the run
        tbl = {}
        for a, b in zip(out1, c1):
            for x, y in zip(core.OPID.findall(a), re.findall(r"#\d{4}", b)): tbl[x] = y
        iev = [core.OPID.sub(lambda mm: tbl.get(mm.group(0), mm.group(0)), e) for e, _ in events]
        res = dict(name=name, nops=len(ops), events=iev, model_events=mx, trace_equal=(iev == mx), prefixes=[], intent_src=c1)
        isteps = core.parse_steps(c2)
        bound = {idx: n for n, (_, idx) in enumerate(events, start=1)}; bound[0] = 0
        for n, (inp, rest, dump) in enumerate(isteps):
            got = [x for x in rest if x[:2] in ("G ", "O ", "R ")]
            agree = None
            if n in bound and bound[n] < len(mloads):
                agree = (mloads[bound[n]] == [re.sub(r"^R PANIC restart.*", "R PANIC restart", x) for x in got])
            res["prefixes"].append(dict(n=n, lines=got, model_agrees=agree, done=[core.esc(str(o[:3]).encode(), sp=True)[:100] for o in ops[:n]][-3:]))
        shutil.rmtree(d, ignore_errors=True)
        return res
    with ThreadPoolExecutor(max_workers=core.JOBS) as ex:
        results = list(ex.map(one, enumerate([sc for sc in crash_scenarios(tier) if only is None or only in sc[0]])))
    shutil.rmtree(work, ignore_errors=True)
    obligations = []; failures = []; evaluations = 0; unsafe = {}; samples = []
    for r in results:
        if "error" in r:
            obligations.append((f"crash scenario {r['name']}", False, r["error"])); continue
        obligations.append((f"crash scenario {r['name']}: metadata writes = model trace", r["trace_equal"],
                            "" if r["trace_equal"] else f"system calls {r['events']} vs model {r['model_events']}"))
        bad = [p["n"] for p in r["prefixes"] if p["model_agrees"] is False]
        obligations.append((f"crash scenario {r['name']}: start-up after each write = model", not bad, f"prefixes {bad} differ" if bad else ""))
        # intent from the run itself
        intent = {}
        for x in r["intent_src"]:
            m = re.match(r"P rp (\S+) (.*)", x)
            if not m: continue
            op, msg = m.group(1), core.unesc(m.group(2)).decode("utf-8", "replace"); q = msg.split(" ")
            if q[0] == "create-db": intent.setdefault(op, []).append((q[1], None, 2))
            elif q[0] == "replicate-snapshot":
                for dbn in q[1].split("|"): intent.setdefault(op, []).append((dbn, None, 3))
            elif q[0] in ("replicate", "replicate-increment"): intent.setdefault(op, []).append((q[1], q[2], 0))
            elif q[0] == "replicate-remove": intent.setdefault(op, []).append((q[1], q[2], 1))
        for p in r["prefixes"]:
            evaluations += 1
            cls = None; detail = ""
            if any(x.startswith("R PANIC") for x in p["lines"]):
                cls = "start-fails-after-crash"; detail = [x for x in p["lines"] if x.startswith("R PANIC")][0][:200]
            else:
                mt = parse_meta(p["lines"]); names = list(mt["idname"].values())
                for (t, k, dd, o) in mt["recs"]:
                    if not (t.startswith("#") or re.fullmatch(r"1[0-9]{18}", t) or t == "0"):
                        cls = "log-is-not-a-sequence-of-records"; detail = f"record (time {t}, key id {k}, db id {dd}, kind {o}) is no record any operation wrote"
                        break
                    want = intent.get(t)
                    if not want: continue
                    dbname = mt["idname"].get(dd); ok = False; dbok = False
                    for (wdb, wkey, wkind) in want:
                        if dbname == wdb: dbok = True
                        if dbname == wdb and (wkey is None or mt["keysmap"].get(k) == core.esc(wkey, sp=True)) and wkind == (o if o <= 3 else 0): ok = True
                    if not ok:
                        cls = "record-key-decodes-to-something-else" if dbok else ("record-of-vanished-database" if all(w[0] not in names for w in want) else "record-database-decodes-to-something-else")
                        detail = f"record (op {t}, key id {k}, db id {dd}, kind {o}) was written for {want} but decodes to db {dbname!r} key {mt['keysmap'].get(k)!r}"
                        break
            if cls:
                unsafe.setdefault(cls, []).append((r["name"], p["n"]))
                f = Failure(cls + "-after-crash" if not cls.endswith("after-crash") else cls, f"scenario {r['name']}, kill after {p['n']} of {r['nops']} system calls: {detail}")
                f.noshrink = True
                f.case = [f"# crash scenario {r['name']}: kill the node after {p['n']} of the {r['nops']} file system calls of the window, then start it", f"# last calls done: {p['done']}",
                          f"# {detail}"] + r.get("script", [])
                failures.append(f)
        samples.append(dict(scenario=r["name"], writes=r["events"][:6], system_calls=r["nops"]))
    cov = dict(crash_scenarios=len(results), crash_points=evaluations, unsafe_crash_points={k: len(v) for k, v in unsafe.items()}, crash_samples=samples[:4],
               crash_rule="every prefix of the real system-call sequence (strace) of a window of commands — key registration, oplog append, keys snapshot, start-up — applied to a copy of the data directory and started by the real start-up code; the metadata writes are compared, in order, with the model's trace and the start-up after each write with the model's")
    return dict(obligations=obligations, failures=failures, evaluations=evaluations, coverage=cov)

SPEC = C16()
