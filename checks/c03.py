"""C03 — watchers get every committed change, only committed changes, and end up current (sequential part)."""
import re, itertools
from vlib import core
from vlib.runner import Spec, Failure
from checks.c02 import entries

SETUP = ["RESET", "SESS 1", "C 1 auth adm pw", "C 1 create-db t tok", "C 1 use-db t tok", "SESS 2", "C 2 use-db t tok",
         "SESS 3", "C 3 use-db t tok", "SESS 4", "C 4 use-db t tok"]

def alphabet():
    al = []
    for s in (3, 4):
        al += [f"C {s} watch a", f"C {s} watch b", f"C {s} unwatch a", f"C {s} unwatch-all", f"CLOSE {s}\nSESS {s}\nC {s} use-db t tok"]
    al += ["C 1 set a x", "C 2 set a y z", "C 2 set-safe a 0 s0", "C 2 set-safe a 1 s1", "C 2 set-safe a 5 s5", "C 1 increment a", "C 1 increment n", "C 1 remove a",
           "C 1 set b q", "C 1 replicate t a -1 rv", "C 1 replicate-remove t a", "C 1 replicate-increment t n 2", "C 2 set $$sec 1", "C 1 set-safe b 0 w"]
    return al

def note_key(line):
    """(kind, key, rest) of a notification line pushed to a subscriber"""
    t = core.unesc(line).decode("utf-8", "replace").rstrip("\n")
    p = t.split(" ")
    if p[0] in ("changed", "changed-version", "removed") and len(p) >= 2: return p[0], p[1], " ".join(p[2:])
    return None

class C03(Spec):
    pid = "C03"
    lean_module = "NunVerif.Props.C03Notify"
    theorems = ["Nun.C03_changed_fanout_reaches_every_subscriber", "Nun.C03_removed_fanout_reaches_every_subscriber", "Nun.C03_write_accepted", "Nun.C03_write_refused", "Nun.C03_remove_notifies", "Nun.C03_increment_accepted", "Nun.C03_increment_refused",
                "Nun.C03_other_clients_cannot_touch", "Nun.C03_unsubscribe", "Nun.C03_ends_current", "Nun.watch_nodup", "Nun.unwatch_nodup"]
    rule = ("two writer sessions and two subscriber sessions on one database: all sequences of length L (3 quick / 4 thorough) over {watch a, watch b, unwatch a, unwatch-all, disconnect+reconnect} per subscriber and "
            "{set, set-safe accepted/refused, increment ok/non-numeric, remove, replicated set/remove/increment, refused secure-key write} per writer, plus seeded random sequences of 6-20 operations (a quarter of them on a database with the `newer` strategy, and all sequences of length 3 / 4 of stale and current versioned writes there), plus all sequences of length 2 behind a DEAD subscriber (a session that watched the keys first, selected another database and closed: its senders stay registered and every send to them fails); "
            "the oracle keeps its own subscription table (from the watch/unwatch/unwatch-all/disconnect commands that succeeded) and, for every command, compares the lines pushed to each subscriber with "
            "exactly one changed+changed-version pair (committed value) / one removed line per subscription of the mutated key, nothing otherwise; at the end the last changed-version a subscriber holds for a key it still watches equals the stored value. "
            "non-trivial = at least one notification delivered and one unsubscribe; distinct by trace hash. SEQUENTIAL: one command at a time (lock-level interleavings: schedule stage)")
    assumptions = ["one command at a time on the node; the interleaving of two commands' lock regions is not explored by this check"]

    def extra_stage(self, tier, seed):
        """lock-level interleavings: a subscription survives other clients' watch / unwatch, a committed write reaches every subscriber once,
        and the highest-versioned notification a subscriber holds is the current value"""
        from vlib import sched
        base = SETUP + ["SESS 5", "C 5 use-db t tok", "C 1 set a 0", "C 1 set b 0"]
        tail = ["C 1 set a fin", "C 1 set b finb", "C 1 get-safe a"]
        w45 = base + ["C 4 watch a", "C 5 watch a"]
        P = [("watch-vs-other-unwatch", base + ["C 5 watch a"], (4, "watch a"), (5, "unwatch a"), tail),
             ("unwatch-vs-other-unwatch", w45, (4, "unwatch a"), (5, "unwatch a"), tail),
             ("unwatch-all-vs-other-watch", base + ["C 4 watch a", "C 4 watch b"], (4, "unwatch-all"), (5, "watch a"), tail),
             ("watch-vs-watch-same-key", base, (4, "watch a"), (5, "watch a"), tail),
             ("watch-vs-watch-other-key", base, (4, "watch a"), (5, "watch b"), tail),
             ("write-vs-unwatch", w45, (1, "set a X"), (4, "unwatch a"), tail),
             ("write-vs-watch", base + ["C 5 watch a"], (1, "set a X"), (4, "watch a"), tail),
             ("write-vs-write", w45, (1, "set a A"), (2, "set a B"), ["C 1 get-safe a"]),
             ("cas-vs-cas", w45, (1, "set-safe a 1 A"), (2, "set-safe a 1 B"), ["C 1 get-safe a"]),
             ("write-vs-remove", w45, (1, "set a A"), (2, "remove a"), ["C 1 get-safe a"]),
             ("increment-vs-increment", w45, (1, "increment a"), (2, "increment a 10"), ["C 1 get-safe a"])]
        def highest(name, o, sch, trace):
            """once writes stop, the highest-versioned changed-version line a subscriber holds for `a` carries the stored value"""
            fs = []
            state = {m.group(1): (int(m.group(2)), m.group(3)) for d in o[4] for m in [re.match(r"D k t (\S+) ver=(-?\d+) st=[^D] .* v=(.*)", d)] if m}
            still = {int(x) for d in o[4] for m in [re.match(r"D w t a (.*)", d)] if m for x in m.group(1).split(",") if x.isdigit()}
            for sid, lines in o[2]:
                if sid not in still: continue        # the rule speaks of a subscriber, i.e. while it is subscribed
                best = None
                for l in lines:
                    t = core.unesc(l).decode("utf-8", "replace").rstrip("\n").split(" ", 3)
                    if t[0] == "changed-version" and t[1] == "a" and len(t) == 4 and int(t[2]) >= 0:
                        if best is None or int(t[2]) >= best[0]: best = (int(t[2]), t[3])
                if best and "a" in state and not name.startswith("increment") and "remove" not in name and state["a"][1] != core.esc(best[1].encode()):
                    fs.append(Failure(f"highest-versioned-notification-is-not-current:{name}", f"schedule {sch}: subscriber {sid} holds v{best[0]} {best[1]!r}, stored {state['a']}"))
            return fs
        return sched.stage("C03", P, tier, seed, parts=("pushes-multiset", "later-replies", "state"), extra_oracle=highest)

    def corpus(self):
        return [("double-watch", SETUP + ["C 3 watch a", "C 3 watch a", "C 1 set a x", "C 3 unwatch a", "C 1 set a y"])]

    def generate(self, tier, seed):
        cases = []
        al = alphabet()
        L = 3 if tier == "quick" else 4
        pre = ["C 3 watch a", "C 4 watch a", "C 4 watch b"]
        small = [x for x in al if not x.startswith("C 1 replicate") and "$$" not in x]
        for seq in itertools.product(small, repeat=L):
            c = list(SETUP) + pre
            for x in seq: c += x.split("\n")
            c += ["C 1 set a fin", "C 1 get-safe a"]
            cases.append(c)
        # a DEAD subscriber ahead of the live ones: session 6 watched a and b first, then selected another database and closed —
        # its unwatch-all cleaned the other database only, its senders stay registered here and every send to them fails;
        # the live subscribers behind it must still get everything
        dead = ["RESET", "SESS 1", "C 1 auth adm pw", "C 1 create-db t tok", "C 1 create-db u tk2", "C 1 use-db t tok", "SESS 2", "C 2 use-db t tok",
                "SESS 6", "C 6 use-db t tok", "C 6 watch a", "C 6 watch b", "SESS 3", "C 3 use-db t tok", "SESS 4", "C 4 use-db t tok"] + pre + ["C 6 use-db u tk2", "CLOSE 6"]
        for seq in itertools.product(small, repeat=2):
            c = list(dead)
            for x in seq: c += x.split("\n")
            c += ["C 1 set a fin", "C 1 get-safe a"]
            cases.append(c)
        # a SLOW subscriber: session 3 stops reading (HOLD) while more than 100 lines are pushed to it — the queue of a connection holds 100
        # lines plus one per sender, and every push is made on a clone of the stored sender, so nothing may be lost: at RELEASE the subscriber
        # has every notification, in order; the other subscriber (4) reads all along
        tails = [["C 1 remove a", "C 1 set a again", "C 1 remove a"], ["C 1 remove a", "C 1 remove a"], ["C 1 increment a", "C 2 set-safe a 0 stale", "C 1 remove a", "C 1 increment a"],
                 ["C 1 replicate-remove t a", "C 1 replicate t a -1 rv", "C 1 replicate-remove t a"]]
        for n_w in ((52, 70) if tier == "quick" else (49, 50, 51, 52, 60, 100, 150)):
            for tl in tails:
                c = list(SETUP) + ["C 3 watch a", "C 4 watch a", "HOLD 3"] + [f"C {1 + i % 2} set a w{i}" for i in range(n_w)] + tl + ["RELEASE 3", "C 1 set a fin", "C 1 get-safe a"]
                cases.append(c)
        # the same subscribers on a database with the `newer` strategy: a stale versioned write is not refused there but RESOLVED — the stored value
        # changes through `try_resolve_conflict_response`, a different writer than an accepted write's, and the subscribers must hear of it all the same
        newer = [x + " newer" if x == "C 1 create-db t tok" else x for x in SETUP]
        stale = ["C 2 set-safe a 0 s0", "C 2 set-safe a 1 s1", "C 1 set a x", "C 1 replicate t a 0 rv", "C 1 increment a", "C 1 remove a", "C 3 unwatch a", "C 3 watch a"]
        for seq in itertools.product(stale, repeat=3 if tier == "quick" else 4):
            cases.append(newer + pre + ["C 1 set a 0", "C 1 set a 1", "C 1 set a 2"] + list(seq) + ["C 1 set a fin", "C 1 get-safe a"])
        rng = core.XorShift(seed)
        for i in range(1500 if tier == "quick" else 30000):
            c = list(newer if i % 4 == 3 else SETUP)
            for _ in range(6 + rng.below(15)): c += rng.choice(al).split("\n")
            c += ["C 1 get-safe a", "C 1 get-safe b"]
            cases.append(c)
        return cases

    def nontrivial(self, case, impl):
        t = "\n".join(impl)
        return ("\nM 3 " in t or "\nM 4 " in t) and ("unwatch" in t or "> CLOSE" in t)

    def oracle(self, case, impl):
        fails = []
        subs = {3: set(), 4: set()}            # the oracle's own subscription table
        held = set(); owed = {3: [], 4: []}   # a subscriber on HOLD is owed its notifications until RELEASE
        last = {3: {}, 4: {}}                  # last changed-version payload per key
        prev = {}
        for (inp, rest, dump) in core.parse_steps(impl):
            cur = entries(dump) if dump else prev
            r = next((x for x in rest if x.startswith("R ")), "R ?")
            if r.startswith("R PANIC"): return [Failure("panic", f"{inp}: {r[:160]}")]
            p = inp.split(" ")
            got = {3: [], 4: []}
            for x in rest:
                m = re.match(r"M (\d+) (.*)", x)
                if m and int(m.group(1)) in got:
                    nk = note_key(m.group(2))
                    if nk: got[int(m.group(1))].append(nk)
            expect = {3: [], 4: []}
            if p[0] == "CLOSE" and int(p[1]) in subs: subs[int(p[1])] = set(); last[int(p[1])] = {}
            elif p[0] == "C":
                sid = int(p[1]); cmd = p[2] if len(p) > 2 else ""
                ok = (r == "R ok")
                if cmd == "watch" and sid in subs and ok:
                    if p[3] not in subs[sid]: last[sid].pop(p[3], None)     # a new subscription holds nothing yet
                    subs[sid].add(p[3])
                elif cmd == "unwatch" and sid in subs and ok: subs[sid].discard(p[3]); last[sid].pop(p[3], None)
                elif cmd == "unwatch-all" and sid in subs and ok: subs[sid] = set(); last[sid] = {}
                elif cmd in ("set", "set-safe", "increment", "remove", "replicate", "replicate-remove", "replicate-increment"):
                    key = p[4] if cmd.startswith("replicate") else p[3]
                    before, after = prev.get(key), cur.get(key)
                    committed = ok and after != before if cmd not in ("remove", "replicate-remove") else ok
                    if ok and cmd in ("set", "set-safe", "increment", "replicate", "replicate-increment"):
                        val = core.unesc(after["v"]).decode("utf-8", "replace") if after else None
                        for s in subs:
                            if key in subs[s]:
                                expect[s] += [("changed", key, val), ("changed-version", key, None)]
                    elif ok and cmd in ("remove", "replicate-remove"):
                        for s in subs:
                            if key in subs[s]: expect[s].append(("removed", key, ""))
            if p[0] == "HOLD": held.add(int(p[1]))
            for s in (3, 4):
                if s in held and not (p[0] == "RELEASE" and int(p[1]) == s):
                    owed[s] += [(k, key, None) for (k, key, _) in expect[s]]; expect[s] = []       # (the payloads are compared when they were current only)
            if p[0] == "RELEASE":
                s = int(p[1]); held.discard(s)
                if s in expect: expect[s] = owed[s]; owed[s] = []
                g = got.get(s, [])
                if [x[:2] for x in g] != [x[:2] for x in expect.get(s, [])]:
                    lost = len(expect.get(s, [])) - len(g)
                    fails.append(Failure("slow-subscriber-lost-notifications" if lost > 0 else "slow-subscriber-got-other-notifications",
                                         f"{inp}: subscriber {s} was owed {len(expect.get(s, []))} notifications, received {len(g)}; last owed {expect.get(s, [])[-3:]}, last received {g[-3:]}")); break
                prev = cur; continue
            for s in (3, 4):
                g = got[s]; e = expect[s]
                if len(g) != len(e):
                    cls = "notification-for-refused-or-unwatched" if len(g) > len(e) else "committed-change-not-notified"
                    if len(g) > len(e) and e: cls = "notified-more-than-once"
                    fails.append(Failure(cls, f"{inp}: subscriber {s} (watching {sorted(subs[s])}) got {g}, expected {e}")); break
                for (gk, gkey, grest), (ek, ekey, eval_) in zip(g, e):
                    if gk != ek or gkey != ekey:
                        fails.append(Failure("wrong-notification", f"{inp}: subscriber {s} got {g}, expected {e}")); break
                    if ek == "changed" and eval_ is not None and grest != eval_:
                        fails.append(Failure("notification-carries-uncommitted-value", f"{inp}: subscriber {s} got {grest!r}, stored {eval_!r}")); break
                    if ek == "changed-version":
                        after = cur.get(gkey)
                        if after is not None and p[2] not in ("increment", "replicate-increment"):
                            want = f"{after['ver']} {core.unesc(after['v']).decode('utf-8', 'replace')}"
                            if grest != want:
                                fails.append(Failure("notification-carries-uncommitted-value", f"{inp}: subscriber {s} got changed-version {grest!r}, stored {want!r}")); break
                        last[s][gkey] = grest
                    if ek == "removed": last[s].pop(gkey, None)
                if fails: break
            if fails: break
            prev = cur
        if not fails:
            # ends up current: for a key still watched and written with set/set-safe, the last changed-version equals the stored entry
            for s in (3, 4):
                for k, payload in last[s].items():
                    if k in subs[s] and k in prev and prev[k]["st"] != "D":
                        want = core.unesc(prev[k]["v"]).decode("utf-8", "replace")
                        if not payload.endswith(" " + want) and payload.split(" ", 1)[-1] != want:
                            fails.append(Failure("subscriber-not-current", f"subscriber {s} last holds {payload!r} for {k}, stored {want!r} v{prev[k]['ver']}"))
        return fails

SPEC = C03()
