"""Shared single-node KV script generation."""
from vlib import core

SETUP_ADMIN = ["RESET", "SESS 1", "C 1 auth adm pw", "C 1 create-db t tok{strat}", "C 1 use-db t tok"]

def setup(strategy="", second_session=True):
    s = [l.replace("{strat}", (" " + strategy) if strategy else "") for l in SETUP_ADMIN]
    if second_session: s += ["SESS 2", "C 2 use-db t tok"]
    return s

def kv_alphabet(keys=("a", "b"), values=("", "7", "a b"), sess=(1,), versions=(0, 1, 3), incs=(None, 5, -2),
                patterns=("a*", "*b", "a", "*", ""), snaps=True):
    al = []
    for s in sess:
        for k in keys:
            for v in values: al.append([f"C {s} set {k} {v}" if v != "" else f"C {s} set {k}"])
            for ver in versions: al.append([f"C {s} set-safe {k} {ver} x{ver}"])
            al.append([f"C {s} get {k}"]); al.append([f"C {s} get-safe {k}"]); al.append([f"C {s} remove {k}"])
            for i in incs: al.append([f"C {s} increment {k}" + (f" {i}" if i is not None else "")])
        for p in patterns: al.append([f"C {s} keys {p}" if p else f"C {s} keys"])
    if snaps:
        al.append(["C 1 snapshot false", "SNAP"]); al.append(["C 1 snapshot true", "SNAP"])
    return al

def product_cases(prefix, alphabet, length):
    import itertools
    for seq in itertools.product(alphabet, repeat=length):
        c = list(prefix)
        for item in seq: c += item
        yield c

def random_cases(prefix, alphabet, rng, n, minlen, maxlen):
    for _ in range(n):
        c = list(prefix)
        for _ in range(minlen + rng.below(maxlen - minlen + 1)): c += rng.choice(alphabet)
        yield c
