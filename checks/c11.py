"""C11 — a crash during a snapshot never damages previously persisted data.

Fault enumeration over the REAL system-call sequence of the snapshot (recorded with strace), every
prefix replayed onto a copy of the pre-snapshot directory and loaded by the real start-up code; the
Lean model produces the same operation sequence (compared call for call, bytes included) and the
same load result for every prefix."""
import os, re, sys, json, time, shutil, subprocess, glob
from concurrent.futures import ThreadPoolExecutor
from vlib import core
from vlib.core import log
from checks.c06 import dataset

PID = "C11"
LEAN_MODULE = "NunVerif.Props.C11Fix"
THEOREMS = ["Nun.C11_keys_file_never_without_values_file", "Nun.snapshotOps_keep_values", "Nun.applyOps_keeps", "Nun.C11_complete_is_post", "Nun.C11_prefix_zero_is_pre", "Nun.C11_finding_keys_before_values", "Nun.C11_finding_torn_inplace_update",
            "Nun.C11_finding_reclaim_deletes_first", "Nun.C11_witness_traces"]

SETUP = ["RESET", "SESS 1", "C 1 auth adm pw", "C 1 create-db t tok newer", "C 1 use-db t tok"]
L249 = "v" * 236   # value record 8+236+4 = 248 < buffer; with the next header crosses 250
L600 = "w" * 600

def scenarios(tier):
    """(name, commands before the snapshot, reclaim of the interrupted snapshot)"""
    S = []
    base = ["C 1 set a 1", "C 1 set bb 22", "C 1 set c h\\xc3\\xa9", "C 1 snapshot false", "SNAP"]
    S.append(("first-snapshot-new-keys", ["C 1 set a 1", "C 1 set bb 22"], False))
    S.append(("first-snapshot-reclaim", ["C 1 set a 1", "C 1 set bb 22"], True))
    S.append(("append-new-key", base + ["C 1 set d new"], False))
    S.append(("update-in-place", base + ["C 1 set a 1b"], False))
    S.append(("update-two-keys", base + ["C 1 set a 1b", "C 1 set c third"], False))
    S.append(("remove-key", base + ["C 1 remove bb"], False))
    S.append(("mixed", base + ["C 1 set a 1b", "C 1 remove bb", "C 1 set e fresh"], False))
    S.append(("reclaim-after-updates", base + ["C 1 set a 1b", "C 1 remove bb", "C 1 set e fresh"], True))
    S.append(("reclaim-unchanged", base, True))
    S.append(("big-value-new", base + [f"C 1 set big {L600}"], False))
    S.append(("buffer-boundary", base + [f"C 1 set k1 {L249}", "C 1 set k2 x"], False))
    S.append(("big-value-update", base + [f"C 1 set a {L600}"], False))
    S.append(("increment-persisted", base + ["C 1 increment a", "C 1 increment n"], False))
    # a key that was Updated when a reclaiming snapshot moved every record (a tombstone dropped before it) is updated again:
    # the in-place write must go to the record's NEW position
    S.append(("in-place-after-reclaim-moved-the-record", base + ["C 1 remove a", "C 1 snapshot false", "SNAP", "C 1 set c c2", "C 1 snapshot true", "SNAP", "C 1 set c c3", "C 1 set bb b3"], False))
    # the positions the in-place update relies on are rebuilt by the LOADER at start-up: after a restart, a key stored behind a tombstone
    # record (and behind a longer / shorter key) is updated and removed — the interrupted snapshot must still touch that key's record only
    re_open = ["RESTART", "SESS 1", "C 1 auth adm pw", "C 1 use-db t tok"]
    S.append(("update-after-restart-behind-a-tombstone", base + ["C 1 remove a", "C 1 snapshot false", "SNAP"] + re_open + ["C 1 set c c2", "C 1 set bb b2"], False))
    S.append(("remove-after-restart-behind-a-tombstone", base + ["C 1 set dddd 4", "C 1 remove bb", "C 1 snapshot false", "SNAP"] + re_open + ["C 1 remove c", "C 1 set dddd four", "C 1 set e new"], False))
    S.append(("update-after-restart-after-reclaim", base + ["C 1 remove a", "C 1 snapshot true", "SNAP"] + re_open + ["C 1 set c c2", "C 1 increment n"], False))
    # key names that are not ASCII: the in-place update computes its offset from the key's length in BYTES
    S.append(("in-place-update-of-multibyte-keys", ["C 1 set k\\xc3\\xa9y old", "C 1 set \\xe2\\x82\\xac 5", "C 1 snapshot false", "SNAP", "C 1 set k\\xc3\\xa9y new", "C 1 remove \\xe2\\x82\\xac", "C 1 set a 1b"], False))
    # entries written by the conflict code of an arbiter database (a key parked at the in-conflict version, the conflict's registry key)
    # go through the snapshot writer like any other: a NEW key must be appended, never written in place
    arb = ["C 1 create-db ta tk arbiter", "C 1 use-db ta tk", "SESS 3", "C 3 use-db ta tk", "C 3 arbiter", "C 1 set a 1", "C 1 set a 2", "C 1 set bb 22", "C 1 snapshot false", "SNAP"]
    S.append(("arbiter-conflict-on-new-key", arb + ["C 1 set-safe nw 0 x", "C 1 set-safe nw 0 y"], False))
    S.append(("arbiter-conflict-on-persisted-key", arb + ["C 1 set-safe a 0 stale"], False))
    if tier != "quick":
        S.append(("many-new-keys", base + [f"C 1 set n{i} value-{i}" for i in range(12)], False))
        S.append(("many-updates", base + ["C 1 set a u1", "C 1 set bb u2", "C 1 set c u3", "C 1 remove a"], False))
        S.append(("reclaim-big", base + [f"C 1 set big {L600}", "C 1 remove a"], True))
        S.append(("second-snapshot-after-reclaim", base + ["C 1 snapshot true", "SNAP", "C 1 set a z", "C 1 set q new"], False))
    return S

def script_for(pre, reclaim):
    return SETUP + pre + [f"C 1 snapshot {'true' if reclaim else 'false'}", "COPYDIR pre", "MARK begin", "SNAP", "MARK end"]

# ------------------------------------------------------------------ strace parsing
def parse_strace(path, datadir):
    """→ list of ops (kind, file, off, bytes) between the MARK lines, restricted to files in datadir"""
    ops = []; fds = {}; inside = False; pending = {}
    unhex = lambda s: bytes(int(x, 16) for x in re.findall(r"\\x([0-9a-f]{2})", s))
    for line in open(path, errors="replace"):
        line = line.strip()
        m = re.match(r"^(\d+)\s+(.*)$", line)
        if m: line = m.group(2)
        # resumed/unfinished calls: strace -f may split them; we run single-threaded at this point, tolerate simple lines only
        if "NVHMARK" in unhex_marker(line):
            inside = "begin" in unhex_marker(line)
            continue
        mo = re.match(r'openat\(AT_FDCWD, "([^"]*)", ([A-Z_|0-9]+)(?:, [0-7]+)?\)\s+= (-?\d+)', line)
        if mo:
            p = bytes(int(x, 16) for x in re.findall(r"\\x([0-9a-f]{2})", mo.group(1))).decode() if "\\x" in mo.group(1) else mo.group(1)
            fd = int(mo.group(3))
            if fd >= 0 and p.startswith(datadir + "/"):
                rel = p[len(datadir) + 1:]
                flags = mo.group(2)
                fds[fd] = dict(path=rel, append="O_APPEND" in flags, pos=0)
                if inside and "O_CREAT" in flags: ops.append(("creat?", rel, 0, b""))
            elif fd >= 0: fds.pop(fd, None)
            continue
        mo = re.match(r"close\((\d+)\)", line)
        if mo: fds.pop(int(mo.group(1)), None); continue
        if not inside: continue
        mo = re.match(r'write\((\d+), "((?:\\x[0-9a-f]{2})*)", (\d+)\)\s+= (\d+)', line)
        if mo and int(mo.group(1)) in fds:
            f = fds[int(mo.group(1))]; data = unhex(mo.group(2))
            if f["append"]: ops.append(("append", f["path"], 0, data))
            else:
                ops.append(("pwrite", f["path"], f["pos"], data)); f["pos"] += len(data)
            continue
        mo = re.match(r'pwrite64\((\d+), "((?:\\x[0-9a-f]{2})*)", (\d+), (\d+)\)\s+= (\d+)', line)
        if mo and int(mo.group(1)) in fds:
            f = fds[int(mo.group(1))]
            ops.append(("pwrite", f["path"], int(mo.group(4)), unhex(mo.group(2)))); continue
        mo = re.match(r'rename\("([^"]*)", "([^"]*)"\)\s+= 0', line)
        if mo:
            a, b = [bytes(int(x, 16) for x in re.findall(r"\\x([0-9a-f]{2})", s)).decode() for s in (mo.group(1), mo.group(2))]
            if a.startswith(datadir + "/"): ops.append(("rename", a[len(datadir) + 1:], 0, b[len(datadir) + 1:].encode()))
            continue
        mo = re.match(r'unlink\("([^"]*)"\)\s+= 0', line)
        if mo:
            a = bytes(int(x, 16) for x in re.findall(r"\\x([0-9a-f]{2})", mo.group(1))).decode()
            if a.startswith(datadir + "/"): ops.append(("unlink", a[len(datadir) + 1:], 0, b""))
            continue
    return ops

def unhex_marker(line):
    mo = re.match(r'write\(2, "((?:\\x[0-9a-f]{2})*)"', line)
    if not mo: return ""
    return bytes(int(x, 16) for x in re.findall(r"\\x([0-9a-f]{2})", mo.group(1))).decode(errors="replace")

def resolve_creates(ops, predir):
    """'creat?' becomes 'create' only when the file does not exist at that point"""
    existing = set(os.listdir(predir)); out = []
    for (k, f, off, d) in ops:
        if k == "creat?":
            if f not in existing: out.append(("create", f, 0, b"")); existing.add(f)
        else:
            if k == "rename":
                existing.discard(f); existing.add(d.decode())
            elif k == "unlink": existing.discard(f)
            out.append((k, f, off, d))
    return out

def mask_plan(lines):
    """operation ids inside the written bytes (key names `$conflicts_<key>_<op id>`, conflict notices) are the implementation's on one side
    and the model's on the other; same length, same order: masked"""
    out = []
    for l in lines:
        p = l.split(" ")
        if len(p) >= 4 and p[1] in ("append", "pwrite"): p[-1] = core.mask_hex_ids(p[-1])
        out.append(" ".join(p))
    return out

def op_text(op):
    k, f, off, d = op
    fe = core.esc(f, sp=True)
    if k == "create": return f"X create {fe}"
    if k == "append": return f"X append {fe} {d.hex()}"
    if k == "pwrite": return f"X pwrite {fe} {off} {d.hex()}"
    if k == "rename": return f"X rename {fe} {core.esc(d.decode(), sp=True)}"
    if k == "unlink": return f"X unlink {fe}"

def apply_ops(predir, ops, dest):
    shutil.rmtree(dest, ignore_errors=True); shutil.copytree(predir, dest)
    for (k, f, off, d) in ops:
        p = os.path.join(dest, f)
        if k == "create": open(p, "ab").close()
        elif k == "append":
            with open(p, "ab") as fh: fh.write(d)
        elif k == "pwrite":
            with open(p, "r+b") as fh:
                fh.seek(0, 2); size = fh.tell()
                if off > size: fh.write(b"\0" * (off - size))
                fh.seek(off); fh.write(d)
        elif k == "rename": os.replace(p, os.path.join(dest, d.decode()))
        elif k == "unlink": os.remove(p)

def snap_dataset(lines, db=None):
    """the live data of every user database, keys as `<db>/<key>` (operation ids inside key names masked)"""
    ds = dataset(lines)
    names = sorted(k for k in ds if k != "$admin")
    if not names: return None
    keys = {}
    for nm in names:
        for k, v in ds[nm][2].items(): keys[f"{nm}/{core.OPID.sub('#id', k)}"] = (core.OPID.sub("#id", v[0]), v[1])
    return (tuple(ds[nm][0] for nm in names), tuple(ds[nm][1] for nm in names), keys)

def safe_at(pre, post, got):
    """the property: every key persisted before has its old or its new value+version, nothing else appears"""
    if got is None: return "start-fails-or-database-missing"
    gid, gstrat, gkeys = got
    for k, v in pre[2].items():
        if k not in gkeys:
            if k in post[2]: return f"previously-persisted-key-missing:{k}"
            continue   # the interrupted snapshot removes it: absent is the state being written
        if gkeys[k] != v and gkeys[k] != post[2].get(k): return f"value-never-stored:{k}={gkeys[k][0][:20]!r} v{gkeys[k][1]}"
    for k, v in gkeys.items():
        if k not in pre[2] and (k not in post[2] or post[2][k] != v): return f"unknown-key-or-value:{k}={v[0][:20]!r}"
    return None

def classify(opsdone, allops, why):
    """signature of an unsafe crash point: WHERE in the operation sequence the crash fell, and — when the node does not even start from what
    the crash left (the recorded findings, except the reclaiming one, are about wrong VALUES, not about a start-up that fails) — that it did not"""
    c = classify_position(opsdone, allops, why)
    if why.startswith("start-fails") and not c.startswith("reclaim-deletes-old-values-first") and not c.startswith("other:"): return c + ":start-fails"
    return c

def classify_position(opsdone, allops, why):
    n = len(opsdone)
    kinds = [o[0] for o in allops]
    done_files = [(o[0], o[1]) for o in opsdone]
    if any(k == "unlink" and f.endswith(".values.old") for k, f in done_files) and not all_value_appends_done(opsdone, allops):
        return "reclaim-deletes-old-values-first"
    if any(k == "rename" and (f.endswith(".keys") or f.endswith(".values")) for k, f in done_files) and not all_value_appends_done(opsdone, allops):
        return "reclaim-deletes-old-values-first"
    # in-place update half done: version written, offset not
    if n > 0 and opsdone[-1][0] == "pwrite" and opsdone[-1][1].endswith(".keys") and len(opsdone[-1][3]) == 4 and n < len(allops):
        return "torn-in-place-update"
    if any(o[0] == "pwrite" and o[1].endswith(".keys") for o in opsdone) and not all_value_appends_done(opsdone, allops):
        return "in-place-update-before-values-flush"
    if any(o[0] == "append" and o[1].endswith(".keys") for o in opsdone) and not all_value_appends_done(opsdone, allops):
        return "keys-flushed-before-values"
    if any(o[1].endswith(".madadata") for o in opsdone) and n < len(allops):
        return "metadata-partial"
    return "other:" + why.split(":")[0]

def all_value_appends_done(opsdone, allops):
    total = sum(1 for o in allops if o[0] == "append" and o[1].endswith(".values"))
    done = sum(1 for o in opsdone if o[0] == "append" and o[1].endswith(".values"))
    return done == total

def main(tier, seed):
    t0 = time.time()
    for f in glob.glob(os.path.join(core.ROOT, "replays", f"{PID}-*")): os.remove(f)
    build = core.build_all(["nunmodel", LEAN_MODULE])
    obligations = []
    for e in build["extract_errors"]: obligations.append(("extract", False, e))
    if not build["extract_errors"]: obligations.append(("extract:locators", True, "all source locators matched"))
    mod_ok = build["cargo_ok"] and not any(m.startswith("NunVerif") for m in build.get("failed_modules", []))
    axioms = {}
    if mod_ok and THEOREMS:
        axioms, _ = core.lean_axioms(LEAN_MODULE, THEOREMS)
        ok_rc, det = core.lean_recheck(LEAN_MODULE)
        obligations.append((f"leanchecker {LEAN_MODULE}", ok_rc, det))
    for t in THEOREMS:
        ax = axioms.get(t)
        obligations.append((t, bool(mod_ok and ax is not None and set(ax) <= core.ALLOWED_AXIOMS), f"axioms {ax}" if mod_ok else "module does not compile"))
    hits = core.grep_forbidden(core.lean_files("Props") + core.lean_files("Proofs") + core.lean_files("Model"))
    obligations.append(("no sorry/admit/axiom/native_decide", not hits, "; ".join(hits[:5])))
    known = [k for k in core.load_known() if k["property"] == PID]
    known_classes = {k["class"] for k in known if k["status"] == "known"}
    work = os.path.join(core.SCRATCH, f"c11_{os.getpid()}"); shutil.rmtree(work, ignore_errors=True); os.makedirs(work)
    results = []   # per scenario
    violations = []; notes = []; disagreements = []; evaluations = 0; unsafe_points = []
    def run_scenario(ix_sc):
        ix, (name, pre, reclaim) = ix_sc
        d = os.path.join(work, f"s{ix}"); os.makedirs(d)
        script = os.path.join(d, "script"); 
        with open(script, "w") as f: f.write("\n".join(script_for(pre, reclaim)) + "\n")
        env = dict(core.ENV, NVH_DIR=d)
        tr = os.path.join(d, "trace")
        p = subprocess.run(["strace", "-f", "-xx", "-s", "4000000", "-e", "trace=openat,write,pwrite64,rename,unlink,close", "-o", tr, core.NVH, "run", script],
                           env=env, stdout=subprocess.PIPE, stderr=subprocess.PIPE, text=True, timeout=600)
        out = p.stdout.split("\n")
        m = next((l for l in out if l.startswith("# copied ")), None)
        if not m: return dict(name=name, error="harness did not reach the snapshot: " + p.stderr[-300:])
        _, _, datadir, predir = m.split(" ")
        ops = resolve_creates(parse_strace(tr, datadir), predir)
        # datasets before / after (from the harness dumps)
        steps = core.parse_steps([l for l in out if l])
        post = None; pre_ds = None
        for (inp, rest, dump) in steps:
            if inp.startswith("SNAP"): post = snap_dataset(dump)
        pre_ds = loaddump(predir)
        # model: operation plan + load after every prefix
        mscript = os.path.join(d, "mscript")
        lines = script_for(pre, reclaim)
        # the interrupted snapshot is the last SNAP of the script; earlier ones complete normally (with their observed key order)
        snap_lines = [l for l in out if l.startswith("@ SNAP")]
        mlines = []; si = 0
        for l in lines[:-3]:
            if l.startswith("SNAP"):
                mlines.append(snap_lines[si][2:] if si < len(snap_lines) else l); si += 1
            else: mlines.append(l)
        order = (snap_lines[-1][len("@ SNAP"):].strip() if snap_lines else "")
        mlines += [f"CRASHPLAN {order}"] + [f"CRASHLOAD {n} {order}" for n in range(len(ops) + 1)]
        with open(mscript, "w") as f: f.write("\n".join(mlines) + "\n")
        mo = subprocess.run([core.MODEL], stdin=open(mscript), stdout=subprocess.PIPE, text=True, timeout=600).stdout.split("\n")
        msteps = core.parse_steps([l for l in mo if l])
        plan = next((rest for (inp, rest, dump) in msteps if inp.startswith("CRASHPLAN")), [])
        mloads = [(rest, dump) for (inp, rest, dump) in msteps if inp.startswith("CRASHLOAD")]
        res = dict(name=name, reclaim=reclaim, nops=len(ops), ops=[op_text(o)[:160] for o in ops], trace_equal=(mask_plan(plan) == mask_plan([op_text(o) for o in ops])),
                   model_plan=[l[:160] for l in plan], prefixes=[])
        for n in range(len(ops) + 1):
            dest = os.path.join(d, f"p{n}")
            apply_ops(predir, ops[:n], dest)
            got_lines = loaddump_lines(dest)
            got = snap_dataset(got_lines) if "R PANIC restart" not in got_lines else None
            why = safe_at(pre_ds, post, got) if pre_ds is not None else None
            # previously persisted data exists only when an earlier snapshot completed — but a node that does not START from what the crash
            # left loses every database it had (the start-up loads them all or none): that is damage whatever this database held before
            if pre_ds is None and "R PANIC restart" in got_lines: why = "start-fails: the node does not start from the files the crash left"
            mrest, mdump = mloads[n] if n < len(mloads) else ([], [])
            mgot = snap_dataset(mdump) if "R PANIC restart" not in mrest else None
            agree = (strip_ops(got) == strip_ops(mgot))
            res["prefixes"].append(dict(n=n, unsafe=why, cls=classify(ops[:n], ops, why) if why else None, model_agrees=agree))
            shutil.rmtree(dest, ignore_errors=True)
        return res
    with ThreadPoolExecutor(max_workers=core.JOBS) as ex:
        results = list(ex.map(run_scenario, enumerate(scenarios(tier))))
    shutil.rmtree(work, ignore_errors=True)
    samples = []
    distinct = set()
    for r in results:
        if "error" in r:
            obligations.append((f"scenario {r['name']}", False, r["error"])); continue
        evaluations += len(r["prefixes"])
        if not r["trace_equal"]:
            disagreements.append(f"{r['name']}: the model's operation sequence differs from the recorded system calls")
            p = core.write_replay(PID, f"trace-{r['name']}", ["# real system calls:"] + r["ops"] + ["# model plan:"] + r["model_plan"])
        for pf in r["prefixes"]:
            distinct.add((r["name"], pf["n"]))
            if not pf["model_agrees"]: disagreements.append(f"{r['name']} prefix {pf['n']}: model and implementation load different datasets")
            if pf["unsafe"]: unsafe_points.append((r["name"], pf["n"], pf["cls"], pf["unsafe"], r["ops"][:pf["n"]]))
        samples.append(dict(scenario=r["name"], operations=r["ops"][:6], unsafe_prefixes=[p["n"] for p in r["prefixes"] if p["unsafe"]]))
    # classification against known findings
    by_cls = {}
    for (name, n, cls, why, opsdone) in unsafe_points: by_cls.setdefault(cls, []).append((name, n, why, opsdone))
    for k in known:
        if k["status"] == "known" and k["class"] in by_cls: print(f"KNOWN-FINDING: property={PID} {k['what']}")
        elif k["status"] == "known": notes.append(f"known finding {k['id']} did not reproduce")
    for cls, items in by_cls.items():
        if cls in known_classes: continue
        name, n, why, opsdone = items[0]
        p = core.write_replay(PID, cls.replace(":", "-"), [f"# crash after {n} operation(s) of the snapshot in scenario {name}: {why}"] + opsdone)
        violations.append((p, ""))
    # the snapshot also rewrites the global key map and sets the oplog-valid flag (snapshot_keys): those steps are enumerated
    # by C16's crash stage (pumped replication loop, so that keys are registered); a start that fails after a kill there is C11's too
    from checks.c16 import crash_stage, SPEC as S16
    ks = crash_stage(S16, tier, only="snapshot")
    obligations += [(f"key-map/flag steps: {o[0]}", o[1], o[2]) for o in ks["obligations"]]
    evaluations += ks["evaluations"]
    for f in ks["failures"]:
        if f.cls.startswith("start-fails") and not any("keymap-start-fails" in v[0] for v in violations):
            p = core.write_replay(PID, "keymap-start-fails-after-crash", f.case)
            violations.append((p, ""))
    broken = [o for o in obligations if not o[1]]
    if (broken or disagreements) and not violations:
        p = core.write_replay(PID, "tie", ["# no failing input found; broken:"] + [f"# {o[0]}: {o[2]}" for o in broken] + ["# " + d for d in disagreements[:10]])
        violations.append((p, " no-failing-input-found"))
    n_ob = len(obligations); n_ok = len([o for o in obligations if o[1]])
    cov = dict(obligations=n_ob, discharged=n_ok, checker_cmd=f"cd /verif/lean && lake build nunmodel {LEAN_MODULE}",
               trusted_base=["Lean 4.33 kernel", "strace (system-call recording)", "crash = prefix of the recorded system-call sequence (no torn write, no reordering)", "harness/nvh loaddump = the real start-up load"],
               obligation_list=[dict(name=o[0], ok=o[1], detail=o[2]) for o in obligations],
               evaluations=evaluations, distinct_nontrivial=len(distinct),
               rule="every prefix (0..N) of the real system-call sequence of one snapshot, for each scenario of a fixed family (new / updated / removed keys, values below, at and above the 250-byte writer buffer, reclaim on/off); each prefix is applied to a copy of the pre-snapshot directory and loaded by the real start-up code and by the Lean model; distinct = (scenario, prefix)",
               samples=samples[:4], traces_validated_against_impl=sum(1 for r in results if r.get("trace_equal")),
               scenarios=len(results), unsafe_crash_points=len(unsafe_points), unsafe_by_class={k: len(v) for k, v in by_cls.items()},
               disagreements=len(disagreements), exhaustive=True, notes=notes + disagreements[:5])
    core.write_evidence(PID, dict(property_id=PID, tier=tier, seed=seed, level="proof", coverage=cov,
        assumptions=["a crash keeps a prefix of the system-call sequence", "short reads only at end of file"], wall_s=round(time.time() - t0, 2), violations=len(violations)))
    for p, suffix in violations: print(f"VIOLATION property={PID} replay={p}{suffix}")
    log(f"[{PID}] {tier}: {len(results)} scenarios, {evaluations} crash points, {len(unsafe_points)} unsafe ({ {k: len(v) for k, v in by_cls.items()} }), "
        f"{len(disagreements)} disagreements, obligations {n_ok}/{n_ob}, {round(time.time() - t0, 1)}s")
    return 1 if violations else 0

def strip_ops(ds):
    if ds is None: return None
    return (ds[0], ds[1], ds[2])

def loaddump_lines(d):
    p = subprocess.run([core.NVH, "loaddump", d], env=core.ENV, stdout=subprocess.PIPE, stderr=subprocess.PIPE, text=True, timeout=120)
    if p.returncode != 0: return ["R PANIC restart"]
    return [l for l in p.stdout.split("\n") if l]

def loaddump(d):
    ls = loaddump_lines(d)
    if "R PANIC restart" in ls: return None
    return snap_dataset(ls)
