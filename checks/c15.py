"""C15 — pending-operation accounting is exact; acknowledgements are idempotent."""
import itertools, re
from vlib import core
from vlib.runner import Spec, Failure

OPS = [7, 8, 9]; NODES = ["A", "B", "C"]

def events(nops, nnodes):
    ev = []
    for o in OPS[:nops]:
        for s in NODES[:nnodes]:
            ev.append(f"REG {o} {s}"); ev.append(f"ACK {o} {s}")
    return ev

def cluster_stage(tier, seed):
    """C15 where pending operations are actually made: real elections in a simulated cluster (the scenarios of C07 — formation, forced
    elections on every node, the primary dying once and twice) with nodes whose bind address differs from the address their peers know them
    by; at the end of each, no node may hold a pending operation registered for ITSELF (nobody could acknowledge it)"""
    from vlib import cluster, netrunner
    from checks import c07
    S = [(n, f) for (n, f) in c07.scenarios("quick") if any(t in n for t in ("form", "force-n", "primary-dies"))]
    if tier == "quick": S = S[::4]
    fails = []; ran = 0
    for ix, (name, fn) in enumerate(S):
        net = cluster.Net(f"C15_cluster_{ix}", with_model=False)
        try:
            fn(net, core.XorShift(seed * 7919 + ix + 1))
            for f in netrunner.pending_rules(net):
                f.case = list(net.script); f.noshrink = True; fails.append(f)
            ran += 1
        except Exception as e:
            pass
        finally:
            net.close()
    return dict(obligations=[("cluster stage ran", ran > 0, f"{ran} of {len(S)} election scenarios")], failures=fails, evaluations=ran,
                coverage=dict(cluster_stage=dict(scenarios=ran, rule="no node holds a pending operation registered for itself after real elections (bind address != external address)")))

class C15(Spec):
    def extra_stage(self, tier, seed): return cluster_stage(tier, seed)

    pid = "C15"
    lean_module = "NunVerif.Props.C15Self"
    theorems = ["Nun.C15_ack_unknown_noop", "Nun.C15_ack_idempotent", "Nun.C15_ack_foreign_keeps_counts",
                "Nun.C15_counts", "Nun.C15_exact", "Nun.C15_drained", "Nun.C15_stuck_without_nodup",
                "Nun.C15_never_waits_for_itself", "Nun.replSend_notWaitingForSelf", "Nun.replStep_notWaitingForSelf", "Nun.ack_notWaitingFor", "Nun.register_notWaitingFor"]
    rule = ("exhaustive: every sequence of exactly L events over {REG,ACK} x ops x nodes through the public "
            "register_pending_opp / acknowledge_pending_opp, and the acknowledgement as the `ack` command on an authenticated link with the node's role changing in between (concedes an election, told of another primary, wins again) (a sequence covers all its prefixes: the pending table "
            "is dumped and compared with the Lean model after every event); plus seeded random sequences over 3 ops x 3 nodes. "
            "non-trivial = contains a registration and an acknowledgement that is duplicate, early or foreign; distinct by hash of the implementation trace")
    assumptions = ["register_pending_opp and acknowledge_pending_opp each hold pending_opps.write() throughout (one atomic step each)"]

    def corpus(self):
        return [("stuck-without-nodup", ["RESET", "REG 1 A", "REG 1 A", "ACK 1 A"]),
                ("split-op", ["RESET", "REG 1 A", "ACK 1 A", "REG 1 B", "ACK 1 A", "ACK 1 B", "ACK 1 B"])]

    def generate(self, tier, seed):
        cases = []
        L = 5 if tier == "quick" else 6
        ev = events(2, 2)
        for seq in itertools.product(ev, repeat=L):
            cases.append(["RESET"] + list(seq))
        # the acknowledgement as it really arrives: the `ack <op> <node>` command on an authenticated link, with the node's role changing
        # in between (it concedes an election, is told of another primary, wins again) — membership is stable, the count must still drain
        pre = ["RESET primary,name=n1,pid=100", "SESS 1", "C 1 auth adm pw"]
        roles = ["C 1 election candidate 1 nz", "C 1 set-primary nz", "C 1 election win", "ELECT"]
        acks = lambda o: [f"C 1 ack {o} A", f"C 1 ack {o} B"]
        for r1 in [None] + roles:
            for r2 in [None] + roles:
                for order in (0, 1):
                    a = acks(7) if order == 0 else list(reversed(acks(7)))
                    c = pre + ["REG 7 A", "REG 7 B"] + ([r1] if r1 else []) + [a[0]] + ([r2] if r2 else []) + [a[1], "C 1 ack 7 A", "C 1 ack 9 C"]
                    cases.append(c)
                    cases.append(pre + ["REG 7 A", "REG 8 A", "REG 8 B"] + ([r1] if r1 else []) + ["C 1 ack 8 B", "C 1 ack 7 A"] + ([r2] if r2 else []) + ["C 1 ack 8 A", "C 1 ack 8 A"])
        rng = core.XorShift(seed)
        ev3 = events(3, 3)
        for _ in range(1500 if tier == "quick" else 30000):
            n = 3 + rng.below(10)
            cases.append(["RESET"] + [rng.choice(ev3) for _ in range(n)])
        return cases

    def nontrivial(self, case, impl):
        regs = set(); odd = False; anyack = False
        for l in case[1:]:
            if not (l.startswith("REG ") or l.startswith("ACK ")): 
                if l.startswith("C 1 ack "): anyack = True; odd = True
                continue
            k, o, s = l.split(" ")
            if k == "REG": regs.add((o, s))
            else:
                anyack = True
                if (o, s) not in regs: odd = True
                else: regs.discard((o, s)); 
        return bool(anyack and odd)

    def oracle(self, case, impl):
        """reference: outstanding set; compares the implementation's pending table with it"""
        fails = []
        outstanding = set(); nodup = True
        prev_dump = None
        for (inp, rest, dump) in core.parse_steps(impl):
            p = inp.split(" ")
            if p[0] == "C" and len(p) >= 5 and p[2] == "ack": p = ["ACK", p[3], p[4]]       # the acknowledgement as a command
            pend = {}
            for d in dump:
                m = re.match(r"D pend (\S+) rc=(\d+) ac=(\d+) ?(.*)", d)
                if m: pend[m.group(1)] = (int(m.group(2)), int(m.group(3)), m.group(4))
            # what a reader is handed (get_pending_opp_copy) is the entry itself: same counters, `fully acknowledged` exactly when they are equal
            for d in dump:
                m = re.match(r"D pendcopy (\S+) rc=(\d+) ac=(\d+) full=(\d)", d)
                if m and m.group(1) in pend:
                    rc, ac = pend[m.group(1)][:2]
                    if (int(m.group(2)), int(m.group(3))) != (rc, ac) or (m.group(4) == "1") != (rc == ac):
                        fails.append(Failure("copy-of-pending-entry-differs-from-entry", f"after {inp}: entry rc={rc} ac={ac}, copy `{d}`"))
            if p[0] == "REG":
                if (p[1], p[2]) in outstanding: nodup = False
                outstanding.add((p[1], p[2]))
            elif p[0] == "ACK":
                was = (p[1], p[2]) in outstanding
                outstanding.discard((p[1], p[2]))
                if not was and nodup and prev_dump is not None:
                    # duplicate / unknown / foreign ack: counters and pending set unchanged
                    before = {k: v[:2] for k, v in prev_dump.items()}
                    after = {k: v[:2] for k, v in pend.items()}
                    if before != after:
                        fails.append(Failure("uncounted-ack-changed-counters", f"{inp}: {before} -> {after}"))
            else:
                prev_dump = pend; continue
            for op, (rc, ac, _) in pend.items():
                if ac > rc: fails.append(Failure("ack-exceeds-registrations", f"after {inp}: op {op} rc={rc} ac={ac}"))
            if nodup:
                want = {o for (o, _) in outstanding}
                if set(pend.keys()) != want:
                    fails.append(Failure("pending-set-mismatch", f"after {inp}: pending {sorted(pend)} but outstanding {sorted(outstanding)}"))
            prev_dump = pend
            if fails: break
        return fails

SPEC = C15()
