"""C20 — HTTP replies line up, entry by entry, with the commands that caused them."""
import re, itertools
from vlib import core
from vlib.runner import Spec, Failure

SETUP = ["RESET", "SESS 1", "C 1 auth adm pw", "C 1 create-db t tok", "C 1 use-db t tok", "C 1 set k 5", "C 1 set n x", "C 1 create-user u upw",
         "C 1 set-permissions u r k*", "SESS 4", "C 4 use-db t tok", "C 4 watch k", "C 4 watch $connections"]

CMDS = ["auth adm pw", "auth adm bad", "use-db t tok", "use-db t bad", "use-db t u upw", "get k", "get-safe k", "set k 7", "set-safe k 9 v", "set-safe k 0 old",
        "remove k", "increment k", "increment n", "keys", "create-db d2 tk", "get $$token", "set zz 1", "watch k", "unwatch k", "snapshot", "bogus", "get",
        # every command word cut short (a refusal by the PARSER: its text becomes the reply entry verbatim)
        "use-db t", "use-db", "set", "set-safe k", "set-safe k x", "remove", "increment", "auth adm", "create-db", "create-user u", "set-permissions", "resolve 1", "watch", "replicate t", "election"]
BLANKS = ["", " ", "  "]

def body_of(cmds, trailing, blank_at=None, blank=""):
    parts = list(cmds)
    if blank_at is not None: parts.insert(blank_at, blank)
    b = "; ".join(parts) if blank != "" or blank_at is None else ";".join(parts)
    return b + (";" if trailing else "")

class C20(Spec):
    pid = "C20"
    lean_module = "NunVerif.Props.C17Close"
    theorems = ["Nun.C20_executed_once_in_order", "Nun.C20_aligned", "Nun.C20_entry_count", "Nun.C20_session_released", "Nun.unwatch_removes", "Nun.C20_http_request_end_releases_unconditionally",
                "Nun.C20_ws_message_runs_pieces_in_order", "Nun.C20_ws_message_one_trailer_per_piece", "Nun.transportTrailer_ok", "Nun.transportTrailer_differs_only_on_version_errors", "Nun.tcpLine_state", "Nun.C20_trailer_arms_of_the_source", "Nun.transportTrailer_is_the_table"]
    rule = ("all bodies of 1-2 commands (quick; 1-3 thorough) from the quantifier's list (auth ok/bad, use-db ok/bad/user, get, get-safe, set, set-safe ok/stale, remove, increment ok/non-numeric, keys, "
            "create-db, refused for missing selection / permission / secure key, unknown, malformed) with and without a trailing ';' and with empty and whitespace-only blank statements in every position, plus seeded random bodies of up to 6 commands; "
            "plus administrator bodies with a refused create-db (existing name, same / other token / other strategy) between commands that use the database; "
            "each body runs through the real http process_commands and, on an identical fresh server, command by command on an ordinary session: entry i must be command i's own error text, first pushed line, or `empty`. "
            "non-trivial = the body has a refused and an accepted command; distinct by trace hash")

    def extra_stage(self, tier, seed):
        """the same kind of bodies through the REAL http front end (tiny_http server loop of http_ops::start_http_client) over a socket"""
        from vlib import transport
        setup = ["T 1", "C 1 auth adm pw", "C 1 create-db t tok", "C 1 use-db t tok", "C 1 set k 1", "C 1 set n 5"]
        bodies = ["get k", "use-db t tok;get k", "use-db t tok;get k;", "use-db t tok; ;get k", ";use-db t tok;get k", "use-db t bad;get k", "auth adm pw;use-db t tok;keys", "auth adm bad;keys",
                  "use-db t tok;set k 7;get k", "use-db t tok;set-safe k 0 stale;get k", "use-db t tok;increment n;get n", "use-db t tok;increment k x;get k", "use-db t tok;remove k;get k",
                  "use-db t tok;get $$token;get k", "use-db t tok;bogus;get k", "use-db t tok;watch k;set k 9;get k", "auth adm pw;create-db t tok;use-db t tok;get k", "use-db t tok;get-safe k;get-safe zz", "",
                  " ", ";;", "use-db t tok;set two words value;get two"]
        scripts = []
        step = 1 if tier != "quick" else 2
        for i in range(0, len(bodies), 6):
            sc = list(setup)
            for b in bodies[i:i + 6][::1]: sc += [f"H {b}", "C 1 get k"]
            sc += ["DUMP"]
            scripts.append(sc)
        for a in bodies[::step]:
            for b in bodies[1:8:step]:
                scripts.append(list(setup) + [f"H {a}", f"H {b}", "C 1 get $connections", "DUMP"])
        # uploads the peer abandons half way (chunked transfer, one chunk, the connection goes away) between ordinary requests: the later
        # requests are answered as if the abandoned ones had never been sent (the front end has four workers: six abandoned uploads reach each)
        stale = "auth adm pw;use-db t tok;set k stolen;"
        for probe in bodies[1:9:step]:
            scripts.append(list(setup) + [f"HA {stale}"] * 6 + [f"H {probe}"] * 6 + ["C 1 get k", "DUMP"])
        return transport.stage("C20", scripts)

    def corpus(self):
        return [("stale-line-shifts", self.case(["get k", "auth adm pw", "use-db t tok", "get k"], "get k; auth adm pw; use-db t tok; get k"))]

    def case(self, cmds, body):
        c = SETUP + [f"HTTP 7 {body}", "C 1 keys"]
        c += SETUP + ["SESS 7"] + [f"C 7 {x}" for x in cmds] + ["CLOSE 7", "C 1 keys"]
        return c

    def generate(self, tier, seed):
        cases = []
        maxn = 2 if tier == "quick" else 3
        for n in range(1, maxn + 1):
            for seq in itertools.product(CMDS, repeat=n):
                cases.append(self.case(seq, "; ".join(seq)))
        # trailing ';' and blank statements in every position, for a smaller command set
        small = ["use-db t tok", "get k", "set k 7", "get zz", "increment n", "get $$token"]
        for n in (1, 2, 3):
            for seq in itertools.product(small, repeat=n):
                cases.append(self.case(seq, ";".join(seq) + ";"))
                for pos in range(n + 1):
                    for bl in BLANKS:
                        parts = list(seq); parts.insert(pos, bl)
                        cases.append(self.case(seq, ";".join(parts)))
        # a REFUSED command in the middle of an administrator's body (create-db of a database that exists, with the same or another
        # token): the entries of the commands after it must be what they would be without it
        for dup in ("create-db t tok", "create-db t other", "create-db t tok newer"):
            for before in ([], ["use-db t tok"]):
                for after in (["use-db t tok", "get k"], ["get k", "keys"], ["use-db t tok", "increment k", "get-safe k"], ["use-db t other", "get k"]):
                    seq = ["auth adm pw"] + before + [dup] + after
                    cases.append(self.case(seq, "; ".join(seq)))
        rng = core.XorShift(seed)
        for _ in range(600 if tier == "quick" else 20000):
            n = 1 + rng.below(6); seq = [rng.choice(CMDS) for _ in range(n)]
            parts = []
            for x in seq:
                if rng.chance(1, 6): parts.append(rng.choice(BLANKS))
                parts.append((" " if rng.chance(1, 4) else "") + x)
            cases.append(self.case(seq, ";".join(parts) + (";" if rng.chance(1, 3) else "")))
        return cases

    def nontrivial(self, case, impl):
        t = [l for l in impl if l.startswith("R ")]
        return any(l.startswith("R error") for l in t) and any(l == "R ok" or l.startswith("R value") for l in t)

    def oracle(self, case, impl):
        fails = []
        steps = core.parse_steps(impl)
        runs = []; cur = None
        for st in steps:
            if st[0].startswith("RESET"): cur = []; runs.append(cur)
            if cur is not None: cur.append(st)
        if len(runs) != 2: return fails
        http = next((st for st in runs[0] if st[0].startswith("HTTP ")), None)
        if http is None: return fails
        if any(x.startswith("R PANIC") for x in http[1]): return [Failure("panic", f"{http[0][:100]}: {http[1][:1]}")]
        h = next((x for x in http[1] if x.startswith("H ")), "H ")[2:]
        got = core.unesc(h).decode("utf-8", "replace")
        got_entries = got.split(";") if got != "" else []
        want = []
        for (inp, rest, dump) in runs[1]:
            if not inp.startswith("C 7 "): continue
            r = next((x for x in rest if x.startswith("R ")), "R ?")
            if r.startswith("R error "): want.append(core.unesc(r[8:]).decode("utf-8", "replace"))
            elif r.startswith("R verr "): want.append(core.unesc(r.split(" ", 5)[5]).decode("utf-8", "replace"))
            else:
                ms = [x for x in rest if x.startswith("M 7 ")]
                want.append(core.unesc(ms[0][4:]).decode("utf-8", "replace") if ms else "empty")
        if len(got_entries) != len(want):
            fails.append(Failure("entry-count-differs-from-command-count", f"{http[0][:120]}: {len(got_entries)} entries for {len(want)} commands: {got_entries}"))
        else:
            for i, (g, w) in enumerate(zip(got_entries, want)):
                if g != w:
                    fails.append(Failure("entry-not-from-its-own-command", f"{http[0][:120]}: entry {i} is {g!r}, command {i} alone gives {w!r}")); break
        # a refused command leaves no trace: in the command-by-command run the node's state is the same before and after it
        prev = None
        strip = lambda d: [x for x in d if not x.startswith("D sess ")]
        for (inp, rest, dump) in runs[1]:
            cur = prev if (not dump or dump == ["D ="]) else dump
            if inp.startswith("C 7 ") and prev is not None and cur is not None and any(x.startswith("R error ") for x in rest) and strip(cur) != strip(prev):
                diff = [x for x in strip(cur) if x not in strip(prev)][:2] + ["(gone:) " + x for x in strip(prev) if x not in strip(cur)][:2]
                fails.append(Failure("refused-command-changed-the-node", f"{inp}: answered {[x for x in rest if x.startswith('R ')][0][:80]} and changed the node: {diff}")); break
            prev = cur
        # release: no dangling watcher ('?' = a sender that belongs to no open session) and same counters as the reference run
        after = runs[0][-1][2]
        if any(re.match(r"D w \S+ \S+ .*\?", d) for d in after):
            fails.append(Failure("subscription-not-released", f"{http[0][:100]}: {[d for d in after if '?' in d and d.startswith('D w')][:1]}"))
        # … and, absolutely: once the request is over, every database counts exactly the sessions that are still open and bound to it
        # (the request's own session is gone), and publishes that number
        full = None
        for (inp, rest, dump) in runs[0]:
            if dump and dump != ["D ="]: full = dump if full is None or any(d.startswith("D db ") for d in dump) else full
        for d in (after or []):
            m = re.match(r"D db (\S+) id=\d+ strat=\S+ conns=(\d+)", d)
            if not m or m.group(1) == "$admin": continue
            bound = len([x for x in after if re.match(rf"D sess \d+ auth=\d db={re.escape(m.group(1))} ", x)])
            if int(m.group(2)) != bound:
                fails.append(Failure("connection-count-not-released", f"{http[0][:100]}: {d} but {bound} open session(s) are bound to it")); break
        ca = [d for d in after if d.startswith("D db t ")]; cb = [d for d in runs[1][-1][2] if d.startswith("D db t ")]
        if ca != cb:
            fails.append(Failure("connection-count-not-released", f"{http[0][:100]}: {ca} vs {cb}"))
        return fails

SPEC = C20()
