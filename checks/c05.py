"""C05 — a (re)joining node resynchronises to exactly the primary's data."""
import re
from vlib import core, cluster, netrunner
from vlib.runner import Failure

PID = "C05"
LEAN_MODULE = "NunVerif.Props.C05Atomic"
THEOREMS = ["Nun.C05_sync_formats", "Nun.C05_create_db_line_is_generated", "Nun.C05_set_line_is_generated", "Nun.C05_remove_line_is_generated", "Nun.C05_snapshot_line_is_generated", "Nun.C05_finding_no_version_field_in_the_burst",
            "Nun.C05_full_sync_names_every_db", "Nun.C05_full_sync_names_every_key", "Nun.C05_finding_first_word_lost", "Nun.C05_live_format_is_exact", "Nun.C05_finding_strategy_not_sent",
            "Nun.C05_sync_is_one_critical_section", "Nun.C05_fanout_is_one_critical_section"]

VALUES = ["x{v}", "two words {v}", "{v} leading number", "7", "-1 looks like a version"]
def gen_ops(rng, n, ctr, dbs=("t",)):
    ops = []
    for _ in range(n):
        ctr[0] += 1; v = ctr[0]
        db = rng.choice(list(dbs))
        kind = rng.below(12)
        key = rng.choice(["a", "b", "c"])
        if kind < 5: ops.append((db, f"set {key} " + rng.choice(VALUES).format(v=v)))
        elif kind < 7: ops.append((db, f"remove {key}"))
        elif kind < 8: ops.append((db, f"increment n {1 + rng.below(3)}"))
        elif kind < 9: ops.append((db, f"set-safe {key} {rng.below(3)} s{v}"))
        elif kind < 10: ops.append((db, f"snapshot false"))
        # keys the administrator's commands write under the `$$` prefix (users, permission lists) are data of the database like any other
        elif kind < 11: ops.append((db, f"create-user {rng.choice(['bob', 'eve'])} pw{v}"))
        else: ops.append((db, f"set-permissions {rng.choice(['bob', 'all'])} " + rng.choice(["rw a*|r b*", "r *", "rwi n|r a"])))
    return ops

def run_ops(net, rng, ops, sel):
    for (db, cmd) in ops:
        if sel.get(1) != db:
            net.cmd(1, 1, f"use-db {db} tok-{db}"); sel[1] = db
        net.cmd(1, 1, cmd)

def scenario(kind, n_before, n_away, n_during, new_db_away):
    def fn(net, rng):
        ctr = [0]; sel = {}
        if not cluster.form_cluster(net, 2, rng): return [Failure("cluster-does-not-form", "2 nodes")]
        net.op(1, "SESS 1"); net.cmd(1, 1, "auth adm pw"); net.cmd(1, 1, "create-db t tok-t"); net.cmd(1, 1, "create-db u tok-u arbiter")
        if net.quiesce(rng, 300) is None: return [Failure("no-quiescence", "setup")]
        hist = []
        before = gen_ops(rng, n_before, ctr, ("t", "u")); hist += [("before", o) for o in before]
        run_ops(net, rng, before, sel)
        if net.quiesce(rng, 400) is None: return [Failure("no-quiescence", "before departure")]
        if kind in ("older-snapshot", "valid-oplog"):
            net.cmd(1, 1, "snapshot false t|u")
            if net.quiesce(rng, 300) is None: return [Failure("no-quiescence", "snapshot")]
            net.op(1, "SNAP"); net.op(2, "SNAP")
        if kind == "older-snapshot":
            # a key first written after the keys snapshot leaves the oplog flag invalid on the secondary: its restart discards the log
            net.cmd(1, 1, "use-db t tok-t"); sel[1] = "t"; net.cmd(1, 1, "set fresh-key 1"); hist.append(("before", ("t", "set fresh-key 1")))
            if net.quiesce(rng, 300) is None: return [Failure("no-quiescence", "flag")]
        # departure: the connections die, the node stops
        net.disconnect(1, 2)
        if net.quiesce(rng, 300) is None: return [Failure("no-quiescence", "after disconnect")]
        away = gen_ops(rng, n_away, ctr, ("t", "u")); hist += [("away", o) for o in away]
        run_ops(net, rng, away, sel)
        if new_db_away:
            # a database is created while the node is away, in the middle of writes to the old ones (and is itself written later or never)
            net.cmd(1, 1, "create-db w tok-w arbiter"); hist.append(("away", ("w", "create-db")))
            more = gen_ops(rng, 1 + rng.below(3), ctr, ("t", "u")); hist += [("away", o) for o in more]
            run_ops(net, rng, more, sel)
            if rng.chance(1, 2):
                net.cmd(1, 1, "use-db w tok-w"); sel[1] = "w"; net.cmd(1, 1, "set a in new db"); hist.append(("away", ("w", "set a in new db")))
        if net.quiesce(rng, 300) is None: return [Failure("no-quiescence", "while away")]
        # the node comes back
        if kind == "empty-disk": net.reset(2, "startingup", "n2", 900)
        else: net.op(2, "RESTART startingup")
        net.op(2, "PUMP")
        net.join(2, 1)
        during = gen_ops(rng, n_during, ctr, ("t", "u")); hist += [("during", o) for o in during]
        for o in during:
            for _ in range(rng.below(5)):
                ps = net.pending()
                if not ps: break
                net.deliver(*ps[rng.below(len(ps))])
            run_ops(net, rng, [o], sel)
        if net.quiesce(rng, 1500) is None: return [Failure("no-quiescence", f"resynchronisation still exchanging messages after 1500 deliveries; history {hist}")]
        bad = next((l for o in net.out for l in o if "PANIC" in l), None)
        if bad: return [Failure("panic-during-resync:" + ("supervisor" if "supervisor" in bad else "node"), f"{bad[:200]}; history {hist}")]
        # the sync messages themselves: every `replicate <db> <key> …` line of a resynchronisation burst carries the primary's value of THAT key
        # (the text after the key must be the value — that the receiver then mis-reads its first word is the recorded format finding)
        burst_fails = []
        for si, (sline, o) in enumerate(zip(net.script, net.out)):
            if not (sline.startswith("@1 PUMP") and any(x.startswith("V replicate-since-to") for x in o)): continue
            # the primary's dataset at that moment: the last full dump of node 1 in the output so far
            last = None
            for s2, o2 in zip(net.script[:si + 1], net.out[:si + 1]):
                if s2.startswith("@1 ") and any(x.startswith("D role") for x in o2): last = [x for x in o2 if x.startswith("D ")]
            if last is None: continue
            pds, _ = netrunner.dataset(last)
            # a FULL resynchronisation (since = 0) names every live key of every database the primary holds, the `$$` ones included; only the
            # connection counter and the token (which travels with create-db) are left out
            since0 = any(re.match(r"V replicate-since-to \S+ 0\b", x) for x in o)
            if since0:
                named = set()
                for x in o:
                    m = re.match(r"L \S+ replicate (\S+) (\S+)", x)
                    if m: named.add((core.unesc(m.group(1)).decode(), core.unesc(m.group(2)).decode()))
                for db in sorted(pds):
                    if db == "$admin": continue
                    for key in sorted(pds[db]):
                        if pds[db][key][2] == "live" and key not in ("$connections", "$$token") and (db, key) not in named:
                            burst_fails.append(Failure("full-sync-burst-misses-key", f"the full resynchronisation burst has no line for {db}/{key} (primary holds {pds[db][key]}); history {hist}"))
            else:
                # an INCREMENTAL resynchronisation (since > 0) has a line for every key that was written or removed while the node was away —
                # in EVERY database (the same key name in two databases is two keys), and for every database created meanwhile
                named = set(); created = set()
                for x in o:
                    m = re.match(r"L \S+ (replicate|replicate-remove|replicate-increment) (\S+) (\S+)", x)
                    if m: named.add((core.unesc(m.group(2)).decode(), core.unesc(m.group(3)).decode()))
                    m = re.match(r"L \S+ create-db (\S+)", x)
                    if m: created.add(core.unesc(m.group(1)).decode())
                for (when, (db, cmd)) in hist:
                    if when != "away": continue
                    w = cmd.split(" ")
                    # (plain `set` only: it is always accepted and always logged; a versioned write may have been refused)
                    accepted = any(sl == f"@1 C 1 {cmd}" and any(x == "R ok" for x in so) for sl, so in zip(net.script[:si], net.out[:si]))   # (a permission list set meanwhile may refuse it)
                    if w[0] == "set" and accepted and len(w) > 1 and (db, w[1]) not in named and db in pds:
                        burst_fails.append(Failure("incremental-sync-burst-misses-key", f"{cmd!r} on {db} happened while the node was away, the catch-up burst has no line for {db}/{w[1]}; history {hist}"))
                    if w[0] == "create-db" and db not in created:
                        burst_fails.append(Failure("incremental-sync-burst-misses-database", f"database {db} was created while the node was away, the catch-up burst has no create-db for it; history {hist}"))
            for x in o:
                m = re.match(r"L \S+ replicate (\S+) (\S+) (.*)", x)
                if not m: continue
                db, key, rest = core.unesc(m.group(1)).decode(), core.unesc(m.group(2)).decode(), m.group(3)
                have = pds.get(db, {}).get(key)
                if have is not None and have[2] == "live" and have[0] != rest:
                    burst_fails.append(Failure("sync-line-carries-another-value", f"burst line `replicate {db} {key} {rest}` but the primary holds {have[0]!r} for {db}/{key}; history {hist}"))
        net.op(1, "DUMP"); net.op(2, "DUMP")
        dumps = netrunner.dumps_of(net)
        prim, pattrs = netrunner.dataset(dumps[1]); ds, attrs = netrunner.dataset(dumps[2])
        fails = []
        for bf in burst_fails:
            if bf.cls not in [f.cls for f in fails]: fails.append(bf)
        for db in sorted(prim):
            if db == "$admin": continue
            if db not in ds: fails.append(Failure("database-missing-after-resync", f"{db}; history {hist}")); continue
            if pattrs.get(db) != attrs.get(db): fails.append(Failure("database-strategy-differs-after-resync", f"{db}: primary {pattrs.get(db)} rejoined {attrs.get(db)}; history {hist}"))
            for key in sorted(set(prim[db]) | set(ds[db])):
                a, b = prim[db].get(key), ds[db].get(key)
                if a == b: continue
                if (a is None and b[2] == "removed") or (b is None and a[2] == "removed"): continue
                if a is None: what = "key-only-on-rejoined-node"
                elif b is None: what = "key-missing-after-resync"
                elif a[2] != b[2]: what = "removed-key-still-live" if a[2] == "removed" else "live-key-removed"
                elif a[0] != b[0]: what = "value-differs-after-resync"
                else: what = "version-differs-after-resync"
                fails.append(Failure(f"{what}:{kind}", f"{db}/{key}: primary {a} rejoined {b}; history {hist}"))
        seen = set(); out = []
        for f in fails:
            if f.cls not in seen: seen.add(f.cls); out.append(f)
        return out
    return fn

def scenarios(tier):
    S = []
    reps = 10 if tier == "quick" else 30
    for kind in ("empty-disk", "older-snapshot", "valid-oplog"):
        for r in range(reps):
            S.append((f"{kind}-{r}", scenario(kind, 1 + r % 5, r % 4, (r * 2) % 3, r % 2 == 1)))
    return S

RULE = ("a 2-node cluster of real nodes; primary histories of 1-10 seeded-random operations over 2-3 databases (one with the arbiter strategy; values with several words, a leading number, digits only) split into before-departure / while-away / during-sync parts; "
        "the secondary leaves (both connections die) and comes back (a) with an empty disk, (b) restarted on an older snapshot with a discarded oplog (full sync, since = 0), (c) restarted with a valid oplog (incremental sync from its last operation time); it rejoins through the real join path "
        "and the real supervisor's replicate-since-to burst, with primary operations interleaved with the deliveries of the burst; at quiescence the rejoined node's dataset is compared with the primary's. The Lean model runs every primitive operation in lockstep. distinct by trace hash")

def main(tier, seed):
    return netrunner.run(PID, LEAN_MODULE, THEOREMS, scenarios(tier), RULE, tier, seed,
                         assumptions=["links are FIFO and lossless", "the joining election is decided by its timeout branch (C07)"])
