"""C17 — $connections equals the number of open sessions on the database."""
import re, itertools
from vlib import core
from vlib.runner import Spec, Failure

SETUP = ["RESET", "SESS 9", "C 9 auth adm pw", "C 9 create-db a ta", "C 9 create-db b tb", "C 9 use-db a ta", "C 9 create-user u up",
         "C 9 watch $connections", "CLOSE 9"]

def alphabet(sessions=(1, 2, 3)):
    al = []
    for s in sessions:
        al += [f"C {s} use-db a ta", f"C {s} use-db b tb", f"C {s} use-db a wrong", f"C {s} use-db a u up", f"C {s} use-db nodb x", f"CLOSE {s}"]
    al += ["HTTP 7 use-db a ta; get k", "HTTP 7 use-db a wrong; use-db b tb", "HTTP 7 use-db a ta; use-db b tb; keys",
           # a request that binds a database and is then REFUSED something: the session still ends with the request
           "HTTP 7 use-db a ta; use-db a wrong", "HTTP 7 use-db b tb; get", "HTTP 7 use-db a ta; bogus; keys", "HTTP 7 use-db a ta; get $$token; use-db b tb"]
    return al

def transport_scripts(tier):
    """sessions of every kind opened over REAL tcp sockets, closed in different orders, one-shot HTTP requests in between; the counters and the
    $connections key are dumped while the sessions are open and after they are gone"""
    setup = ["T 1", "C 1 auth adm pw", "C 1 create-db t tok", "C 1 create-db u tok2", "C 1 use-db t tok", "C 1 create-user u upw", "C 1 set a 1"]
    kinds = [lambda s: [f"T {s}", f"C {s} use-db t tok"],
             lambda s: [f"T {s}", f"C {s} use-db t u upw"],
             lambda s: [f"T {s}", f"C {s} auth adm pw", f"C {s} set-secoundary peer{s}", f"C {s} use-db t tok"],    # a connection that announced itself as a cluster member
             lambda s: [f"T {s}", f"C {s} use-db t tok", f"C {s} watch $connections"],
             lambda s: [f"T {s}", f"C {s} use-db t tok", f"C {s} use-db u tok2"],
             lambda s: [f"T {s}", f"C {s} use-db t bad", f"C {s} get a"],
             lambda s: [f"T {s}", f"C {s} use-db t tok", f"C {s} use-db t tok", f"C {s} set a 2"],
             # the same over a WEBSOCKET (one message = several requests split at `;`)
             lambda s: [f"W {s}", f"C {s} use-db t tok;get a"],
             lambda s: [f"W {s}", f"C {s} use-db t u upw;watch $connections", f"C {s} set-safe a 0 stale;get a"],
             lambda s: [f"W {s}", f"C {s} use-db t bad;use-db t tok;use-db u tok2;"]]
    S = []
    # however a connection ENDS — an orderly close, the socket going away, a websocket close frame with a valid, a reserved or an invalid
    # status code, a frame that is no text followed by the socket going away — the session is released exactly once
    ends = ["X 2", "XA 2", "XC 2 1001", "XC 2 3000", "XC 2 999", "XC 2 1005", "XC 2 0"]
    for kind in ("W", "T"):
        for e in ends:
            if kind == "T" and e.startswith("XC"): continue
            for pre in ([], ["C 2 \\xff\\xfe\\xfd"], ["C 2 watch $connections"]):
                S.append(list(setup) + [f"{kind} 2", "C 2 use-db t tok"] + pre + ["C 1 get $connections", e, "C 1 get $connections", "DUMP", "W 3", "C 3 use-db t tok", "C 1 get $connections", "X 3", "C 1 get $connections", "DUMP"])
    for i, ka in enumerate(kinds):
        for j, kb in enumerate(kinds):
            if tier == "quick" and (i * len(kinds) + j) % 3: continue
            for order in ((2, 3), (3, 2)):
                sc = list(setup) + ka(2) + kb(3) + ["DUMP", "H use-db t tok;get a;get $connections", f"X {order[0]}", "DUMP", "C 1 get $connections", f"X {order[1]}", "DUMP",
                                                     "H use-db t tok;increment a;bogus;get a", "C 1 get $connections", "DUMP"]
                S.append(sc)
    return S

class C17(Spec):
    pid = "C17"
    lean_module = "NunVerif.Props.C17Close"
    theorems = ["Nun.C17_counter_equals_bound_sessions", "Nun.C17_usedb_keeps_invariant", "Nun.C17_disconnect_keeps_invariant", "Nun.applyChange_frame", "Nun.connInv_start",
                "Nun.C17_failed_usedb_noop", "Nun.setValue_conns", "Nun.C17_left_unbound_noop", "Nun.C17_close_removes_session",
                "Nun.C17_tcp_disconnect_releases_unconditionally", "Nun.C17_ws_disconnect_releases_unconditionally", "Nun.C17_tcp_leave_handling_before_release", "Nun.C17_ws_release_is_reached_from_on_close_and_from_drop", "Nun.C20_trailer_arms_of_the_source"]
    rule = ("all sequences of length L over {use-db a, use-db b, wrong token, user token, unknown db, disconnect (tcp/ws sequence), one-shot HTTP requests} x 3 sessions x 2 databases, "
            "with a watcher of $connections (also behind a subscription that outlived its session); plus seeded random longer sequences. After every step the reference session table is compared with the counter, the $connections value and the watcher's notifications. "
            "non-trivial = some session binds and some session leaves; distinct by trace hash")

    def extra_stage(self, tier, seed):
        """two sessions binding / re-binding at once: the counter and the $connections key must end as after one of the two orders"""
        from vlib import sched
        base = SETUP + ["SESS 1", "SESS 2", "SESS 3", "C 3 use-db a ta", "C 3 watch $connections"]
        tail = ["C 3 get $connections", "C 3 use-db b tb", "C 3 get $connections"]
        P = [("bind-vs-bind-same-db", base, (1, "use-db a ta"), (2, "use-db a ta"), tail),
             ("bind-vs-bind-other-db", base, (1, "use-db a ta"), (2, "use-db b tb"), tail),
             ("rebind-vs-bind", base + ["C 1 use-db a ta"], (1, "use-db b tb"), (2, "use-db a ta"), tail),
             ("rebind-vs-rebind", base + ["C 1 use-db a ta", "C 2 use-db b tb"], (1, "use-db b tb"), (2, "use-db a ta"), tail),
             ("bind-vs-refused-bind", base, (1, "use-db a ta"), (2, "use-db a wrong"), tail)]
        # the counter, the mirror key and what the sessions are bound to; the order of the watcher's notifications is not part of C17
        r = sched.stage("C17", P, tier, seed, parts=("reply-A", "reply-B", "later-replies", "state"))
        from vlib import transport
        return transport.merge(r, transport.stage("C17", transport_scripts(tier)))

    def corpus(self):
        return [("reselect-leaks", SETUP + ["SESS 1", "C 1 use-db a ta", "C 1 use-db a ta", "CLOSE 1"]),
                ("switch-leaks", SETUP + ["SESS 1", "C 1 use-db a ta", "C 1 use-db b tb", "CLOSE 1"])]

    def generate(self, tier, seed):
        cases = []
        al2 = alphabet((1, 2))
        L = 3 if tier == "quick" else 4
        for seq in itertools.product(al2, repeat=L):
            cases.append(SETUP + ["SESS 1", "SESS 2", "SESS 4", "C 4 use-db a ta", "C 4 watch $connections"] + list(seq))
        # a subscription that outlived its session sits AHEAD of the live watcher in the database's list: a session watched $connections
        # of `a`, moved to `b` and disconnected (the disconnect cleans the database selected at that moment only)
        STALE = SETUP[:-1] + ["C 9 use-db b tb", "CLOSE 9", "SESS 8", "C 8 use-db b tb", "C 8 watch $connections", "C 8 use-db a ta", "CLOSE 8"]
        for seq in itertools.product(al2, repeat=2 if tier == "quick" else 3):
            cases.append(STALE + ["SESS 1", "SESS 2", "SESS 4", "C 4 use-db a ta", "C 4 watch $connections"] + list(seq))
            cases.append(STALE + ["SESS 1", "SESS 2", "SESS 4", "C 4 use-db b tb", "C 4 watch $connections"] + list(seq))
        rng = core.XorShift(seed)
        al3 = alphabet()
        for _ in range(1000 if tier == "quick" else 20000):
            n = 5 + rng.below(10)
            cases.append(SETUP + ["SESS 1", "SESS 2", "SESS 3", "SESS 4", "C 4 use-db b tb", "C 4 watch $connections"] + [rng.choice(al3) for _ in range(n)])
        return cases

    def nontrivial(self, case, impl):
        return any(l.startswith("CLOSE") for l in case[10:]) and any("use-db" in l for l in case[10:])

    def oracle(self, case, impl):
        fails = []
        bound = {}   # sid -> db
        closed = set()
        for (inp, rest, dump) in core.parse_steps(impl):
            p = inp.split(" ")
            r = next((x for x in rest if x.startswith("R ")), "")
            if any(x.startswith("R PANIC") for x in rest): fails.append(Failure("panic", f"{inp}: {rest[:1]}")); break
            before = dict(bound)
            if p[0] == "C" and len(p) > 2 and p[2] in ("use-db", "use"):
                if r == "R ok": bound[p[1]] = p[3]
            elif p[0] == "CLOSE":
                bound.pop(p[1], None)
            elif p[0] == "RESET":
                bound = {}
            want = {}
            for s, d in bound.items(): want[d] = want.get(d, 0) + 1
            for d in dump:
                m = re.match(r"D db (\S+) id=\d+ strat=\S+ conns=(\d+)", d)
                if m and m.group(1) in ("a", "b"):
                    if int(m.group(2)) != want.get(m.group(1), 0):
                        fails.append(Failure("counter-differs-from-open-sessions", f"after {inp}: db {m.group(1)} conns={m.group(2)} but {want.get(m.group(1), 0)} open session(s) bound"))
                m = re.match(r"D k (\S+) \$connections ver=\S+ st=\S+ va=\d+ ka=\d+ op=\S+ v=(.*)", d)
                if m and m.group(1) in ("a", "b"):
                    if m.group(2) != str(want.get(m.group(1), 0)):
                        fails.append(Failure("connections-key-differs-from-open-sessions", f"after {inp}: $connections of {m.group(1)} = {m.group(2)!r} but {want.get(m.group(1), 0)} open"))
            # watchers see each change: session 4 (bound & watching) gets a changed line whenever its db's count changed
            wdb = bound.get("4")
            if wdb and p[0] in ("C", "CLOSE", "HTTP") and not (p[0] == "C" and p[1] == "4"):
                wb = sum(1 for s, d in before.items() if d == wdb); wa = sum(1 for s, d in bound.items() if d == wdb)
                notes = [x for x in rest if x.startswith("M 4 changed $connections ")]
                if wb != wa and not notes:
                    fails.append(Failure("watcher-missed-connection-change", f"{inp}: {wb}->{wa} without notification"))
            if fails: break
        return fails

SPEC = C17()
