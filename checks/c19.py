"""C19 — newer-strategy databases accept every write; the last applied one wins (sequential part)."""
import re, itertools
from vlib import core
from vlib.runner import Spec, Failure
from checks.c02 import entries

SETUP = ["RESET", "SESS 1", "C 1 auth adm pw", "C 1 create-db t tok newer", "C 1 use-db t tok", "SESS 2", "C 2 use-db t tok",
         "SESS 4", "C 4 use-db t tok", "C 4 watch a", "C 4 watch b"]

def alphabet(keys):
    al = []
    for k in keys:
        al += [f"C 1 set {k} p1", f"C 2 set {k} p2"]
        for v in (0, 1, 2, 5): al.append(f"C 2 set-safe {k} {v} s{v}")
        # the same writes as they arrive from another node (a secondary forwarding its client's write, the primary's copy): the cluster
        # command goes through the same strategy
        for v in (-1, 0, 1, 5): al.append(f"C 1 replicate t {k} {v} r{v}")
        al += [f"C 1 get-safe {k}", f"C 1 remove {k}"]
    al.append("C 1 snapshot false\nSNAP")
    return al

class C19(Spec):
    pid = "C19"
    lean_module = "NunVerif.Props.C19"
    theorems = ["Nun.C19_write", "Nun.C19_write_inv", "Nun.C19_replica_agreement", "Nun.newer_apply_accepted", "Nun.setValue_accepted",
                "Nun.C19_pin_admin_newer", "Nun.C19_pin_restored_newer"]
    rule = ("newer-strategy database: all sequences of length L of plain and versioned writes (versions 0,1,2,5 against every reachable current version) to a key from two sessions and the same writes arriving as the cluster command `replicate <db> <key> <version> <value>`, "
            "get-safe, remove and snapshots, with a watcher; the admin database ($admin, newer by construction) and a database restored without metadata are covered by corpus cases; "
            "seeded random sequences over 2 keys. non-trivial = at least one stale versioned write (resolved, not refused); distinct by trace hash")

    def extra_stage(self, tier, seed):
        """two clients at once on a newer database: every write accepted, the stored value is that of one of the two orders, versions grow"""
        from vlib import sched
        base = SETUP + ["C 1 set a 0"]
        tail = ["C 1 get-safe a", "C 2 get-safe a"]
        P = [("stale-cas-vs-plain", base, (1, "set-safe a 0 A"), (2, "set a B"), tail),
             ("stale-cas-vs-stale-cas", base + ["C 1 set a 1"], (1, "set-safe a 0 A"), (2, "set-safe a 0 B"), tail),
             ("cas-vs-cas-current", base, (1, "set-safe a 1 A"), (2, "set-safe a 1 B"), tail),
             ("plain-vs-plain", base, (1, "set a A"), (2, "set a B"), tail),
             ("plain-vs-remove", base, (1, "set a A"), (2, "remove a"), tail)]
        def newer(name, o, sch, trace):
            """what C19 promises of two overlapping writes (linearizability is NOT promised: the older change — by issue time — may lose to a
            change applied before it): nothing refused, the stored value is one of the two, the version grew, and the highest-versioned
            notification the watcher holds is the stored value"""
            fs = []
            for r in (o[0], o[1]):
                if r.startswith("R verr") or r.startswith("R error") or r.startswith("R PANIC"):
                    fs.append(Failure(f"newer-write-refused-under-interleaving:{name}", f"schedule {sch}: reply {r!r}"))
            st = {m.group(1): (int(m.group(2)), m.group(3), m.group(4)) for d in o[4] for m in [re.match(r"D k t (\S+) ver=(-?\d+) st=(\w) .* v=(.*)", d)] if m}
            if "a" in st:
                ver, status, val = st["a"]
                allowed = {"A", "B"} | ({"<Empty>"} if "remove" in name else set())
                if status != "D" and val not in allowed: fs.append(Failure(f"stored-value-is-neither-write:{name}", f"schedule {sch}: stored {val!r} v{ver}"))
                if "remove" not in name and not ver > 0: fs.append(Failure(f"newer-version-not-growing-under-interleaving:{name}", f"schedule {sch}: version {ver} after two accepted writes (it was 0 or 1 before)"))
                best = None
                for sid, lines in o[2]:
                    if sid != 4: continue
                    for l in lines:
                        t = core.unesc(l).decode("utf-8", "replace").rstrip("\n").split(" ", 3)
                        if t[0] == "changed-version" and t[1] == "a" and len(t) == 4:
                            if best is None or int(t[2]) >= best[0]: best = (int(t[2]), t[3])
                if status != "D" and "remove" not in name and (best is None or core.esc(best[1].encode()) != val):
                    fs.append(Failure(f"watcher-not-current-under-interleaving:{name}", f"schedule {sch}: stored {val!r} v{ver}, the watcher's highest-versioned notification is {best}"))
            return fs
        return sched.stage("C19", P, tier, seed, parts=(), extra_oracle=newer)

    def corpus(self):
        return [("restored-without-metadata", ["RESET", "SESS 1", "C 1 auth adm pw", "C 1 create-db t tok", "C 1 use-db t tok", "C 1 set a 1", "C 1 set a 2",
                                               "C 1 snapshot false", "SNAP", "DELMETA t", "RESTART", "SESS 1", "C 1 auth adm pw", "C 1 use-db t tok",
                                               "C 1 set-safe a 0 stale", "C 1 get-safe a", "C 1 debug list-dbs"])]

    def generate(self, tier, seed):
        cases = []
        al = alphabet(("a",))
        for seq in itertools.product(al, repeat=4 if tier == "quick" else 5):
            c = list(SETUP)
            for x in seq: c += x.split("\n")
            cases.append(c)
        # versions BELOW every marker (-3, -7, i32::MIN): -1 means `unversioned` and -2 `in conflict`; anything lower is just a very stale
        # version, to be resolved like version 0 — never stored as it is
        low = ["C 1 set a p1", "C 2 set-safe a -3 m3", "C 2 set-safe a -7 m7", "C 2 set-safe a -2147483648 mmin", "C 1 replicate t a -3 r3", "C 2 set-safe a 1 s1", "C 1 get-safe a", "C 1 remove a"]
        for seq in itertools.product(low, repeat=3 if tier == "quick" else 4):
            cases.append(list(SETUP) + ["C 1 set a 0", "C 1 set a 1", "C 1 set a 2"] + list(seq) + ["C 1 get-safe a"])
        # the same for a SECURE key (`$$…`: only the administrator's session and the cluster command can write it): it lives in the same database
        # and goes through the same strategy — on the database created as `newer`, and on `$admin`, which is `newer` by default
        als = [x for x in alphabet(("$$flag",)) if not x.startswith("C 2")] + ["C 1 set-safe $$flag 0 t0", "C 1 set-safe $$flag 1 t1", "C 1 set-safe $$flag 3 t3"]
        for seq in itertools.product(als, repeat=3 if tier == "quick" else 4):
            c = list(SETUP)
            for x in seq: c += x.split("\n")
            cases.append(c)
        for seq in itertools.product(["C 1 set-safe $$m 3 on", "C 1 set-safe $$m 1 off", "C 1 set-safe $$m 0 zero", "C 1 set $$m plain", "C 1 get-safe $$m"], repeat=3):
            cases.append(list(SETUP) + ["C 1 use-db $admin pw"] + list(seq))
        rng = core.XorShift(seed)
        al2 = alphabet(("a", "b"))
        for _ in range(1500 if tier == "quick" else 30000):
            c = list(SETUP)
            for _ in range(4 + rng.below(10)): c += rng.choice(al2).split("\n")
            cases.append(c)
        return cases

    def nontrivial(self, case, impl):
        prev = {}
        for (inp, rest, dump) in core.parse_steps(impl):
            cur = entries(dump)
            p = inp.split(" ")
            if len(p) > 5 and p[2] == "set-safe" and p[3] in prev and int(p[4]) < prev[p[3]]["ver"]: return True
            prev = cur
        return False

    def oracle(self, case, impl):
        fails = []; prev = {}
        for (inp, rest, dump) in core.parse_steps(impl):
            cur = entries(dump)
            if inp.startswith("C "):
                p = inp.split(" ")
                r = next((x for x in rest if x.startswith("R ")), "R ?")
                if r.startswith("R PANIC"): fails.append(Failure("panic", f"{inp}: {r}")); break
                if p[2] == "replicate" and len(p) >= 7 and p[3] == "t": p = [p[0], p[1], "set-safe", p[4], p[5]] + p[6:]      # replicate <db> <key> <version> <value>
                if p[2] in ("set", "set-safe") and len(p) >= 5 and p[3] == "$$m":
                    # (the administrator's database: the dump compared here is database t's — only the acceptance is judged)
                    if r != "R ok": fails.append(Failure("newer-write-refused", f"{inp}: {r}"))
                if p[2] in ("set", "set-safe") and len(p) >= 5 and p[3] in ("a", "b", "$$flag"):
                    k = p[3]; val = core.unesc(" ".join(p[5:] if p[2] == "set-safe" else p[4:])).decode()
                    if r != "R ok":
                        fails.append(Failure("newer-write-refused", f"{inp}: {r}"))
                    else:
                        if k not in cur or core.unesc(cur[k]["v"]).decode() != val:
                            fails.append(Failure("last-write-not-stored", f"{inp}: stored {cur.get(k)}"))
                        # (a key that carries the in-conflict marker -2 keeps it through every write until it is resolved — `keep_in_conflict_resolution`,
                        # by design; a client reaches that state on any database by writing version -3 to an absent key, whose first version is the
                        # written one plus one.  Pinned is not `shrinking`: the property says the version only grows, not that it always does)
                        pinned = prev.get(k, {}).get("ver") == -2 and cur[k]["ver"] == -2 if k in cur else False
                        if k in prev and k in cur and prev[k]["st"] != "D" and not cur[k]["ver"] > prev[k]["ver"] and not pinned:
                            fails.append(Failure("newer-version-not-growing", f"{inp}: {prev[k]['ver']} -> {cur[k]['ver']}"))
                        # "resolved in favour of the most recently issued change": the entry must carry the operation id of the change that was
                        # stored, or the next stale write is compared with the wrong one (ids are canonical: #NNNN in order of first appearance)
                        if k in prev and k in cur and cur[k]["op"] == prev[k]["op"]:
                            fails.append(Failure("stored-write-keeps-an-older-operation-id", f"{inp}: the entry of {k} still carries {cur[k]['op']} after a stored write"))
                        notes = [x for x in rest if x.startswith(f"M 4 changed {k} ")]
                        watching = any(re.match(rf"D w t {k} .*\b4\b", d) for d in dump)
                        if watching and len(notes) != 1:
                            fails.append(Failure("watcher-notification-count", f"{inp}: {len(notes)} changed lines for one stored write"))
            prev = cur
            if fails: break
        return fails

SPEC = C19()
