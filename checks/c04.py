"""C04 — live replication converges: every node ends equal to the primary."""
import re
from vlib import core, cluster, netrunner
from vlib.runner import Failure

PID = "C04"
LEAN_MODULE = "NunVerif.Props.C04Snapshot"
THEOREMS = ["Nun.C04_wire_formats", "Nun.C04_replicate_line_is_generated", "Nun.C04_replicate_remove_line_is_generated", "Nun.C04_replicate_increment_line_is_generated", "Nun.C04_resolve_line_is_generated", "Nun.C04_envelope_is_generated", "Nun.C04_wire_arm_formats", "Nun.C04_create_db_line_is_generated", "Nun.C04_snapshot_line_is_generated", "Nun.parse_createDbLine", "Nun.replicateRequestCore_createDb", "Nun.parse_resolveMsg", "Nun.replicateRequestCore_resolve", "Nun.parse_snapshotLine", "Nun.splitAll_join", "Nun.replicateRequestCore_snapshot", "Nun.processObj_snapshot_queues", "Nun.C04_replicas_agree_on_writes", "Nun.setValue_agree", "Nun.C04_finding_remove_depends_on_persistence", "Nun.C04_same_messages_same_state", "Nun.C04_fanout_reaches_every_secondary", "Nun.C14_secondary_never_fans_out", "Nun.C14_fanout_bounded",
            "Nun.C04_newer_writes_converge", "Nun.C04_newer_data_commands_converge", "Nun.C04_newer_data_quiescent_agreement", "Nun.good_op_nn", "Nun.applyNN_agreeS", "Nun.applyChange_nn", "Nun.primary_set_emits_nn", "Nun.secondary_applies_set_nn", "Nun.good_write_nn",
            "Nun.C04_data_commands_converge", "Nun.C04_data_quiescent_agreement", "Nun.good_op", "Nun.setValue_agreeS", "Nun.incValue_agreeS", "Nun.removeValue_agreeS",
            "Nun.primary_remove_emits", "Nun.primary_inc_emits", "Nun.secondary_applies_remove", "Nun.secondary_applies_inc", "Nun.envelope_frame",
            "Nun.C04_writes_converge", "Nun.C04_quiescent_agreement", "Nun.C04_write_end_to_end", "Nun.good_write", "Nun.primary_set_emits", "Nun.secondary_applies_set",
            "Nun.parse_replicateMsg", "Nun.parse_replicateRemoveMsg", "Nun.parse_replicateIncMsg", "Nun.parse_rpLine", "Nun.Bytes.parseI32_ofInt", "Nun.Bytes.parseU64_ofNat",
            "Nun.C04_finding_terminator_in_last_field", "Nun.C04_fanout_is_one_critical_section", "Nun.C04_forward_is_one_critical_section"]

OPS = ["set a {v}", "set b {v}", "set a two words {v}", "remove a", "remove b", "increment n", "increment n 5", "increment n 0", "increment m{v} 0", "increment n -3", "remove n", "set-safe a {ver} s{v}", "create-user u{v} pw", "set-permissions u1 rw a*",
       "snapshot false", "create-db d{v} tk", "set n 7", "resolve {v} t r 1 res {v} end", "SNAP", "SNAP"]

def setup(net, k, rng, strategy=None):
    if not cluster.form_cluster(net, k, rng): return False
    net.op(1, "SESS 1"); net.cmd(1, 1, "auth adm pw"); net.cmd(1, 1, "create-db t tok" + (f" {strategy}" if strategy else ""))
    if net.quiesce(rng, 200) is None: return False
    for i in range(1, k + 1):
        if i > 1: net.op(i, "SESS 1"); net.cmd(i, 1, "auth adm pw")
        net.cmd(i, 1, "use-db t tok")
    return net.quiesce(rng, 200) is not None

def diverged(net, k, hist, label, tainted=None):
    """compare every node's dataset with the primary's; failures labelled with the operation that caused the first divergence"""
    fails = []
    for i in range(1, k + 1): net.op(i, "DUMP")
    dumps = netrunner.dumps_of(net)
    prim, pattrs = netrunner.dataset(dumps[1])
    for i in range(2, k + 1):
        ds, attrs = netrunner.dataset(dumps[i])
        for db in sorted(set(prim) | set(ds)):
            if db not in ds: fails.append(Failure(f"database-missing-on-secondary:{label}", f"n{i} has no database {db}; history {hist}")); continue
            if db not in prim: fails.append(Failure(f"database-only-on-secondary:{label}", f"n{i} has database {db}, the primary has not; history {hist}")); continue
            if pattrs.get(db) != attrs.get(db): fails.append(Failure(f"database-strategy-differs:{label}", f"{db}: primary {pattrs.get(db)} n{i} {attrs.get(db)}; history {hist}"))
            for key in sorted(set(prim[db]) | set(ds[db])):
                a, b = prim[db].get(key), ds[db].get(key)
                if a == b or (tainted is not None and (i, db, key) in tainted): continue
                # removed on one side and never stored on the other is the same observable state
                if (a is None and b[2] == "removed") or (b is None and a[2] == "removed"): continue
                what = "key-missing" if (a is None or b is None) else ("status-differs" if a[2] != b[2] else ("value-differs" if a[0] != b[0] else "version-differs"))
                if what == "version-differs":
                    # a write issued on node i is applied there and applied again when the primary's copy comes back
                    # (on a `newer` database every versioned write is accepted, also when it comes back as the primary's copy: it counts like a plain set)
                    own = len([1 for (n_, c) in hist if n_ == i and key_of(c) == key and (c.split(" ")[0] in ("set", "remove", "create-user", "set-permissions") or c.startswith(f"set-safe {key} -1 ") or (c.startswith("set-safe ") and pattrs.get(db) == "newer"))])   # set-safe with version -1 IS a plain set
                    # … and a write carrying the in-conflict marker -2 is applied twice too: the first time the key gets vinc(-2) = -1 (absent key)
                    # or keeps -2, the echo then pins it at -2 — the origin ends BELOW or above the primary, same cause
                    marked = any(n_ == i and c.startswith(f"set-safe {key} -2 ") for (n_, c) in hist)
                    if (own > 0 and 0 < b[1] - a[1] <= own) or (marked and b[1] == -2):
                        fails.append(Failure("version-differs:echo-of-own-write", f"{db}/{key}: primary {a} n{i} {b} after {own} write(s) of the key issued on n{i}; history {hist}"))
                        if tainted is not None: tainted.add((i, db, key))
                        continue
                if what in ("value-differs", "status-differs") and b is not None and a is not None:
                    # the echo re-applies the node's own earlier write on top of its own later versioned write, which the echo of that one then loses
                    own = [c for (n_, c) in hist if n_ == i and key_of(c) == key]
                    allw = [c for (n_, c) in hist if key_of(c) == key]
                    if any(c.startswith("set-safe") for c in own) and len(allw) >= 2:
                        fails.append(Failure("value-differs:echo-over-own-versioned-write", f"{db}/{key}: primary {a} n{i} {b}; own writes of n{i}: {own}; history {hist}"))
                        if tainted is not None: tainted.add((i, db, key))
                        continue
                lab = label
                if "wire-format" in label:
                    # the recorded wire-format finding is the statement terminator stripped from the END of a key or value; any other
                    # difference in these scenarios (a trimmed blank, a cut field, …) is a different way of breaking the property
                    explained = (what == "value-differs" and a[0] != b[0] and a[0].rstrip(";") == b[0].rstrip(";")) or (what in ("key-missing", "status-differs") and (key.endswith(";") or any(len(c.split(" ")) > 1 and c.split(" ")[1].rstrip(";") == key and c.split(" ")[1] != key for (_, c) in hist)))
                    if not explained: lab = label.replace("wire-format", "wire-format-not-a-terminator")
                fails.append(Failure(f"{what}:{lab}", f"{db}/{key}: primary {a} n{i} {b}; history {hist}"))
    seen = set(); out = []
    for f in fails:
        if f.cls not in seen: seen.add(f.cls); out.append(f)
    return out

def scenario(k, n_ops, concurrent, single_node=None, strategy=None):
    def fn(net, rng):
        if not setup(net, k, rng, strategy): return [Failure("cluster-does-not-form", f"{k} nodes: messages still in flight after the budget")]
        hist = []     # (node, command)
        ctr = 0; tainted = set(); found = []
        safe_node = 1 + rng.below(k)          # versioned writes from one node only (races between nodes are the stated exception)
        for _ in range(n_ops):
            node = single_node or (1 + rng.below(k))
            tmpl = rng.choice(OPS); ctr += 1
            if tmpl.startswith("set-safe"): node = safe_node
            cmd = tmpl.format(v=ctr, ver=rng.choice([0, 1, 2, 3, 1, 2, -2, -1]))   # -2 = the "in conflict" marker a client may write, -1 = unversioned
            hist.append((node, cmd))
            if cmd == "SNAP":
                # the periodic snapshot thread of ONE node runs (nodes snapshot on their own timers)
                net.op(node, "SNAP"); net.op(node, "PUMP")
            else:
                net.cmd(node, 1, cmd)
            if concurrent:
                for _ in range(rng.below(4)):
                    ps = net.pending()
                    if not ps: break
                    net.deliver(*ps[rng.below(len(ps))])
            else:
                if net.quiesce(rng, 300) is None: return [Failure("no-quiescence", f"after {cmd!r} on n{node}: messages still in flight after 300 deliveries")]
                # sequential: the first operation after which a node differs from the primary names the failure
                # (a key whose version ran ahead through the recorded echo defect is left out of later comparisons)
                fs = diverged(net, k, hist, f"{cmd.split(' ')[0].lower()}@{'primary' if node == 1 else 'secondary'}", tainted)
                found += fs
                if [f for f in fs if f.cls != "version-differs:echo-of-own-write"]: return found
        if net.quiesce(rng, 600) is None: return [Failure("no-quiescence", "messages still in flight after 600 deliveries")]
        if any(l.startswith("R PANIC") or l.startswith("K PANIC") for o in net.out for l in o):
            bad = next(l for o in net.out for l in o if "PANIC" in l)
            return [Failure("panic", bad[:200])]
        if not concurrent: return found
        return diverged(net, k, hist, "overlapping-operations")
    return fn

def scenario_snapshot_timing(k):
    """all writes on the primary; the periodic snapshot has run on ONE node only when a key is removed and written again"""
    def fn(net, rng):
        if not setup(net, k, rng): return [Failure("cluster-does-not-form", f"{k} nodes")]
        hist = []
        for node, cmd in [(1, "set a 1"), (1, "snapshot false"), (1, "SNAP"), (1, "remove a"), (1, "set a 2")]:
            hist.append((node, cmd))
            if cmd == "SNAP": net.op(node, "SNAP"); net.op(node, "PUMP")
            else: net.cmd(node, 1, cmd)
            if net.quiesce(rng, 300) is None: return [Failure("no-quiescence", f"after {cmd}")]
        return diverged(net, k, hist, "removed-key-rewritten-where-only-some-nodes-had-snapshotted-it")
    return fn

def scenario_concurrent_clients(k, cmd_a, cmd_b, sched):
    """two clients on the PRIMARY whose commands overlap at lock level (threads parked before every lock acquisition, schedule `sched`);
    then every message is delivered and every node is compared with the primary.  Implementation only: the sequential model cannot follow
    an interleaving; the convergence oracle judges."""
    def fn(net, rng):
        if not setup(net, k, rng): return [Failure("cluster-does-not-form", f"{k} nodes")]
        net.op(1, "SESS 2"); net.cmd(1, 2, "use-db t tok")
        hist = [(1, "set n 5"), (1, "set a 0")]
        for (_, c) in hist: net.cmd(1, 1, c)
        if net.quiesce(rng, 300) is None: return [Failure("no-quiescence", "setup")]
        esc = lambda c: core.esc(c.encode(), sp=True)
        net.op(1, f"PAR {sched} 1 {esc(cmd_a)} 2 {esc(cmd_b)}"); net.op(1, "PUMP")
        hist += [(1, f"{cmd_a} || {cmd_b} (schedule {sched})")]
        if net.quiesce(rng, 300) is None: return [Failure("no-quiescence", "after the overlapping commands")]
        return diverged(net, k, hist, f"overlapping-clients-on-the-primary:{cmd_a.split(' ')[0]}+{cmd_b.split(' ')[0]}")
    fn.impl_only = True
    return fn

def scenario_versions(k, script, label="version-marker", strategy=None):
    """fixed sequences around the version markers a client may write: -2 ('in conflict'), -1 (unversioned), exact and stale versions"""
    def fn(net, rng):
        if not setup(net, k, rng, strategy): return [Failure("cluster-does-not-form", f"{k} nodes")]
        hist = []; found = []; tainted = set()
        for node, cmd in script:
            hist.append((node, cmd)); net.cmd(node, 1, cmd)
            if net.quiesce(rng, 300) is None: return [Failure("no-quiescence", f"after {cmd}")]
            fs = diverged(net, k, hist, f"{cmd.split(' ')[0]}-{label}@{'primary' if node == 1 else 'secondary'}", tainted)
            found += fs
            if [f for f in fs if f.cls != "version-differs:echo-of-own-write"]: return found
        return found
    return fn

def scenario_snapshot_names(k, script, label="snapshot-names"):
    """a `snapshot` command names the databases to write (or none: the selected one); what the primary queues for its own snapshot round and what
    it tells the secondaries to queue must be the same databases with the same mode — compared through every node's snapshot queue"""
    def fn(net, rng):
        if not setup(net, k, rng): return [Failure("cluster-does-not-form", f"{k} nodes")]
        net.cmd(1, 1, "create-db u tku"); net.cmd(1, 1, "create-db w tkw")
        if net.quiesce(rng, 300) is None: return [Failure("no-quiescence", "create-db")]
        hist = []
        for node, cmd in script:
            hist.append((node, cmd)); net.cmd(node, 1, cmd)
            if net.quiesce(rng, 300) is None: return [Failure("no-quiescence", f"after {cmd}")]
            for i in range(1, k + 1): net.op(i, "DUMP")
            dumps = netrunner.dumps_of(net)
            q = {i: sorted(next((l for l in dumps[i] if l.startswith("D snapq")), "D snapq ")[8:].split(",")) for i in range(1, k + 1)}
            # (a snapshot command issued on a SECONDARY is that node's own business: it is not forwarded, and need not be)
            for i in (range(2, k + 1) if node == 1 else []):
                if q[i] != q[1]:
                    return [Failure(f"snapshot-queue-differs:{cmd.split(' ')[0]}@{'primary' if node == 1 else 'secondary'}", f"after {cmd!r} on n{node}: the primary queued {q[1]}, n{i} queued {q[i]}; history {hist}")]
            if cmd.startswith("snapshot"):
                for i in range(1, k + 1): net.op(i, "SNAP")
            if label != "snapshot-names":
                fs = diverged(net, k, hist, f"{cmd.split(' ')[0]}-{label}@{'primary' if node == 1 else 'secondary'}")
                if [f for f in fs if f.cls != "version-differs:echo-of-own-write"]: return fs
        return diverged(net, k, hist, label)
    return fn

# commands that NAME a database other than the one the session has selected (the administrator's resolve, snapshots, the cluster forms):
# the primary and the secondaries must apply them to the same database
CROSS_DB_SCRIPTS = [
    [(1, "resolve 7 u r 1 res"), (1, "use-db u tku"), (1, "get r"), (1, "resolve 8 t q 1 res2"), (1, "set z 1")],
    [(1, "use-db u tku"), (1, "set r 0"), (1, "set r 1"), (1, "use-db w tkw"), (1, "resolve 9 u r 2 merged"), (1, "replicate t x -1 direct"), (1, "replicate-remove u r"), (1, "replicate-increment w n 3")],
]

SNAPSHOT_SCRIPTS = [
    [(1, "set a 1"), (1, "snapshot false u"), (1, "use-db u tku"), (1, "set a 2"), (1, "snapshot false t"), (1, "remove a"), (1, "set a 3")],
    [(1, "set a 1"), (1, "snapshot false t|u"), (1, "snapshot true w"), (1, "snapshot false"), (1, "remove a"), (1, "set a 4")],
    [(1, "use-db u tku"), (1, "set k 1"), (1, "use-db t tok"), (1, "snapshot false u"), (1, "use-db u tku"), (1, "remove k"), (1, "set k 2"), (1, "snapshot true")],
    [(2, "set a 1"), (2, "snapshot false u"), (2, "snapshot false t"), (2, "snapshot true u|w")],
]

VERSION_SCRIPTS = [
    [(1, "set a 1"), (1, "set-safe a -2 marked"), (1, "set a 3"), (1, "set-safe a 7 seven"), (1, "set-safe a 2 stale")],
    [(1, "set-safe a -2 first"), (1, "set-safe a -2 again"), (1, "remove a"), (1, "set a back")],
    [(1, "set a 1"), (1, "set-safe a -1 plain"), (1, "set-safe a 5 jump"), (1, "set-safe a -2 marked"), (1, "increment a 1")],
    [(1, "increment n 4"), (1, "set-safe n -2 9"), (1, "increment n 1"), (1, "set-safe n 0 1")],
]

# the text format of replication: fields a client can put into a key or value that the printed line must carry unchanged
# (statement terminators, separators, blanks, digits where a version is expected, empty values)
WIRE_SCRIPTS = [
    [(1, "set a; 1"), (1, "set a 2"), (1, "remove a; ")],
    [(1, "set k v;\n;"), (1, "get k")],
    [(1, "set k  two  blanks "), (1, "set n 5"), (1, "set m -3 x"), (1, "set e")],
    [(1, "set a|b 1"), (1, "set a,b 2"), (1, "remove a|b"), (1, "increment c; 2"), (1, "increment c; ")],
    [(2, "set a; 1"), (2, "remove a; "), (2, "set k v;\n;")],
    [(1, "set-safe q; 0 x;"), (1, "set-safe q; 1 7 y"), (1, "remove q;")],
]

# statement terminators at the very END of a client's line are not part of the last field: however many there are, the node that takes the
# command strips them all — once, at its own parse — and every later parse of the printed line (the envelope in the loop, the oplog, the
# secondaries) finds nothing left to strip.  Nothing diverges here on the unchanged tree; a parse that strips only some of them leaves the
# rest to be stripped at the NEXT hop, and the nodes end apart (seeded change C04-7)
WIRE_CLEAN_SCRIPTS = [
    [(1, "set css color:red;;"), (1, "get css"), (1, "set-safe css 1 a:b;;;"), (1, "remove css;;")],
    [(1, "set u v;;;;"), (1, "increment n 2;;"), (1, "set-safe u 1 w;;")],
    [(2, "set css x;;"), (2, "set other y;;;"), (1, "remove css;;")],
]

NEWER_SCRIPTS = [
    [(1, "set color red"), (1, "set color green"), (1, "set color blue"), (1, "set-safe color 0 yellow"), (1, "get-safe color")],
    [(1, "set-safe a 5 five"), (1, "set-safe a 1 one"), (1, "set-safe a 6 six"), (1, "set-safe a 0 zero"), (1, "increment a")],
    [(1, "set a 1"), (1, "remove a"), (1, "set-safe a 0 back"), (1, "set-safe a 0 again")],
]

def key_of(cmd):
    p = cmd.split(" ")
    if p[0] in ("set", "remove", "increment", "set-safe"): return p[1]
    if p[0] == "resolve": return p[3]
    if p[0] == "create-user": return "$$user_" + p[1]
    if p[0] == "set-permissions": return "$$permission_$" + p[1]
    return None

def scenarios(tier):
    S = []
    reps = 6 if tier == "quick" else 40
    for k in (2, 3):
        for r in range(reps):
            S.append((f"k{k}-sequential-{r}", scenario(k, 1 + (r % 8), False)))
            S.append((f"k{k}-concurrent-{r}", scenario(k, 2 + (r % 7), True)))
        S.append((f"k{k}-primary-only", scenario(k, 6, False, single_node=1)))
        S.append((f"k{k}-secondary-only", scenario(k, 6, False, single_node=2)))
        S.append((f"k{k}-snapshot-timing", scenario_snapshot_timing(k)))
        for vi, sc in enumerate(VERSION_SCRIPTS): S.append((f"k{k}-version-markers-{vi}", scenario_versions(k, sc)))
        # a database with the `newer` strategy: the primary RESOLVES a stale versioned write instead of refusing it; every receiver must
        # reach the same outcome from the line it is sent (primary-only writers: the recorded echo findings need a writing secondary)
        for vi, sc in enumerate(VERSION_SCRIPTS + NEWER_SCRIPTS): S.append((f"k{k}-newer-version-markers-{vi}", scenario_versions(k, sc, "newer-strategy", "newer")))
        for r in range(3 if tier == "quick" else 20): S.append((f"k{k}-newer-primary-only-{r}", scenario(k, 4 + r % 5, False, single_node=1, strategy="newer")))
        for vi, sc in enumerate(WIRE_SCRIPTS): S.append((f"k{k}-wire-format-{vi}", scenario_versions(k, sc, "wire-format")))
        for vi, sc in enumerate(WIRE_CLEAN_SCRIPTS): S.append((f"k{k}-terminators-at-line-end-{vi}", scenario_versions(k, sc, "terminators-at-line-end")))
        for vi, sc in enumerate(SNAPSHOT_SCRIPTS): S.append((f"k{k}-snapshot-names-{vi}", scenario_snapshot_names(k, sc)))
        for vi, sc in enumerate(CROSS_DB_SCRIPTS): S.append((f"k{k}-cross-database-{vi}", scenario_snapshot_names(k, sc, "cross-database")))
    # two concurrent clients on the primary (the quantifier's second case), lock-level schedules
    import random
    r = random.Random(17)
    scheds = ["0", "1", "0" + "1" * 10 + "0" * 10, "1" + "0" * 10 + "1" * 10, "00" + "1" * 10 + "0" * 10, "11" + "0" * 10 + "1" * 10, "0110" * 4, "1001" * 4, "01" * 8, "10" * 8, "0011" * 4, "1100" * 4, "000111" * 3, "111000" * 3] + ["".join(r.choice("01") for _ in range(16)) for _ in range(12 if tier == "quick" else 120)]
    for (ca, cb) in (("increment n", "increment n 10"), ("increment n", "set n 100"), ("set-safe a 1 A", "increment a"), ("set a X", "remove a")):
        for sc in scheds: S.append((f"k2-par-{ca.split(' ')[0]}-{cb.split(' ')[0]}-{sc}", scenario_concurrent_clients(2, ca, cb, sc)))
    return S

RULE = ("clusters of 2 and 3 real nodes formed through the real join path (join -> supervisor -> connections -> set-primary / set-secoundary / replicate-since handshakes), then sequences of 1-8 client operations "
        "(set incl. multi-word values, remove, increment, set-safe from one node with versions -2 (the in-conflict marker), -1 and 0-3, create-user, set-permissions, snapshot, create-db) issued at seeded-random nodes, (a) sequentially with a seeded-random FIFO-respecting delivery order to quiescence "
        "after each operation and (b) with operations overlapping in flight (0-3 seeded-random deliveries between operations); at quiescence every node's full dataset (databases, strategy, per key value / removed status / version) is compared with the primary's. "
        "(c) two clients on the primary whose commands overlap at LOCK level (increment / set / set-safe / remove pairs under 20 (thorough 128) schedules of the two threads' lock acquisitions; implementation only, judged by the convergence oracle); plus fixed sequences around the version markers (-2, -1, exact, stale, jump) on the primary, on a strategy-none and on a `newer` database (where the primary resolves a stale write instead of refusing it), and seeded primary-only sequences on a `newer` database. Every primitive operation is also executed by the Lean model in lockstep and every output line compared. distinct by trace hash")

def main(tier, seed):
    return netrunner.run(PID, LEAN_MODULE, THEOREMS, scenarios(tier), RULE, tier, seed,
                         assumptions=["message delays exceed the election timeout during cluster formation only (the joining election claims the primary role by timeout; see C07)",
                                      "links are FIFO and lossless; no node crashes (C05)"])
