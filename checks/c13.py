"""C13 — arbiter databases never apply or lose a conflicting write silently (single node)."""
import re, itertools
from vlib import core
from vlib.runner import Spec, Failure

SETUP = ["RESET", "SESS 1", "C 1 auth adm pw", "C 1 create-db ta tok arbiter", "C 1 use-db ta tok", "SESS 2", "C 2 use-db ta tok", "SESS 3", "C 3 use-db ta tok"]

def alphabet(keys):
    al = []
    for k in keys:
        al += [f"C 1 set {k} p{k}", f"C 2 set-safe {k} 0 s{k}", f"C 2 set-safe {k} 7 f{k}", f"C 1 get-safe {k}"]
    # a resolution is "everything left on the line": one of the three values is a document with blanks in it
    al += ["C 3 arbiter", "C 3 unwatch-all", "RESOLVE 3 0 r0", "RESOLVE 3 1 {\"r\": 1, \"m\": true}", "RESOLVE 3 2 r2", "C 2 arbiter"]
    return al

def entries(dump, db="ta"):
    out = {}
    for d in dump:
        m = re.match(r"D k (\S+) (\S+) ver=(-?\d+) st=(\w) va=\d+ ka=\d+ op=\S+ v=(.*)", d)
        if m and m.group(1) == db: out[m.group(2)] = (int(m.group(3)), m.group(5), m.group(4))
    return out

def arbiters(dump, db="ta"):
    for d in dump:
        m = re.match(r"D w (\S+) \$conflicts ?(.*)", d)
        if m and m.group(1) == db: return [x for x in m.group(2).split(",") if x]
    return None   # no watcher entry at all = no arbiter ever registered

class C13(Spec):
    pid = "C13"
    lean_module = "NunVerif.Props.C03Notify"
    theorems = ["Nun.C13_arbiter_fanout_reaches_every_arbiter", "Nun.C13_never_silent", "Nun.C13_resolve_last", "Nun.C13_resolve_pending", "Nun.resolveConflict_db", "Nun.conflictKey_ne_key"]
    rule = ("single node, arbiter database: all sequences of length L over {plain write, stale versioned write, fresh versioned write, get-safe} x keys x "
            "{arbiter connect, arbiter unwatch-all, second arbiter, resolve the i-th notice received (echoing its op id and version)}; seeded random longer sequences over 2 keys. "
            "non-trivial = at least one conflict recorded and one resolve; distinct by trace hash")

    def corpus(self):
        return [("substring-keys", SETUP + ["C 3 arbiter", "C 1 set a 1", "C 1 set a 2", "C 1 set ab 1", "C 1 set ab 2", "C 2 set-safe ab 0 x", "C 2 set-safe a 0 y",
                                            "RESOLVE 3 1 ra", "C 1 get-safe a", "C 1 set a z", "C 1 get-safe a"]),
                ("resolve-newest-first", SETUP + ["C 3 arbiter", "C 1 set k 1", "C 1 set k 2", "C 2 set-safe k 0 x", "C 2 set-safe k 0 y", "RESOLVE 3 1 r2", "C 1 get-safe k",
                                                  "C 2 set-safe k 1 z", "C 1 get-safe k"])]

    def generate(self, tier, seed):
        cases = []
        al = alphabet(("k",))
        for seq in itertools.product(al, repeat=3 if tier == "quick" else 4):
            cases.append(SETUP + ["C 1 set k 0", "C 1 set k 1"] + list(seq))
        pre2 = SETUP + ["C 3 arbiter", "C 1 set k 0", "C 1 set k 1", "C 2 set-safe k 0 c1", "C 2 set-safe k 0 c2"]
        for seq in itertools.product(al, repeat=2 if tier == "quick" else 3):
            cases.append(pre2 + list(seq))
        # structured: arbiter connected from the start, key at version 1; conflict-heavy alphabet
        hot = ["C 2 set-safe k 0 c", "C 1 set k p", "RESOLVE 3 0 r0", "RESOLVE 3 1 r1", "RESOLVE 3 2 r 2  two", "C 3 unwatch-all", "C 5 arbiter", "C 1 get-safe k"]
        pre3 = SETUP + ["SESS 5", "C 5 use-db ta tok", "C 3 arbiter", "C 1 set k 0", "C 1 set k 1"]
        for seq in itertools.product(hot, repeat=4 if tier == "quick" else 5):
            c = list(pre3)
            for x in seq: c += x.split("\n")
            cases.append(c)
        # an arbiter whose connection died while it had another database selected (the disconnect cleans the selected database only): its dead
        # subscription stays AHEAD of the next arbiter's in the list of `$conflicts` — the next arbiter must still be sent every notice and the backlog
        pre4 = SETUP + ["C 1 create-db tb tok2", "SESS 5", "C 5 use-db ta tok", "C 1 set k 0", "C 1 set k 1", "C 3 arbiter", "C 3 use-db tb tok2", "CLOSE 3"]
        hot4 = ["C 2 set-safe k 0 c", "C 5 arbiter", "RESOLVE 5 0 r0", "C 1 set k p", "C 1 get-safe k"]
        for seq in itertools.product(hot4, repeat=3 if tier == "quick" else 5):
            cases.append(pre4 + list(seq))
        rng = core.XorShift(seed)
        al2 = alphabet(("k", "j"))
        for _ in range(1500 if tier == "quick" else 30000):
            cases.append(SETUP + ["C 1 set k 0", "C 1 set j 0"] + [rng.choice(al2) for _ in range(4 + rng.below(9))])
        return cases

    def nontrivial(self, case, impl):
        return any("$$conflitct unresolved" in l for l in impl) and any(l.startswith("# resolve ") for l in impl)

    def oracle(self, case, impl):
        fails = []
        steps = core.parse_steps(impl)
        prev = {}; prev_arb = None
        ever_arb = False      # has an arbiter EVER registered (the property's own notion; not read off the node's watcher table)
        for (inp, rest, dump) in steps:
            if inp.startswith("RESET"): ever_arb = False
            cur = entries(dump); arb = arbiters(dump)
            r = next((x for x in rest if x.startswith("R ")), "")
            if any(x.startswith("R PANIC") for x in rest): fails.append(Failure("panic", f"{inp}: {rest[:1]}")); break
            def unresolved(ents, key):
                return sorted(k for k, (ver, v, st) in ents.items() if k.startswith(f"$conflicts_{key}_") and st != "D" and not v.startswith("resolved"))
            if inp.startswith("C ") and len(inp.split(" ")) > 3 and inp.split(" ")[2] in ("set", "set-safe"):
                key = inp.split(" ")[3]
                before = prev.get(key); after = cur.get(key)
                pend_before = unresolved(prev, key)
                if "$$conflitct unresolved" in r:
                    ck = core.unesc(r.split("unresolved ", 1)[1]).decode()
                    if after is None or before is None or after[1] != before[1]:
                        fails.append(Failure("conflicting-write-changed-value", f"{inp}: {before} -> {after}"))
                    elif after[0] != -2:
                        fails.append(Failure("conflicted-key-not-marked", f"{inp}: version {after[0]}"))
                    if ck not in cur:
                        fails.append(Failure("conflict-not-recorded", f"{inp}: {ck} missing"))
                    else:
                        notice = cur[ck][1]
                        for a in (prev_arb or []):
                            if a == "?": continue
                            if not any(x.startswith(f"M {a} ") and x[len(f"M {a} "):] == notice for x in rest):
                                fails.append(Failure("notice-not-delivered-to-arbiter", f"{inp}: arbiter session {a} did not get {notice!r}"))
                elif r.startswith("R error An conflitct"):
                    if prev_arb is not None: fails.append(Failure("refused-although-arbiter-registered", inp))
                    elif ever_arb: fails.append(Failure("refused-although-an-arbiter-had-registered", f"{inp}: an arbiter registered earlier and left; the conflict must be recorded for the next one"))
                    if before != after: fails.append(Failure("refused-write-changed-key", f"{inp}: {before} -> {after}"))
                elif r == "R ok":
                    if pend_before or (before is not None and before[0] == -2):
                        fails.append(Failure("write-applied-while-conflict-pending", f"{inp}: pending {pend_before}, version before {before[0] if before else None}"))
            if inp.startswith("RESOLVE ") and not any(x == "# no-notice" for x in rest):
                cmdline = next((x[2:] for x in rest if x.startswith("# resolve ")), "")
                p = cmdline.split(" ")
                if len(p) >= 6 and r == "R ok":
                    key = p[3]; val = " ".join(p[5:])
                    left = unresolved(cur, key)
                    after = cur.get(key)
                    if after is not None:
                        if left and after[0] != -2:
                            fails.append(Failure("key-writable-while-conflict-pending", f"{inp}: {left} unresolved but version {after[0]}"))
                        if not left and (after[0] == -2 or after[1] != val):
                            fails.append(Failure("drained-key-not-resolved", f"{inp}: nothing pending but key is {after}"))
            if re.fullmatch(r"C \d+ arbiter", inp) and r == "R ok": ever_arb = True
            if inp.startswith("C ") and inp.endswith(" arbiter") and r == "R ok" and inp.split(" ")[1] not in (prev_arb or []):
                sid = inp.split(" ")[1]
                want = sorted(v for k, (ver, v, st) in cur.items() if k.startswith("$conflicts_") and st != "D" and not v.startswith("resolved"))
                got = sorted(x[len(f"M {sid} "):] for x in rest if x.startswith(f"M {sid} resolve "))
                if want != got:
                    fails.append(Failure("new-arbiter-not-sent-exactly-the-unresolved", f"{inp}: unresolved {want} but received {got}"))
            prev = cur; prev_arb = arb
            if fails: break
        return fails

SPEC = C13()
