"""C18 — S3 storage strategies restore what the disk strategy would."""
import os, re, sys, glob, time, json, shutil, subprocess, itertools
from concurrent.futures import ThreadPoolExecutor
from vlib import core
from vlib.core import log
from vlib.runner import Failure
from vlib.s3stub import Stub
from checks.c02 import entries

PID = "C18"
LEAN_MODULE = "NunVerif.Props.C18PartListing"
THEOREMS = ["Nun.C18_finding_identity_not_stored", "Nun.C18_finding_failed_upload_is_silent", "Nun.C18_snapshot_ignores_reclaim", "Nun.C18_round_trip_witness",
            "Nun.C18_s3_roundtrip", "Nun.C18_s3_restores_what_disk_restores", "Nun.s3LoadLoop_encObjs", "Nun.C06_reclaim_roundtrip",
            "Nun.s3pLoadLoop_encPart", "Nun.s3pSnapPartition_step", "Nun.C18_part_snapshot_syncs", "Nun.C18_part_load_of_synced", "Nun.C18_part_roundtrip",
            "Nun.PartInv_writeStep", "Nun.C18_part_inv_after_any_history", "Nun.PGood_fresh",
            "Nun.partNameOf_objKey", "Nun.listing_of_wf", "Nun.StoreWF_after_any_history", "Nun.C18_part_roundtrip_wf", "Nun.C18_part_restores_after_any_history", "Nun.partitionOf_bound"]

SETUP = ["RESET", "SESS 1", "C 1 auth adm pw", "C 1 create-db t tok newer", "C 1 use-db t tok"]
AFTER = ["SESS 1", "C 1 auth adm pw", "C 1 use-db t tok", "C 1 keys", "C 1 get-safe a", "C 1 get-safe b"]
OPS = ["C 1 set a 1", "C 1 set a two words", "C 1 set b x", "C 1 remove a", "C 1 remove b", "C 1 increment n", "C 1 set-safe a 0 s", "C 1 set c h\\xc3\\xa9",
       "C 1 snapshot false\nSNAP", "C 1 snapshot true\nSNAP", "C 1 snapshot false\nSNAP\nRESTART\n" + "\n".join(AFTER)]

def histories(tier, seed):
    H = []
    L = 3     # (length 4 would be 10 000 histories x 4 configurations, each with its own stub: the stub's HTTP handling is Python)
    for seq in itertools.product(OPS, repeat=L):
        if not any("SNAP" in x for x in seq): continue
        c = list(SETUP)
        for x in seq: c += x.split("\n")
        c += ["C 1 snapshot false", "SNAP", "RESTART"] + AFTER
        H.append(c)
    rng = core.XorShift(seed)
    for _ in range(40 if tier == "quick" else 1200):
        c = list(SETUP)
        for _ in range(4 + rng.below(10)): c += rng.choice(OPS).split("\n")
        c += ["C 1 snapshot false", "SNAP", "RESTART"] + AFTER
        H.append(c)
    if tier == "quick": H = H[::7]
    # removed keys that are already in the store travel through the next snapshot as records of their own, in hash order BETWEEN the
    # live keys: whichever key is removed, every record after it must still be found where the keys object says (values of different lengths)
    KV5 = [("a", "1"), ("bb", "two words"), ("c", "h\\xc3\\xa9"), ("dddd", "x" * 40), ("e", "")]
    for rem in [(k,) for k, _ in KV5] + list(itertools.combinations([k for k, _ in KV5], 2)):
        c = list(SETUP) + [f"C 1 set {k} {v}".rstrip() for k, v in KV5] + ["C 1 snapshot false", "SNAP"] + [f"C 1 remove {k}" for k in rem]
        c += ["C 1 set bb changed", "C 1 snapshot false", "SNAP", "RESTART"] + AFTER + [f"C 1 get-safe {k}" for k, _ in KV5]
        H.append(c)
    # two databases (the implementation loads them on concurrent threads: not compared with the model line by line)
    two = ["RESET", "SESS 1", "C 1 auth adm pw", "C 1 create-db t tok newer", "C 1 create-db u tk2 arbiter", "C 1 use-db t tok", "C 1 set a 1", "C 1 use-db u tk2", "C 1 set z 9",
           "C 1 snapshot false t|u", "SNAP", "RESTART", "SESS 1", "C 1 auth adm pw", "C 1 debug list-dbs", "C 1 use-db u tk2", "C 1 get-safe z"]
    multi = [two]
    # databases whose names are related (one a prefix of the other, with a next character that sorts before, at and after `/`): the object
    # keys of one start with the object keys' prefix of the other; few keys in one and many in the other, both ways round
    many = [("a", "1"), ("bb", "two words"), ("c", "3"), ("dddd", "4"), ("e", "5"), ("ff", "6"), ("g", "7"), ("hh", "8"), ("i", "9"), ("jj", "10")]
    for other in ("t-old", "t.v2", "t2", "t_old", "tt"):
        for (kt, ko) in ((many[:1], many), (many, many[:1]), (many, many), ([], many)):
            c = ["RESET", "SESS 1", "C 1 auth adm pw", "C 1 create-db t tok newer", f"C 1 create-db {other} tk2 newer", "C 1 use-db t tok"]
            c += [f"C 1 set {k} {v}" for k, v in kt] + [f"C 1 use-db {other} tk2"] + [f"C 1 set {k} o{v}" for k, v in ko]
            c += [f"C 1 snapshot false t|{other}", "SNAP", "RESTART", "SESS 1", "C 1 auth adm pw", "C 1 debug list-dbs", "C 1 use-db t tok", "C 1 keys", f"C 1 use-db {other} tk2", "C 1 keys"]
            multi.append(c)
    return H, multi

def run_impl(case, strategy, parts, faults, tag):
    """the history against a fresh stub; returns (output lines, stub log, final objects)"""
    st = Stub()
    for k in faults.get("put_once", []): st.store.fail_put_once.add(k)
    for k in faults.get("put_always", []): st.store.fail_put_always.add(k)
    for k in faults.get("get_once", []): st.store.fail_get_once.add(k)
    for sfx in faults.get("get_always", []): st.store.fail_get_suffix.add(sfx)
    for sfx, n in faults.get("get_n", {}).items(): st.store.fail_get_n[sfx] = n
    d = os.path.join(core.SCRATCH, f"c18_{tag}_{os.getpid()}"); shutil.rmtree(d, ignore_errors=True); os.makedirs(d)
    script = os.path.join(d, "script"); open(script, "w").write("\n".join(case) + "\n")
    env = dict(core.ENV, NVH_DIR=d, NUN_S3_API_URL=st.url(), NUN_S3_NUMBER_OF_PARTITIONS=str(parts), NUN_S3_RETRY="2")
    # how the strategy is chosen: the single option, or the split read / write options (with the general one left at its default)
    if strategy.endswith("@split"):
        env["NUN_STORAGE_READ_STRATEGY"] = strategy.split("@")[0]; env["NUN_STORAGE_WRITE_STRATEGY"] = strategy.split("@")[0]
    elif strategy != "disk": env["NUN_STORAGE_STRATEGY"] = strategy
    try:
        p = subprocess.run([core.NVH, "run", script], env=env, stdout=subprocess.PIPE, stderr=subprocess.PIPE, text=True, timeout=300)
        out = [l for l in p.stdout.split("\n") if l and not l.startswith("@ ")]
        ann = [l for l in p.stdout.split("\n") if l.startswith("@ ")]
    finally:
        st.close(); shutil.rmtree(d, ignore_errors=True)
    return out, ann, list(st.store.log), dict(st.store.objects)

def run_model(case, ann, failputs, parts=0):
    lines = []; si = 0
    for l in case:
        if l.startswith("RESET") and parts: lines.append(f"RESET primary,s3p={parts}")
        elif l.startswith("RESET"): lines.append("RESET primary,s3" + (",failputs=" + "+".join(str(k) for k in failputs) if failputs else ""))
        elif l.startswith("SNAP"):
            lines.append(ann[si][2:] if si < len(ann) else l); si += 1
        else: lines.append(l)
    p = subprocess.run([core.MODEL], input="\n".join(lines) + "\n", stdout=subprocess.PIPE, text=True, timeout=300)
    return [l for l in p.stdout.split("\n") if l]

def datasets_after_restarts(out):
    """for every RESTART: (dataset before it = what the last snapshot should hold, dataset after it)"""
    res = []; prev = None; snap = None
    for (inp, rest, dump) in core.parse_steps(out):
        cur = dump if dump else None
        if inp.startswith("SNAP"): snap = cur if cur is not None else prev
        if inp.startswith("RESTART"):
            res.append((snap, cur, any(x.startswith("R PANIC") for x in rest)))
        if cur is not None: prev = cur
    return res

def live(dump):
    """the live data of every user database, keys as `<db>/<key>`"""
    out = {}
    for d in dump:
        m = re.match(r"D k (\S+) (\S+) ver=(-?\d+) st=(\w) va=(\d+) ka=(\d+) op=(\S+) v=(.*)", d)
        if m and m.group(1) != "$admin" and m.group(4) != "D" and m.group(2) != "$connections":
            out[(m.group(2) if m.group(1) == "t" else f"{m.group(1)}/{m.group(2)}")] = (m.group(8), int(m.group(3)))
    return out

def oracle(case, out_s3, out_disk, stub_log, strategy, faults):
    """the same history under the disk strategy is the reference"""
    fails = []
    rs = datasets_after_restarts(out_s3); rd = datasets_after_restarts(out_disk)
    faulty = bool(faults)
    # an upload that failed for good loses what it carried: the data comparison is meaningless then, what matters is that it was reported
    lost_upload = any(x[0] == "PUT" and x[2] == 500 and not any(y[0] == "PUT" and y[1] == x[1] and y[2] == 200 for y in stub_log[stub_log.index(x):]) for x in stub_log)
    if lost_upload: rs = []
    # a download that fails for good (every GET of the object answered 500): the start-up must REPORT it (it does not come up) — coming up
    # without the data is the silent loss the property excludes; a start-up that fails is the report, not a defect
    lost_gets = sorted({x[1] for x in stub_log if x[0] == "GET" and x[2] == 500 and not any(y[0] == "GET" and y[1] == x[1] and y[2] == 200 for y in stub_log)})
    if lost_gets:
        if rs and not rs[0][2]:
            fails.append(Failure("failed-download-not-reported", f"every GET of {lost_gets} failed, the node started all the same"))
        rs = []
    for i, ((snap, after, panic), (_, dafter, dpanic)) in enumerate(zip(rs, rd)):
        if panic and not dpanic:
            fails.append(Failure("start-fails", f"restart {i}: the node does not start from the object store")); break
        if after is None or dafter is None: continue
        a, b = live(after), live(dafter)
        for k in sorted(set(a) | set(b)):
            if a.get(k) == b.get(k): continue
            if k not in a: cls = "live-key-lost" + (":token" if k == "$$token" else "")
            elif k not in b: cls = "removed-key-comes-back"
            elif a[k][0] != b[k][0]: cls = "value-differs-from-disk"
            else: cls = "version-differs-from-disk"
            fails.append(Failure(cls, f"restart {i}: key {k}: {strategy} gives {a.get(k)}, disk gives {b.get(k)}"))
        ida = [l for l in after if l.startswith("D db t ")]; idb = [l for l in dafter if l.startswith("D db t ")]
        if ida and idb and ida[0].split(" conns")[0] != idb[0].split(" conns")[0]:
            fails.append(Failure("database-identity-differs-from-disk", f"restart {i}: {ida[0]} vs {idb[0]}"))
        break   # after the first divergent restart the two runs are different histories
    # a failed upload must be reported, not silently dropped: the snapshot command's run must show an error or a panic
    failed_puts = [x for x in stub_log if x[0] == "PUT" and x[2] == 500]
    if failed_puts:
        reported = any(inp.startswith("SNAP") and any("PANIC" in x for x in rest) for (inp, rest, dump) in core.parse_steps(out_s3))
        # retried?
        keys_failed = {x[1] for x in failed_puts}
        retried_ok = all(any(y[0] == "PUT" and y[1] == k and y[2] == 200 for y in stub_log[stub_log.index(next(x for x in failed_puts if x[1] == k)):]) for k in keys_failed)
        if not reported and not retried_ok:
            fails.append(Failure("failed-upload-neither-retried-nor-reported", f"{[x[:3] for x in failed_puts]}: no later successful PUT of the object and nothing reported"))
    seen = set(); o = []
    for f in fails:
        if f.cls not in seen: seen.add(f.cls); o.append(f)
    return o

def main(tier, seed):
    t0 = time.time()
    for f in glob.glob(os.path.join(core.ROOT, "replays", f"{PID}-*")): os.remove(f)
    build = core.build_all(["nunmodel", LEAN_MODULE])
    obligations = []; violations = []; notes = []
    if not build["cargo_ok"]:
        p = core.write_replay(PID, "build", ["# the harness does not compile against /repo's working tree"])
        print(f"VIOLATION property={PID} replay={p} no-failing-input-found")
        core.write_evidence(PID, dict(property_id=PID, tier=tier, seed=seed, level="other", coverage=dict(explanation="harness build failed", evaluations=0), wall_s=time.time() - t0, violations=1))
        return 1
    for e in build["extract_errors"]: obligations.append(("extract", False, e))
    if not build["extract_errors"]: obligations.append(("extract:locators", True, "all source locators matched"))
    mod_ok = not any(m.startswith("NunVerif") or m.startswith("Driver") for m in build.get("failed_modules", []))
    axioms = {}
    if mod_ok and THEOREMS:
        axioms, _ = core.lean_axioms(LEAN_MODULE, THEOREMS)
        ok_rc, det = core.lean_recheck(LEAN_MODULE)
        obligations.append((f"leanchecker {LEAN_MODULE}", ok_rc, det))
    for t in THEOREMS:
        ax = axioms.get(t)
        obligations.append((t, bool(mod_ok and ax is not None and set(ax) <= core.ALLOWED_AXIOMS), f"axioms {ax}" if mod_ok else "module does not compile"))
    hits = core.grep_forbidden(core.lean_files("Props") + core.lean_files("Proofs") + core.lean_files("Model"))
    obligations.append(("no sorry/admit/axiom/native_decide", not hits, "; ".join(hits[:5])))
    known = [k for k in core.load_known() if k["property"] == PID]
    known_classes = {k["class"] for k in known if k["status"] == "known"}
    H, multi = histories(tier, seed)
    configs = [("s3", 1, {})] + [("s3_patition", p, {}) for p in (1, 3, 10)]
    fault_cfgs = [("s3", 1, {"put_once": [1]}), ("s3", 1, {"put_always": [2]}), ("s3", 1, {"get_once": [1]}),
                  ("s3_patition", 3, {"put_once": [1]}), ("s3_patition", 3, {"put_always": [1]}), ("s3_patition", 3, {"get_once": [1]}),
                  ("s3", 1, {"get_always": ["/nun.keys"]}), ("s3", 1, {"get_always": ["/nun.values"]}), ("s3_patition", 3, {"get_always": [".nun"]}),
                  # a download that fails three times in a row (more than the SDK retries by itself) and then works: the partitioned strategy's own retry
                  # reads that partition again — every partition, also those read BEFORE the failing one, must still be there afterwards
                  ("s3_patition", 3, {"get_n": {"/1.nun": 3}}), ("s3_patition", 3, {"get_n": {"/2.nun": 3}}), ("s3_patition", 10, {"get_n": {"/5.nun": 3}}), ("s3_patition", 3, {"get_n": {"/0.nun": 3}})]
    jobs = []
    for ci, c in enumerate(H):
        for (strategy, parts, faults) in configs: jobs.append((c, strategy, parts, faults, True))
        if ci % (10 if tier == "quick" else 4) == 0:
            for (strategy, parts, faults) in fault_cfgs: jobs.append((c, strategy, parts, faults, True))
    for c in multi:
        for (strategy, parts, faults) in configs: jobs.append((c, strategy, parts, faults, False))
    # the same store selected through the split options
    for ci, c in enumerate(H):
        if ci % (12 if tier == "quick" else 3) == 0:
            for (strategy, parts) in (("s3@split", 1), ("s3_patition@split", 3)): jobs.append((c, strategy, parts, {}, False))
    disk_cache = {}
    def disk_of(c, tag):
        key = "\n".join(c)
        if key not in disk_cache: disk_cache[key] = run_impl(c, "disk", 1, {}, tag)[0]
        return disk_cache[key]
    def one(ix_job):
        ix, (c, strategy, parts, faults, with_model) = ix_job
        try:
            out, ann, slog, objs = run_impl(c, strategy, parts, faults, f"j{ix}")
            dout = disk_of(c, f"d{ix}")
            fails = oracle(c, out, dout, slog, strategy, faults)
            dis = None; modelled = False
            if with_model and strategy in ("s3", "s3_patition") and not (strategy == "s3_patition" and faults) and mod_ok:
                # which PUTs failed (0-based over the run), for the model
                # the SDK retries a failed request by itself: a run of requests for one object of which all but the last failed is ONE put_object call
                puts = [x for x in slog if x[0] == "PUT"]; logical = []
                for x in puts:
                    if logical and logical[-1][1] == x[1] and logical[-1][2] == 500: logical[-1] = x
                    else: logical.append(x)
                failputs = [i for i, x in enumerate(logical) if x[2] == 500]
                if not faults.get("get_once") and not faults.get("get_always") and not faults.get("get_n"):
                    modelled = True
                    mout = run_model(c, ann, failputs, parts if strategy == "s3_patition" else 0)
                    norm = lambda l: "> RESET" if l.startswith("> RESET") else ("> SNAP" if l.startswith("> SNAP") else l)
                    a = core.canon_case([norm(l) for l in mout if not l.startswith("F ")]); b = core.canon_case(out)
                    d = core.first_diff(a, b)
                    if d is not None: dis = f"line {d[0]}: model={d[1]!r} impl={d[2]!r}"
                    else:
                        # the objects: the model's last F listing against the stub's store
                        mf = {}
                        for l in mout:
                            if l.startswith("> "): cur = {}
                            if l.startswith("F "):
                                p = l.split(" "); cur[core.unesc(p[1]).decode()] = p[2] if len(p) > 2 else ""; mf = cur
                        so = {k: v.hex() for k, v in objs.items()}
                        if mf and mf != so: dis = f"objects differ: model {sorted(mf)} stub {sorted(so)}: " + str(next(((k, mf.get(k), so.get(k)) for k in sorted(set(mf) | set(so)) if mf.get(k) != so.get(k)), ""))[:300]
            return dict(case=c, strategy=strategy, parts=parts, faults=faults, fails=fails, dis=dis, modelled=modelled, hash=core.trace_hash(core.canon_case(out)), puts=len([x for x in slog if x[0] == "PUT"]))
        except Exception as e:
            return dict(case=c, strategy=strategy, parts=parts, faults=faults, error=f"{type(e).__name__}: {e}", fails=[], dis=None, hash="", puts=0)
    with ThreadPoolExecutor(max_workers=core.JOBS) as ex:
        results = list(ex.map(one, enumerate(jobs)))
    failures = []; disagreements = []; hashes = set()
    for r in results:
        if "error" in r: obligations.append((f"run {r['strategy']}", False, r["error"])); continue
        hashes.add((r["strategy"], r["parts"], r["hash"]))
        if r["dis"]: disagreements.append(r)
        for f in r["fails"]:
            f.case = [f"# strategy={r['strategy']} partitions={r['parts']} faults={r['faults']}"] + r["case"]; f.cls = f"{f.cls}:{r['strategy'].split('@')[0]}"; failures.append(f)
    for k in known:
        if k["status"] == "known":
            if any(f.cls == k["class"] for f in failures): print(f"KNOWN-FINDING: property={PID} {k['what']}")
            else: notes.append(f"known finding {k['id']} did not reproduce")
    new = [f for f in failures if f.cls not in known_classes]
    seen = set()
    for f in new:
        if f.cls in seen: continue
        seen.add(f.cls)
        best = min((g for g in new if g.cls == f.cls), key=lambda g: len(g.case))
        p = core.write_replay(PID, f.cls, [f"# oracle failure class={best.cls}: {best.detail}", "# replay: start vlib/s3stub.py, NUN_STORAGE_STRATEGY=<strategy> NUN_S3_API_URL=<stub> harness/target/debug/nvh run <this file>; compare with the same file under the disk strategy"] + best.case)
        violations.append((p, ""))
    broken = [o for o in obligations if not o[1]]
    if not new and (broken or disagreements):
        lines = ["# no failing input found; the property is no longer shown to hold because:"]
        for o in broken: lines.append(f"# broken obligation: {o[0]} — {o[2]}")
        if disagreements:
            r = min(disagreements, key=lambda r: len(r["case"]))
            lines.append(f"# correspondence: model and implementation disagree on {len(disagreements)} run(s); strategy={r['strategy']} faults={r['faults']}: {r['dis']}")
            lines += r["case"]
        p = core.write_replay(PID, "tie", lines)
        violations.append((p, " no-failing-input-found"))
    n_ob = len(obligations); n_ok = len([o for o in obligations if o[1]])
    cov = dict(obligations=n_ob, discharged=n_ok, checker_cmd=f"cd /verif/lean && lake build nunmodel {LEAN_MODULE}",
               trusted_base=["Lean 4.33 kernel", "axioms propext, Classical.choice, Quot.sound only", "vlib/s3stub.py (path-style PUT / GET / ListObjectsV2 over loopback HTTP, fault injection)",
                             "the real aws-sdk-s3 client inside nun-db", "the disk strategy run of the same history as the reference"],
               obligation_list=[dict(name=o[0], ok=o[1], detail=o[2]) for o in obligations],
               evaluations=len(results), distinct_nontrivial=len(hashes),
               rule=("operation / snapshot (incremental and space-reclaiming) / restart histories over one database (sets incl. multi-word and multi-byte values, removes, increments, versioned writes): all sequences of length L from an alphabet of 11 steps that contain a snapshot, plus seeded random longer ones, "
                     "each run through the REAL storage code against an in-process S3 stub for strategy s3 and s3_patition with 1, 3 and 10 partitions, for a subset with faults (first PUT fails once, a PUT fails always, first GET fails once, every GET of the keys object / the values object / the partition objects fails: the start-up must then fail, not come up without the data), and for a subset with the store selected through the split options NUN_STORAGE_READ_STRATEGY / NUN_STORAGE_WRITE_STRATEGY instead of the single one; the same history under the disk strategy is the reference: "
                     "after the first restart the live keys, values, versions of EVERY user database and database t's id and strategy must agree; two-database histories include names related by prefix (t with t-old, t.v2, t2, t_old, tt; few / many keys both ways round). For strategy s3 (s3Snapshot / s3LoadDb) and for strategy s3_patition without injected faults (s3pSnapshot / s3pLoadDb, keys placed by the model's own SipHash-1-3) the Lean model runs the same history and every output line and the name and bytes of every stored object are compared. distinct by (strategy, partitions, trace hash)"),
               samples=[jobs[0][0][:14]], traces_validated_against_impl=len([r for r in results if r.get("modelled") and not r.get("dis")]), traces_validated_per_strategy={st: len([r for r in results if r.get("modelled") and not r.get("dis") and r.get("strategy") == st]) for st in ("s3", "s3_patition")},
               disagreements=len(disagreements), oracle_failures=len(failures), failure_classes={c: len([f for f in failures if f.cls == c]) for c in {f.cls for f in failures}},
               put_requests=sum(r.get("puts", 0) for r in results), notes=notes)
    core.write_evidence(PID, dict(property_id=PID, tier=tier, seed=seed, level="proof", coverage=cov,
                                  assumptions=["the stub is S3-compatible for the three calls the code makes", "strategy s3_patition: modelled (Model/S3Part.lean, SipHash-1-3 placement executable, theorems for an arbitrary placement function); the listing is assumed to return exactly the keys the store holds — that they name this database's partitions, and that the name parser reads back the partition the writer printed, is proved (Props/C18PartListing.lean); runs with injected faults are judged by the oracle only"], wall_s=round(time.time() - t0, 2), violations=len(violations)))
    for p, suffix in violations: print(f"VIOLATION property={PID} replay={p}{suffix}")
    log(f"[{PID}] {tier}: {len(results)} runs, {len(hashes)} distinct, {len(disagreements)} disagreements, {len(failures)} oracle failures ({cov['failure_classes']}), obligations {n_ok}/{n_ob}, {round(time.time() - t0, 1)}s")
    return 1 if violations else 0
