#!/usr/bin/env python3
"""Regenerates lean/NunVerif/Gen/*.lean from /repo/src on every run.

Each fact has a locator (file, pattern). A locator that finds nothing (or something of an
unexpected shape) makes the run fail with a message naming it: a broken obligation, never a
silent default."""
import os, re, sys, json

REPO = os.environ.get("VERIF_REPO", "/repo")
OUT = os.path.join(os.path.dirname(os.path.abspath(__file__)), "..", "lean", "NunVerif", "Gen")
SRC = os.path.join(REPO, "src", "lib")

class ExtractError(Exception):
    pass

_cache = {}
def src(rel):
    if rel not in _cache:
        with open(os.path.join(SRC, rel), encoding="utf-8") as f:
            _cache[rel] = f.read()
    return _cache[rel]

def blank(s):
    """blank out comments and string-literal contents, keeping offsets"""
    out = []; i = 0; n = len(s)
    while i < n:
        c = s[i]
        if s.startswith("//", i):
            j = s.find("\n", i); j = n if j < 0 else j
            out.append(" " * (j - i)); i = j
        elif s.startswith("/*", i):
            j = s.find("*/", i) + 2
            out.append(re.sub(r"[^\n]", " ", s[i:j])); i = j
        elif c == '"':
            j = i + 1
            while s[j] != '"':
                j += 2 if s[j] == "\\" else 1
            out.append('"' + re.sub(r"[^\n]", " ", s[i + 1:j]) + '"'); i = j + 1
        elif c == "'" and i + 2 < n and (s[i + 2] == "'" or (s[i + 1] == "\\" and s[i + 3] == "'")):
            j = i + (3 if s[i + 2] == "'" else 4)
            out.append("'" + " " * (j - i - 2) + "'"); i = j
        else:
            out.append(c); i += 1
    return "".join(out)

def unescape(lit):
    return (lit.replace("\\n", "\n").replace("\\t", "\t").replace('\\"', '"').replace("\\\\", "\\"))

def find1(rel, pattern, what, flags=re.S):
    ms = list(re.finditer(pattern, src(rel), flags))
    if len(ms) != 1:
        raise ExtractError(f"locator '{what}' in {rel}: expected exactly one match of /{pattern}/, found {len(ms)}")
    return ms[0]

def fn_body(rel, header_regex, what):
    """text of the function whose header matches header_regex (brace matched on blanked text)"""
    s = src(rel); b = blank(s)
    ms = list(re.finditer(header_regex, b))
    if len(ms) != 1:
        raise ExtractError(f"locator '{what}' in {rel}: function header /{header_regex}/ found {len(ms)} times")
    i = b.index("{", ms[0].end() - 1) if b[ms[0].end() - 1] != "{" else ms[0].end() - 1
    depth = 0; j = i
    while True:
        if b[j] == "{": depth += 1
        elif b[j] == "}":
            depth -= 1
            if depth == 0: break
        j += 1
    return s[i:j + 1], b[i:j + 1]

def bytes_lit(text):
    return "[" + ", ".join(str(x) for x in text.encode("utf-8")) + "]"

def lean_str_comment(text):
    return text.replace("\n", "\\n").replace("-/", "- /")

# ------------------------------------------------------------------ literals / constants
def gen_lits():
    L = []
    def emit(name, text, origin):
        L.append(f"/-- `{lean_str_comment(text)}` — {origin} -/\ndef {name} : List Nat := {bytes_lit(text)}")
    def const(name, rel, rust):
        m = find1(rel, r"const\s+" + rust + r"\s*:\s*&'static\s+str\s*=\s*\"((?:[^\"\\]|\\.)*)\"\s*;", rust)
        emit(name, unescape(m.group(1)), f"{rel} const {rust}")
    const("tokenKey", "bo.rs", "TOKEN_KEY")
    const("adminDb", "bo.rs", "ADMIN_DB")
    const("invalidVersionMsg", "bo.rs", "INVALID_VERSION_ERROR")
    const("securePrefix", "security.rs", "SECURY_KEYS_PREFIX")
    const("userKeyPrefix", "security.rs", "USER_NAME_KEYS_PREFIX")
    const("permKeyPrefix", "security.rs", "PERMISSION_KEYS_PREFIX")
    const("permissionDeniedMsg", "security.rs", "PERMISSION_DENIED_MESSAGE")
    const("noDbSelectedMsg", "security.rs", "NO_DB_SELECTED_MESSAGE")
    const("connectionsKey", "db_ops.rs", "CONNECTIONS_KEY")
    const("conflictsKey", "consensus_ops.rs", "CONFLICTS_KEY")
    const("resolvedPrefix", "consensus_ops.rs", "RESOLVED_KEY_PREFIX")
    const("resolvePrefix", "consensus_ops.rs", "RESOLVE_KEY_PREFIX")
    m = find1("bo.rs", r"const\s+IN_CONFLICT_RESOLUTION_KEY_VERSION\s*:\s*i32\s*=\s*(-?\d+)\s*;", "IN_CONFLICT_RESOLUTION_KEY_VERSION")
    L.append(f"/-- bo.rs IN_CONFLICT_RESOLUTION_KEY_VERSION -/\ndef inConflictVersion : Int := {m.group(1)}")

    # default value / version of a missing key (get_key_value_new)
    body, _ = fn_body("db_ops.rs", r"pub fn get_key_value_new\b[^{]*\{", "get_key_value_new")
    m = re.search(r'None\s*=>\s*\(String::from\("((?:[^"\\]|\\.)*)"\),\s*(\d+) as i32\)', body)
    if not m: raise ExtractError("locator 'get_key_value_new default' not found")
    emit("emptyValue", unescape(m.group(1)), "db_ops.rs get_key_value_new default value")
    L.append(f"/-- db_ops.rs get_key_value_new default version -/\ndef emptyVersion : Int := {m.group(2)}")

    # tombstone text (remove_value)
    body, _ = fn_body("bo.rs", r"pub fn remove_value\b[^{]*\{", "remove_value")
    m = (re.search(r'&String::from\("((?:[^"\\]|\\.)*)"\),\s*value\.version[^,]*,\s*ValueStatus::Deleted', body)
         or re.search(r'value:\s*String::from\("((?:[^"\\]|\\.)*)"\),\s*version:\s*version[^,]*,\s*state:\s*ValueStatus::Deleted', body))
    if not m: raise ExtractError("locator 'remove_value tombstone' not found")
    emit("tombstoneValue", unescape(m.group(1)), "bo.rs remove_value tombstone text")
    m = re.search(r'msg:\s*"((?:[^"\\]|\\.)*)"\.to_string\(\)', body)
    if not m: raise ExtractError("locator 'remove_value token message' not found")
    emit("tokenRemoveMsg", unescape(m.group(1)), "bo.rs remove_value refusal")

    def fmt_prefix(name, rel, fnre, fmtre, holes, what):
        body, _ = fn_body(rel, fnre, what)
        ms = re.findall(fmtre, body)
        ms = sorted(set(ms))
        if len(ms) != 1: raise ExtractError(f"locator '{what}': expected one format literal, got {ms}")
        lit = unescape(ms[0]); parts = lit.split("{}")
        if len(parts) != holes + 1 or any(p != " " for p in parts[1:-1]) or parts[-1] != "\n":
            raise ExtractError(f"locator '{what}': unexpected format shape {lit!r}")
        emit(name, parts[0], f"{rel} {what} ({lean_str_comment(lit)})")
    fmt_prefix("changedPrefix", "bo.rs", r"fn notify_watchers\b[^{]*\{", r'format_args!\(\s*"(changed (?:[^"\\]|\\.)*)"', 2, "notify_watchers changed")
    fmt_prefix("changedVersionPrefix", "bo.rs", r"fn notify_watchers\b[^{]*\{", r'format_args!\(\s*"(changed-version (?:[^"\\]|\\.)*)"', 3, "notify_watchers changed-version")
    fmt_prefix("removedPrefix", "bo.rs", r"pub fn remove_value\b[^{]*\{", r'format_args!\(\s*"(removed (?:[^"\\]|\\.)*)"', 1, "remove_value removed")
    fmt_prefix("valuePrefix", "db_ops.rs", r"pub fn get_key_value\b[^{]*\{", r'format_args!\(\s*"(value (?:[^"\\]|\\.)*)"', 1, "get_key_value value")
    fmt_prefix("valueVersionPrefix", "db_ops.rs", r"pub fn get_key_value_safe\b[^{]*\{", r'format_args!\(\s*"(value-version (?:[^"\\]|\\.)*)"', 2, "get_key_value_safe value-version")

    # inc_value default text and error
    body, _ = fn_body("bo.rs", r"pub fn inc_value\b[^{]*\{", "inc_value")
    m = re.search(r'msg:\s*"(Key is not numeric)"', body)
    if not m: raise ExtractError("locator 'inc_value not numeric message' not found")
    emit("notNumericMsg", m.group(1), "bo.rs inc_value")

    # strategy of the admin database (Databases::new) and of a database loaded without a metadata file
    m = re.search(r"DatabaseMataData::new\(0, ConsensuStrategy::(\w+)\),?\s*\);?\s*// id 0", src("bo.rs"))
    if not m: raise ExtractError("locator 'admin db strategy' not found")
    emit("adminStrategy", m.group(1).lower(), "bo.rs Databases::new admin database strategy")
    body, _ = fn_body("storage/disk.rs", r"fn load_db_metadata_from_disk_or_empty\b[^{]*\{", "load_db_metadata_from_disk_or_empty")
    m = re.search(r"DatabaseMataData::new\(\s*([^,]+?),\s*ConsensuStrategy::(\w+)\)\s*\}\s*\}\s*$", body)
    if not m: raise ExtractError("locator 'default strategy without metadata' not found")
    emit("noMetaStrategy", m.group(2).lower(), "storage/disk.rs strategy of a database restored without metadata")
    # how a new database id is derived (C16): both sites and the rule itself, as source text
    emit("noMetaIdExpr", re.sub(r"\s+", "", m.group(1)), "storage/disk.rs id of a database restored without metadata")
    body, _ = fn_body("db_ops.rs", r"pub fn create_temp_db\b[^{]*\{", "create_temp_db")
    m = re.search(r"DatabaseMataData::new\(\s*([^,]+?),\s*strategy\s*\)", body)
    if not m: raise ExtractError("locator 'create_temp_db id' not found")
    emit("createDbIdExpr", re.sub(r"\s+", "", m.group(1)), "db_ops.rs create_temp_db database id")
    # the start-up decision of src/bin/main.rs (the harness mirrors these statements by hand)
    with open(os.path.join(REPO, "src", "bin", "main.rs"), encoding="utf-8") as f: mainrs = f.read()
    m = re.search(r"\) = channel\(100\);(?!.*\) = channel\(100\);)(.*?)let dbs = nundb::db_ops::create_init_dbs\(", mainrs, re.S)
    if not m: raise ExtractError("locator 'start-up decision' not found in src/bin/main.rs")
    stmts = re.sub(r"log::\w+!\([^;]*\);", "", blank(mainrs)[m.start():m.end()])
    emit("startupDecision", re.sub(r"\s+", "", stmts), "src/bin/main.rs start-up decision (log statements removed)")
    body, _ = fn_body("bo.rs", r"pub fn next_database_id\b[^{]*\{", "next_database_id")
    emit("nextDbIdBody", re.sub(r"\s+", "", body), "bo.rs Databases::next_database_id")

    # hand-listed literals of the request path (tied by correspondence, not extracted)
    hand = {
        "zero": "0",
        "incOverflowMsg": "Increment overflow",
        "notAuthMsg": "Not auth",
        "secureKeyMsg": "To read security keys you must auth as an admin!",
        "invalidTokenMsg": "Invalid token",
        "notValidDbMsg": "Not a valid database name",
        "noDatabaseSelectedMsg": "No database selected",
        "dbExistsMsg": "database already exists",
        "createDbSuccess": "create-db success\n",
        "createDbOnlyPrimaryMsg": "Create database only allow from primary!",
        "validAuth": "valid auth\n",
        "invalidAuth": "invalid auth\n",
        "emptyCommandMsg": "empty command",
        "unknownCommandPrefix": "unknown command: ",
        "noArbiterMsg": "An conflitct happend and there is no arbiter client not connected",
        "conflictUnresolvedPrefix": "$$conflitct unresolved ",
        "keysPrefix": "keys ",
        "all": "all",
        "emptyObj": "{}",
    }
    for k, v in hand.items():
        emit(k, v, "hand-listed literal")
    return ("namespace Nun.Gen\n\n" + "\n\n".join(L) + "\n\nend Nun.Gen\n")

# ------------------------------------------------------------------ guard table of process_request_obj
WRAPPERS = ["apply_if_auth", "apply_if_safe_access", "apply_to_database_name", "apply_to_database"]

def gen_guards():
    srcs = src("process_request.rs"); b = blank(srcs)
    m = re.search(r"fn process_request_obj\b", b)
    if not m: raise ExtractError("locator 'process_request_obj' not found")
    ms = b.index("match request.clone() {", m.end())
    i = b.index("{", ms) + 1; depth = 1; pos = i
    while depth > 0:
        c = b[pos]
        if c in "{([": depth += 1
        elif c in "})]": depth -= 1
        pos += 1
    body = b[i:pos - 1]
    idxs = []
    for mm in re.finditer(r"Request::\w+", body):
        pre = body[:mm.start()]
        d = sum(pre.count(x) for x in "{([") - sum(pre.count(x) for x in "})]")
        if d == 0: idxs.append(mm.start())
    if len(idxs) < 30: raise ExtractError(f"process_request_obj: only {len(idxs)} arms found")
    idxs.append(len(body))
    rows = []
    for a, e in zip(idxs, idxs[1:]):
        arm = body[a:e]; name = re.match(r"Request::(\w+)", arm).group(1)
        rhs = arm[arm.index("=>") + 2:].strip()
        inner = rhs
        # a block whose only content is one wrapper call counts as that wrapper
        if inner.startswith("{"):
            inner2 = inner[1:].strip()
            first = re.match(r"(\w+)\(", inner2)
            if first and first.group(1) in WRAPPERS and inner2.rstrip().rstrip(",").rstrip("}").strip().endswith(")"):
                # check it is a single statement (no ';' at depth 0 before the end)
                depth = 0; single = True
                for ch in inner2[:inner2.rindex(")")]:
                    if ch in "{([": depth += 1
                    elif ch in "})]": depth -= 1
                    elif ch == ";" and depth == 0: single = False
                if single: inner = inner2
        first = re.match(r"(\w+)\(", inner)
        if first and first.group(1) in WRAPPERS:
            guard = first.group(1)
        elif inner.startswith("{") or not first:
            used = sorted(set(re.findall(r"\b(" + "|".join(WRAPPERS) + r")\b", rhs)))
            guard = "custom" + ((":" + "+".join(used)) if used else "")
        else:
            guard = "none:" + first.group(1)
        kinds = re.findall(r"PermissionKind::(\w+)", rhs)
        kind = ""
        if guard == "apply_if_safe_access" and kinds: kind = kinds[-1]
        if guard.startswith("custom") and "apply_if_safe_access" in guard:
            ks = [k for k in kinds if k != "Read"]
            kind = ks[-1] if ks else (kinds[-1] if kinds else "")
        rows.append((name, guard, kind))
    L = ["namespace Nun.Gen", "", "/-- (request kind, first guard wrapper, permission kind) per arm of `process_request_obj` -/",
         "def guardTable : List (List Nat × List Nat × List Nat) := ["]
    L.append(",\n".join(f"  ({bytes_lit(n)}, {bytes_lit(g)}, {bytes_lit(k)})  -- {n} {g} {k}" for n, g, k in rows).replace("),\n", "),\n"))
    L.append("]"); L.append(""); L.append("end Nun.Gen"); 
    # comments after commas break the list syntax: put comments on their own lines instead
    out = ["namespace Nun.Gen", "", "/-- (request kind, first guard wrapper, permission kind) per arm of `process_request_obj` -/",
           "def guardTable : List (List Nat × List Nat × List Nat) := ["]
    for ix, (n, g, k) in enumerate(rows):
        out.append(f"  -- {n}: {g} {k}")
        out.append(f"  ({bytes_lit(n)}, {bytes_lit(g)}, {bytes_lit(k)})" + ("," if ix + 1 < len(rows) else ""))
    out += ["]", "", "end Nun.Gen", ""]
    return "\n".join(out)

# ------------------------------------------------------------------ panic-site inventory (request path)
REQUEST_PATH = {
    "parse_request.rs": None, "process_request.rs": None, "security.rs": None, "db_ops.rs": None, "bo.rs": None,
    "consensus_ops.rs": None, "network/http_ops.rs": ["process_commands"],
    "replication_ops.rs": ["replicate_message", "register_pending_opp", "get_pending_opp_copy", "acknowledge_pending_opp",
                           "ack", "replicated", "replicate_message_with_sender", "replicate_web", "replicate_change",
                           "replicate_request", "replicate_if_some", "send_message_to_primary"],
    "election_ops.rs": ["election_eval", "election_win", "start_new_election", "start_election"],
}

def gen_panic_sites():
    rows = {}
    for rel, fns in REQUEST_PATH.items():
        text = src(rel)
        cut = text.find("#[cfg(test)]\nmod tests")
        if cut > 0: text = text[:cut]
        b = blank(text)
        fnpos = [(m.start(), m.group(1)) for m in re.finditer(r"\bfn\s+(\w+)", b)]
        for m in re.finditer(r"\.unwrap\(\)|\.expect\(|panic!\(|unreachable!\(", b):
            pre = re.sub(r"\s+", " ", b[max(0, m.start() - 90):m.start()])
            if re.search(r"\.(read|write|lock)\(\)\s*$", pre): continue   # lock-poison-only
            fn = "?"
            for pos, name in fnpos:
                if pos < m.start(): fn = name
            if fns is not None and fn not in fns: continue
            kind = m.group(0).strip(".(")
            key = f"{rel}::{fn}::{kind}"
            rows[key] = rows.get(key, 0) + 1
    out = ["namespace Nun.Gen", "",
           "/-- syntactic panic sites (`unwrap`/`expect`/`panic!`/`unreachable!`, lock acquisitions excluded) per function on the request path -/",
           "def panicSites : List (List Nat × Nat) := ["]
    items = sorted(rows.items())
    for ix, (k, n) in enumerate(items):
        out.append(f"  -- {k}")
        out.append(f"  ({bytes_lit(k)}, {n})" + ("," if ix + 1 < len(items) else ""))
    out += ["]", "", "end Nun.Gen", ""]
    return "\n".join(out)

# steps the Lean model takes atomically, and the critical section of the source that makes them so: inside the named region the lock is taken
# first, the read and the act follow, and the block that holds the guard is not closed in between
ATOMIC_SITES = [
    # (name, file, region start regex, region end regex or None (= function body), lock, read, act)
    ("sync-reads-and-queues-under-the-cluster-lock", "replication_ops.rs", r'Some\("replicate-since-to"\)\s*=>\s*\{', r'Some\("election-win"\)',
     r"dbs\.cluster_state\.lock\(\)", r"get_pendding_opps_since\(", r"replicate_if_some\("),
    ("fan-out-registers-and-queues-under-the-cluster-lock", "replication_ops.rs", r"fn replicate_message_to_secoundary\b[^{]*\{", None,
     r"cluster_state\.lock\(\)", r"register_pending_opp\(", r"replicate_if_some\("),
    ("forward-to-primary-under-the-cluster-lock", "replication_ops.rs", r"pub fn send_message_to_primary\b[^{]*\{", None,
     r"cluster_state\.lock\(\)", r"members\.lock\(\)", r"replicate_if_some\("),
    ("set_value-checks-and-writes-under-one-write-lock", "bo.rs", r"pub fn set_value\b[^{]*\{", None,
     r"self\.map\.write\(\)", r"db\.get\(|self\.get_value\(", r"db\.insert\("),
    ("inc_value-reads-and-writes-under-one-write-lock", "bo.rs", r"pub fn inc_value\b[^{]*\{", None,
     r"self\.map\.write\(\)", r"db\.get\(|self\.get_value\(", r"db\.insert\("),
    ("remove_value-looks-up-and-removes-under-one-write-lock", "bo.rs", r"pub fn remove_value\b[^{]*\{", None,
     r"self\.map\.write\(\)", r"db\.get\(|self\.get_value\(", r"db\.(remove|insert)\("),
]

def atomic_site(rel, start_re, end_re, lock_re, read_re, act_re):
    text = src(rel)
    cut = text.find("#[cfg(test)]\nmod tests")
    if cut > 0: text = text[:cut]
    b = blank(text)
    if len(b) != len(text): raise ExtractError("blank() changed the length of the text")
    ms = list(re.finditer(start_re, text))      # region markers may be string literals: found in the raw text, same offsets
    if len(ms) != 1: raise ExtractError(f"atomic site in {rel}: region /{start_re}/ found {len(ms)} times")
    st = ms[0].end()
    if end_re is not None:
        me = re.search(end_re, text[st:])
        if not me: raise ExtractError(f"atomic site in {rel}: region end /{end_re}/ not found")
        en = st + me.start()
    else:
        depth = 1; i = st
        while i < len(b) and depth > 0:
            if b[i] == "{": depth += 1
            elif b[i] == "}": depth -= 1
            i += 1
        en = i
    region = b[st:en]
    ml = re.search(lock_re, region)
    if not ml: return False
    mr = re.search(read_re, region[ml.end():]); ma = None
    if mr: ma = re.search(act_re, region[ml.end() + mr.end():])
    # a read or an act BEFORE the lock means part of the step runs outside the critical section
    if re.search(read_re, region[:ml.start()]) or re.search(act_re, region[:ml.start()]): return False
    if not mr or not ma: return False
    # the block holding the guard stays open from the lock to the (first) act
    depth = 0
    for ch in region[ml.end(): ml.end() + mr.end() + ma.end()]:
        if ch == "{": depth += 1
        elif ch == "}":
            depth -= 1
            if depth < 0: return False
    if re.search(r"\bdrop\(", region[ml.end(): ml.end() + mr.end() + ma.end()]): return False
    return True

def gen_atomic():
    out = ["namespace Nun.Gen", "",
           "/-- steps the model takes atomically: does the source hold ONE lock from the read to the act? (name, holds) -/",
           "def atomicSites : List (List Nat × Bool) := ["]
    for ix, (name, rel, st, en, lk, rd, ac) in enumerate(ATOMIC_SITES):
        ok = atomic_site(rel, st, en, lk, rd, ac)
        out.append(f"  -- {name} ({rel})")
        out.append(f"  ({bytes_lit(name)}, {'true' if ok else 'false'})" + ("," if ix + 1 < len(ATOMIC_SITES) else ""))
    out += ["]", "", "end Nun.Gen", ""]
    return "\n".join(out)

# the disconnect sequence of the three transports — glue the harness re-enacts (`CLOSE`, the end of an HTTP request) instead of running it:
# inside the named region, which of the steps occur, in which order, and how deeply nested below the region's own block (0 = unconditional)
CLOSE_SITES = [
    # (name, file, region start regex)
    ("tcp", "network/tcp_ops.rs", r'"" => \{'),
    # (since fix 8d6b870 the websocket handler releases the session in `release`, called from on_close and from Drop)
    ("ws", "network/ws_ops.rs", r"fn release\b[^{]*\{"),
    ("ws-on-close", "network/ws_ops.rs", r"fn on_close\b[^{]*\{"),
    ("ws-drop", "network/ws_ops.rs", r"fn drop\b[^{]*\{"),
    ("http", "network/http_ops.rs", r"fn process_commands\b[^{]*\{"),
]
CLOSE_STEPS = [("unwatch-all", r'process_request\(\s*"unwatch-all"'), ("leave", r"process_leave_request\("), ("left", r"client\.left\("), ("release", r"self\.release\(")]

def close_site(rel, start_re):
    text = src(rel)
    cut = text.find("#[cfg(test)]\nmod tests")
    if cut > 0: text = text[:cut]
    b = blank(text)
    ms = list(re.finditer(start_re, text))
    if len(ms) != 1: raise ExtractError(f"close sequence in {rel}: region /{start_re}/ found {len(ms)} times")
    st = ms[0].end(); depth = 1; i = st
    while i < len(b) and depth > 0:
        if b[i] == "{": depth += 1
        elif b[i] == "}": depth -= 1
        i += 1
    en = i
    found = []
    for name, rx in CLOSE_STEPS:
        for m in re.finditer(rx, text[st:en]):
            d = 0
            for ch in b[st: st + m.start()]:
                if ch == "{": d += 1
                elif ch == "}": d -= 1
            found.append((m.start(), name, d))
    found.sort()
    out = []
    for _, name, d in found:
        if not out or out[-1] != (name, d): out.append((name, d))
    return out

def gen_close():
    out = ["namespace Nun.Gen", "",
           "/-- the disconnect sequence of each transport as written in the source: (step, nesting depth below the region's block), in order -/",
           "def closeSequences : List (List Nat × List (List Nat × Nat)) := ["]
    for ix, (name, rel, st) in enumerate(CLOSE_SITES):
        steps = close_site(rel, st)
        out.append(f"  -- {name} ({rel}): " + ", ".join(f"{n}@{d}" for n, d in steps))
        out.append(f"  ({bytes_lit(name)}, [" + ", ".join(f"({bytes_lit(n)}, {d})" for n, d in steps) + "])" + ("," if ix + 1 < len(CLOSE_SITES) else ""))
    out += ["]", "", "end Nun.Gen", ""]
    return "\n".join(out)

# notification fan-out: every line pushed to a subscriber goes through a CLONE of the stored sender (a futures mpsc clone has a slot of its
# own, so the push cannot fail for a full queue and the loop's other subscribers are not affected by one failure); the model's pushes are
# unconditional per subscriber — (function, number of try_send calls, how many are on a clone, how many sit inside a `for` loop body that
# is left early by break / return / `?` / a short-circuiting iterator adaptor)
NOTIFY_SITES = [("notify_watchers", "bo.rs", r"fn notify_watchers\b[^{]*\{"), ("remove_value", "bo.rs", r"pub fn remove_value\b[^{]*\{"),
                ("send_message_to_arbiter_client", "consensus_ops.rs", r"fn send_message_to_arbiter_client\b[^{]*\{")]

def gen_notify():
    out = ["namespace Nun.Gen", "",
           "/-- (function, try_send calls, of which on a clone of the stored sender, early exits of the fan-out loop) -/",
           "def notifySites : List (List Nat × Nat × Nat × Nat) := ["]
    for ix, (name, rel, hdr) in enumerate(NOTIFY_SITES):
        raw, b = fn_body(rel, hdr, f"notify site {name}")
        sends = list(re.finditer(r"\.\s*try_send\s*\(", b))
        cloned = [m for m in sends if re.search(r"\.\s*clone\s*\(\s*\)\s*$", b[:m.start()])]
        # the loop over the subscribers: a `for … in` whose body contains a try_send; early exits inside it
        early = 0
        for fm in re.finditer(r"\bfor\b[^{;]*\{", b):
            depth = 1; i = fm.end()
            while i < len(b) and depth > 0:
                if b[i] == "{": depth += 1
                elif b[i] == "}": depth -= 1
                i += 1
            body = b[fm.end():i]
            if "try_send" in body: early += len(re.findall(r"\bbreak\b|\breturn\b|\?\s*;", body))
        early += len(re.findall(r"\.\s*(all|any|find|take_while|try_for_each|position)\s*\(", b)) if sends else 0
        out.append(f"  -- {name} ({rel})")
        out.append(f"  ({bytes_lit(name)}, {len(sends)}, {len(cloned)}, {early})" + ("," if ix + 1 < len(NOTIFY_SITES) else ""))
    out += ["]", "", "end Nun.Gen", ""]
    return "\n".join(out)

def command_table():
    """(command word, parser) pairs of PARSER_HASH_TABLE, in source order"""
    text = src("parse_request.rs")
    m = re.search(r"static ref PARSER_HASH_TABLE.*?\{(.*?)\n\s*map\s*\n?\s*\};", text, re.S)
    body = m.group(1) if m else text[: text.find("impl Request")]
    rows = re.findall(r'map\.insert\(\s*"([^"]+)"\s*,\s*([^;]+?)\)\s*;', body, re.S)
    if len(rows) < 10: raise ExtractError(f"command table of parse_request.rs: only {len(rows)} rows found")
    out = []
    for w, f in rows:
        f = re.sub(r"\s+", " ", f.strip())
        out.append((w, f if re.fullmatch(r"\w+", f) else "closure"))
    return out

def gen_commands():
    rows = command_table()
    out = ["namespace Nun.Gen", "",
           "/-- the command vocabulary of `Request::parse`: (command word, parser function — `closure` for an inline one), in source order -/",
           "def commandTable : List (List Nat × List Nat) := ["]
    for ix, (w, f) in enumerate(rows):
        out.append(f"  -- {w} -> {f}")
        out.append(f"  ({bytes_lit(w)}, {bytes_lit(f)})" + ("," if ix + 1 < len(rows) else ""))
    out += ["]", "", "end Nun.Gen", ""]
    return "\n".join(out)

def trailer_table():
    """what each socket front end sends after a request, per Response variant it distinguishes: (transport, variant or `_`, format string)"""
    rows = []
    for tr, rel, start_re in (("tcp", "network/tcp_ops.rs", r"_ => match process_request\("), ("ws", "network/ws_ops.rs", r"match process_request\(&message")):
        text = src(rel)
        cut = text.find("#[cfg(test)]\nmod tests")
        if cut > 0: text = text[:cut]
        b = blank(text)
        ms = list(re.finditer(start_re, text))
        if len(ms) != 1: raise ExtractError(f"trailer table in {rel}: /{start_re}/ found {len(ms)} times")
        i = b.index("{", ms[0].end()); depth = 1; j = i + 1
        while j < len(b) and depth > 0:
            if b[j] == "{": depth += 1
            elif b[j] == "}": depth -= 1
            j += 1
        body = text[i + 1:j - 1]; bb = b[i + 1:j - 1]
        # top-level arms of the match: `<pattern> => {` at depth 0
        depth = 0; k = 0; arms = []
        for m in re.finditer(r"(Response::(\w+)\s*\{[^}]*\}|\b_|\be)\s*=>", bb):
            d = bb[:m.start()].count("{") - bb[:m.start()].count("}")
            if d == 0: arms.append((m.group(2) or "_", m.end()))
        for ix, (variant, pos) in enumerate(arms):
            end = arms[ix + 1][1] if ix + 1 < len(arms) else len(body)
            fm = re.search(r'format!\(\s*"((?:[^"\\]|\\.)*)"', body[pos:end])
            if not fm: raise ExtractError(f"trailer table in {rel}: arm {variant} sends nothing recognisable")
            rows.append((tr, variant, unescape(fm.group(1))))
    return rows

def gen_trailers():
    rows = trailer_table()
    out = ["namespace Nun.Gen", "",
           "/-- the line each socket front end sends after a request: (transport, Response variant — `_` = every other —, format text) -/",
           "def trailerTable : List (List Nat × List Nat × List Nat) := ["]
    for ix, (tr, v, f) in enumerate(rows):
        out.append(f"  -- {tr}: {v} -> {f!r}")
        out.append(f"  ({bytes_lit(tr)}, {bytes_lit(v)}, {bytes_lit(f)})" + ("," if ix + 1 < len(rows) else ""))
    out += ["]", "", "end Nun.Gen", ""]
    return "\n".join(out)

# the oplog-validity flag file (`is-oplog.valid`): what each of its writers / its reader does to the handle, in source order —
# (0, n) = seek(SeekFrom::Start(n)), (1, b) = write(&[b]), (2, n) = read into an n-byte buffer — and whether the handle is opened inside the
# function (fresh: position 0) or handed in (the replication thread's long-lived stream); plus the BufWriter capacity of the write handle
FLAG_SITES = [("invalidate_oplog", r"pub fn invalidate_oplog\b[^{]*\{"), ("mark_op_log_as_invalid_on_disk", r"pub fn mark_op_log_as_invalid_on_disk\b[^{]*\{"),
              ("mark_op_log_as_valid", r"fn mark_op_log_as_valid\b[^{]*\{"), ("is_oplog_valid", r"pub fn is_oplog_valid\b[^{]*\{")]

def flag_io(name, hdr):
    raw, b = fn_body("disk_ops.rs", hdr, f"flag-file site {name}")
    steps = []
    for m in re.finditer(r"\.\s*seek\s*\(\s*SeekFrom::(\w+)\s*\(\s*(-?\d+)\s*\)\s*\)|\.\s*write(?:_all)?\s*\(\s*&\s*\[([^\]]*)\]\s*\)|\.\s*read(?:_exact)?\s*\(\s*&mut\s+(\w+)\s*\)", b):
        if m.group(1):
            if m.group(1) != "Start": raise ExtractError(f"flag-file site {name}: seek relative to {m.group(1)} is not modelled")
            steps.append((0, int(m.group(2))))
        elif m.group(3) is not None:
            bs = [x.strip() for x in m.group(3).split(",") if x.strip()]
            if len(bs) != 1 or not bs[0].isdigit(): raise ExtractError(f"flag-file site {name}: write of {m.group(3)!r} is not a single literal byte")
            steps.append((1, int(bs[0])))
        else:
            dm = re.search(r"let\s+mut\s+" + m.group(4) + r"\s*=\s*\[\s*(\d+)\s*;\s*(\d+)\s*\]", b)
            if not dm: raise ExtractError(f"flag-file site {name}: buffer {m.group(4)} of the read not found")
            steps.append((2, int(dm.group(2)))); steps.append((3, int(dm.group(1))))   # (3, d): the buffer's initial content
    fresh = bool(re.search(r"get_invalidate_file_(write|read)_mode\s*\(\s*\)", b))
    return steps, fresh

def gen_flag():
    out = ["namespace Nun.Gen", "",
           "/-- (function, handle opened inside the function, steps): (0, n) seek to n from the start, (1, b) write the byte b, (2, n) read n bytes, (3, d) into a buffer pre-filled with d -/",
           "def flagIo : List (List Nat × Bool × List (Nat × Nat)) := ["]
    for ix, (name, hdr) in enumerate(FLAG_SITES):
        steps, fresh = flag_io(name, hdr)
        out.append(f"  -- {name}")
        out.append(f"  ({bytes_lit(name)}, {'true' if fresh else 'false'}, [" + ", ".join(f"({a}, {b})" for a, b in steps) + "])" + ("," if ix + 1 < len(FLAG_SITES) else ""))
    out.append("]")
    raw, b = fn_body("disk_ops.rs", r"pub fn get_invalidate_file_write_mode\b[^{]*\{", "flag-file write handle")
    m = re.search(r"BufWriter::with_capacity\s*\(\s*(\d+)\s*,", b)
    if not m: raise ExtractError("flag-file write handle: BufWriter::with_capacity(<n>, …) not found")
    flags = [k for k in ("create", "write", "append", "truncate", "create_new") if re.search(r"\.\s*" + k + r"\s*\(\s*true\s*\)", b)]
    out += ["", "/-- capacity of the BufWriter around the write handle (a write of at least that many bytes goes straight to the file) -/",
            f"def flagWriterCapacity : Nat := {m.group(1)}", "",
            "/-- OpenOptions of the write handle that are switched on -/",
            "def flagOpenOptions : List (List Nat) := [" + ", ".join(bytes_lit(k) for k in flags) + "]", "", "end Nun.Gen", ""]
    return "\n".join(out)

# the oplog record, byte for byte: the order and width of the fields `write_op_log` writes, the order in which the forward scan of
# `read_operations_since_from_file` reads them back (after the time stamp it is positioned behind), the buffers' sizes, what each buffer
# is decoded into, and the numbering of the operation kinds in both directions
def usize_consts():
    text = blank(src("disk_ops.rs")); out = {}
    for m in re.finditer(r"const\s+(OP_\w+)\s*:\s*usize\s*=\s*([^;]+);", text):
        out[m.group(1)] = m.group(2).strip()
    def val(name, depth=0):
        if depth > 8: raise ExtractError(f"oplog record constants: {name} does not resolve")
        e = out.get(name)
        if e is None: raise ExtractError(f"oplog record constants: {name} not found")
        total = 0
        for t in e.split("+"):
            t = t.strip()
            total += int(t) if t.isdigit() else val(t, depth + 1)
        return total
    return {k: val(k) for k in out}

def gen_oprec():
    consts = usize_consts()
    for k in ("OP_RECORD_SIZE", "OP_TIME_SIZE", "OP_KEY_SIZE", "OP_DB_ID_SIZE", "OP_OP_SIZE"):
        if k not in consts: raise ExtractError(f"oplog record constants: {k} missing")
    raw, b = fn_body("disk_ops.rs", r"pub fn write_op_log\s*\(", "oplog record writer")
    hdr = find1("disk_ops.rs", r"pub fn write_op_log\s*\(([^)]*)\)", "oplog record writer header").group(1)
    ptypes = {m.group(1): m.group(2) for m in re.finditer(r"(\w+)\s*:\s*&?(?:mut\s+)?([\w<>]+)", hdr)}
    width = {"u64": 8, "u32": 4, "u8": 1, "i32": 4}
    writer = []
    for m in re.finditer(r"stream\s*\.\s*write(?:_all)?\s*\(\s*&\s*(?:(\w+)\s*\.\s*to_(le|be)_bytes\s*\(\s*\)|\[\s*(\w+)\s*\])\s*\)", b):
        if m.group(1):
            if m.group(2) != "le": raise ExtractError("oplog record writer: a field is written big-endian — not modelled")
            t = ptypes.get(m.group(1))
            if t not in width: raise ExtractError(f"oplog record writer: type of {m.group(1)} ({t}) unknown")
            writer.append((m.group(1), width[t]))
        else:
            writer.append((m.group(3), 1))
    if not writer: raise ExtractError("oplog record writer: no field writes found")
    raw, b = fn_body("disk_ops.rs", r"fn read_operations_since_from_file\s*\(", "oplog record reader")
    bufs = {}
    for m in re.finditer(r"let\s+mut\s+(\w+)\s*=\s*\[\s*0\s*;\s*(\w+)\s*\]", b):
        bufs[m.group(1)] = int(m.group(2)) if m.group(2).isdigit() else consts.get(m.group(2))
    lm = re.search(r"while\s+let\s+Ok\s*\(\s*byte_read\s*\)\s*=\s*f\s*\.\s*read\s*\(\s*&mut\s+(\w+)\s*\)\s*\{", b)
    if not lm: raise ExtractError("oplog record reader: the forward-scan loop was not found")
    depth = 1; i = lm.end()
    while i < len(b) and depth > 0:
        depth += {"{": 1, "}": -1}.get(b[i], 0); i += 1
    body = b[lm.end():i]
    order = [lm.group(1)] + re.findall(r"f\s*\.\s*read(?:_exact)?\s*\(\s*&mut\s+(\w+)\s*\)", body)
    reader = []
    for name in order:
        if bufs.get(name) is None: raise ExtractError(f"oplog record reader: buffer {name} has no known size")
        reader.append((name, bufs[name]))
    decoded = []
    for m in re.finditer(r"(?:let\s+(?:mut\s+)?)?(\w+)(?:\s*:\s*u64)?\s*=\s*(?:u64::from_le_bytes\s*\(\s*(\w+)\s*\)|ReplicateOpp::from\s*\(\s*(\w+)\s*\[\s*0\s*\]\s*\))", body):
        decoded.append((m.group(1), m.group(2) or m.group(3)))
    sk = re.search(r"f\s*\.\s*seek\s*\(\s*SeekFrom::Start\s*\(\s*seek_point\s*\+\s*(\w+)\s+as\s+u64\s*\)\s*\)", b)
    if not sk: raise ExtractError("oplog record reader: the seek behind the time stamp was not found")
    newm = re.search(r"OpLogRecord::new\s*\(([^)]*)\)", body)
    new_args = [a.strip() for a in newm.group(1).split(",")] if newm else []
    sig = find1("bo.rs", r"impl OpLogRecord \{\s*pub fn new\s*\(([^)]*)\)", "OpLogRecord::new").group(1)
    new_params = [a.strip().split(":")[0].strip() for a in sig.split(",") if a.strip()]
    raw2, b2 = fn_body("bo.rs", r"pub fn to_u8\s*\(\s*&self\s*\)\s*->\s*u8", "ReplicateOpp::to_u8")
    to_u8 = [(m.group(1), int(m.group(2))) for m in re.finditer(r"ReplicateOpp::(\w+)\s*=>\s*(\d+)", b2)]
    raw3, b3 = fn_body("bo.rs", r"impl From<u8> for ReplicateOpp\s*\{\s*fn from\s*\(", "ReplicateOpp::from(u8)")
    from_u8 = [(int(m.group(1)), m.group(2)) for m in re.finditer(r"(\d+)\s*=>\s*(\w+)", b3)]
    dm = re.search(r"_\s*=>\s*(\w+)", b3)
    if not to_u8 or not from_u8 or not dm: raise ExtractError("operation kinds: to_u8 / from(u8) tables not found")
    pl = lambda rows: "[" + ", ".join(f"({bytes_lit(a)}, {n})" for a, n in rows) + "]"
    out = ["namespace Nun.Gen", "",
           "/-- OP_RECORD_SIZE, OP_TIME_SIZE, OP_KEY_SIZE, OP_DB_ID_SIZE, OP_OP_SIZE of disk_ops.rs -/",
           f"def opRecordConsts : List Nat := [{consts['OP_RECORD_SIZE']}, {consts['OP_TIME_SIZE']}, {consts['OP_KEY_SIZE']}, {consts['OP_DB_ID_SIZE']}, {consts['OP_OP_SIZE']}]", "",
           "/-- `write_op_log`: (what is written, bytes), in order; every multi-byte field little-endian — " + ", ".join(f"{a}:{n}" for a, n in writer) + " -/",
           f"def opRecWriter : List (List Nat × Nat) := {pl(writer)}", "",
           "/-- the forward scan: (buffer, bytes) in the order read, starting behind the time stamp — " + ", ".join(f"{a}:{n}" for a, n in reader) + " -/",
           f"def opRecReader : List (List Nat × Nat) := {pl(reader)}", "",
           f"/-- the scan starts at `seek_point + {sk.group(1)}` -/",
           f"def opRecReaderSkips : Nat := {consts.get(sk.group(1), -1)}", "",
           "/-- (variable, buffer it is decoded from) — " + ", ".join(f"{a}<-{c}" for a, c in decoded) + " -/",
           "def opRecDecoded : List (List Nat × List Nat) := [" + ", ".join(f"({bytes_lit(a)}, {bytes_lit(c)})" for a, c in decoded) + "]", "",
           "/-- arguments of `OpLogRecord::new(…)` in the scan, and the parameters of its definition -/",
           "def opRecNewArgs : List (List Nat) := [" + ", ".join(bytes_lit(a) for a in new_args) + "]",
           "def opRecNewParams : List (List Nat) := [" + ", ".join(bytes_lit(a) for a in new_params) + "]", "",
           "/-- `ReplicateOpp::to_u8` and `From<u8>` (with its default) -/",
           f"def opKindToU8 : List (List Nat × Nat) := {pl(to_u8)}",
           "def opKindFromU8 : List (Nat × List Nat) := [" + ", ".join(f"({n}, {bytes_lit(a)})" for n, a in from_u8) + "]",
           f"def opKindDefault : List Nat := {bytes_lit(dm.group(1))}", "", "end Nun.Gen", ""]
    return "\n".join(out)

# the key record and the value record of the data files (storage/disk.rs): what `write_key` / `write_value` write, in order — (expression,
# bytes; 0 = the raw bytes of a text) —, in which order and into which buffers the loader reads them back, the size constants, the status
# codes, the status every call site of write_value passes, and where `update_key` writes inside a stored key record
def gen_diskrec():
    text = blank(src("storage/disk.rs"))
    consts = {}
    for m in re.finditer(r"const\s+(\w+)\s*:\s*(?:usize|i32|u64)\s*=\s*(-?\d+)\s*;", text): consts[m.group(1)] = int(m.group(2))
    for k in ("VERSION_SIZE", "U64_SIZE", "ADDR_SIZE", "VERSION_DELETED"):
        if k not in consts: raise ExtractError(f"disk record constants: {k} missing")
    def writer(fn, hdr, what):
        raw, b = fn_body("storage/disk.rs", hdr, what)
        rows = []
        for m in re.finditer(r"\w+\s*\.\s*write(?:_all)?\s*\(\s*&\s*([^;]+?)\s*\)\s*\.\s*unwrap", b):
            e = re.sub(r"\s+", "", m.group(1))
            if e.endswith(".to_le_bytes()"):
                e = e[: -len(".to_le_bytes()")]
                if e == "len" or e.endswith(".len()"): w = 8
                elif e.endswith(".version"): w = 4
                elif e == "status": w = 4
                elif e.endswith("_addr"): w = 8
                else: raise ExtractError(f"{what}: width of `{e}` unknown")
                rows.append((e, w))
            else:
                rows.append((e, 0))
        if not rows: raise ExtractError(f"{what}: no writes found")
        return rows
    keyw = writer("write_key", r"fn write_key\s*\(", "key record writer")
    valw = writer("write_value", r"fn write_value\s*\(", "value record writer")
    # the loader
    raw, b = fn_body("storage/disk.rs", r"pub fn create_db_from_file_name\s*\(|fn create_db_from_file_name\s*\(", "data file loader")
    bufs = []
    for m in re.finditer(r"let\s+mut\s+(\w+)\s*=\s*(?:\[\s*0\s*;\s*(\w+)\s*\]|vec!\s*\[\s*0\s*;\s*(\w+)\s*\])", b):
        sz = m.group(2) or m.group(3)
        bufs.append((m.group(1), consts.get(sz, 0) if not sz.isdigit() else int(sz), sz))
    reads = [(m.group(1), m.group(2)) for m in re.finditer(r"(keys_file|values_file)\s*\.\s*read(?:_exact)?\s*\(\s*&mut\s+(\w+)\s*\)", b)]
    seeks = re.findall(r"values_file\s*\.\s*seek\s*\(\s*SeekFrom::Start\s*\(\s*(\w+)", b)
    if len(reads) < 6 or not seeks: raise ExtractError("data file loader: reads / seek not found")
    # status codes and call sites
    rawb = blank(src("bo.rs"))
    sm = re.search(r"impl ValueStatus \{\s*pub fn to_le_bytes[^{]*\{(.*?)\n    \}", rawb, re.S)
    codes = [(m.group(1), int(m.group(2))) for m in re.finditer(r"ValueStatus::(\w+)\s*=>\s*\(\s*(\d+)\s+as\s+i32\s*\)", sm.group(1))] if sm else []
    if not codes: raise ExtractError("ValueStatus::to_le_bytes: codes not found")
    calls = re.findall(r"write_value\s*\([^;]*?ValueStatus::(\w+)\s*\)", text)
    ncalls = len(re.findall(r"(?<!fn )write_value\s*\(", text))
    if not calls or len(calls) != ncalls: raise ExtractError(f"write_value call sites: {ncalls} calls, {len(calls)} with a literal status")
    # update_key
    raw, b = fn_body("storage/disk.rs", r"fn update_key\s*\(", "in-place key update")
    st = re.search(r"let\s+start_at\s*=\s*([^;]+);", b)
    ups = [(re.sub(r"\s+", "", m.group(1)), re.sub(r"\s+", " ", m.group(2).strip())) for m in re.finditer(r"\.\s*write_at\s*\(\s*&\s*(\w+)\s*\.\s*to_le_bytes\s*\(\s*\)\s*,\s*([^)]+)\)", b)]
    if not st or len(ups) != 2: raise ExtractError("in-place key update: start_at / two write_at calls not found")
    ks = re.search(r"fn get_key_disk_size\s*\([^)]*\)\s*->\s*u64\s*\{\s*\(([^)]*)\)\s*as\s+u64", text)
    if not ks: raise ExtractError("get_key_disk_size: formula not found")
    terms = [t.strip() for t in ks.group(1).split("+")]
    pl = lambda rows: "[" + ", ".join(f"({bytes_lit(a)}, {n})" for a, n in rows) + "]"
    out = ["namespace Nun.Gen", "",
           "/-- VERSION_SIZE, U64_SIZE, ADDR_SIZE of storage/disk.rs; VERSION_DELETED -/",
           f"def diskSizes : List Nat := [{consts['VERSION_SIZE']}, {consts['U64_SIZE']}, {consts['ADDR_SIZE']}]",
           f"def versionDeleted : Int := {consts['VERSION_DELETED']}", "",
           "/-- `write_key`: (expression, bytes; 0 = raw text), in order — " + ", ".join(f"{a}:{n}" for a, n in keyw) + " -/",
           f"def keyRecWriter : List (List Nat × Nat) := {pl(keyw)}", "",
           "/-- `write_value` — " + ", ".join(f"{a}:{n}" for a, n in valw) + " -/",
           f"def valueRecWriter : List (List Nat × Nat) := {pl(valw)}", "",
           "/-- `get_key_disk_size(key_size)`: the terms of the sum -/",
           "def keyDiskSizeTerms : List (List Nat) := [" + ", ".join(bytes_lit(t) for t in terms) + "]", "",
           "/-- the loader: (file, buffer) of every read, in order — " + ", ".join(f"{a}<{c}" for a, c in reads) + "; the values file is positioned at `" + seeks[0] + "` first -/",
           "def loaderReads : List (List Nat × List Nat) := [" + ", ".join(f"({bytes_lit(a)}, {bytes_lit(c)})" for a, c in reads) + "]",
           f"def loaderSeeksTo : List Nat := {bytes_lit(seeks[0])}",
           "/-- (buffer, fixed size — 0 when sized by a length read before —, the size expression) -/",
           "def loaderBuffers : List (List Nat × Nat × List Nat) := [" + ", ".join(f"({bytes_lit(a)}, {n}, {bytes_lit(e)})" for a, n, e in bufs) + "]", "",
           "/-- `ValueStatus::to_le_bytes`: (status, the i32 written); and the status each call of write_value passes -/",
           f"def statusCodes : List (List Nat × Nat) := {pl(codes)}",
           "def writeValueCallStatuses : List (List Nat) := [" + ", ".join(bytes_lit(c) for c in calls) + "]", "",
           "/-- `update_key`: `start_at = " + re.sub(r"\s+", " ", st.group(1).strip()) + "`; (what is written, where) -/",
           f"def updateKeyStart : List Nat := {bytes_lit(re.sub(chr(92) + 's+', ' ', st.group(1).strip()))}",
           "def updateKeyWrites : List (List Nat × List Nat) := [" + ", ".join(f"({bytes_lit(a)}, {bytes_lit(c)})" for a, c in ups) + "]", "", "end Nun.Gen", ""]
    return "\n".join(out)

# the lines of live replication as they are PRINTED: for each formatter the format text and the arguments in order (the FIRST format!
# of the function body) — interpreted in Lean by a `{}`-substituting printer and proved equal to the model's message functions
WIRE_SITES = [("get_replicate_message", r"pub fn get_replicate_message\s*\("), ("get_replicate_remove_message", r"pub fn get_replicate_remove_message\s*\("),
              ("get_replicate_increment_message", r"pub fn get_replicate_increment_message\s*\("), ("get_resolve_message", r"pub fn get_resolve_message\s*\("),
              ("message_to_replicate", r"pub fn message_to_replicate\s*\("), ("replicate_message_with_sender", r"pub fn replicate_message_with_sender\s*\(")]

def gen_wire():
    out = ["namespace Nun.Gen", "",
           "/-- (formatter, format text, arguments in order) -/",
           "def wireFormats : List (List Nat × List Nat × List (List Nat)) := ["]
    for ix, (name, hdr) in enumerate(WIRE_SITES):
        raw, b = fn_body("replication_ops.rs", hdr, f"wire formatter {name}")
        m = re.search(r"format!\s*\(\s*\"", b)
        if not m: raise ExtractError(f"wire formatter {name}: no format! found")
        i = m.end(); j = b.index('"', i)
        tmpl = unescape(raw[i:j])
        k = j + 1; depth = 1; args_txt = ""
        while depth > 0:
            c = b[k]
            if c == "(": depth += 1
            elif c == ")": depth -= 1
            if depth > 0: args_txt += c
            k += 1
        args = [re.sub(r"\s+", "", a) for a in args_txt.split(",") if a.strip()]
        if tmpl.count("{}") != len(args) or "{" in tmpl.replace("{}", ""):
            raise ExtractError(f"wire formatter {name}: {tmpl!r} with arguments {args} is not a plain positional format")
        out.append(f"  -- {name}: {tmpl!r} <- {', '.join(args)}")
        out.append(f"  ({bytes_lit(name)}, {bytes_lit(tmpl)}, [" + ", ".join(bytes_lit(a) for a in args) + "])" + ("," if ix + 1 < len(WIRE_SITES) else ""))
    out += ["]", ""]
    # the lines printed inline by the arms of replicate_request (and the three announcements printed elsewhere): every format! of a plain
    # positional text that starts with a command word, in source order, duplicates dropped
    def formats_in(body_raw, body_blank):
        rows = []
        for m in re.finditer(r"(?<![\w:!])format!\s*\(\s*\"", body_blank):
            i = m.end(); j = body_blank.index('"', i)
            tmpl = unescape(body_raw[i:j])
            k = j + 1; depth = 1; args_txt = ""
            while depth > 0:
                c = body_blank[k]
                if c == "(": depth += 1
                elif c == ")": depth -= 1
                if depth > 0: args_txt += c
                k += 1
            parts = []; cur = ""; d = 0
            for c in args_txt:
                if c in "([": d += 1
                if c in ")]": d -= 1
                if c == "," and d == 0: parts.append(cur); cur = ""
                else: cur += c
            parts.append(cur)
            args = [re.sub(r"\s+", "", a) for a in parts if a.strip()]
            # (string literals inside the arguments were blanked: recover them from the raw text)
            raw_args_txt = body_raw[j + 1:k - 1]
            rparts = []; cur = ""; d = 0; q = False
            for c in raw_args_txt:
                if c == '"': q = not q
                if not q and c in "([": d += 1
                if not q and c in ")]": d -= 1
                if c == "," and d == 0 and not q: rparts.append(cur); cur = ""
                else: cur += c
            rparts.append(cur)
            rargs = [re.sub(r"\s+", "", a) for a in rparts if a.strip()]
            if re.match(r"[a-z][a-z-]*( [a-z]+)? \{\}", tmpl) and "{" not in tmpl.replace("{}", "") and tmpl.count("{}") == len(rargs):
                rows.append((tmpl, rargs))
        return rows
    raw, b = fn_body("replication_ops.rs", r"pub fn replicate_request\s*\(", "replicate_request")
    arms = formats_in(raw, b)
    text = src("replication_ops.rs"); bt = blank(text)
    extra = [r for r in formats_in(text, bt) if r[0].split(" ")[0] in ("set-primary", "set-secoundary", "secoundary", "replicate-join")]
    seen = []; 
    for r in arms + extra:
        if r not in seen: seen.append(r)
    if len(seen) < 6: raise ExtractError(f"inline wire formats: only {len(seen)} found")
    out += ["/-- the lines printed inline: (format text, arguments in order) -/",
            "def wireArmFormats : List (List Nat × List (List Nat)) := ["]
    for ix, (tmpl, args) in enumerate(seen):
        out.append(f"  -- {tmpl!r} <- {', '.join(args)}")
        out.append(f"  ({bytes_lit(tmpl)}, [" + ", ".join(bytes_lit(a) for a in args) + "])" + ("," if ix + 1 < len(seen) else ""))
    out += ["]", ""]
    # the lines of a resynchronisation burst: per function, every format! of a plain positional text, in source order
    out += ["/-- the resynchronisation burst: (function, format text, arguments in order) -/",
            "def syncFormats : List (List Nat × List Nat × List (List Nat)) := ["]
    rows = []
    for fname, hdr in [("make_create_db_command", r"fn make_create_db_command\s*\("), ("get_full_sync_opps", r"fn get_full_sync_opps\s*\("),
                       ("get_pendding_opps_since_from_sync", r"fn get_pendding_opps_since_from_sync\s*\(")]:
        raw, b = fn_body("replication_ops.rs", hdr, f"resynchronisation formatter {fname}")
        fs = formats_in(raw, b)
        if not fs: raise ExtractError(f"resynchronisation formatter {fname}: no line format found")
        rows += [(fname, t, a) for t, a in fs]
    for ix, (fname, tmpl, args) in enumerate(rows):
        out.append(f"  -- {fname}: {tmpl!r} <- {', '.join(args)}")
        out.append(f"  ({bytes_lit(fname)}, {bytes_lit(tmpl)}, [" + ", ".join(bytes_lit(a) for a in args) + "])" + ("," if ix + 1 < len(rows) else ""))
    out += ["]", "", "end Nun.Gen", ""]
    return "\n".join(out)

def write(name, text):
    os.makedirs(OUT, exist_ok=True)
    p = os.path.join(OUT, name)
    old = open(p).read() if os.path.exists(p) else None
    if old != text:
        with open(p, "w") as f: f.write(text)

def main():
    errors = []
    for name, fn in [("Lits.lean", gen_lits), ("Guards.lean", gen_guards), ("PanicSites.lean", gen_panic_sites), ("Atomic.lean", gen_atomic), ("Close.lean", gen_close), ("Notify.lean", gen_notify), ("Commands.lean", gen_commands), ("Trailers.lean", gen_trailers), ("Flag.lean", gen_flag), ("OpRec.lean", gen_oprec), ("DiskRec.lean", gen_diskrec), ("Wire.lean", gen_wire)]:
        try:
            write(name, "-- GENERATED by extract/extract.py from /repo/src — do not edit\n" + fn())
        except ExtractError as e:
            errors.append(str(e))
    if errors:
        for e in errors: print("EXTRACT-ERROR " + e)
        sys.exit(2)
    print("extract ok")

if __name__ == "__main__":
    main()
