"""Shared machinery of bin/check: builds, parallel execution of scripts on the implementation
(nvh) and on the Lean model (nunmodel), canonicalisation, diff, shrinking, Lean obligations,
known-findings filter, evidence."""
import os, re, sys, json, time, subprocess, hashlib, fcntl, shutil, tempfile, random
from concurrent.futures import ThreadPoolExecutor

ROOT = os.path.dirname(os.path.dirname(os.path.abspath(__file__)))
REPO = os.environ.get("VERIF_REPO", "/repo")
LEAN = os.path.join(ROOT, "lean")
HARNESS = os.path.join(ROOT, "harness")
WORK = os.path.join(ROOT, "work")
SCRATCH = os.path.join(ROOT, "scratch")
NVH = os.path.join(HARNESS, "target", "debug", "nvh")
MODEL = os.path.join(LEAN, ".lake", "build", "bin", "nunmodel")
JOBS = int(os.environ.get("VERIF_JOBS", "14"))
ENV = dict(os.environ, CARGO_NET_OFFLINE="true", RUST_LOG="off", NUN_LOG_LEVEL="Off",
           NUN_ELECTION_TIMEOUT="10")

def log(*a):
    print(*a, file=sys.stderr, flush=True)

class Lock:
    def __init__(self, name="build"):
        os.makedirs(WORK, exist_ok=True)
        self.f = open(os.path.join(WORK, f".{name}.lock"), "w")
    def __enter__(self):
        fcntl.flock(self.f, fcntl.LOCK_EX); return self
    def __exit__(self, *a):
        fcntl.flock(self.f, fcntl.LOCK_UN); self.f.close()

def run(cmd, cwd=None, timeout=None, env=None, input=None):
    p = subprocess.run(cmd, cwd=cwd, env=env or ENV, timeout=timeout, input=input,
                       stdout=subprocess.PIPE, stderr=subprocess.STDOUT, text=True)
    return p.returncode, p.stdout

# ------------------------------------------------------------------ builds
def build_all(lean_targets=("nunmodel",)):
    """extract → cargo build (harness against /repo working tree) → lake build.
    Returns dict(ok, extract_errors, cargo_log, lake_log, failed_modules)."""
    res = {"ok": True, "extract_errors": [], "failed_modules": [], "cargo_ok": True}
    with Lock():
        rc, out = run([sys.executable, os.path.join(ROOT, "extract", "extract.py")])
        if rc != 0:
            res["extract_errors"] = [l for l in out.splitlines() if l.startswith("EXTRACT-ERROR")] or [out[-500:]]
            res["ok"] = False
        if not os.path.exists(os.path.join(HARNESS, "Cargo.lock")):
            shutil.copy(os.path.join(REPO, "Cargo.lock"), os.path.join(HARNESS, "Cargo.lock"))
        rc, out = run(["cargo", "build", "--offline"], cwd=HARNESS, timeout=3000)
        res["cargo_log"] = out[-3000:]
        if rc != 0:
            res["ok"] = False; res["cargo_ok"] = False
        targets = list(lean_targets)
        try:
            rc, out = run(["lake", "build"] + targets, cwd=LEAN, timeout=1500)
        except subprocess.TimeoutExpired:
            rc, out = 1, "error: lake build timed out after 1500 s\n- " + "\n- ".join(t for t in targets if t.startswith("NunVerif"))
        res["lake_log"] = out[-6000:]
        if rc != 0:
            res["ok"] = False
            res["failed_modules"] = sorted(set(re.findall(r"^- (\S+)", out, re.M)))
            res["lake_errors"] = [l for l in out.splitlines() if l.startswith("error:")][:20]
    return res

def lean_axioms(module, theorems):
    """#print axioms for each theorem; returns {name: [axioms] | None if missing}"""
    src = f"import {module}\n" + "".join(f"#print axioms {t}\n" for t in theorems)
    os.makedirs(WORK, exist_ok=True)
    path = os.path.join(WORK, f"axioms_{module.replace('.', '_')}_{os.getpid()}.lean")
    with open(path, "w") as f: f.write(src)
    rc, out = run(["lake", "env", "lean", path], cwd=LEAN, timeout=600)
    os.remove(path)
    res = {}
    for t in theorems:
        short = t
        m = re.search(r"'" + re.escape(short) + r"' depends on axioms: \[([^\]]*)\]", out)
        if m:
            res[t] = [a.strip() for a in m.group(1).replace("\n", " ").split(",") if a.strip()]
        elif re.search(r"'" + re.escape(short) + r"' does not depend on any axioms", out):
            res[t] = []
        else:
            res[t] = None
    return res, out

def lean_recheck(module):
    """Lean's independent re-checker over the compiled module (and, transitively, what it imports): replays every declaration through the
    kernel from the .olean files; returns (ok, detail)"""
    try:
        rc, out = run(["lake", "env", "leanchecker", module], cwd=LEAN, timeout=900)
    except subprocess.TimeoutExpired:
        return False, "leanchecker timed out"
    return rc == 0, (out.strip()[-300:] if rc != 0 else "replayed by leanchecker")

ALLOWED_AXIOMS = {"propext", "Classical.choice", "Quot.sound"}
FORBIDDEN_RE = re.compile(r"\bsorry\b|\badmit\b|^axiom |native_decide|bv_decide|implemented_by|\bunsafe |maxHeartbeats 0", re.M)

def strip_lean_comments(s):
    s = re.sub(r"/-.*?-/", "", s, flags=re.S)
    s = re.sub(r"--[^\n]*", "", s)
    return s

def grep_forbidden(paths):
    hits = []
    for p in paths:
        s = strip_lean_comments(open(p).read())
        for m in FORBIDDEN_RE.finditer(s):
            hits.append(f"{os.path.relpath(p, ROOT)}: {m.group(0).strip()}")
    return hits

def lean_files(sub):
    out = []
    for d, _, fs in os.walk(os.path.join(LEAN, "NunVerif", sub)):
        for f in fs:
            if f.endswith(".lean"): out.append(os.path.join(d, f))
    return sorted(out)

# ------------------------------------------------------------------ running scripts
OPID = re.compile(r"(?<![0-9])1[0-9]{18}(?![0-9])")

def mask_hex_ids(h):
    """in a hex dump, a run of 16 or more ASCII digits (an operation id inside a key name or a conflict notice) -> <id>"""
    if len(h) % 2: return h
    out = []; run = []
    for i in range(0, len(h), 2):
        b = h[i:i + 2]
        if b[0] == "3" and b[1] in "0123456789": run.append(b); continue
        out.append("<id>" if len(run) >= 16 else "".join(run)); run = []; out.append(b)
    out.append("<id>" if len(run) >= 16 else "".join(run))
    return "".join(out)

def canon_case(lines):
    tbl = {}
    def r(m):
        k = m.group(0)
        if k not in tbl: tbl[k] = "#%04d" % len(tbl)
        return tbl[k]
    out = []
    for l in lines:
        if l.startswith("> RESET"): tbl.clear()
        # the echoed `SNAP order=…` annotation carries the IMPLEMENTATION's ids on both sides (it is input to the model): it takes no part
        # in the renaming of ids by first appearance, and is compared as text
        if l.startswith("> SNAP order=") or l.startswith("> CRASHLOAD "): out.append(OPID.sub("#id", l)); continue
        if l.startswith("F ") and l.count(" ") >= 2:
            p = l.split(" ", 2); l = f"{p[0]} {p[1]} {mask_hex_ids(p[2])}"
        out.append(OPID.sub(r, l))
    return out

def split_cases(text):
    """output → list of per-case line lists (cases start at '#case' lines)"""
    cases = []; cur = None
    for l in text.split("\n"):
        if l.startswith("#case"):
            cur = []; cases.append(cur)
        elif cur is not None and l != "":
            cur.append(l)
    return cases

def write_script(cases, path):
    with open(path, "w") as f:
        for i, c in enumerate(cases):
            f.write(f"#case {i}\n")
            for l in c: f.write(l + "\n")

def run_side(exe_cmd, script_path, out_path, env=None, timeout=1800, stdin_file=False):
    e = dict(ENV); e.update(env or {})
    with open(out_path, "w") as o:
        if stdin_file:
            with open(script_path) as i:
                p = subprocess.run(exe_cmd, stdin=i, stdout=o, stderr=subprocess.PIPE, env=e, timeout=timeout)
        else:
            p = subprocess.run(exe_cmd + [script_path], stdout=o, stderr=subprocess.PIPE, env=e, timeout=timeout)
    return p.returncode, p.stderr.decode(errors="replace")[-2000:]

def run_both(cases, tag, jobs=None, impl_env=None, need_model=True):
    """Runs all cases on the implementation and the model, in parallel chunks.
    Returns (impl_cases, model_cases, errors) — lists of canonicalised line lists per case."""
    jobs = jobs or JOBS
    os.makedirs(WORK, exist_ok=True); os.makedirs(SCRATCH, exist_ok=True)
    n = len(cases)
    if n == 0: return [], [], []
    nchunks = max(1, min(jobs, (n + 19) // 20))
    size = (n + nchunks - 1) // nchunks
    chunks = [cases[i:i + size] for i in range(0, n, size)]
    base = os.path.join(WORK, f"{tag}_{os.getpid()}")
    errors = []
    def do(ix):
        sp = f"{base}_{ix}.script"; ip = f"{base}_{ix}.impl"; mp = f"{base}_{ix}.model"
        write_script(chunks[ix], sp)
        env = {"NVH_DIR": os.path.join(SCRATCH, f"{tag}_{os.getpid()}_{ix}")}
        env.update(impl_env or {})
        rc, err = run_side([NVH, "run"], sp, ip, env=env)
        if rc != 0: errors.append(f"nvh chunk {ix} rc={rc}: {err[-400:]}")
        shutil.rmtree(env["NVH_DIR"], ignore_errors=True)
        # annotated input lines ('@ …' right after an echo) replace the echo; the model reads the annotated script
        raw = open(ip).read().split("\n"); fixed = []
        for l in raw:
            if l.startswith("@ ") and fixed and fixed[-1].startswith("> "):
                fixed[-1] = "> " + l[2:]
            else: fixed.append(l)
        with open(ip, "w") as f: f.write("\n".join(fixed))
        if need_model:
            msp = sp + ".m"
            with open(msp, "w") as f:
                for l in fixed:
                    if l.startswith("> "): f.write(l[2:] + "\n")
                    elif l.startswith("#case"): f.write(l + "\n")
            rc, err = run_side([MODEL], msp, mp, stdin_file=True)
            os.remove(msp)
            if rc != 0: errors.append(f"nunmodel chunk {ix} rc={rc}: {err[-400:]}")
        ic = split_cases(open(ip).read())
        mc = split_cases(open(mp).read()) if need_model else [[] for _ in ic]
        for p in (sp, ip, mp):
            if os.path.exists(p): os.remove(p)
        return ic, mc
    with ThreadPoolExecutor(max_workers=jobs) as ex:
        results = list(ex.map(do, range(len(chunks))))
    impl = []; model = []
    for ix, (ic, mc) in enumerate(results):
        want = len(chunks[ix])
        if len(ic) != want: errors.append(f"impl chunk {ix}: {len(ic)} of {want} cases came back (crash?)")
        if need_model and len(mc) != want: errors.append(f"model chunk {ix}: {len(mc)} of {want} cases came back")
        ic += [["<missing>"]] * (want - len(ic)); mc += [["<missing>"]] * (want - len(mc))
        impl += [canon_case(c) for c in ic]; model += [canon_case(c) for c in mc]
    return impl, model, errors

def first_diff(a, b):
    for i, (x, y) in enumerate(zip(a, b)):
        if x != y: return i, x, y
    if len(a) != len(b):
        i = min(len(a), len(b))
        return i, (a[i] if i < len(a) else "<end>"), (b[i] if i < len(b) else "<end>")
    return None

# ------------------------------------------------------------------ shrinking
def ddmin(lines, failing, keep_prefix=0, budget=200):
    """delta-debug a case (list of lines): drop lines while `failing(lines)` stays true"""
    cur = list(lines); n = 2; calls = 0
    while len(cur) - keep_prefix >= 2 and calls < budget:
        body = cur[keep_prefix:]; chunk = max(1, len(body) // n); reduced = False
        for i in range(0, len(body), chunk):
            cand = cur[:keep_prefix] + body[:i] + body[i + chunk:]
            calls += 1
            if failing(cand):
                cur = cand; n = max(n - 1, 2); reduced = True; break
            if calls >= budget: break
        if not reduced:
            if chunk == 1: break
            n = min(len(body), n * 2)
    return cur

# ------------------------------------------------------------------ evidence / findings
def load_known():
    p = os.path.join(ROOT, "known_findings.json")
    if not os.path.exists(p): return []
    return json.load(open(p))["findings"]

def trace_hash(lines):
    return hashlib.sha256("\n".join(lines).encode()).hexdigest()[:16]

def write_evidence(pid, ev):
    os.makedirs(os.path.join(ROOT, "evidence"), exist_ok=True)
    with open(os.path.join(ROOT, "evidence", f"{pid}.json"), "w") as f:
        json.dump(ev, f, indent=1)

def write_replay(pid, name, lines):
    os.makedirs(os.path.join(ROOT, "replays"), exist_ok=True)
    p = os.path.join(ROOT, "replays", f"{pid}-{name}.txt")
    with open(p, "w") as f:
        for l in lines: f.write(l + "\n")
    return p

class XorShift:
    def __init__(self, seed):
        self.s = (seed * 2654435761 + 88172645463325252) & 0xFFFFFFFFFFFFFFFF or 1
    def next(self):
        s = self.s
        s ^= (s << 13) & 0xFFFFFFFFFFFFFFFF; s ^= s >> 7; s ^= (s << 17) & 0xFFFFFFFFFFFFFFFF
        self.s = s; return s
    def below(self, n): return self.next() % n
    def choice(self, l): return l[self.below(len(l))]
    def chance(self, num, den): return self.below(den) < num

# ------------------------------------------------------------------ parsing driver output
def parse_steps(lines):
    """[(input_line, [output lines])] for one case; dump lines are expanded ('D =' → previous dump)"""
    steps = []; cur = None
    for l in lines:
        if l.startswith("> "):
            cur = [l[2:], []]; steps.append(cur)
        elif cur is not None:
            cur[1].append(l)
    last = []
    out = []
    for inp, outs in steps:
        dump = [o for o in outs if o.startswith("D ")]
        rest = [o for o in outs if not o.startswith("D ")]
        if dump == ["D ="]: dump = last
        elif dump: last = dump
        out.append((inp, rest, dump))
    return out

def unesc(s):
    b = bytearray(); i = 0; raw = s.encode()
    while i < len(raw):
        if raw[i] == 92 and i + 1 < len(raw):
            c = raw[i + 1]
            if c == 92: b.append(92); i += 2; continue
            if c == ord('n'): b.append(10); i += 2; continue
            if c == ord('e'): i += 2; continue
            if c == ord('x') and i + 3 < len(raw):
                b.append(int(raw[i + 2:i + 4], 16)); i += 4; continue
        b.append(raw[i]); i += 1
    return bytes(b)

def esc(b, sp=False):
    if isinstance(b, str): b = b.encode()
    o = []
    for c in b:
        if c == 92: o.append("\\\\")
        elif c == 32 and sp: o.append("\\x20")
        elif 32 <= c < 127: o.append(chr(c))
        else: o.append("\\x%02x" % c)
    return "".join(o)
