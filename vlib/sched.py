"""Schedule stage: two commands of two clients on one node under every lock-level interleaving.

The harness runs both commands on two threads that park at the yield hook placed before every lock
acquisition on Database.map / Watchers.map / connections (`PAR <schedule> …`); this module
enumerates the schedules, and compares what each interleaving produced — both replies, every line
pushed to every session, the final state — with what the Lean MODEL produces for the two
sequential orders.  An interleaving whose outcome is neither is a linearizability failure: the
sequential theorems of the property do not cover that execution."""
import os, re, itertools, subprocess
from . import core
from .runner import Failure

OPMASK = re.compile(r"op=\S+")

def esc_cmd(c): return core.esc(c.encode(), sp=True)

def interleavings(na, nb, cap, rng):
    total = 1
    for i in range(1, nb + 1): total = total * (na + i) // i
    if total <= cap:
        for pos in itertools.combinations(range(na + nb), nb):
            s = ["0"] * (na + nb)
            for p in pos: s[p] = "1"
            yield "".join(s)
    else:
        seen = set()
        while len(seen) < cap:
            s = ["0"] * na + ["1"] * nb
            for i in range(len(s) - 1, 0, -1):
                j = rng.below(i + 1); s[i], s[j] = s[j], s[i]
            t = "".join(s)
            if t not in seen: seen.add(t); yield t

def outcome(lines, par_sids, impl):
    """(reply A, reply B, pushes per session, final state) from the part of a case after the marker"""
    steps = core.parse_steps(lines)
    ra = rb = None; pushes = {}; tailv = []; state = None; started = False
    for (inp, rest, dump) in steps:
        if inp.startswith("MARK par"): started = True; continue
        if not started: continue
        if inp.startswith("PAR "):
            ra = next((x[3:] for x in rest if x.startswith("R0 ")), "?"); rb = next((x[3:] for x in rest if x.startswith("R1 ")), "?")
        elif inp.startswith("C "):
            sid = int(inp.split(" ")[1]); r = next((x for x in rest if x.startswith("R ")), "R ?")
            if sid == par_sids[0] and ra is None: ra = r
            elif sid == par_sids[1] and rb is None: rb = r
            else: tailv.append(r)
        for x in rest:
            m = re.match(r"M (\d+) (.*)", x)
            if m: pushes.setdefault(int(m.group(1)), []).append(m.group(2))
        if dump and dump != ["D ="]: state = [OPMASK.sub("op=#", d) for d in dump if not d.startswith("D sess")]
    return (ra, rb, tuple(sorted((k, tuple(v)) for k, v in pushes.items())), tuple(tailv), tuple(state or []))

def run_impl(cases, tag):
    d = os.path.join(core.SCRATCH, f"sched_{tag}_{os.getpid()}"); os.makedirs(d, exist_ok=True)
    script = os.path.join(d, "script"); core.write_script(cases, script)
    out = os.path.join(d, "out")
    env = dict(core.ENV, NVH_DIR=d)
    with open(out, "w") as o: subprocess.run([core.NVH, "run", script], env=env, stdout=o, stderr=subprocess.DEVNULL, timeout=3600)
    res = core.split_cases(open(out).read())
    import shutil; shutil.rmtree(d, ignore_errors=True)
    return res

def run_model(cases, tag):
    d = os.path.join(core.SCRATCH, f"schedm_{tag}_{os.getpid()}"); os.makedirs(d, exist_ok=True)
    script = os.path.join(d, "script"); core.write_script(cases, script)
    p = subprocess.run([core.MODEL], stdin=open(script), stdout=subprocess.PIPE, text=True, timeout=3600)
    import shutil; shutil.rmtree(d, ignore_errors=True)
    return core.split_cases(p.stdout)

PARTS = ("reply-A", "reply-B", "pushes", "later-replies", "state")

def project(o, parts):
    """the components of an outcome a property cares about; 'pushes-multiset' = which lines each session got, in any order"""
    out = []
    for p in parts:
        if p == "pushes-multiset": out.append(tuple((k, tuple(sorted(v))) for k, v in o[2]))
        else: out.append(o[PARTS.index(p)])
    return tuple(out)

def stage(pid, pairs, tier, seed, cap_quick=60, cap_thorough=400, parts=PARTS, extra_oracle=None):
    """pairs: list of (name, setup lines, (sidA, cmdA), (sidB, cmdB), tail lines)"""
    rng = core.XorShift(seed * 31 + 7)
    cap = cap_quick if tier == "quick" else cap_thorough
    # 1. probe: how many yield points has each command (run alone, first one then the other)
    probes = [setup + ["MARK par", f"PAR 0 {a[0]} {esc_cmd(a[1])} {b[0]} {esc_cmd(b[1])}"] + tail for (_, setup, a, b, tail) in pairs]
    pout = run_impl(probes, f"{pid}p")
    jobs = []   # (pair index, schedule)
    for pi, lines in enumerate(pout):
        s = next((l for l in lines if l.startswith("S ")), "S ")
        ev = s[2:].split(" ")
        na = len([e for e in ev if e.startswith("0:")]); nb = len([e for e in ev if e.startswith("1:")])
        for sch in interleavings(max(na, 1), max(nb, 1), cap, rng): jobs.append((pi, sch))
    cases = []
    for (pi, sch) in jobs:
        (_, setup, a, b, tail) = pairs[pi]
        cases.append(setup + ["MARK par", f"PAR {sch} {a[0]} {esc_cmd(a[1])} {b[0]} {esc_cmd(b[1])}"] + tail)
    # in chunks, in parallel
    from concurrent.futures import ThreadPoolExecutor
    chunks = [cases[i::core.JOBS] for i in range(core.JOBS)]
    with ThreadPoolExecutor(max_workers=core.JOBS) as ex:
        outs = list(ex.map(lambda ic: run_impl(ic[1], f"{pid}c{ic[0]}") if ic[1] else [], enumerate(chunks)))
    iout = [None] * len(cases)
    for ci, ch in enumerate(outs):
        for k, lines in enumerate(ch): iout[ci + k * core.JOBS] = lines
    # 2. the model on the two sequential orders.  A snapshot in the setup writes the keys in the map's iteration order, which differs from
    # run to run of the implementation: the model is given the order THAT run reported (the `@ SNAP order=…` annotation), so a pair whose
    # setup snapshots gets its own two model runs per schedule
    def with_ann(setup, lines):
        ann = [l[2:] for l in (lines or []) if l.startswith("@ SNAP")]
        it = iter(ann); out = []
        for l in setup:
            out.append(next(it, l) if l == "SNAP" else l)
        return out
    mcases = []; mindex = {}; mjob = []
    for k, (pi, sch) in enumerate(jobs):
        (_, setup, a, b, tail) = pairs[pi]
        st = with_ann(setup, iout[k]) if "SNAP" in setup else setup
        key = (pi, "\n".join(st))
        if key not in mindex:
            mindex[key] = len(mcases)
            mcases.append(st + ["MARK par", f"C {a[0]} {core.esc(a[1].encode())}", f"C {b[0]} {core.esc(b[1].encode())}"] + tail)
            mcases.append(st + ["MARK par", f"C {b[0]} {core.esc(b[1].encode())}", f"C {a[0]} {core.esc(a[1].encode())}"] + tail)
        mjob.append(mindex[key])
    mout = run_model(mcases, pid)
    failures = []; stats = {}
    for k, (pi, sch) in enumerate(jobs):
        (name, setup, a, b, tail) = pairs[pi]
        lines = iout[k]
        if lines is None: continue
        sids = (a[0], b[0])
        oi = outcome(core.canon_case(lines), sids, True)
        seq = [outcome(core.canon_case(mout[mjob[k]]), sids, False), outcome(core.canon_case(mout[mjob[k] + 1]), sids, False)]
        trace = next((l for l in lines if l.startswith("S ")), "S ")
        st = stats.setdefault(name, dict(schedules=0, ab=0, ba=0, neither=0, deadlock=0))
        st["schedules"] += 1
        if "deadlock" in trace:
            st["deadlock"] += 1
            f = Failure(f"deadlock:{name}", f"schedule {sch}: {trace}"); f.noshrink = True; f.case = cases[k]; failures.append(f); continue
        if extra_oracle is not None:
            for f in extra_oracle(name, oi, sch, trace):
                f.noshrink = True; f.case = [f"# {a[1]!r} (session {a[0]}) and {b[1]!r} (session {b[0]}) under schedule {sch}"] + cases[k]; failures.append(f)
        if project(oi, parts) == project(seq[0], parts): st["ab"] += 1
        elif project(oi, parts) == project(seq[1], parts): st["ba"] += 1
        else:
            st["neither"] += 1
            # which part differs from the closer sequential order
            diffs = []
            for s_ in seq:
                diffs.append([n for n, (x, y) in zip(parts, zip(project(oi, parts), project(s_, parts))) if x != y])
            best = min(diffs, key=len)
            f = Failure(f"not-linearizable:{name}:{'+'.join(best)}", f"schedule {sch} ({trace[2:][:300]}): replies {oi[0]!r} / {oi[1]!r}, pushes {oi[2]}; sequential A;B gives {seq[0][0]!r} / {seq[0][1]!r}, pushes {seq[0][2]}; B;A gives {seq[1][0]!r} / {seq[1][1]!r}")
            f.noshrink = True; f.case = [f"# {a[1]!r} (session {a[0]}) and {b[1]!r} (session {b[0]}) under schedule {sch}: the outcome is that of neither sequential order"] + cases[k]
            failures.append(f)
    # one failure per class
    seen = set(); out = []
    for f in failures:
        if f.cls not in seen: seen.add(f.cls); out.append(f)
    cov = dict(schedule_parts=list(parts), schedule_pairs=len(pairs), schedules_run=len(jobs), schedule_stats=stats,
               schedule_rule="two commands of two sessions on one node run on two threads that park before every lock acquisition (yield hook); every interleaving of their yield points (all of them up to the cap, else a seeded sample) is executed on the real code; "
                             "the outcome (of: both replies, every pushed line per session, later replies, final state with operation ids masked — the components the property speaks about, listed in schedule_parts) must equal the outcome the Lean model computes for one of the two sequential orders")
    return dict(obligations=[], failures=out, evaluations=len(jobs), coverage=cov)
