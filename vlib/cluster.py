"""A simulated network between in-process nun-db nodes.

The network lives here, in Python: every node (real code behind harness/nvh, or the Lean model
behind nunmodel) is an open system driven by the same per-node primitive operations
(`@i C sid line`, `@i PUMP`, `@i LINKSESS`, `@i CLOSE`, `@i UNLINK`).  The orchestrator runs the
IMPLEMENTATION interactively, reads from its output which connections the nodes open (`K link`),
what they queue on them (`L to line`) and what the server side pushes back (`M sid line`), keeps
one FIFO queue per direction of every connection, and decides — from a seeded PRNG or an explicit
schedule — which message is delivered next.  The flat list of primitive operations it issued is
then replayed on the model, and the two outputs are compared operation by operation."""
import os, re, subprocess, shutil
from . import core

class Link:
    def __init__(self, a, b, ssid, rsid, hs):
        self.a, self.b, self.ssid, self.rsid = a, b, ssid, rsid
        self.fwd = list(hs)      # lines a -> b (handshake first)
        self.back = []           # lines b -> a (what b's server side pushed on the connection)
        self.fwd_t = [0] * len(hs); self.back_t = []    # the round in which each queued line was sent (lazy schedules)
        self.alive = True

class Net:
    def __init__(self, tag, env=None, election_timeout="10", with_model=True):
        self.dir = os.path.join(core.SCRATCH, f"net_{tag}_{os.getpid()}")
        shutil.rmtree(self.dir, ignore_errors=True); os.makedirs(self.dir)
        e = dict(core.ENV, NVH_DIR=self.dir, NUN_ELECTION_TIMEOUT=election_timeout); e.update(env or {})
        self.p = subprocess.Popen([core.NVH, "run", "-"], stdin=subprocess.PIPE, stdout=subprocess.PIPE, stderr=subprocess.DEVNULL, env=e, text=True, bufsize=1)
        # with_model=False: an implementation-only stage (lock-level schedules, which the sequential model cannot follow); judged by the oracle alone
        self.m = subprocess.Popen([core.MODEL, "--serve"], stdin=subprocess.PIPE, stdout=subprocess.PIPE, stderr=subprocess.DEVNULL, text=True, bufsize=1) if with_model else None
        self.mscript = []        # the same operations as given to the model (its own operation ids)
        self.mdisp = []          # ... without the implementation's annotations (for the comparison)
        self.mout = []           # model output per operation
        self.ids_i = []; self.ids_m = []   # operation ids in order of first appearance, implementation / model
        self.script = []         # flat primitive operations
        self.out = []            # implementation output, one list of lines per operation
        self.links = []          # Link objects in creation order
        self.names = {}          # node index -> name
        self.parked = []         # (node, coroutine id, site): commands waiting inside start_election
        self.pump_rng = None     # set: PUMP order (replication loop / supervisor first) drawn per operation
        self.round = 0           # lazy schedules: the global clock, one round = one 2 ms turn of every waiting election
        self.park_round = {}     # (node, coroutine id) -> round in which it reached the 100 ms pause before claiming
        self.dead = set()        # nodes that stopped: nothing is delivered to them, their commands never resume
        self.co_sid = {}         # (node, coroutine id) -> session whose handler thread the command occupies
        self.ticks = 0           # wait-loop turns taken
        self.delivered = 0       # inter-node messages delivered (both directions)
        self.trace = []          # (kind, a, b, line) of every delivery

    def close(self):
        try: self.p.stdin.close(); self.p.wait(timeout=10)
        except Exception: self.p.kill()
        if self.m is not None:
            try: self.m.stdin.close(); self.m.wait(timeout=10)
            except Exception: self.m.kill()
        shutil.rmtree(self.dir, ignore_errors=True)

    # ------------------------------------------------------------------ primitive operations
    def _talk(self, proc, line):
        who = "implementation (harness process with the real nodes)" if proc is self.p else "model driver"
        try:
            proc.stdin.write(line + "\n"); proc.stdin.flush()
        except BrokenPipeError:
            raise RuntimeError(f"{who} died on: " + line)
        res = []
        while True:
            l = proc.stdout.readline()
            if l == "": raise RuntimeError(f"{who} died on: " + line)
            l = l.rstrip("\n")
            if l == ".": break
            if l.startswith("> "): continue
            res.append(l)
        return res

    def raw(self, line):
        """one primitive operation on the implementation and — with the operation ids translated — on the model"""
        res = self._talk(self.p, line)
        # an annotation of the implementation (`@ SNAP order=…`: the hash order it observed) replaces the operation for the model
        ann = next((l for l in res if l.startswith("@ ")), None)
        res = [l for l in res if not l.startswith("@ ")]
        self.script.append(line); self.out.append(res)
        tr = lambda t: core.OPID.sub(lambda mm: self.ids_m[self.ids_i.index(mm.group(0))] if mm.group(0) in self.ids_i and self.ids_i.index(mm.group(0)) < len(self.ids_m) else mm.group(0), t)
        self.mdisp.append(tr(line))
        if ann is not None and line.startswith("@"): line = line.split(" ", 1)[0] + " " + ann[2:]
        mline = tr(line)
        mres = self._talk(self.m, mline) if self.m is not None else list(res)
        self.mscript.append(mline); self.mout.append(mres)
        for l in res:
            for x in core.OPID.findall(l):
                if x not in self.ids_i: self.ids_i.append(x)
        for l in mres:
            for x in core.OPID.findall(l):
                if x not in self.ids_m: self.ids_m.append(x)
        return res

    def node_of(self, name):
        for i, n in self.names.items():
            if n == name: return i
        return None

    def op(self, i, line):
        # the replication thread and the supervisor thread of a node run concurrently: which one gets to its queue first varies
        if line == "PUMP" and self.pump_rng is not None and self.pump_rng.below(2) == 0: line = "PUMP sup"
        res = self.raw(f"@{i} {line}")
        for l in res:
            m = re.match(r"Y parked (\d+) (\S+)", l)
            if m:
                if line.startswith("C "): self.co_sid[(i, int(m.group(1)))] = int(line.split(" ")[1])
                self.parked = [p for p in self.parked if not (p[0] == i and p[1] == int(m.group(1)))] + [(i, int(m.group(1)), m.group(2))]
                continue
            m = re.match(r"Y done (\d+)", l)
            if m:
                self.parked = [p for p in self.parked if not (p[0] == i and p[1] == int(m.group(1)))]
                continue
            m = re.match(r"K link (\S+) primary=(\d) lastop=(\d+)", l)
            if m:
                to = self.node_of(core.unesc(m.group(1)).decode())
                me = self.names[i]
                k = len(self.links)
                hs = ["auth adm pw"] + ([f"set-primary {me}"] if m.group(2) == "1" else [f"set-secoundary {me}", f"replicate-since {me} {m.group(3)}"])
                lk = Link(i, to, 100 + 2 * k, 101 + 2 * k, hs); lk.fwd_t = [self.round] * len(hs)
                self.links.append(lk)
                if to is None: lk.alive = False     # a peer that does not exist (or the node itself): connection refused
                self.raw(f"@{i} LINKSESS {lk.rsid} {me}")
                continue
            m = re.match(r"L (\S+) (.*)", l)
            if m:
                to = self.node_of(core.unesc(m.group(1)).decode())
                lk = next((x for x in reversed(self.links) if x.a == i and x.b == to and x.alive), None)
                if lk is not None: lk.fwd.append(core.unesc(m.group(2)).decode("utf-8", "replace")); lk.fwd_t.append(self.round)
                continue
            m = re.match(r"M (\d+) (.*)", l)
            if m:
                sid = int(m.group(1))
                lk = next((x for x in self.links if x.b == i and x.ssid == sid and x.alive), None)
                if lk is not None:
                    for part in core.unesc(m.group(2)).decode("utf-8", "replace").split("\n"):
                        if part.strip(): lk.back.append(part.strip()); lk.back_t.append(self.round)
        return res

    def reset(self, i, role, name, pid, extra="pump,sup"):
        self.names[i] = name
        return self.op(i, f"RESET {role},{extra},name={name},pid={pid}")

    def cmd(self, i, sid, line):
        """a client command, then the node's loops"""
        r = self.op(i, f"C {sid} {core.esc(line.encode())}")
        self.op(i, "PUMP")
        return r

    # ------------------------------------------------------------------ the network
    def busy(self, node, sid):
        """the connection's handler thread is inside a command that waits in start_election: the next lines of that connection wait behind it"""
        return any(p[0] == node and self.co_sid.get((p[0], p[1])) == sid for p in self.parked)

    def pending(self):
        ps = []
        for k, lk in enumerate(self.links):
            if not lk.alive: continue
            if lk.fwd and lk.b not in self.dead and not self.busy(lk.b, lk.ssid): ps.append(("fwd", k))
            if lk.back and lk.a not in self.dead: ps.append(("back", k))
        return ps

    def deliver(self, kind, k):
        lk = self.links[k]
        if kind == "fwd":
            line = lk.fwd.pop(0); lk.fwd_t[:1] = []
            self.trace.append(("fwd", lk.a, lk.b, line)); self.delivered += 1
            self.op(lk.b, f"C {lk.ssid} {core.esc(line.encode())}")
            self.op(lk.b, "PUMP")
        else:
            line = lk.back.pop(0); lk.back_t[:1] = []
            self.trace.append(("back", lk.b, lk.a, line)); self.delivered += 1
            if line == "ok": return          # the reader skips the transport's ok lines
            self.op(lk.a, f"C {lk.rsid} {core.esc(line.encode())}")
            self.op(lk.a, "PUMP")

    def quiesce(self, rng=None, budget=400, max_line=None):
        """deliver until nothing is in flight; returns the number of deliveries (None = budget exhausted, or — with max_line — a line in
        flight has grown beyond max_line bytes: an exchange whose messages grow every round is stopped before it eats the machine)"""
        n = 0
        while True:
            ps = self.pending()
            if not ps: return n
            if n >= budget: return None
            if max_line is not None and any(len(x) > max_line for lk in self.links for q in (lk.fwd, lk.back) for x in q if isinstance(x, (str, bytes))): return None
            kind, k = ps[rng.below(len(ps))] if rng is not None else ps[0]
            self.deliver(kind, k); n += 1

    def settle(self, rng=None, budget=int(os.environ.get("NET_BUDGET", "2000")), max_ticks=int(os.environ.get("NET_MAX_TICKS", "3000")), until=None):
        """messages are faster than the election timeout: deliver everything that can be delivered; only when nothing can,
        let one parked election take one turn of its wait loop; until nothing is in flight and nothing is parked.
        Returns False when the budget is exhausted."""
        steps = 0; total = 0
        while True:
            # the budget bounds the deliveries of the WHOLE call (an exchange that never ends must not run budget x ticks deliveries)
            n = self.quiesce(rng, max(0, budget - total))
            if n is None: return False
            total += n
            if until is not None and until(self): return True      # a staggered trigger: the caller injects the next event here
            if not self.parked: return True
            if self.ticks >= max_ticks or steps >= budget: return False
            node, cid, _ = self.parked[rng.below(len(self.parked))] if rng is not None else self.parked[0]
            self.op(node, f"RESUME {cid}"); self.op(node, "PUMP")
            self.ticks += 1; steps += 1

    def settle_lazy(self, rng, delay=3, final_rounds=50, max_rounds=1500, until=None):
        """message delays BELOW the election timeout, but not zero: time advances in rounds of 2 ms; in every round each deliverable
        message is delivered or held back at random (FIFO per connection; a message is never held for more than `delay` rounds,
        i.e. 2*delay ms < NUN_ELECTION_TIMEOUT = 10 ms), then every election waiting in one of its 2 ms loops takes exactly one turn;
        an election in its 100 ms pause before claiming resumes `final_rounds` rounds after it got there."""
        total = 0
        while True:
            # deliveries of this round
            n = 0
            if total > int(os.environ.get("NET_BUDGET", "2000")) * 3: return False     # an exchange that never ends
            while True:
                ps = self.pending()
                if not ps or n > 400: break
                def head_t(p): lk = self.links[p[1]]; return (lk.fwd_t if p[0] == "fwd" else lk.back_t)[0]
                overdue = [p for p in ps if self.round - head_t(p) >= delay]
                if overdue: kind, k = overdue[rng.below(len(overdue))]
                elif rng.below(3) == 0: break                       # the rest waits for the next round
                else: kind, k = ps[rng.below(len(ps))]
                self.deliver(kind, k); n += 1
            total += n
            if until is not None and until(self): return True
            if not self.parked and not self.pending(): return True
            if self.round >= max_rounds: return False
            # one turn of every waiting election, in random order
            turn = list(self.parked)
            for i in range(len(turn) - 1, 0, -1):
                j = rng.below(i + 1); turn[i], turn[j] = turn[j], turn[i]
            for (node, cid, site) in turn:
                if not any(p[0] == node and p[1] == cid for p in self.parked): continue
                if site.endswith("final-wait"):
                    t0 = self.park_round.setdefault((node, cid), self.round)
                    if self.round - t0 < final_rounds: continue
                self.op(node, f"RESUME {cid}"); self.op(node, "PUMP"); self.ticks += 1
            self.round += 1

    def kill(self, p):
        """node p stops at once: what it already sent may still arrive, nothing reaches it any more, its waiting commands never resume;
        the survivors notice through `disconnect` (end-of-stream), each at its own time"""
        self.dead.add(p)
        self.parked = [x for x in self.parked if x[0] != p]
        for lk in self.links:
            if lk.alive and lk.b == p: lk.fwd = []; lk.fwd_t = []
            if lk.alive and lk.a == p: lk.back = []; lk.back_t = []

    def disconnect(self, a, b):
        """the connections between a and b die: both ends see end-of-stream"""
        for lk in self.links:
            if lk.alive and ((lk.a, lk.b) == (a, b) or (lk.a, lk.b) == (b, a)):
                lk.alive = False; lk.fwd = []; lk.back = []; lk.fwd_t = []; lk.back_t = []
                if lk.b not in self.dead: self.op(lk.b, f"CLOSE {lk.ssid}"); self.op(lk.b, "PUMP")
                if lk.a not in self.dead: self.op(lk.a, f"UNLINK {self.names[lk.b]}"); self.op(lk.a, "PUMP")

    # ------------------------------------------------------------------ cluster formation through the real join path
    def join(self, new, via):
        """`ask_to_join`: a short-lived connection to `via` sending auth + join"""
        self.op(via, "SESS 90"); self.op(via, "C 90 auth adm pw")
        self.op(via, f"C 90 join {self.names[new]}")
        self.op(via, "CLOSE 90"); self.op(via, "PUMP")

def form_cluster(net, k, rng=None, co=False, pids=None):
    """k nodes, n1 the oldest: n1 elects itself, the others join through it; returns after quiescence.
    co=True: elections run as coroutines (messages faster than the election timeout)"""
    extra = "pump,sup,co" if co else "pump,sup"
    pids = pids or [100 * i for i in range(1, k + 1)]
    net.reset(1, "startingup", "n1", pids[0], extra)
    net.op(1, "ELECT"); net.op(1, "PUMP")
    if co and not net.settle(rng): return False
    for i in range(2, k + 1):
        net.reset(i, "startingup", f"n{i}", pids[i - 1], extra)
        net.join(i, 1)
        if co:
            if not net.settle(rng): return False
        elif net.quiesce(rng, 300) is None: return False
    return True

def compare(net):
    """first operation on which model and implementation differ (canonical text), or None"""
    a = canon_ops(net.mdisp, net.mout); b = canon_ops(net.script, net.out)
    if a == b: return None
    for i, (x, y) in enumerate(zip(a, b)):
        if x != y:
            j = i
            while j > 0 and not b[j].startswith("> "): j -= 1
            return dict(op=b[j], model=x, impl=y)
    return dict(op="<end>", model=f"{len(a)} lines", impl=f"{len(b)} lines")

def canon_ops(script, outs):
    """canonical text of a run: op ids renamed by first appearance across the whole run; sync bursts sorted"""
    flat = []
    for s, o in zip(script, outs):
        o = list(o)
        if any(x.startswith("V replicate-since-to") for x in o):
            ls = sorted(x for x in o if x.startswith("L "))
            it = iter(ls); o = [next(it) if x.startswith("L ") else x for x in o]
        else:
            # lines queued on DIFFERENT connections in one operation have no order among each other (the member table is a hash map);
            # the order on each connection is kept
            ls = sorted((x for x in o if x.startswith("L ")), key=lambda x: x.split(" ")[1])
            it = iter(ls); o = [next(it) if x.startswith("L ") else x for x in o]
        flat.append("> " + s); flat += o
    return core.canon_case(flat)

def expand_dumps(lines):
    """undo the 'D =' compression per node so that model and implementation can be compared line by line"""
    return lines
