"""Verdict logic for the cluster properties (C04, C05, C07, C14): the same steps as vlib/runner.py, with
scenarios that drive a simulated network (vlib/cluster.py) instead of batch scripts."""
import os, sys, json, time, glob, re
from concurrent.futures import ThreadPoolExecutor
from . import core, cluster
from .core import log
from .runner import Failure

def dumps_of(net):
    """node -> last full dump lines (after a DUMP operation)"""
    last = {}
    for s, o in zip(net.script, net.out):
        m = re.match(r"@(\d+) DUMP", s)
        if m: last[int(m.group(1))] = [l for l in o if l.startswith("D ")]
    return last

def dataset(dump):
    """db -> {key: (value, version, status)} without the per-node bookkeeping keys; plus db attributes"""
    dbs = {}; attrs = {}
    for l in dump:
        m = re.match(r"D db (\S+) id=(\d+) strat=(\S+) conns=(\d+)", l)
        if m: attrs[m.group(1)] = m.group(3); dbs.setdefault(m.group(1), {})
        m = re.match(r"D k (\S+) (\S+) ver=(-?\d+) st=(\w) va=\d+ ka=\d+ op=\S+ v=(.*)", l)
        if m and m.group(2) != "$connections":
            dbs.setdefault(m.group(1), {})[m.group(2)] = (m.group(5), int(m.group(3)), "removed" if m.group(4) == "D" else "live")
    return dbs, attrs

def pending_rules(net):
    """C15's accounting wherever a cluster runs: a node never registers a pending operation for ITSELF — nobody can acknowledge it, the operation
    stays pending for ever (an election then only gets past its wait through the timeout)"""
    names = {}
    for l in net.script:
        m = re.match(r"@(\d+) RESET .*name=([^,\s]+)", l)
        if m: names[int(m.group(1))] = m.group(2)
    out = []
    try:
        for i in sorted(names):
            if i not in getattr(net, "dead", set()): net.op(i, "DUMP")
        dumps = dumps_of(net)
    except Exception: return out
    for i, d in dumps.items():
        for l in d:
            m = re.match(r"D pend (\S+) rc=(\d+) ac=(\d+) ?(.*)", l)
            if m and names.get(i) and any(x.rsplit(":", 1)[0] == names[i] for x in m.group(4).split(",") if x):
                out.append(Failure("pending-operation-registered-for-the-node-itself", f"n{i} ({names[i]}) holds `{l}`: it waits for its own acknowledgement"))
                return out
    return out

def run(pid, lean_module, theorems, scenarios, rule, tier, seed, level="proof", assumptions=(), trusted=None, extra_cov=None):
    """scenarios: list of (name, fn(net, rng) -> list[Failure])"""
    t0 = time.time()
    for f in glob.glob(os.path.join(core.ROOT, "replays", f"{pid}-*")): os.remove(f)
    build = core.build_all(["nunmodel", lean_module])
    obligations = []; violations = []; notes = []
    if not build["cargo_ok"]:
        p = core.write_replay(pid, "build", ["# the harness does not compile against /repo's working tree", build.get("cargo_log", "")[-2000:]])
        print(f"VIOLATION property={pid} replay={p} no-failing-input-found")
        core.write_evidence(pid, dict(property_id=pid, tier=tier, seed=seed, level="other", coverage=dict(explanation="harness build failed", evaluations=0), wall_s=time.time() - t0, violations=1))
        return 1
    for e in build["extract_errors"]: obligations.append(("extract", False, e))
    if not build["extract_errors"]: obligations.append(("extract:locators", True, "all source locators matched"))
    mod_ok = not any(m.startswith("NunVerif") or m.startswith("Driver") for m in build.get("failed_modules", []))
    axioms = {}
    if mod_ok and theorems:
        axioms, _ = core.lean_axioms(lean_module, theorems)
        ok_rc, det = core.lean_recheck(lean_module)
        obligations.append((f"leanchecker {lean_module}", ok_rc, det))
    for t in theorems:
        ax = axioms.get(t)
        obligations.append((t, bool(mod_ok and ax is not None and set(ax) <= core.ALLOWED_AXIOMS), f"axioms {ax}" if mod_ok else "module does not compile: " + "; ".join(build.get("lake_errors", [])[:3])))
    hits = core.grep_forbidden(core.lean_files("Props") + core.lean_files("Proofs") + core.lean_files("Model"))
    obligations.append(("no sorry/admit/axiom/native_decide", not hits, "; ".join(hits[:5])))
    known = [k for k in core.load_known() if k["property"] == pid]
    known_classes = {k["class"] for k in known if k["status"] == "known"}

    # scenarios that exhaust their delivery budget are the expensive ones (an exchange that never ends runs to the last delivery, in
    # lockstep with the model): after `ENDLESS_CAP` of them the tree is known to be broken in that way and the rest are skipped —
    # on a tree where exchanges end this never triggers
    endless = []
    ENDLESS_CAP = 6
    def is_endless(f): return any(t in f.cls for t in ("does-not-terminate", "no-quiescence", "self-sustaining"))
    def one(ix_sc, salt=0):
        ix, (name, fn) = ix_sc
        if len(endless) >= ENDLESS_CAP:
            return dict(name=name, fails=[], dis=None, script=[], ops=0, delivered=0, hash=f"skipped-{ix}-{salt}", skipped=True)
        r = one_(ix_sc, salt)
        if any(is_endless(f) for f in r.get("fails", [])): endless.append(name)
        return r
    def one_(ix_sc, salt=0):
        ix, (name, fn) = ix_sc
        net = cluster.Net(f"{pid}_{ix}_{salt}", with_model=not getattr(fn, "impl_only", False))
        rng = core.XorShift(seed * 7919 + ix + 1 + salt * 1000003)
        try:
            fails = fn(net, rng) or []
            fails += pending_rules(net)
            dis = cluster.compare(net)
            return dict(name=name, fails=fails, dis=dis, script=list(net.script), ops=len(net.script), delivered=net.delivered,
                        hash=core.trace_hash(cluster.canon_ops(net.script, net.out)))
        except Exception as e:
            if "implementation (harness process" in str(e):
                # the real nodes' process is gone (an abort or a panic outside catch_unwind): that IS an observation about the code
                f = Failure(f"node-process-died:{name.rsplit('-', 1)[0]}", f"{e}; the operations up to there are the replay")
                return dict(name=name, fails=[f], dis=None, script=list(net.script), ops=len(net.script), delivered=net.delivered, hash=core.trace_hash(cluster.canon_ops(net.script, net.out)))
            return dict(name=name, error=f"{type(e).__name__}: {e}", script=list(net.script), ops=len(net.script), delivered=net.delivered, fails=[], dis=None, hash="")
        finally:
            net.close()
    results = []
    # the executable model needs the Model / Gen / Driver modules only: a property theorem that no longer checks does not stop the search
    driver_ok = not any(m.startswith("Driver") or m.startswith("NunVerif.Model") or m.startswith("NunVerif.Gen") or m == "nunmodel" for m in build.get("failed_modules", []))
    if driver_ok and os.path.exists(core.MODEL):
        with ThreadPoolExecutor(max_workers=max(2, core.JOBS // 2)) as ex:
            results = list(ex.map(one, enumerate(scenarios)))
    else:
        obligations.append(("model driver", False, "nunmodel does not build"))
    failures = []; disagreements = []; hashes = set()
    skipped = [r["name"] for r in results if r.get("skipped")]
    if skipped: notes.append(f"{len(skipped)} scenario(s) skipped after {ENDLESS_CAP} scenarios exhausted their delivery budget: {skipped[:5]}…")
    for r in results:
        if "error" in r:
            obligations.append((f"scenario {r['name']}", False, r["error"])); continue
        if r.get("skipped"): continue
        hashes.add(r["hash"])
        if r["dis"]: disagreements.append((r["name"], r["dis"], r["script"]))
        for f in r["fails"]:
            f.case = r["script"]; f.scenario = r["name"]; failures.append(f)
    for k in known:
        if k["status"] == "known":
            if any(f.cls == k["class"] for f in failures): print(f"KNOWN-FINDING: property={pid} {k['what']}")
            else: notes.append(f"known finding {k['id']} did not reproduce")
    new = [f for f in failures if f.cls not in known_classes]
    searched = 0
    if not new and disagreements:
        # the tie is broken: search for a failing input — the scenarios on which model and implementation differ, under other delivery orders
        names = sorted({d[0] for d in disagreements}, key=lambda n: (0 if "staggered" in n else 1, 0 if n.startswith("lazy") else 1, n))[:6]
        jobs = [((ix, sc), salt) for ix, sc in enumerate(scenarios) if sc[0] in names for salt in range(1, 81)]
        with ThreadPoolExecutor(max_workers=max(2, core.JOBS // 2)) as ex:
            extra = list(ex.map(lambda j: one(j[0], j[1]), jobs))
        searched = len(extra)
        for r in extra:
            if "error" in r: continue
            for f in r["fails"]:
                f.case = r["script"]; f.scenario = r["name"] + " (search: another delivery order)"; failures.append(f)
        new = [f for f in failures if f.cls not in known_classes]
        log(f"[{pid}] tie broken ({len(disagreements)} disagreements): searched {searched} more delivery orders of the differing scenarios, {len(new)} failing")
    seen = set()
    for f in new:
        if f.cls in seen: continue
        seen.add(f.cls)
        # smallest failing scenario of the class
        best = min((g for g in new if g.cls == f.cls), key=lambda g: len(g.case))
        p = core.write_replay(pid, f.cls, [f"# oracle failure class={best.cls} in scenario {best.scenario}: {best.detail}", "# replay: NUN_ELECTION_TIMEOUT=10 harness/target/debug/nvh run <this file>"] + best.case)
        violations.append((p, ""))
    broken = [o for o in obligations if not o[1]]
    if not new and (broken or disagreements):
        lines = ["# no failing input found; the property is no longer shown to hold because:"]
        for o in broken: lines.append(f"# broken obligation: {o[0]} — {o[2]}")
        if disagreements:
            name, d, script = min(disagreements, key=lambda x: len(x[2]))
            lines.append(f"# correspondence: model and implementation disagree in {len(disagreements)} scenario(s); first in {name} at {d['op']!r}: model={d['model']!r} impl={d['impl']!r}")
            lines += script
        p = core.write_replay(pid, "tie", lines)
        violations.append((p, " no-failing-input-found"))
    n_ob = len(obligations); n_ok = len([o for o in obligations if o[1]])
    cov = dict(obligations=n_ob, discharged=n_ok, checker_cmd=f"cd /verif/lean && lake build nunmodel {lean_module}",
               trusted_base=trusted or ["Lean 4.33 kernel", "axioms propext, Classical.choice, Quot.sound only", "extract/extract.py (source locators)",
                   "vlib/cluster.py (the simulated network: FIFO queues, delivery order) and harness/nvh (link hook; start_replication's handshake and reader and tcp handle_client's disconnect mirrored by hand)"],
               obligation_list=[dict(name=o[0], ok=o[1], detail=o[2]) for o in obligations],
               evaluations=len(results), distinct_nontrivial=len(hashes), rule=rule,
               samples=[r["script"][:12] for r in results[:2]] or [["<none>"]],
               traces_validated_against_impl=len(results) - len(disagreements), disagreements=len(disagreements), oracle_failures=len(failures),
               failure_classes={c: len([f for f in failures if f.cls == c]) for c in {f.cls for f in failures}},
               operations=sum(r.get("ops", 0) for r in results), messages_delivered=sum(r.get("delivered", 0) for r in results), notes=notes)
    cov.update(extra_cov or {})
    core.write_evidence(pid, dict(property_id=pid, tier=tier, seed=seed, level=level, coverage=cov, assumptions=list(assumptions), wall_s=round(time.time() - t0, 2), violations=len(violations)))
    for p, suffix in violations: print(f"VIOLATION property={pid} replay={p}{suffix}")
    log(f"[{pid}] {tier}: {len(results)} scenarios, {len(hashes)} distinct, {len(disagreements)} disagreements, {len(failures)} oracle failures "
        f"({cov['failure_classes']}), obligations {n_ok}/{n_ob}, {round(time.time() - t0, 1)}s")
    return 1 if violations else 0
