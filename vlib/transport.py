"""Real-transport stage: the tcp, http and websocket front ends themselves (tcp_ops::start_tcp_client / handle_client,
http_ops::start_http_client, ws_ops::start_web_socket_client with its on_open / on_message / on_close handler),
started on loopback ports inside the harness (`nvh transport <script>`) and driven over sockets; the same session script is also run
in-process through the harness operations the other stages use (SESS / C / CLOSE / HTTP — the re-enactment of the transports' glue that is
compared with the Lean model and judged by the oracles).  What every socket received, every HTTP response body and the node's data and
connection counters afterwards must be what the in-process run gives: the socket loops' glue (greeting, the trailing `ok` / `error <msg>`
line, the disconnect sequence, the request-per-connection handling of http) is tied to the part of the code that carries the theorems."""
import os, re, shutil, subprocess
from concurrent.futures import ThreadPoolExecutor
from vlib import core
from vlib.runner import Failure

def ws_sids(script):
    return {int(l.split(" ")[1]) for l in script if l.startswith("W ")}

def is_text(escaped):
    try: core.unesc(escaped).decode(); return True
    except UnicodeDecodeError: return False

def to_inprocess(script):
    out = ["RESET primary"]; ws = ws_sids(script)
    for l in script:
        p = l.split(" ", 2)
        if p[0] in ("T", "W"): out.append(f"SESS {p[1]}")
        elif p[0] in ("XA", "XC"): out.append(f"CLOSE {p[1]}")       # however a connection ends, the session is released once
        elif p[0] == "HA": pass                                       # an upload the peer abandons executes nothing
        elif p[0] == "C" and not is_text(p[2] if len(p) > 2 else ""): pass   # bytes that are no text: the tcp loop drops the line, the websocket library answers with a close frame
        elif p[0] == "C" and int(p[1]) in ws:
            # ws_ops::on_message: the text of one message is split at `;`, every piece is a request of its own
            for piece in (p[2] if len(p) > 2 else "").split(";"): out.append(f"C {p[1]} {piece}")
        elif p[0] == "C": out.append(l)
        elif p[0] == "X": out.append(f"CLOSE {p[1]}")
        elif p[0] == "H": out.append("HTTP 99 " + l.split(" ", 1)[1])
        elif p[0] == "DUMP": out.append("DUMP")
    return out

def to_model(script):
    """the same script for the Lean model driver, which has the transports' per-request glue itself (Model/Session.lean: tcpGreeting,
    Node.tcpLine, Node.wsMessage, transportTrailer): `B <sid> <bytes>` lines are what it says the connection's socket receives"""
    out = ["RESET primary"]; ws = ws_sids(script)
    for l in script:
        p = l.split(" ", 2)
        if p[0] == "T": out.append(f"TCPOPEN {p[1]}")
        elif p[0] == "W": out.append(f"SESS {p[1]}")
        elif p[0] in ("X", "XA", "XC"): out.append(f"CLOSE {p[1]}")
        elif p[0] == "HA": pass
        elif p[0] == "C" and not is_text(p[2] if len(p) > 2 else ""): pass
        elif p[0] == "C": out.append(("WS " if int(p[1]) in ws else "TCP ") + p[1] + " " + (p[2] if len(p) > 2 else ""))
        elif p[0] == "H": out.append("HTTP 99 " + l.split(" ", 1)[1])
        elif p[0] == "DUMP": out.append("DUMP")
    return out

def model_expected(lines):
    """streams, http bodies and data dumps from the model driver's output"""
    streams = {}; https = []; dumps = []
    for (inp, rest, dump) in core.parse_steps(lines):
        for l in rest:
            if l.startswith("M ") or l.startswith("B "):
                q = l.split(" ", 2); streams.setdefault(int(q[1]), bytearray()).extend(core.unesc(q[2] if len(q) > 2 else ""))
            elif l.startswith("H "): https.append(l[2:])
        if inp == "DUMP": dumps.append(data_lines(dump))
    return streams, https, dumps

def expected(script, steps):
    """per-session byte streams, http bodies and data dumps the in-process run predicts for the sockets"""
    streams = {}; https = []; dumps = []; ws = ws_sids(script)
    for (inp, rest, dump) in steps:
        p = inp.split(" ", 2)
        for l in rest:
            if l.startswith("M "):
                q = l.split(" ", 2); streams.setdefault(int(q[1]), bytearray()).extend(core.unesc(q[2] if len(q) > 2 else ""))
        if p[0] == "SESS":
            if int(p[1]) not in ws: streams.setdefault(int(p[1]), bytearray()).extend(b"ok \n")      # the tcp greeting; a websocket has none
        elif p[0] == "C":
            r = next((x for x in rest if x.startswith("R ")), "R ok")
            sid = int(p[1])
            if r.startswith("R verr ") and sid in ws:       # the websocket front end reports a version error as an error line, tcp answers `ok`
                streams.setdefault(sid, bytearray()).extend(b"error " + core.unesc(r.split(" ", 5)[5] if len(r.split(" ", 5)) > 5 else "") + b" \n")
            elif r.startswith("R error "): streams.setdefault(sid, bytearray()).extend(b"error " + core.unesc(r[8:]) + b" \n")
            elif r.startswith("R PANIC"): streams.setdefault(sid, bytearray()).extend(b"<panic>")
            else: streams.setdefault(sid, bytearray()).extend(b"ok \n")
        elif p[0] == "HTTP":
            https.append(next((x[2:] for x in rest if x.startswith("H ")), "<none>"))
        elif p[0] == "DUMP": dumps.append(data_lines(dump))
    return streams, https, dumps

def data_lines(dump):
    return [core.OPID.sub("#", d) for d in dump if d.startswith("D db ") or d.startswith("D k ")]

def observed(lines):
    streams = {}; https = []; dumps = []; cur = None
    for l in lines:
        if l.startswith("> "):
            cur = l[2:]
            if cur == "DUMP": dumps.append([])
        elif l.startswith("B "):
            q = l.split(" ", 2); streams.setdefault(int(q[1]), bytearray()).extend(core.unesc(q[2] if len(q) > 2 else "").replace(b"<close>", b""))
        elif l.startswith("H "): https.append(l[2:])
        elif l.startswith("D ") and cur == "DUMP":
            if l.startswith("D db ") or l.startswith("D k "): dumps[-1].append(core.OPID.sub("#", l))
    return streams, https, dumps

def run_one(ix_script, tag):
    ix, script = ix_script
    d = os.path.join(core.SCRATCH, f"transport_{tag}_{os.getpid()}_{ix}"); shutil.rmtree(d, ignore_errors=True); os.makedirs(d)
    try:
        sp = os.path.join(d, "t.script"); open(sp, "w").write("\n".join(script) + "\n")
        env = dict(core.ENV, NVH_DIR=d)
        p = subprocess.run([core.NVH, "transport", sp], env=env, stdout=subprocess.PIPE, stderr=subprocess.PIPE, text=True, timeout=300)
        obs = observed([l for l in p.stdout.split("\n") if l])
        ip = os.path.join(d, "i.script"); open(ip, "w").write("\n".join(to_inprocess(script)) + "\n")
        q = subprocess.run([core.NVH, "run", ip], env=env, stdout=subprocess.PIPE, stderr=subprocess.PIPE, text=True, timeout=300)
        exp = expected(script, core.parse_steps([l for l in q.stdout.split("\n") if l]))
        fails = []
        if p.returncode != 0: fails.append(Failure("transport-process-died", f"nvh transport rc={p.returncode}: {p.stderr[-300:]}"))
        # the Lean model's own account of the transports (greeting, trailer of each transport, `;` split of a websocket message, disconnect)
        mp = subprocess.run([core.MODEL], input="\n".join(to_model(script)) + "\n", stdout=subprocess.PIPE, stderr=subprocess.PIPE, text=True, timeout=300)
        mexp = model_expected([l for l in mp.stdout.split("\n") if l])
        for sid in sorted(set(mexp[0]) | set(obs[0])):
            a, b = bytes(mexp[0].get(sid, b"")), bytes(obs[0].get(sid, b""))
            if a != b:
                fails.append(Failure("socket-received-differs-from-model:" + ("websocket" if sid in ws_sids(script) else "tcp"), f"session {sid}: model {a[:300]!r} socket {b[:300]!r}")); break
        if mexp[1] != obs[1]:
            k = next((i for i, (x, y) in enumerate(zip(mexp[1], obs[1])) if x != y), min(len(mexp[1]), len(obs[1])))
            fails.append(Failure("http-response-differs-from-model", f"request {k}: model {mexp[1][k:k+1]} http {obs[1][k:k+1]}"))
        for k, (x, y) in enumerate(zip(mexp[2], obs[2])):
            if x != y:
                dl = next(((a, b) for a, b in zip(x, y) if a != b), (x[len(y):][:1], y[len(x):][:1]))
                fails.append(Failure("state-differs-from-model-after-real-transport-sessions", f"dump {k}: model {dl[0]} real transport {dl[1]}")); break
        for sid in sorted(set(exp[0]) | set(obs[0])):
            a, b = bytes(exp[0].get(sid, b"")), bytes(obs[0].get(sid, b""))
            if a != b:
                fails.append(Failure("socket-received-differs-from-session:" + ("websocket" if sid in ws_sids(script) else "tcp"), f"session {sid}: in-process {a[:300]!r} socket {b[:300]!r}")); break
        if exp[1] != obs[1]:
            k = next((i for i, (x, y) in enumerate(zip(exp[1], obs[1])) if x != y), min(len(exp[1]), len(obs[1])))
            fails.append(Failure("http-response-differs-from-session", f"request {k}: in-process {exp[1][k:k+1]} http {obs[1][k:k+1]}"))
        for k, (x, y) in enumerate(zip(exp[2], obs[2])):
            if x != y:
                dl = next(((a, b) for a, b in zip(x, y) if a != b), (x[len(y):][:1], y[len(x):][:1]))
                what = "connection-count" if "conns=" in str(dl) or "$connections" in str(dl) else "data"
                fails.append(Failure(f"{what}-differs-after-real-transport-sessions", f"dump {k}: in-process {dl[0]} real transport {dl[1]}")); break
        for f in fails: f.case = ["# real-transport stage: NVH_DIR=<dir> harness/target/debug/nvh transport <this file>; compare with the in-process form (T / W→SESS, X→CLOSE, H→HTTP; a websocket message is split at `;`)"] + script; f.noshrink = True
        return dict(fails=fails, ops=len(script), bytes=sum(len(v) for v in obs[0].values()))
    finally:
        shutil.rmtree(d, ignore_errors=True)

def stage(pid, scripts, tag=None):
    with ThreadPoolExecutor(max_workers=8) as ex:
        rs = list(ex.map(lambda t: run_one(t, tag or pid), enumerate(scripts)))
    failures = [f for r in rs for f in r["fails"]]
    cov = dict(real_transport=dict(scripts=len(scripts), operations=sum(r["ops"] for r in rs), socket_bytes_compared=sum(r["bytes"] for r in rs), failures=len(failures), compared_with=["the Lean model's transport functions (tcpGreeting, Node.tcpLine, Node.wsMessage, Node.http, Node.tcpClose / close)", "the in-process run of the real process_request"],
               rule="the real tcp_ops / http_ops / ws_ops front ends on loopback ports, driven over sockets: bytes every socket received, HTTP response bodies and the data / connection counters afterwards must equal the in-process session run of the same script"))
    return dict(obligations=[("real-transport stage ran", len(rs) == len(scripts), f"{len(scripts)} scripts")], failures=failures, evaluations=len(scripts), coverage=cov)

def merge(a, b):
    if not a: return b
    if not b: return a
    cov = dict(a.get("coverage", {})); cov.update(b.get("coverage", {}))
    return dict(obligations=a.get("obligations", []) + b.get("obligations", []), failures=a.get("failures", []) + b.get("failures", []),
                evaluations=a.get("evaluations", 0) + b.get("evaluations", 0), coverage=cov)


def liveness_stage(pid, garbage, tag=None):
    """C10 over the REAL tcp and websocket front ends: one session sends a line the in-process harness cannot express or would only re-enact
    (bytes that are not UTF-8, NUL bytes, a bare CR, a very long line, deep envelopes, runs of `;`) — afterwards the front end must still be
    alive: the same session, the administrator's session and a NEW connection are each answered correctly, and the process has not died."""
    # (the probes read a key no hostile line names: some of those lines are legitimate commands on `a`)
    setup = ["T 1", "C 1 auth adm pw", "C 1 create-db t tok", "C 1 use-db t tok", "C 1 set a 1", "C 1 set zq 1"]
    scripts = []
    for kind in ("T", "W"):
        for g in garbage:
            scripts.append(setup + [f"{kind} 2", "C 2 use-db t tok", f"C 2 {g}", "C 2 get zq", "C 1 get zq", "T 3", "C 3 use-db t tok", "C 3 get zq", "DUMP"])
    # the http front end: the same hostile body several times over (it has four workers), an upload abandoned half way, then a plain request
    http_probe = "H use-db t tok;get zq"
    for g in garbage:
        scripts.append(setup + [f"H {g}"] * 6 + [http_probe, "C 1 get zq", "T 3", "C 3 use-db t tok", "C 3 get zq", "DUMP"])
        scripts.append(setup + [f"HA {g}"] * 6 + [http_probe, "C 1 get zq", "T 3", "C 3 use-db t tok", "C 3 get zq", "DUMP"])
    # the websocket protocol itself: close frames with invalid / reserved status codes, a connection that just goes away
    for end in ("XC 2 999", "XC 2 1005", "XC 2 1006", "XC 2 0", "XC 2 4999", "XA 2"):
        scripts.append(setup + ["W 2", "C 2 use-db t tok", end, "W 4", "C 4 use-db t tok;get zq", "X 4", "C 1 get zq", "T 3", "C 3 use-db t tok", "C 3 get zq", "DUMP"])
    def one(ix_script):
        ix, script = ix_script
        d = os.path.join(core.SCRATCH, f"transport_{tag or pid}_live_{os.getpid()}_{ix}"); shutil.rmtree(d, ignore_errors=True); os.makedirs(d)
        try:
            sp = os.path.join(d, "t.script"); open(sp, "w").write("\n".join(script) + "\n")
            try:
                p = subprocess.run([core.NVH, "transport", sp], env=dict(core.ENV, NVH_DIR=d), stdout=subprocess.PIPE, stderr=subprocess.PIPE, timeout=120)
            except subprocess.TimeoutExpired:
                f = Failure("front-end-wedged-by-client-input", f"no end of the script after 120 s: {script[8][:120]}"); f.case = script; f.noshrink = True; return [f]
            lines = [l for l in p.stdout.decode(errors="replace").split("\n") if l]
            streams, _, dumps = observed(lines)
            fails = []
            if p.returncode != 0: fails.append(Failure("front-end-process-died-on-client-input", f"rc={p.returncode}: {p.stderr.decode(errors='replace')[-300:]}"))
            else:
                if not bytes(streams.get(1, b"")).endswith(b"value 1\nok \n"): fails.append(Failure("other-session-not-served-after-client-input", f"administrator session received {bytes(streams.get(1, b''))[-120:]!r}"))
                if not bytes(streams.get(3, b"")).endswith(b"value 1\nok \n"): fails.append(Failure("new-connection-not-served-after-client-input", f"new connection received {bytes(streams.get(3, b''))[-120:]!r}"))
                if http_probe in script:
                    hs = [l[2:] for l in lines if l.startswith("H ")]
                    if not hs or hs[-1] != "empty;value 1\\x0a": fails.append(Failure("http-front-end-not-serving-after-client-input", f"the plain request after the hostile ones was answered {hs[-1:]!r}"))
                if "W 4" in script:
                    if "U 4 upgraded" not in lines: fails.append(Failure("websocket-front-end-not-accepting-after-client-input", "a new websocket connection was not upgraded"))
                    elif not bytes(streams.get(4, b"")).replace(b"<close>", b"").endswith(b"value 1\nok \n"): fails.append(Failure("websocket-front-end-not-serving-after-client-input", f"the new websocket session received {bytes(streams.get(4, b''))[-120:]!r}"))
                s2 = bytes(streams.get(2, b"")).replace(b"<close>", b"")
                # (a websocket session that sends a frame that is no text is closed by the protocol — 1007 — and need not be served further)
                ws_closed_by_protocol = "W 2" in script and any(l.startswith("C 2 ") and not is_text(l[4:]) for l in script)
                if f"C 2 get zq" in script and not ws_closed_by_protocol and not (s2.endswith(b"value 1\nok \n") or s2.endswith(b"value 1\nok \nok \n")): fails.append(Failure("same-session-not-served-after-client-input", f"the session that sent the line received {s2[-160:]!r}"))
            for f in fails: f.case = ["# real-transport liveness: NVH_DIR=<dir> harness/target/debug/nvh transport <this file>"] + script; f.noshrink = True
            return fails
        finally:
            shutil.rmtree(d, ignore_errors=True)
    with ThreadPoolExecutor(max_workers=8) as ex:
        rs = list(ex.map(one, enumerate(scripts)))
    failures = [f for r in rs for f in r]
    cov = dict(real_transport_liveness=dict(scripts=len(scripts), failures=len(failures),
               rule="a hostile line over a real tcp / websocket connection, then the same session, another session and a new connection must each be answered; the process must not die"))
    return dict(obligations=[("real-transport liveness stage ran", True, f"{len(scripts)} scripts")], failures=failures, evaluations=len(scripts), coverage=cov)
