"""A minimal in-process S3-compatible object store (path-style PUT / GET / ListObjectsV2) with fault injection.

Used by checks/c18.py: the real aws-sdk-s3 client inside nun-db talks to it over loopback HTTP.
Faults: fail the n-th PUT once / always, fail the n-th GET once (HTTP 500)."""
import threading, re, urllib.parse
from http.server import BaseHTTPRequestHandler, ThreadingHTTPServer

class Store:
    def __init__(self):
        self.objects = {}        # key -> bytes
        self.log = []            # (method, key, status, size)
        self.puts = 0; self.gets = 0
        self.fail_put_once = set(); self.fail_put_always = set(); self.fail_get_once = set(); self.always_keys = set(); self.fail_get_suffix = set()   # GETs of objects whose key ends so fail every time
        self.fail_get_n = {}          # suffix -> how many more GETs of objects whose key ends so fail (a fault that outlasts the SDK's own retries and then heals)
        self.lock = threading.Lock()

def decode_aws_chunked(body):
    """aws-chunked: <hex size>[;chunk-signature=…]\r\n<data>\r\n … 0\r\n[trailers]\r\n"""
    out = bytearray(); i = 0
    while i < len(body):
        j = body.find(b"\r\n", i)
        if j < 0: break
        head = body[i:j].split(b";")[0]
        try: n = int(head, 16)
        except ValueError: return body
        if n == 0: break
        out += body[j + 2:j + 2 + n]; i = j + 2 + n + 2
    return bytes(out)

def make_handler(store):
    class H(BaseHTTPRequestHandler):
        protocol_version = "HTTP/1.1"
        def log_message(self, *a): pass
        def _key(self):
            p = urllib.parse.urlparse(self.path)
            parts = p.path.lstrip("/").split("/", 1)
            return (parts[1] if len(parts) > 1 else ""), urllib.parse.parse_qs(p.query)
        def _send(self, code, body=b"", ctype="application/xml"):
            self.send_response(code)
            self.send_header("Content-Type", ctype); self.send_header("Content-Length", str(len(body)))
            self.send_header("ETag", '"0"')
            self.end_headers()
            if body: self.wfile.write(body)
        def do_PUT(self):
            key, _ = self._key()
            n = int(self.headers.get("Content-Length", "0"))
            body = self.rfile.read(n) if n else b""
            if "aws-chunked" in (self.headers.get("Content-Encoding", "") or "") or self.headers.get("x-amz-decoded-content-length"):
                body = decode_aws_chunked(body)
            with store.lock:
                store.puts += 1; k = store.puts
                if k in store.fail_put_always: store.always_keys.add(key)     # the n-th PUT and every later PUT of that object fail
                fail = key in store.always_keys or k in store.fail_put_once
                store.fail_put_once.discard(k)
                if not fail: store.objects[key] = body
                store.log.append(("PUT", key, 500 if fail else 200, len(body)))
            if fail: self._send(500, b"<Error><Code>InternalError</Code><Message>injected</Message></Error>")
            else: self._send(200)
        def do_GET(self):
            key, q = self._key()
            if "list-type" in q:
                prefix = q.get("prefix", [""])[0]
                with store.lock:
                    keys = sorted(k for k in store.objects if k.startswith(prefix))
                    store.log.append(("LIST", prefix, 200, len(keys)))
                items = "".join(f"<Contents><Key>{k}</Key><Size>{len(store.objects[k])}</Size></Contents>" for k in keys)
                body = f'<?xml version="1.0" encoding="UTF-8"?><ListBucketResult><Name>nun-db</Name><Prefix>{prefix}</Prefix><KeyCount>{len(keys)}</KeyCount><MaxKeys>1000</MaxKeys><IsTruncated>false</IsTruncated>{items}</ListBucketResult>'.encode()
                return self._send(200, body)
            with store.lock:
                store.gets += 1; k = store.gets
                fail = k in store.fail_get_once or any(key.endswith(sfx) for sfx in store.fail_get_suffix)
                for sfx in list(store.fail_get_n):
                    if key.endswith(sfx) and store.fail_get_n[sfx] > 0 and not fail:
                        store.fail_get_n[sfx] -= 1; fail = True
                store.fail_get_once.discard(k)
                data = store.objects.get(key)
                store.log.append(("GET", key, 500 if fail else (200 if data is not None else 404), len(data or b"")))
            if fail: return self._send(500, b"<Error><Code>InternalError</Code><Message>injected</Message></Error>")
            if data is None: return self._send(404, b"<Error><Code>NoSuchKey</Code><Message>no such key</Message></Error>")
            self._send(200, data, "application/octet-stream")
        def do_HEAD(self): self._send(200)
        def do_DELETE(self):
            key, _ = self._key()
            with store.lock: store.objects.pop(key, None); store.log.append(("DELETE", key, 204, 0))
            self._send(204)
    return H

class Stub:
    def __init__(self):
        self.store = Store()
        self.srv = ThreadingHTTPServer(("127.0.0.1", 0), make_handler(self.store))
        self.port = self.srv.server_address[1]
        self.t = threading.Thread(target=self.srv.serve_forever, daemon=True); self.t.start()
    def url(self): return f"http://127.0.0.1:{self.port}"
    def close(self): self.srv.shutdown(); self.srv.server_close()
