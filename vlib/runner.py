"""Generic verdict logic of bin/check (DESIGN.md §5)."""
import os, sys, json, time
from . import core
from .core import log

class Failure:
    """an implementation-vs-oracle failure: the code breaks the property on this case"""
    def __init__(self, cls, detail, case=None):
        self.cls = cls; self.detail = detail; self.case = case
    def __repr__(self): return f"Failure({self.cls}: {self.detail})"

class Spec:
    pid = "C00"
    lean_module = None          # e.g. "NunVerif.Props.C15"
    theorems = []               # fully qualified names of the property theorems
    level = "proof"
    impl_env = {}
    need_model = True
    rule = ""
    assumptions = []
    trusted_base = []
    def corpus(self): return []                      # list of (name, case_lines)
    def generate(self, tier, seed): return []        # list of case_lines
    def oracle(self, case, impl): return []          # list of Failure
    def nontrivial(self, case, impl): return True
    def extra_obligations(self, build): return []    # list of (name, ok, detail)
    def search_tier(self): return "thorough"
    def extra_stage(self, tier, seed): return None   # dict(obligations, failures, evaluations, coverage) of a property-specific stage

def run_cases(spec, cases, tag):
    impl, model, errors = core.run_both(cases, f"{spec.pid}_{tag}", impl_env=spec.impl_env, need_model=spec.need_model)
    disagreements = []; failures = []; hashes = set(); nontrivial = set()
    for i, c in enumerate(cases):
        h = core.trace_hash(impl[i])
        hashes.add(h)
        if spec.nontrivial(c, impl[i]): nontrivial.add(h)
        if spec.need_model:
            d = core.first_diff(model[i], impl[i])
            if d is not None: disagreements.append((i, d))
        for f in spec.oracle(c, impl[i]):
            f.case = c; failures.append(f)
    return dict(impl=impl, model=model, errors=errors, disagreements=disagreements, failures=failures,
                hashes=hashes, nontrivial=nontrivial)

def shrink_failure(spec, case, cls):
    def failing(cand):
        r = run_cases(spec, [cand], "shrink")
        return any(f.cls == cls for f in r["failures"])
    return core.ddmin(case, failing, keep_prefix=0, budget=60)

def shrink_disagreement(spec, case):
    def failing(cand):
        r = run_cases(spec, [cand], "shrink")
        return len(r["disagreements"]) > 0
    return core.ddmin(case, failing, keep_prefix=0, budget=60)

def main(spec, tier, seed):
    t0 = time.time()
    pid = spec.pid
    import glob
    for f in glob.glob(os.path.join(core.ROOT, "replays", f"{pid}-*")): os.remove(f)
    violations = []      # (replay_path, suffix)
    notes = []
    # 1. build
    targets = ["nunmodel"] + ([spec.lean_module] if spec.lean_module else [])
    build = core.build_all(targets)
    if not build["cargo_ok"]:
        # the harness does not build against the working tree: nothing can be checked
        p = core.write_replay(pid, "build", ["# the harness does not compile against /repo's working tree", build.get("cargo_log", "")[-2000:]])
        print(f"VIOLATION property={pid} replay={p} no-failing-input-found")
        core.write_evidence(pid, dict(property_id=pid, tier=tier, seed=seed, level="other",
            coverage=dict(explanation="harness build failed; nothing explored", evaluations=0), wall_s=time.time() - t0, violations=1))
        return 1
    # 2. obligations
    obligations = []   # (name, ok, detail)
    for e in build["extract_errors"]: obligations.append(("extract", False, e))
    if not build["extract_errors"]: obligations.append(("extract:locators", True, "all source locators matched"))
    model_built = os.path.exists(core.MODEL) and "nunmodel" not in " ".join(build.get("failed_modules", []))
    if spec.lean_module:
        mod_ok = spec.lean_module not in build.get("failed_modules", []) and not any(
            m.startswith("NunVerif") for m in build.get("failed_modules", []))
        axioms = {}
        if mod_ok:
            axioms, raw = core.lean_axioms(spec.lean_module, spec.theorems)
            ok_rc, det = core.lean_recheck(spec.lean_module)
            obligations.append((f"leanchecker {spec.lean_module}", ok_rc, det))
        for t in spec.theorems:
            ax = axioms.get(t)
            if not mod_ok:
                obligations.append((t, False, "module does not compile: " + "; ".join(build.get("lake_errors", [])[:3])))
            elif ax is None:
                obligations.append((t, False, "theorem not found in module"))
            elif not set(ax) <= core.ALLOWED_AXIOMS:
                obligations.append((t, False, f"depends on axioms {ax}"))
            else:
                obligations.append((t, True, f"axioms {ax}"))
        hits = core.grep_forbidden(core.lean_files("Props") + core.lean_files("Proofs") + core.lean_files("Model"))
        obligations.append(("no sorry/admit/axiom/native_decide", not hits, "; ".join(hits[:5])))
    obligations += spec.extra_obligations(build)
    broken = [o for o in obligations if not o[1]]
    # 3. correspondence + oracle
    known = [k for k in core.load_known() if k["property"] == pid]
    known_classes = {k["class"] for k in known if k["status"] == "known"}
    corpus = spec.corpus()
    gen = spec.generate(tier, seed)
    all_cases = [c for _, c in corpus] + gen
    res = run_cases(spec, all_cases, tier) if (model_built or not spec.need_model) else None
    evaluations = 0; distinct_nontrivial = 0; samples = []
    disagreements = []; failures = []
    if res is None:
        broken.append(("model driver", False, "nunmodel does not build"))
    else:
        evaluations = len(all_cases); distinct_nontrivial = len(res["nontrivial"])
        disagreements = res["disagreements"]; failures = res["failures"]
        for e in res["errors"]: notes.append("run error: " + e)
        if res["errors"]: broken.append(("harness run", False, res["errors"][0]))
        samples = [all_cases[i] for i in range(0, len(all_cases), max(1, len(all_cases) // 3))][:3]
    # known findings: replay witnesses
    for k in known:
        wit = [c for n, c in corpus if n == k.get("witness")]
        if not wit: continue
        r = run_cases(spec, wit, "known")
        hit = any(f.cls == k["class"] for f in r["failures"])
        if k["status"] == "known":
            if hit: print(f"KNOWN-FINDING: property={pid} {k['what']}")
            else: notes.append(f"known finding {k['id']} no longer reproduces on its witness")
        elif k["status"] == "fixed" and hit:
            p = core.write_replay(pid, f"regressed-{k['id']}", wit[0])
            violations.append((p, ""))
    # 3b. property-specific stage (e.g. crash-point enumeration)
    extra_cov = {}; printed_known = set()
    if res is not None:
        extra = spec.extra_stage(tier, seed)
        if extra:
            obligations += extra.get("obligations", [])
            broken = [o for o in obligations if not o[1]]
            failures += extra.get("failures", []); evaluations += extra.get("evaluations", 0)
            extra_cov = extra.get("coverage", {})
            for k in known:
                if k["status"] == "known" and any(f.cls == k["class"] for f in extra.get("failures", [])) and not [c for n, c in corpus if n == k.get("witness")]:
                    print(f"KNOWN-FINDING: property={pid} {k['what']}")
    # 4. search when a tie is broken
    searched = False
    if (broken or disagreements) and not [f for f in failures if f.cls not in known_classes] and res is not None:
        searched = True
        log(f"[{pid}] tie broken ({len(broken)} obligations, {len(disagreements)} disagreements): searching for a failing input")
        extra = spec.generate(spec.search_tier(), seed + 1)[:getattr(spec, 'search_cap', 20000)]
        cand = [all_cases[i] for i, _ in disagreements[:50]] + extra
        r2 = run_cases(spec, cand, "search")
        failures += r2["failures"]; evaluations += len(cand)
        distinct_nontrivial = len(res["nontrivial"] | r2["nontrivial"])
    # 5. classification
    new_fail = [f for f in failures if f.cls not in known_classes]
    reported = set()
    for f in new_fail:
        if f.cls in reported: continue
        reported.add(f.cls)
        small = f.case if getattr(f, "noshrink", False) else shrink_failure(spec, f.case, f.cls)
        p = core.write_replay(pid, f.cls, [f"# oracle failure class={f.cls}: {f.detail}"] + small)
        violations.append((p, ""))
    if not new_fail and (broken or disagreements):
        lines = ["# no failing input found; the property is no longer shown to hold because:"]
        for o in broken: lines.append(f"# broken obligation: {o[0]} — {o[2]}")
        if disagreements:
            i, d = disagreements[0]
            small = shrink_disagreement(spec, all_cases[i]) if i < len(all_cases) else []
            lines.append(f"# correspondence: model and implementation disagree on {len(disagreements)} case(s); first differing line: model={d[1]!r} impl={d[2]!r}")
            lines += small
        p = core.write_replay(pid, "tie", lines)
        violations.append((p, " no-failing-input-found"))
    # 6. evidence
    n_ob = len(obligations); n_ok = len([o for o in obligations if o[1]])
    level = spec.level
    cov = dict(obligations=n_ob, discharged=n_ok,
               checker_cmd=f"cd /verif/lean && lake build {' '.join(targets)} && lake env lean <#print axioms of the property theorems>",
               trusted_base=spec.trusted_base or ["Lean 4.33 kernel", "axioms propext, Classical.choice, Quot.sound only",
                   "extract/extract.py (source locators)", "harness/nvh + nunmodel correspondence (differential testing)"],
               obligation_list=[dict(name=o[0], ok=o[1], detail=o[2]) for o in obligations],
               evaluations=evaluations, distinct_nontrivial=distinct_nontrivial, rule=spec.rule,
               samples=samples or [["<none>"]],
               traces_validated_against_impl=evaluations - len(disagreements),
               disagreements=len(disagreements), oracle_failures=len(failures),
               known_findings_replayed=[k["id"] for k in known], searched=searched, notes=notes)
    cov.update(extra_cov)
    core.write_evidence(pid, dict(property_id=pid, tier=tier, seed=seed, level=level, coverage=cov,
                                  assumptions=spec.assumptions, wall_s=round(time.time() - t0, 2), violations=len(violations)))
    for p, suffix in violations:
        print(f"VIOLATION property={pid} replay={p}{suffix}")
    log(f"[{pid}] {tier}: {evaluations} cases, {distinct_nontrivial} distinct non-trivial, {len(disagreements)} disagreements, "
        f"{len(failures)} oracle failures, obligations {n_ok}/{n_ob}, {round(time.time() - t0, 1)}s")
    return 1 if violations else 0
