//! escaping shared with the Lean driver
pub fn esc_bytes(s: &[u8], sp: bool) -> String {
    let mut o = String::new();
    for &b in s {
        if b == 92 { o.push_str("\\\\"); }
        else if b == 32 && sp { o.push_str("\\x20"); }
        else if (32..127).contains(&b) { o.push(b as char); }
        else { o.push_str(&format!("\\x{:02x}", b)); }
    }
    o
}
pub fn esc(s: &str) -> String { esc_bytes(s.as_bytes(), false) }
pub fn escw(s: &str) -> String { if s.is_empty() { "\\e".to_string() } else { esc_bytes(s.as_bytes(), true) } }

fn hexval(c: u8) -> u8 { match c { b'0'..=b'9' => c - 48, b'a'..=b'f' => c - 87, b'A'..=b'F' => c - 55, _ => 0 } }

/// the bytes an escaped field stands for (no UTF-8 repair: hostile input is sent as it is)
pub fn unesc_bytes(s: &str) -> Vec<u8> {
    let b = s.as_bytes(); let mut o: Vec<u8> = Vec::new(); let mut i = 0;
    while i < b.len() {
        if b[i] == 92 && i + 1 < b.len() {
            match b[i + 1] {
                92 => { o.push(92); i += 2; continue; }
                b'n' => { o.push(10); i += 2; continue; }
                b'e' => { i += 2; continue; }
                b'x' if i + 3 < b.len() => { o.push(hexval(b[i + 2]) * 16 + hexval(b[i + 3])); i += 4; continue; }
                _ => {}
            }
        }
        o.push(b[i]); i += 1;
    }
    o
}

pub fn unesc(s: &str) -> String {
    let b = s.as_bytes(); let mut o: Vec<u8> = Vec::new(); let mut i = 0;
    while i < b.len() {
        if b[i] == 92 && i + 1 < b.len() {
            match b[i + 1] {
                92 => { o.push(92); i += 2; continue; }
                b'n' => { o.push(10); i += 2; continue; }
                b'e' => { i += 2; continue; }
                b'x' if i + 3 < b.len() => { o.push(hexval(b[i + 2]) * 16 + hexval(b[i + 3])); i += 4; continue; }
                _ => {}
            }
        }
        o.push(b[i]); i += 1;
    }
    String::from_utf8_lossy(&o).into_owned()
}

/// Rust `splitn(n, ' ')`
pub fn splitn(s: &str, n: usize) -> Vec<&str> { s.splitn(n, ' ').collect() }

/// escape for the `order=` annotation: additionally escapes , ; :
pub fn esc_order(s: &str) -> String {
    if s.is_empty() { return "\\e".to_string(); }
    let mut o = String::new();
    for &b in s.as_bytes() {
        if b == 92 { o.push_str("\\\\"); }
        else if b == b',' || b == b';' || b == b':' || b == 32 || !(32..127).contains(&b) { o.push_str(&format!("\\x{:02x}", b)); }
        else { o.push(b as char); }
    }
    o
}
