use crate::proto::*;
use futures::channel::mpsc::{channel, Receiver, Sender};
use nundb::bo::*;
use nundb::process_request::process_request;
use std::cell::RefCell;
use std::collections::{BTreeMap, HashMap};
use std::sync::atomic::Ordering;
use std::sync::Arc;

thread_local! { pub static LAST_PANIC: RefCell<Option<String>> = RefCell::new(None); }

pub fn drain(r: &mut Receiver<String>) -> Vec<String> {
    let mut v = vec![];
    while let Ok(Some(m)) = r.try_next() { v.push(m); }
    v
}

pub struct Sess { pub client: Client, pub rx: Receiver<String> }

pub struct LinkOut { pub to: String, pub rx: Receiver<String>, pub keep: std::sync::mpsc::Sender<()>, pub is_primary: bool }

/// connections the nodes asked for through the link hook: (from, to, outgoing queue, connects as primary, keep-alive)
pub static LINKREG: std::sync::Mutex<Vec<(String, String, Receiver<String>, bool, std::sync::mpsc::Sender<()>)>> = std::sync::Mutex::new(Vec::new());

pub fn install_link_hook() {
    nundb::verif::set_link_hook(Some(Arc::new(|to: String, rx: Receiver<String>, from: String, is_primary: bool| {
        let (tx, hold) = std::sync::mpsc::channel::<()>();
        LINKREG.lock().unwrap().push((from, to, rx, is_primary, tx));
        let _ = hold.recv();   // returns when the harness drops the link: the connection is closed
    })));
}

/// a command running on its own thread, parked inside a wait loop of start_election
pub struct Co { pub resume: std::sync::mpsc::Sender<()>, pub events: std::sync::mpsc::Receiver<CoEv>, pub handle: Option<std::thread::JoinHandle<()>>,
                /// what the command pushes to its connection while it runs (the stand-in client's channel) belongs to this session
                pub pushed: Option<(usize, Receiver<String>)> }
pub enum CoEv { Parked(String), Done(String) }

thread_local! {
    /// set on worker threads: where to report a yield point and where to wait for the go-ahead
    pub static CO_CTX: RefCell<Option<(std::sync::mpsc::Sender<CoEv>, std::sync::mpsc::Receiver<()>)>> = RefCell::new(None);
}

thread_local! { pub static CO_ALL_SITES: RefCell<bool> = RefCell::new(false); }

pub fn install_yield_hook() {
    nundb::verif::set_yield_hook(Some(Arc::new(|site: &'static str| {
        // election coroutines park in the wait loops only; schedule-stage workers park before every lock acquisition
        if !site.starts_with("start_election:") && !CO_ALL_SITES.with(|a| *a.borrow()) { return; }
        CO_CTX.with(|c| {
            if let Some((tx, rx)) = c.borrow().as_ref() {
                let _ = tx.send(CoEv::Parked(site.to_string()));
                let _ = rx.recv();
            }
        });
    })));
}

pub fn may_elect(cmd: &str, is_primary: bool) -> bool {
    // a replicated command arrives as `rp <op id> <command>` (also nested): the handler runs the inner command in place
    let mut cmd = cmd;
    loop {
        let mut p = cmd.splitn(3, ' ');
        if p.next() == Some("rp") { if let (Some(_), Some(rest)) = (p.next(), p.next()) { cmd = rest; continue; } }
        break;
    }
    let mut w = cmd.split(' ');
    match w.next().unwrap_or("") {
        "join" | "leave" => true,
        // on any other node set-primary only records who the connection belongs to (in the session itself)
        "set-primary" => is_primary,
        "election" => w.next() == Some("candidate"),
        "debug" => w.next() == Some("force-election"),
        _ => false,
    }
}

pub struct Node {
    pub name: String,
    pub pid: u128,
    pub co_mode: bool,
    pub cos: BTreeMap<usize, Co>,
    pub next_co: usize,
    pub sup_fut: Option<std::pin::Pin<Box<dyn std::future::Future<Output = ()>>>>,
    pub sup_in: Option<Sender<String>>,
    pub links: Vec<LinkOut>,
    pub repl_fut: Option<std::pin::Pin<Box<dyn std::future::Future<Output = ()>>>>,
    pub repl_in: Option<Sender<String>>,
    pub dbs: Arc<Databases>,
    pub repl_rx: Receiver<String>,
    pub sup_rx: Receiver<String>,
    pub sessions: BTreeMap<usize, Sess>,
    pub dir: String,
    pub notices: HashMap<usize, Vec<String>>,
    pub last_dump: Vec<String>,
}

thread_local! { pub static HELD: std::cell::RefCell<std::collections::BTreeSet<usize>> = std::cell::RefCell::new(std::collections::BTreeSet::new()); }

pub struct World { pub node: Option<Node>, pub counter: usize, pub base: String }

fn role_of(s: &str) -> ClusterRole {
    let s = s.split(',').next().unwrap_or("");
    match s { "startingup" => ClusterRole::StartingUp, "secoundary" => ClusterRole::Secoundary, _ => ClusterRole::Primary }
}

pub fn make_dbs(dir: &str, role: ClusterRole, fresh: bool) -> (Arc<Databases>, Receiver<String>, Receiver<String>) {
    make_dbs_named(dir, role, fresh, "n1", 1)
}

pub fn opt_of<'a>(opts: &'a str, key: &str) -> Option<&'a str> {
    opts.split(',').find_map(|o| o.strip_prefix(key).and_then(|r| r.strip_prefix('=')))
}

pub fn make_dbs_named(dir: &str, role: ClusterRole, fresh: bool, name: &str, pid: u128) -> (Arc<Databases>, Receiver<String>, Receiver<String>) {
    nundb::verif::set_data_dir(Some(dir.to_string()));
    std::fs::create_dir_all(dir).unwrap();
    let (s1, r1): (Sender<String>, Receiver<String>) = channel(100000);
    let (s2, r2): (Sender<String>, Receiver<String>) = channel(100000);
    let (keys_map, valid) = if fresh { (HashMap::new(), true) } else {
        // the start-up decision of src/bin/main.rs (pinned by the extractor: Gen.startupDecision)
        let v = nundb::disk_ops::is_oplog_valid();
        let km = if v { nundb::disk_ops::load_keys_map_from_disk() } else {
            nundb::disk_ops::Oplog::clean_op_log_metadata_files();
            nundb::disk_ops::mark_op_log_as_invalid_on_disk().unwrap();
            HashMap::new()
        };
        (km, v)
    };
    // the address the node BINDS to differs from the address its peers know it by (as with --external-address in a container set-up):
    // every member table, acknowledgement and self-test of the cluster code goes by the external one
    let dbs = Arc::new(Databases::new("adm".into(), "pw".into(), format!("0.0.0.0:{}", 3000 + pid), name.into(), s1, s2, keys_map, pid, valid));
    dbs.node_state.store(role as usize, Ordering::SeqCst);
    (dbs, r2, r1)
}

fn status_ch(s: ValueStatus) -> &'static str {
    match s { ValueStatus::Ok => "O", ValueStatus::Deleted => "D", ValueStatus::Updated => "U", ValueStatus::New => "N" }
}

impl Node {
    pub fn sid_of(&self, s: &Sender<String>) -> String {
        for (sid, sess) in self.sessions.iter() {
            if sess.client.sender.same_receiver(s) { return sid.to_string(); }
        }
        "?".to_string()
    }

    pub fn dump(&self) -> Vec<String> {
        let mut out = vec![];
        out.push(format!("D role {}", self.dbs.get_role()));
        let dbs = match self.dbs.map.read() { Ok(g) => g, Err(p) => { out.push("D poisoned dbs".to_string()); p.into_inner() } };
        let mut names: Vec<&String> = dbs.keys().collect();
        names.sort_by(|a, b| a.as_bytes().cmp(b.as_bytes()));
        for name in names {
            let d = dbs.get(name).unwrap();
            out.push(format!("D db {} id={} strat={} conns={}", escw(&d.name), d.metadata.id, d.metadata.consensus_strategy, match d.connections.read() { Ok(c) => c.load(Ordering::Relaxed), Err(p) => p.into_inner().load(Ordering::Relaxed) }));
            let m = match d.map.read() { Ok(g) => g, Err(p) => { out.push(format!("D poisoned {} map", escw(&d.name))); p.into_inner() } };
            let mut ks: Vec<&String> = m.keys().collect();
            ks.sort_by(|a, b| a.as_bytes().cmp(b.as_bytes()));
            for k in ks {
                let e = m.get(k).unwrap();
                out.push(format!("D k {} {} ver={} st={} va={} ka={} op={} v={}", escw(&d.name), escw(k), e.version, status_ch(e.state), e.value_disk_addr, e.key_disk_addr, e.opp_id, esc(&e.value)));
            }
            let w = match d.watchers.map.read() { Ok(g) => g, Err(p) => { out.push(format!("D poisoned {} watchers", escw(&d.name))); p.into_inner() } };
            let mut ws: Vec<&String> = w.keys().collect();
            ws.sort_by(|a, b| a.as_bytes().cmp(b.as_bytes()));
            for k in ws {
                let ss: Vec<String> = w.get(k).unwrap().iter().map(|s| self.sid_of(s)).collect();
                out.push(format!("D w {} {} {}", escw(&d.name), escw(k), ss.join(",")));
            }
        }
        for (sid, s) in self.sessions.iter() {
            let mem = match &*s.client.cluster_member.lock().unwrap() { Some(m) => format!("{}:{}", escw(&m.name), m.role), None => "-".to_string() };
            let o = |x: Option<String>| match x { Some(b) => escw(&b), None => "-".to_string() };
            out.push(format!("D sess {} auth={} db={} user={} member={}", sid, if s.client.is_admin_auth() { 1 } else { 0 }, o(s.client.selected_db_name()), o(s.client.selected_db_user_name()), mem));
        }
        let q: Vec<String> = match self.dbs.to_snapshot.read() { Ok(g) => g, Err(p) => { out.push("D poisoned snapshot-queue".to_string()); p.into_inner() } }.iter().map(|(d, r)| format!("{}:{}", escw(d), r)).collect();
        out.push(format!("D snapq {}", q.join(",")));
        {
            let p = self.dbs.pending_opps.read().unwrap();
            let mut ids: Vec<&u64> = p.keys().collect(); ids.sort();
            for id in ids {
                let m = p.get(id).unwrap();
                let reps = m.replications.lock().unwrap();
                let mut rs: Vec<(&String, &bool)> = reps.iter().collect();
                rs.sort_by(|a, b| a.0.as_bytes().cmp(b.0.as_bytes()));
                let rs: Vec<String> = rs.iter().map(|(s, a)| format!("{}:{}", escw(s), if **a { 1 } else { 0 })).collect();
                out.push(format!("D pend {} rc={} ac={} {}", m.opp_id, m.count_replication(), m.count_acknowledged(), rs.join(",")));
            }
        }
        {
            // what a reader of the pending table is handed (get_pending_opp_copy — the election's wait loops poll it)
            let mut ids: Vec<u64> = self.dbs.pending_opps.read().unwrap().keys().cloned().collect(); ids.sort();
            for id in ids {
                if let Some(c) = self.dbs.get_pending_opp_copy(id) {
                    out.push(format!("D pendcopy {} rc={} ac={} full={}", c.opp_id, c.count_replication(), c.count_acknowledged(), if c.is_full_acknowledged() { 1 } else { 0 }));
                }
            }
        }
        {
            let cs = self.dbs.cluster_state.lock().unwrap();
            let ms = cs.members.lock().unwrap();
            let mut names: Vec<&String> = ms.keys().collect();
            names.sort_by(|a, b| a.as_bytes().cmp(b.as_bytes()));
            for n in names { let m = ms.get(n).unwrap(); out.push(format!("D member {} {} {}", escw(&m.name), m.role, if m.sender.is_some() { 1 } else { 0 })); }
        }
        out
    }

    /// the real replication loop, polled by hand (no executor thread)
    pub fn start_loop(&mut self) {
        nundb::verif::set_data_dir(Some(self.dir.clone()));
        let (tx, rx): (Sender<String>, Receiver<String>) = channel(100000);
        self.repl_in = Some(tx);
        self.repl_fut = Some(Box::pin(nundb::replication_ops::start_replication_thread(rx, self.dbs.clone())));
        // the server spawns the loop at start-up: run it up to its first wait (it opens its files)
        if let Some(f) = self.repl_fut.as_mut() {
            let waker = futures::task::noop_waker();
            let mut cx = std::task::Context::from_waker(&waker);
            let _ = std::panic::catch_unwind(std::panic::AssertUnwindSafe(|| { let _ = f.as_mut().poll(&mut cx); }));
        }
    }

    pub fn start_sup(&mut self) {
        install_link_hook();
        let (tx, rx): (Sender<String>, Receiver<String>) = channel(100000);
        self.sup_in = Some(tx);
        self.sup_fut = Some(Box::pin(nundb::replication_ops::start_replication_supervisor(rx, self.dbs.clone(), Arc::new(self.name.clone()))));
    }

    /// the supervisor over everything queued for it; new peer connections and what is queued on the existing ones
    pub fn pump_sup(&mut self) -> Vec<String> {
        let mut out = vec![];
        if self.sup_fut.is_none() { return out; }
        nundb::verif::set_data_dir(Some(self.dir.clone()));
        let msgs = drain(&mut self.sup_rx);
        let mut expect_links = 0;
        for m in msgs {
            out.push(format!("V {}", esc(&m)));
            let kind = m.split(' ').next().unwrap_or("").to_string();
            let name = m.splitn(2, ' ').nth(1).unwrap_or("").to_string();
            if ["secoundary", "primary", "new-secoundary"].contains(&kind.as_str()) && !self.dbs.has_cluster_memeber(&name) { expect_links += 1; }
            if let Some(tx) = self.sup_in.as_mut() { let _ = tx.try_send(m); }
        }
        if let Some(f) = self.sup_fut.as_mut() {
            let waker = futures::task::noop_waker();
            let mut cx = std::task::Context::from_waker(&waker);
            let r = std::panic::catch_unwind(std::panic::AssertUnwindSafe(|| { let _ = f.as_mut().poll(&mut cx); }));
            if r.is_err() {
                out.push(format!("K PANIC supervisor {}", LAST_PANIC.with(|p| p.borrow_mut().take()).unwrap_or_default()));
                self.sup_fut = None; self.sup_in = None;
            }
        }
        // connections opened by the supervisor (its threads register through the link hook)
        let t0 = std::time::Instant::now();
        let mut got = 0;
        while got < expect_links && t0.elapsed().as_millis() < 3000 {
            let mut reg = LINKREG.lock().unwrap();
            let mut i = 0;
            while i < reg.len() {
                if reg[i].0 == self.name {
                    let (_, to, rx, is_primary, keep) = reg.remove(i);
                    nundb::verif::set_data_dir(Some(self.dir.clone()));
                    let last = if is_primary { 0 } else { nundb::disk_ops::Oplog::last_op_time() };
                    out.push(format!("K link {} primary={} lastop={}", escw(&to), if is_primary { 1 } else { 0 }, last));
                    self.links.push(LinkOut { to, rx, keep, is_primary }); got += 1;
                } else { i += 1; }
            }
            drop(reg);
            if got < expect_links { std::thread::sleep(std::time::Duration::from_millis(1)); }
        }
        if got < expect_links { out.push("K link-missing".to_string()); }
        out
    }

    /// lines queued for the peers
    pub fn drain_links(&mut self) -> Vec<String> {
        let mut out = vec![];
        for l in self.links.iter_mut() {
            for m in drain(&mut l.rx) { out.push(format!("L {} {}", escw(&l.to), esc(&m))); }
        }
        out
    }

    /// move what the node queued on its replication channel into the loop and run it until it is idle
    pub fn pump(&mut self) -> Vec<String> {
        let mut out = vec![];
        nundb::verif::set_data_dir(Some(self.dir.clone()));
        let msgs = drain(&mut self.repl_rx);
        for m in msgs {
            out.push(format!("P {}", esc(&m)));
            if let Some(tx) = self.repl_in.as_mut() { let _ = tx.try_send(m); }
        }
        if let Some(f) = self.repl_fut.as_mut() {
            let waker = futures::task::noop_waker();
            let mut cx = std::task::Context::from_waker(&waker);
            let r = std::panic::catch_unwind(std::panic::AssertUnwindSafe(|| { let _ = f.as_mut().poll(&mut cx); }));
            if r.is_err() {
                out.push(format!("K PANIC {}", LAST_PANIC.with(|p| p.borrow_mut().take()).unwrap_or_default()));
                self.repl_fut = None; self.repl_in = None;
            }
        }
        out
    }

    /// key map, flag and oplog files (C16)
    pub fn dump_meta(&self) -> Vec<String> {
        nundb::verif::set_data_dir(Some(self.dir.clone()));
        let mut out = vec![];
        let km = self.dbs.keys_map.read().unwrap();
        let mut ks: Vec<(&String, &u64)> = km.iter().collect(); ks.sort_by_key(|x| *x.1);
        out.push(format!("G keysmap {}", ks.iter().map(|(k, i)| format!("{}={}", escw(k), i)).collect::<Vec<_>>().join(",")));
        let idn = self.dbs.id_name_db_map.read().unwrap();
        let mut ids: Vec<(&u64, &String)> = idn.iter().collect(); ids.sort();
        out.push(format!("G idname {}", ids.iter().map(|(i, n)| format!("{}={}", i, escw(n))).collect::<Vec<_>>().join(",")));
        out.push(format!("G valid {}", if self.dbs.is_oplog_valid.load(Ordering::SeqCst) { 1 } else { 0 }));
        let flag = std::fs::read(format!("{}/is-oplog.valid", self.dir)).ok();
        out.push(format!("G flagfile {}", match flag { Some(b) if !b.is_empty() => b.iter().map(|x| x.to_string()).collect::<Vec<_>>().join(","), _ => "-".to_string() }));
        let kf = format!("{}/keys-nun.keys", self.dir);
        if std::path::Path::new(&kf).exists() {
            let m = nundb::disk_ops::load_keys_map_from_disk();
            let mut ks: Vec<(&String, &u64)> = m.iter().collect(); ks.sort_by_key(|x| *x.1);
            out.push(format!("G keysfile {}", ks.iter().map(|(k, i)| format!("{}={}", escw(k), i)).collect::<Vec<_>>().join(",")));
        } else { out.push("G keysfile -".to_string()); }
        let read_recs = |path: &str| -> String {
            let b = std::fs::read(path).unwrap_or_default();
            let mut v = vec![];
            for c in b.chunks(25) { if c.len() == 25 {
                v.push(format!("{},{},{},{}", u64::from_le_bytes(c[0..8].try_into().unwrap()), u64::from_le_bytes(c[8..16].try_into().unwrap()), u64::from_le_bytes(c[16..24].try_into().unwrap()), c[24])); } else { v.push(format!("partial{}", c.len())); } }
            v.join(";")
        };
        out.push(format!("O cur {}", read_recs(&format!("{}/oplog-nun.op", self.dir))));
        if let Ok(rd) = std::fs::read_dir(format!("{}/oplog", self.dir)) {
            let mut es: Vec<_> = rd.filter_map(|e| e.ok()).collect();
            es.sort_by(|a, b| b.metadata().unwrap().created().unwrap().cmp(&a.metadata().unwrap().created().unwrap()));
            for (i, e) in es.iter().enumerate() { out.push(format!("O rot{} {}", i, read_recs(e.path().to_str().unwrap()))); }
        }
        out
    }

    pub fn dump_files(&self) -> Vec<String> {
        let mut out = vec![];
        if let Ok(rd) = std::fs::read_dir(&self.dir) {
            let mut names: Vec<String> = rd.filter_map(|e| e.ok()).filter(|e| e.path().is_file()).map(|e| e.file_name().into_string().unwrap()).collect();
            names.retain(|f| f.contains("-nun.data") || f.contains("-nun.madadata"));
            names.sort_by(|a, b| a.as_bytes().cmp(b.as_bytes()));
            for f in names {
                let c = std::fs::read(format!("{}/{}", self.dir, f)).unwrap_or_default();
                let hex: String = c.iter().map(|b| format!("{:02x}", b)).collect();
                out.push(format!("F {} {}", escw(&f), hex));
            }
        }
        out
    }

    pub fn dump_delta(&mut self) -> Vec<String> {
        let d = self.dump();
        if d == self.last_dump { vec!["D =".to_string()] } else { self.last_dump = d.clone(); d }
    }

    /// canonical form of a client-channel line whose content depends on HashMap order / clocks
    fn canon_line(l: &str) -> String {
        if l.starts_with("metrics-state ") { return "metrics-state <masked>\n".to_string(); }
        if l.starts_with("pending-ops ") { return "pending-ops <masked>\n".to_string(); }
        if let Some(rest) = l.strip_prefix("dbs-list \n") {
            let mut ls: Vec<&str> = rest.trim_end_matches('\n').split('\n').collect();
            ls.sort_by(|a, b| a.as_bytes().cmp(b.as_bytes()));
            return format!("dbs-list \n{}\n", ls.join("\n"));
        }
        for p in ["commands-list ", "conflitcts-list "] {
            if let Some(rest) = l.strip_prefix(p) {
                let body = rest.trim_end_matches('\n');
                if body.is_empty() { return l.to_string(); }       // an empty list has no leading comma to keep
                let mut items: Vec<&str> = body.split(',').collect();
                // leading empty item from the fold
                let lead = if !items.is_empty() && items[0].is_empty() { items.remove(0); true } else { false };
                items.sort_by(|a, b| a.as_bytes().cmp(b.as_bytes()));
                return format!("{}{}{}\n", p, if lead { "," } else { "" }, items.join(","));
            }
        }
        l.to_string()
    }

    /// drain every observable channel; returns M/P/V lines. `own` = session whose lines are skipped
    pub fn drain_all(&mut self, skip: Option<usize>) -> Vec<String> {
        let mut out = vec![];
        let sids: Vec<usize> = self.sessions.keys().cloned().collect();
        for sid in sids {
            // a session on HOLD is a client that does not read: its queue is left to fill up until RELEASE
            if HELD.with(|h| h.borrow().contains(&sid)) { continue; }
            let msgs = drain(&mut self.sessions.get_mut(&sid).unwrap().rx);
            for m in msgs {
                if m.starts_with("resolve ") { self.notices.entry(sid).or_default().push(m.clone()); }
                if Some(sid) == skip { continue; }
                out.push(format!("M {} {}", sid, esc(&Self::canon_line(&m))));
            }
        }
        if self.repl_in.is_none() && self.repl_fut.is_none() { for m in drain(&mut self.repl_rx) { out.push(format!("P {}", esc(&m))); } }
        if self.sup_fut.is_none() { for m in drain(&mut self.sup_rx) { out.push(format!("V {}", esc(&m))); } }
        out
    }

    pub fn resp_str(r: &Response) -> String {
        match r {
            Response::Value { key, value, version } => {
                let v = if key == "oplog-state" { "<masked>".to_string() } else { value.clone() };
                format!("R value {} {} {}", escw(key), version, esc(&v))
            }
            Response::Ok {} => "R ok".to_string(),
            Response::Set { key, value } => format!("R set {} {}", escw(key), esc(value)),
            Response::Error { msg } => format!("R error {}", esc(msg)),
            Response::VersionError { msg, key, old_version, version, .. } => format!("R verr {} {} {} {}", escw(key), old_version, version, esc(msg)),
        }
    }

    /// wait for the next event of coroutine `id`: parked at a yield point, or finished
    fn co_wait(&mut self, id: usize) -> Vec<String> {
        let ev = self.cos.get(&id).and_then(|c| c.events.recv().ok());
        // lines the command pushed to its connection so far
        let mut ms = vec![];
        if let Some(c) = self.cos.get_mut(&id) {
            if let Some((sid, rx)) = c.pushed.as_mut() { for m in drain(rx) { ms.push(format!("M {} {}", sid, esc(&Self::canon_line(&m)))); } }
        }
        match ev {
            Some(CoEv::Parked(site)) => { let mut v = vec![format!("Y parked {} {}", id, site)]; v.extend(ms); v }
            Some(CoEv::Done(resp)) => {
                if let Some(mut c) = self.cos.remove(&id) { if let Some(h) = c.handle.take() { let _ = h.join(); } }
                let mut v = vec![format!("Y done {}", id), resp]; v.extend(ms); v
            }
            None => { self.cos.remove(&id); vec![format!("Y done {}", id), "R PANIC coroutine died".to_string()] }
        }
    }

    /// run `f` (a command that may hold an election) on its own thread up to its first yield point
    pub fn co_start(&mut self, f: Box<dyn FnOnce(Arc<Databases>) -> String + Send>) -> Vec<String> { self.co_start_on(f, None) }

    pub fn co_start_on(&mut self, f: Box<dyn FnOnce(Arc<Databases>) -> String + Send>, pushed: Option<(usize, Receiver<String>)>) -> Vec<String> {
        let id = self.next_co; self.next_co += 1;
        let (etx, erx) = std::sync::mpsc::channel::<CoEv>();
        let (rtx, rrx) = std::sync::mpsc::channel::<()>();
        let dbs = self.dbs.clone(); let dir = self.dir.clone();
        let etx2 = etx.clone();
        let handle = std::thread::spawn(move || {
            nundb::verif::set_data_dir(Some(dir));
            CO_CTX.with(|c| *c.borrow_mut() = Some((etx2, rrx)));
            let r = std::panic::catch_unwind(std::panic::AssertUnwindSafe(|| f(dbs)));
            let resp = match r { Ok(s) => s, Err(_) => format!("R PANIC {}", LAST_PANIC.with(|p| p.borrow_mut().take()).unwrap_or_default()) };
            let _ = etx.send(CoEv::Done(resp));
        });
        self.cos.insert(id, Co { resume: rtx, events: erx, handle: Some(handle), pushed });
        self.co_wait(id)
    }

    pub fn co_resume(&mut self, id: usize) -> Vec<String> {
        match self.cos.get(&id) {
            Some(c) => { let _ = c.resume.send(()); self.co_wait(id) }
            None => vec!["E no-such-coroutine".to_string()],
        }
    }

    pub fn exec(&mut self, sid: usize, cmd: &str) -> String {
        let dbs = self.dbs.clone();
        let sess = self.sessions.get_mut(&sid).unwrap();
        let r = std::panic::catch_unwind(std::panic::AssertUnwindSafe(|| process_request(cmd, &dbs, &mut sess.client)));
        match r {
            Ok(r) => Self::resp_str(&r),
            Err(_) => format!("R PANIC {}", LAST_PANIC.with(|p| p.borrow_mut().take()).unwrap_or_default()),
        }
    }
}

impl World {
    pub fn new() -> World {
        let base = std::env::var("NVH_DIR").unwrap_or_else(|_| "/verif/scratch/nvh".to_string());
        World { node: None, counter: 0, base }
    }

    pub fn new_at(ix: usize) -> World {
        let mut w = World::new();
        if ix != 1 { w.base = format!("{}/w{}", w.base, ix); }
        w
    }

    fn reset(&mut self, role: &str) {
        HELD.with(|h| h.borrow_mut().clear());
        if let Some(n) = self.node.take() { let _ = std::fs::remove_dir_all(&n.dir); }
        self.counter += 1;
        let dir = format!("{}/c{}-{}", self.base, std::process::id(), self.counter);
        let _ = std::fs::remove_dir_all(&dir);
        let name = opt_of(role, "name").unwrap_or("n1").to_string();
        let pid: u128 = opt_of(role, "pid").and_then(|p| p.parse().ok()).unwrap_or(1);
        let (dbs, repl_rx, sup_rx) = make_dbs_named(&dir, role_of(role), true, &name, pid);
        let mut node = Node { name, pid, co_mode: role.split(',').any(|o| o == "co"), cos: BTreeMap::new(), next_co: 0, sup_fut: None, sup_in: None, links: vec![], repl_fut: None, repl_in: None, dbs, repl_rx, sup_rx, sessions: BTreeMap::new(), dir, notices: HashMap::new(), last_dump: vec![] };
        if role.split(',').any(|o| o == "pump") { node.start_loop(); }
        if role.split(',').any(|o| o == "sup") { node.start_sup(); }
        if node.co_mode { install_yield_hook(); }
        self.node = Some(node);
    }

    pub fn step(&mut self, line: &str) -> Vec<String> {
        let parts = splitn(line, 3);
        let cmd = parts.get(0).cloned().unwrap_or("");
        let a1 = parts.get(1).cloned().unwrap_or("");
        let a2 = parts.get(2).cloned().unwrap_or("");
        if cmd == "RESET" {
            self.reset(a1);
            let n = self.node.as_mut().unwrap();
            let mut out = vec!["# reset".to_string()];
            out.extend(n.dump_delta());
            return out;
        }
        if cmd == "LOADDIR" {
            // start-up decision + load of a prepared data directory (a crash state); no node needed
            let dir = a1.to_string();
            let r = std::panic::catch_unwind(std::panic::AssertUnwindSafe(|| {
                let (dbs, repl_rx, sup_rx) = make_dbs(&dir, ClusterRole::Primary, false);
                Databases::load_all_dbs(&dbs);
                let t = Node { name: "n1".to_string(), pid: 1, co_mode: false, cos: BTreeMap::new(), next_co: 0, sup_fut: None, sup_in: None, links: vec![], repl_fut: None, repl_in: None, dbs, repl_rx, sup_rx, sessions: BTreeMap::new(), dir: dir.clone(), notices: HashMap::new(), last_dump: vec![] };
                t.dump_meta()
            }));
            if let Some(n) = self.node.as_ref() { nundb::verif::set_data_dir(Some(n.dir.clone())); }
            return match r {
                Ok(d) => d,
                Err(_) => vec![format!("R PANIC restart {}", LAST_PANIC.with(|p| p.borrow_mut().take()).unwrap_or_default())],
            };
        }
        if cmd.is_empty() { return vec![]; }
        if self.node.is_none() { self.reset("primary"); }
        let n = self.node.as_mut().unwrap();
        // several nodes share the process: every operation runs against its own node's data directory
        nundb::verif::set_data_dir(Some(n.dir.clone()));
        match cmd {
            "HOLD" | "RELEASE" => {
                // HOLD <sid>: from now on nothing is read from the session's queue (a slow subscriber); RELEASE <sid>: everything queued meanwhile
                let sid: usize = match a1.parse() { Ok(s) => s, Err(_) => return vec!["E bad-op".into()] };
                if cmd == "HOLD" { HELD.with(|h| h.borrow_mut().insert(sid)); } else { HELD.with(|h| h.borrow_mut().remove(&sid)); }
                let mut out = n.drain_all(None);
                out.extend(n.dump_delta());
                out
            }
            "SESS" => {
                let sid: usize = match a1.parse() { Ok(s) => s, Err(_) => return vec!["E bad-op".into()] };
                let (client, rx) = Client::new_empty_and_receiver();
                n.sessions.insert(sid, Sess { client, rx });
                n.dump_delta()
            }
            "C" => {
                let sid: usize = match a1.parse() { Ok(s) => s, Err(_) => return vec!["E bad-op".into()] };
                if !n.sessions.contains_key(&sid) { let (client, rx) = Client::new_empty_and_receiver(); n.sessions.insert(sid, Sess { client, rx }); }
                let cmdline = unesc(a2);
                let mut out = if n.co_mode && may_elect(&cmdline, n.dbs.is_primary()) {
                    // the command may block in start_election: it runs on its own thread with a stand-in client carrying the session's credentials
                    let sess = n.sessions.get(&sid).unwrap();
                    let auth = sess.client.is_admin_auth();
                    let member = { sess.client.cluster_member.lock().unwrap().as_ref().map(|m| (m.name.clone(), m.role)) };
                    let (mut c, crx) = Client::new_empty_and_receiver();
                    c.auth.store(auth, Ordering::Relaxed);
                    if let Some((name, role)) = member { *c.cluster_member.lock().unwrap() = Some(ClusterMember { name, role, sender: None }); }
                    struct SendClient(Client);
                    unsafe impl Send for SendClient {}
                    let boxed = SendClient(c);
                    n.co_start_on(Box::new(move |dbs: Arc<Databases>| {
                        let mut b = boxed;
                        Node::resp_str(&process_request(&cmdline, &dbs, &mut b.0))
                    }), Some((sid, crx)))
                } else { vec![n.exec(sid, &cmdline)] };
                out.extend(n.drain_all(None));
                out.extend(n.dump_delta());
                out
            }
            "PAR" => {
                // PAR <schedule> <sidA> <cmdA> <sidB> <cmdB>   (commands escaped, no blanks): the two commands run on two threads that park
                // before every lock acquisition on Database.map / Watchers.map / connections; <schedule> (a string of 0/1) says which thread
                // runs up to its next yield point; when it is used up (or names a finished thread) the remaining thread(s) run on, 0 first.
                install_yield_hook();
                let f: Vec<&str> = a2.split(' ').collect();
                if f.len() != 4 { return vec!["E bad-op".into()]; }
                let sids: Vec<usize> = vec![f[0].parse().unwrap_or(0), f[2].parse().unwrap_or(0)];
                let cmds: Vec<String> = vec![unesc(f[1]), unesc(f[3])];
                if sids[0] == sids[1] || !n.sessions.contains_key(&sids[0]) || !n.sessions.contains_key(&sids[1]) { return vec!["E bad-op".into()]; }
                struct SendSess(Sess);
                unsafe impl Send for SendSess {}
                let mut etxs = vec![]; let mut erxs = vec![]; let mut rtxs = vec![]; let mut handles = vec![];
                for w in 0..2 {
                    let (etx, erx) = std::sync::mpsc::channel::<CoEv>();
                    let (rtx, rrx) = std::sync::mpsc::channel::<()>();
                    let sess = SendSess(n.sessions.remove(&sids[w]).unwrap());
                    let dbs = n.dbs.clone(); let dir = n.dir.clone(); let cmd = cmds[w].clone(); let etx2 = etx.clone();
                    handles.push(std::thread::spawn(move || {
                        let mut b = sess;
                        nundb::verif::set_data_dir(Some(dir));
                        CO_ALL_SITES.with(|a| *a.borrow_mut() = true);
                        let _ = rrx.recv();                                  // wait for the first go-ahead
                        CO_CTX.with(|c| *c.borrow_mut() = Some((etx2, rrx)));
                        let r = std::panic::catch_unwind(std::panic::AssertUnwindSafe(|| Node::resp_str(&process_request(&cmd, &dbs, &mut b.0.client))));
                        let resp = match r { Ok(s) => s, Err(_) => format!("R PANIC {}", LAST_PANIC.with(|p| p.borrow_mut().take()).unwrap_or_default()) };
                        let (tx, _) = CO_CTX.with(|c| c.borrow_mut().take()).unwrap();
                        let _ = tx.send(CoEv::Done(resp));
                        b
                    }));
                    etxs.push(etx); erxs.push(erx); rtxs.push(rtx);
                }
                let mut done = [false, false]; let mut waiting = [false, false];   // waiting = resumed, no event yet (blocked on a lock)
                let mut resp = vec![String::new(), String::new()];
                let mut trace: Vec<String> = vec![];
                let sched: Vec<usize> = a1.chars().filter_map(|c| c.to_digit(10)).map(|d| d as usize % 2).collect();
                let mut si = 0; let mut guard = 0;
                while !(done[0] && done[1]) && guard < 10000 {
                    guard += 1;
                    let mut w = if si < sched.len() { let x = sched[si]; si += 1; x } else if !done[0] { 0 } else { 1 };
                    if done[w] { w = 1 - w; }
                    if !waiting[w] { let _ = rtxs[w].send(()); }
                    match erxs[w].recv_timeout(std::time::Duration::from_millis(if waiting[1 - w] || done[1 - w] { 2000 } else { 60 })) {
                        Ok(CoEv::Parked(site)) => { waiting[w] = false; trace.push(format!("{}:{}", w, site)); }
                        Ok(CoEv::Done(r)) => { waiting[w] = false; done[w] = true; resp[w] = r; trace.push(format!("{}:done", w)); }
                        Err(_) => {
                            // no event: the thread waits for a lock the other thread holds; the other one has to move first
                            if !waiting[w] { trace.push(format!("{}:blocked", w)); }
                            waiting[w] = true;
                            if done[1 - w] || waiting[1 - w] { trace.push("deadlock".to_string()); break; }
                            // give the turn to the other thread (not counted against the schedule)
                            let o = 1 - w;
                            let _ = rtxs[o].send(());
                            match erxs[o].recv_timeout(std::time::Duration::from_millis(2000)) {
                                Ok(CoEv::Parked(site)) => trace.push(format!("{}:{}", o, site)),
                                Ok(CoEv::Done(r)) => { done[o] = true; resp[o] = r; trace.push(format!("{}:done", o)); }
                                Err(_) => { trace.push("deadlock".to_string()); break; }
                            }
                        }
                    }
                }
                let mut out = vec![format!("S {}", trace.join(" "))];
                for (w, h) in handles.into_iter().enumerate() {
                    if done[w] { if let Ok(b) = h.join() { n.sessions.insert(sids[w], b.0); } }
                }
                out.push(format!("R0 {}", resp[0])); out.push(format!("R1 {}", resp[1]));
                out.extend(n.drain_all(None));
                out.extend(n.dump_delta());
                out
            }
            "RESUME" => {
                let id: usize = match a1.parse() { Ok(s) => s, Err(_) => return vec!["E bad-op".into()] };
                let mut out = n.co_resume(id);
                out.extend(n.drain_all(None));
                out.extend(n.dump_delta());
                out
            }
            "RESOLVE" => {
                let sid: usize = match a1.parse() { Ok(s) => s, Err(_) => return vec!["E bad-op".into()] };
                let p = splitn(a2, 2);
                let i: usize = match p.get(0).and_then(|x| x.parse().ok()) { Some(i) => i, None => return vec!["E bad-op".into()] };
                let notice = n.notices.get(&sid).and_then(|v| v.get(i)).cloned();
                match notice {
                    Some(notice) => {
                        let f: Vec<&str> = notice.splitn(6, ' ').collect();
                        let g = |i: usize| f.get(i).cloned().unwrap_or("");
                        let cmdline = format!("resolve {} {} {} {} {}", g(1), g(2), g(4), g(3), unesc(p.get(1).cloned().unwrap_or("")));
                        let mut out = vec![format!("# {}", esc(&cmdline))];
                        out.push(n.exec(sid, &cmdline));
                        out.extend(n.drain_all(None));
                        out.extend(n.dump_delta());
                        out
                    }
                    None => { let mut out = vec!["# no-notice".to_string()]; out.extend(n.dump_delta()); out }
                }
            }
            "CLOSE" => {
                let sid: usize = match a1.parse() { Ok(s) => s, Err(_) => return vec!["E bad-op".into()] };
                let member_primary = n.sessions.get(&sid).map(|s| s.client.is_primary()).unwrap_or(false);
                if n.co_mode && member_primary {
                    // the end-of-stream sequence of a connection from the primary runs `leave`, which holds an election: own thread
                    let sess = n.sessions.remove(&sid).unwrap();
                    struct SendSess(Sess);
                    unsafe impl Send for SendSess {}
                    let boxed = SendSess(sess);
                    let mut out = n.co_start(Box::new(move |dbs: Arc<Databases>| {
                        let mut b = boxed;
                        process_request("unwatch-all", &dbs, &mut b.0.client);
                        let member = { b.0.client.cluster_member.lock().unwrap().as_ref().map(|m| (m.name.clone(), m.role)) };
                        if let Some((name, role)) = member {
                            let (mut fake, _rx) = Client::new_empty_and_receiver();
                            fake.auth.store(true, Ordering::Relaxed);
                            let msg = if role == ClusterRole::Primary { format!("leave {}", name) } else { format!("replicate-leave {}", name) };
                            process_request(&msg, &dbs, &mut fake);
                        }
                        b.0.client.left(&dbs);
                        "R ok".to_string()
                    }));
                    out.extend(n.drain_all(None));
                    out.extend(n.dump_delta());
                    return out;
                }
                if let Some(mut sess) = n.sessions.remove(&sid) {
                    // the transports' disconnect sequence (tcp_ops::handle_client / ws_ops::on_close)
                    let dbs = n.dbs.clone();
                    let r = std::panic::catch_unwind(std::panic::AssertUnwindSafe(|| {
                        process_request("unwatch-all", &dbs, &mut sess.client);
                        // tcp_ops::handle_client: a connection that announced itself as a cluster member leaves the cluster
                        let member = { sess.client.cluster_member.lock().unwrap().as_ref().map(|m| (m.name.clone(), m.role)) };
                        if let Some((name, role)) = member {
                            let (mut fake, _rx) = Client::new_empty_and_receiver();
                            fake.auth.store(true, Ordering::Relaxed);
                            let msg = if role == ClusterRole::Primary { format!("leave {}", name) } else { format!("replicate-leave {}", name) };
                            process_request(&msg, &dbs, &mut fake);
                        }
                        sess.client.left(&dbs);
                    }));
                    let mut out = vec![];
                    if r.is_err() { out.push(format!("R PANIC {}", LAST_PANIC.with(|p| p.borrow_mut().take()).unwrap_or_default())); }
                    drop(sess);
                    out.extend(n.drain_all(None));
                    out.extend(n.dump_delta());
                    out
                } else { vec!["E bad-op".into()] }
            }
            "HTTP" => {
                let body = unesc(a2);
                let (mut client, mut rx) = Client::new_empty_and_receiver();
                let dbs = n.dbs.clone();
                let commands: Vec<&str> = body.split(';').collect();
                let r = std::panic::catch_unwind(std::panic::AssertUnwindSafe(|| {
                    nundb::network::http_ops::verif_process_commands(&commands, &mut rx, &dbs, &mut client)
                }));
                let mut out = vec![];
                match r {
                    Ok(resps) => out.push(format!("H {}", esc(&resps.iter().map(|l| Node::canon_line(l)).collect::<Vec<_>>().join(";")))),
                    Err(_) => out.push(format!("R PANIC {}", LAST_PANIC.with(|p| p.borrow_mut().take()).unwrap_or_default())),
                }
                drop(client); drop(rx);
                out.extend(n.drain_all(None));
                out.extend(n.dump_delta());
                out
            }
            "SNAP" => {
                // the iteration order of every database's map right before the real snapshot: `get_keys_to_update`
                // iterates the same (unmodified) table, so this is the order the writer's loop will use
                let mut orders = vec![];
                {
                    let m = n.dbs.map.read().unwrap();
                    let mut names: Vec<&String> = m.keys().collect(); names.sort();
                    for name in names {
                        let d = m.get(name).unwrap();
                        let mm = d.map.read().unwrap();
                        let ks: Vec<String> = mm.iter().map(|(k, _)| esc_order(k)).collect();
                        if ks.is_empty() { continue; }
                        orders.push(format!("{}:{}", esc_order(name), ks.join(",")));
                    }
                }
                let dbs = n.dbs.clone();
                let r = std::panic::catch_unwind(std::panic::AssertUnwindSafe(|| nundb::disk_ops::snapshot_all_pendding_dbs(&dbs)));
                let mut out = vec![];
                if r.is_err() { out.push(format!("R PANIC {}", LAST_PANIC.with(|p| p.borrow_mut().take()).unwrap_or_default())); }
                out.insert(0, format!("@ SNAP order={}", orders.join(";")));
                if n.repl_in.is_some() { out.extend(n.dump_meta()); }
                out.extend(n.dump_files());
                out.extend(n.drain_all(None));
                out.extend(n.dump_delta());
                out
            }
            "RESTART" => {
                // RESTART [role]: the process is started again on its data directory (a real start-up begins as StartingUp)
                let role = if a1.is_empty() { n.dbs.get_role() } else { role_of(a1) };
                let dir = n.dir.clone();
                let had_loop = n.repl_in.is_some() || n.repl_fut.is_some();
                let had_sup = n.sup_fut.is_some();
                n.repl_fut = None; n.repl_in = None; n.sup_fut = None; n.sup_in = None; n.links.clear();
                n.sessions.clear(); n.notices.clear();
                let (name, pid) = (n.name.clone(), n.pid);
                let r = std::panic::catch_unwind(std::panic::AssertUnwindSafe(|| {
                    let (dbs, repl_rx, sup_rx) = make_dbs_named(&dir, role, false, &name, pid);
                    Databases::load_all_dbs(&dbs);
                    (dbs, repl_rx, sup_rx)
                }));
                match r {
                    Ok((dbs, repl_rx, sup_rx)) => {
                        n.dbs = dbs; n.repl_rx = repl_rx; n.sup_rx = sup_rx;
                        if had_loop { n.start_loop(); }
                        if had_sup { n.start_sup(); }
                        let mut out = vec!["# restarted".to_string()];
                        if had_loop && !had_sup { out.extend(n.dump_meta()); }
                        if !had_sup { out.extend(n.dump_files()); }
                        out.extend(n.dump_delta());
                        out
                    }
                    Err(_) => {
                        let _ = LAST_PANIC.with(|p| p.borrow_mut().take());
                        let (dbs, repl_rx, sup_rx) = make_dbs_named(&dir, role, true, &name, pid);
                        n.dbs = dbs; n.repl_rx = repl_rx; n.sup_rx = sup_rx;
                        vec!["R PANIC restart".to_string()]
                    }
                }
            }
            "PUMP" => {
                // `PUMP sup`: the supervisor thread gets to its queue before the replication thread does (the two run concurrently)
                let mut out = if a1 == "sup" && n.sup_fut.is_some() { let mut o = n.pump_sup(); o.extend(n.pump()); o } else { n.pump() };
                if n.sup_fut.is_some() {
                    // loop and supervisor feed each other (election-win -> set-primary broadcast): run both until nothing moves
                    for _ in 0..8 {
                        let a = n.pump_sup();
                        let b = n.pump();
                        let idle = a.is_empty() && b.is_empty();
                        out.extend(a); out.extend(b);
                        if idle { break; }
                    }
                    out.extend(n.drain_links());
                } else { out.extend(n.dump_meta()); }
                out.extend(n.dump_delta());
                out
            }
            "DUMP" => { n.last_dump.clear(); n.dump_delta() }
            "LINKSESS" => {
                // the reader side of a peer connection opened by this node (start_replication): authenticated, marked as a cluster member
                let sid: usize = match a1.parse() { Ok(s) => s, Err(_) => return vec!["E bad-op".into()] };
                let (client, rx) = Client::new_empty_and_receiver();
                client.auth.store(true, Ordering::Relaxed);
                { let mut m = client.cluster_member.lock().unwrap(); *m = Some(ClusterMember { name: a2.to_string(), role: ClusterRole::Secoundary, sender: None }); }
                n.sessions.insert(sid, Sess { client, rx });
                n.dump_delta()
            }
            "ELECT" => {
                // start_inital_election without its one-second sleep
                nundb::verif::set_data_dir(Some(n.dir.clone()));
                let dbs = n.dbs.clone();
                let mut out = if n.co_mode {
                    n.co_start(Box::new(move |dbs: Arc<Databases>| { if dbs.is_eligible() { nundb::election_ops::start_election(&dbs); } "R ok".to_string() }))
                } else {
                    let r = std::panic::catch_unwind(std::panic::AssertUnwindSafe(|| { if dbs.is_eligible() { nundb::election_ops::start_election(&dbs); } }));
                    vec![if r.is_ok() { "R ok".to_string() } else { format!("R PANIC {}", LAST_PANIC.with(|p| p.borrow_mut().take()).unwrap_or_default()) }]
                };
                out.extend(n.drain_all(None));
                out.extend(n.dump_delta());
                out
            }
            "UNLINK" => {
                // the connection this node opened to <a1> is closed: its thread ends (a primary then forgets the member)
                let before = n.links.len();
                let mut was_primary = false;
                n.links.retain(|l| { if l.to == a1 { was_primary = l.is_primary; false } else { true } });
                if n.links.len() < before && was_primary {
                    let t0 = std::time::Instant::now();
                    while n.dbs.has_cluster_memeber(&a1.to_string()) && t0.elapsed().as_millis() < 3000 { std::thread::sleep(std::time::Duration::from_millis(1)); }
                }
                let mut out = vec![format!("# unlinked {}", n.links.len() < before)];
                out.extend(n.dump_delta());
                out
            }
            "MARK" => { use std::io::Write; let _ = std::io::stderr().write_all(format!("NVHMARK {}\n", a1).as_bytes()); vec![] }
            "COPYDIR" => {
                // copy the node's data directory (flat) to <base>/<name>
                let dest = format!("{}/{}", self.base, a1);
                let _ = std::fs::remove_dir_all(&dest);
                std::fs::create_dir_all(&dest).unwrap();
                if let Ok(rd) = std::fs::read_dir(&n.dir) {
                    for e in rd.filter_map(|e| e.ok()) {
                        if e.path().is_file() { std::fs::copy(e.path(), format!("{}/{}", dest, e.file_name().into_string().unwrap())).unwrap(); }
                    }
                }
                vec![format!("# copied {} {}", n.dir, dest)]
            }
            "DELMETA" => {
                let _ = std::fs::remove_file(format!("{}/{}-nun.madadata", n.dir, a1));
                let mut out = n.dump_files();
                out.extend(n.dump_delta());
                out
            }
            "OPLOG" => {
                // OPLOG set|rot <t,k,d,o;...> | query <since> | last | append <t,k,d,o> | files | declutter
                nundb::verif::set_data_dir(Some(n.dir.clone()));
                let parse = |s: &str| -> Vec<(u64, u64, u64, u8)> {
                    s.split(';').filter(|x| !x.is_empty()).map(|r| { let f: Vec<&str> = r.split(',').collect();
                        (f[0].parse().unwrap(), f[1].parse().unwrap(), f[2].parse().unwrap(), f[3].parse().unwrap()) }).collect()
                };
                let bytes = |recs: &Vec<(u64, u64, u64, u8)>| -> Vec<u8> {
                    let mut b = vec![];
                    for (t, k, d, o) in recs { b.extend(&t.to_le_bytes()); b.extend(&k.to_le_bytes()); b.extend(&d.to_le_bytes()); b.push(*o); }
                    b
                };
                let sub = a1; let arg = a2;
                let mut out = vec![];
                let dir = n.dir.clone();
                let r = std::panic::catch_unwind(std::panic::AssertUnwindSafe(|| {
                    let mut out = vec![];
                    match sub {
                        "set" => { std::fs::write(format!("{}/oplog-nun.op", dir), bytes(&parse(arg))).unwrap(); }
                        "rot" => {
                            std::fs::create_dir_all(format!("{}/oplog", dir)).unwrap();
                            std::thread::sleep(std::time::Duration::from_millis(4));
                            let cnt = std::fs::read_dir(format!("{}/oplog", dir)).unwrap().count();
                            std::fs::write(format!("{}/oplog/oplog-nun-{:04}.op", dir, cnt), bytes(&parse(arg))).unwrap();
                            std::thread::sleep(std::time::Duration::from_millis(4));
                        }
                        "query" => {
                            let since: u64 = arg.parse().unwrap();
                            let m = nundb::disk_ops::read_operations_since(since);
                            let mut ks: Vec<&String> = m.keys().collect(); ks.sort();
                            for k in ks { let r = m.get(k).unwrap(); out.push(format!("Q {} opp={} ts={}", k, r.opp.to_u8(), r.timestamp)); }
                        }
                        "last" => { out.push(format!("T {}", nundb::disk_ops::Oplog::last_op_time())); }
                        "append" => {
                            let recs = parse(arg);
                            let mut stream = nundb::disk_ops::Oplog::get_log_file_append_mode();
                            for (t, k, d, o) in recs {
                                let r = nundb::disk_ops::Oplog::try_write_op_log(&mut stream, Some(d), k, &ReplicateOpp::from(o), t);
                                out.push(format!("A {}", match r { Ok(id) => format!("ok {}", id), Err(e) => format!("err {}", e) }));
                            }
                        }
                        "declutter" => { nundb::disk_ops::verif_remove_old_db_files(); }
                        _ => {}
                    }
                    out
                }));
                match r { Ok(o) => out.extend(o), Err(_) => out.push(format!("R PANIC {}", LAST_PANIC.with(|p| p.borrow_mut().take()).unwrap_or_default())) }
                // file listing: current file then rotated files newest first (by creation time)
                let read_recs = |path: &str| -> String {
                    let b = std::fs::read(path).unwrap_or_default();
                    let mut v = vec![];
                    for c in b.chunks(25) { if c.len() == 25 {
                        v.push(format!("{},{},{},{}", u64::from_le_bytes(c[0..8].try_into().unwrap()), u64::from_le_bytes(c[8..16].try_into().unwrap()), u64::from_le_bytes(c[16..24].try_into().unwrap()), c[24])); } else { v.push(format!("partial{}", c.len())); } }
                    v.join(";")
                };
                out.push(format!("O cur {}", read_recs(&format!("{}/oplog-nun.op", n.dir))));
                if let Ok(rd) = std::fs::read_dir(format!("{}/oplog", n.dir)) {
                    let mut es: Vec<_> = rd.filter_map(|e| e.ok()).collect();
                    es.sort_by(|a, b| b.metadata().unwrap().created().unwrap().cmp(&a.metadata().unwrap().created().unwrap()));
                    for (i, e) in es.iter().enumerate() { out.push(format!("O rot{} {}", i, read_recs(e.path().to_str().unwrap()))); }
                }
                out
            }
            "REG" => {
                let op: u64 = match a1.parse() { Ok(s) => s, Err(_) => return vec!["E bad-op".into()] };
                let msg = n.dbs.register_pending_opp(op, "m".to_string(), &a2.to_string());
                let mut out = vec![format!("G {}", esc(&msg))];
                out.extend(n.dump_delta());
                out
            }
            "ACK" => {
                let op: u64 = match a1.parse() { Ok(s) => s, Err(_) => return vec!["E bad-op".into()] };
                n.dbs.acknowledge_pending_opp(op, &a2.to_string());
                n.dump_delta()
            }
            _ => vec!["E bad-op".into()],
        }
    }
}

impl Drop for World {
    fn drop(&mut self) { if let Some(n) = self.node.take() { let _ = std::fs::remove_dir_all(&n.dir); } }
}
