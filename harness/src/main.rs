//! nvh — drives the real nun-db code through the verification line protocol.
//! Same input lines and same canonical output lines as the Lean driver (`nunmodel`).
mod proto;
mod node;

use std::io::{BufRead, Write};

fn main() {
    let args: Vec<String> = std::env::args().collect();
    let cmd = args.get(1).map(|s| s.as_str()).unwrap_or("run");
    match cmd {
        "run" => {
            // nvh run <script> : output on stdout
            let path = args.get(2).expect("script path");
            let f = if path == "-" { None } else { Some(std::fs::File::open(path).expect("open script")) };
            let out = std::io::stdout();
            let mut out = std::io::BufWriter::new(out.lock());
            let mut worlds: std::collections::BTreeMap<usize, node::World> = std::collections::BTreeMap::new();
            std::panic::set_hook(Box::new(|info| {
                let loc = info.location().map(|l| format!("{}:{}", l.file(), l.line())).unwrap_or_default();
                let msg = if let Some(s) = info.payload().downcast_ref::<&str>() { s.to_string() }
                          else if let Some(s) = info.payload().downcast_ref::<String>() { s.clone() } else { String::new() };
                node::LAST_PANIC.with(|p| *p.borrow_mut() = Some(format!("{} {}", loc, msg)));
            }));
            let serve = path == "-";
            let rd: Box<dyn BufRead> = if serve { Box::new(std::io::BufReader::new(std::io::stdin())) } else { Box::new(std::io::BufReader::new(f.unwrap())) };
            for line in rd.lines() {
                let line = line.unwrap();
                if line.starts_with('#') { writeln!(out, "{}", line).unwrap(); if serve { writeln!(out, ".").unwrap(); out.flush().unwrap(); } continue; }
                writeln!(out, "> {}", line).unwrap();
                // `@<i> <op>` addresses node i of a cluster; everything else goes to node 1
                let (ix, op) = match line.strip_prefix('@').and_then(|r| r.split_once(' ')) {
                    Some((i, rest)) => (i.parse::<usize>().unwrap_or(1), rest.to_string()),
                    None => (1, line.clone()),
                };
                let world = worlds.entry(ix).or_insert_with(|| node::World::new_at(ix));
                for o in world.step(&op) { writeln!(out, "{}", o).unwrap(); }
                if serve { writeln!(out, ".").unwrap(); out.flush().unwrap(); }
            }
            out.flush().unwrap();
        }
        "loaddump" => {
            // nvh loaddump <dir> : start-up load of a data directory, prints the dump or the panic
            let dir = args.get(2).expect("dir").clone();
            std::panic::set_hook(Box::new(|_| {}));
            let r = std::panic::catch_unwind(|| {
                let (dbs, repl_rx, sup_rx) = node::make_dbs(&dir, nundb::bo::ClusterRole::Primary, false);
                nundb::bo::Databases::load_all_dbs(&dbs);
                let n = node::Node { name: "n1".to_string(), pid: 1, co_mode: false, cos: std::collections::BTreeMap::new(), next_co: 0, sup_fut: None, sup_in: None, links: vec![], repl_fut: None, repl_in: None, dbs, repl_rx, sup_rx, sessions: std::collections::BTreeMap::new(), dir: dir.clone(), notices: std::collections::HashMap::new(), last_dump: vec![] };
                n.dump()
            });
            match r {
                Ok(d) => for l in d { println!("{}", l); },
                Err(_) => println!("R PANIC restart"),
            }
        }
        _ => { eprintln!("usage: nvh run <script> | loaddump <dir>"); std::process::exit(2); }
    }
}
