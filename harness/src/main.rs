//! nvh — drives the real nun-db code through the verification line protocol.
//! Same input lines and same canonical output lines as the Lean driver (`nunmodel`).
mod proto;
mod node;

use std::io::{BufRead, Write};

fn main() {
    let args: Vec<String> = std::env::args().collect();
    let cmd = args.get(1).map(|s| s.as_str()).unwrap_or("run");
    match cmd {
        "run" => {
            // nvh run <script> : output on stdout
            let path = args.get(2).expect("script path");
            let f = if path == "-" { None } else { Some(std::fs::File::open(path).expect("open script")) };
            let out = std::io::stdout();
            let mut out = std::io::BufWriter::new(out.lock());
            let mut worlds: std::collections::BTreeMap<usize, node::World> = std::collections::BTreeMap::new();
            std::panic::set_hook(Box::new(|info| {
                let loc = info.location().map(|l| format!("{}:{}", l.file(), l.line())).unwrap_or_default();
                let msg = if let Some(s) = info.payload().downcast_ref::<&str>() { s.to_string() }
                          else if let Some(s) = info.payload().downcast_ref::<String>() { s.clone() } else { String::new() };
                node::LAST_PANIC.with(|p| *p.borrow_mut() = Some(format!("{} {}", loc, msg)));
            }));
            let serve = path == "-";
            let rd: Box<dyn BufRead> = if serve { Box::new(std::io::BufReader::new(std::io::stdin())) } else { Box::new(std::io::BufReader::new(f.unwrap())) };
            for line in rd.lines() {
                let line = line.unwrap();
                if line.starts_with('#') { writeln!(out, "{}", line).unwrap(); if serve { writeln!(out, ".").unwrap(); out.flush().unwrap(); } continue; }
                writeln!(out, "> {}", line).unwrap();
                // `@<i> <op>` addresses node i of a cluster; everything else goes to node 1
                let (ix, op) = match line.strip_prefix('@').and_then(|r| r.split_once(' ')) {
                    Some((i, rest)) => (i.parse::<usize>().unwrap_or(1), rest.to_string()),
                    None => (1, line.clone()),
                };
                let world = worlds.entry(ix).or_insert_with(|| node::World::new_at(ix));
                for o in world.step(&op) { writeln!(out, "{}", o).unwrap(); }
                if serve { writeln!(out, ".").unwrap(); out.flush().unwrap(); }
            }
            out.flush().unwrap();
        }
        "loaddump" => {
            // nvh loaddump <dir> : start-up load of a data directory, prints the dump or the panic
            let dir = args.get(2).expect("dir").clone();
            std::panic::set_hook(Box::new(|_| {}));
            let r = std::panic::catch_unwind(|| {
                let (dbs, repl_rx, sup_rx) = node::make_dbs(&dir, nundb::bo::ClusterRole::Primary, false);
                nundb::bo::Databases::load_all_dbs(&dbs);
                let n = node::Node { name: "n1".to_string(), pid: 1, co_mode: false, cos: std::collections::BTreeMap::new(), next_co: 0, sup_fut: None, sup_in: None, links: vec![], repl_fut: None, repl_in: None, dbs, repl_rx, sup_rx, sessions: std::collections::BTreeMap::new(), dir: dir.clone(), notices: std::collections::HashMap::new(), last_dump: vec![] };
                n.dump()
            });
            match r {
                Ok(d) => for l in d { println!("{}", l); },
                Err(_) => println!("R PANIC restart"),
            }
        }
        "transport" => {
            // nvh transport <script> : the REAL tcp and http front ends (tcp_ops::start_tcp_client, http_ops::start_http_client) on loopback
            // ports, driven over sockets.  Ops: `T <sid>` connect (tcp), `W <sid>` connect (websocket: handshake and frames by hand), `C <sid> <escaped command>` one line, `X <sid>` close the socket,
            // `H <escaped body>` one HTTP POST, `DUMP`.  Output: `> op`, then `B <sid> <escaped bytes>` for whatever arrived on a socket while
            // the op ran (until 60 ms of silence), `H <escaped response body>`, dump lines.
            use std::io::Read;
            use std::net::{TcpListener, TcpStream};
            use std::time::{Duration, Instant};
            let path = args.get(2).expect("script path");
            let text = std::fs::read_to_string(path).expect("read script");
            let base = std::env::var("NVH_DIR").unwrap_or_else(|_| "/tmp/nvh-transport".to_string());
            let dir = format!("{}/t{}", base, std::process::id());
            let _ = std::fs::remove_dir_all(&dir);
            let (dbs, repl_rx, sup_rx) = node::make_dbs(&dir, nundb::bo::ClusterRole::Primary, true);
            let free_port = || { let l = TcpListener::bind("127.0.0.1:0").unwrap(); l.local_addr().unwrap().port() };
            let tcp_addr = format!("127.0.0.1:{}", free_port());
            let http_addr = format!("127.0.0.1:{}", free_port());
            { let d = dbs.clone(); let a = tcp_addr.clone(); let dd = dir.clone(); std::thread::spawn(move || { nundb::verif::set_data_dir(Some(dd)); nundb::network::tcp_ops::start_tcp_client(d, &a) }); }
            { let d = dbs.clone(); let a = std::sync::Arc::new(http_addr.clone()); let dd = dir.clone(); std::thread::spawn(move || { nundb::verif::set_data_dir(Some(dd)); nundb::network::http_ops::start_http_client(d, a) }); }
            let ws_addr = format!("127.0.0.1:{}", free_port());
            { let d = dbs.clone(); let a = std::sync::Arc::new(ws_addr.clone()); let dd = dir.clone(); std::thread::spawn(move || { nundb::verif::set_data_dir(Some(dd)); nundb::network::ws_ops::start_web_socket_client(d, a) }); }
            let connect = |addr: &str| -> TcpStream {
                let t0 = Instant::now();
                loop {
                    match TcpStream::connect(addr) { Ok(s) => return s, Err(_) if t0.elapsed() < Duration::from_secs(5) => std::thread::sleep(Duration::from_millis(10)), Err(e) => panic!("connect {}: {}", addr, e) }
                }
            };
            let n = node::Node { name: "n1".to_string(), pid: 1, co_mode: false, cos: std::collections::BTreeMap::new(), next_co: 0, sup_fut: None, sup_in: None, links: vec![], repl_fut: None, repl_in: None, dbs, repl_rx, sup_rx, sessions: std::collections::BTreeMap::new(), dir: dir.clone(), notices: std::collections::HashMap::new(), last_dump: vec![] };
            let mut socks: std::collections::BTreeMap<usize, TcpStream> = std::collections::BTreeMap::new();
            // websocket sessions: the same map of sockets; what arrives is a stream of frames, decoded here (payload of text frames kept)
            let mut ws_sids: std::collections::BTreeSet<usize> = std::collections::BTreeSet::new();
            let mut ws_buf: std::collections::BTreeMap<usize, Vec<u8>> = std::collections::BTreeMap::new();
            fn ws_frame(opcode: u8, payload: &[u8]) -> Vec<u8> {
                let mut f = vec![0x80 | opcode];
                let n = payload.len();
                if n < 126 { f.push(0x80 | n as u8); } else if n < 65536 { f.push(0x80 | 126); f.extend_from_slice(&(n as u16).to_be_bytes()); } else { f.push(0x80 | 127); f.extend_from_slice(&(n as u64).to_be_bytes()); }
                let mask = [0x12u8, 0x34, 0x56, 0x78]; f.extend_from_slice(&mask);
                for (i, b) in payload.iter().enumerate() { f.push(b ^ mask[i % 4]); }
                f
            }
            // complete frames at the front of `buf` -> concatenated payloads of the text frames; a close frame shows as `<close>`
            fn ws_decode(buf: &mut Vec<u8>) -> Vec<u8> {
                let mut out = vec![];
                loop {
                    if buf.len() < 2 { break; }
                    let op = buf[0] & 0x0f; let l0 = (buf[1] & 0x7f) as usize; let masked = buf[1] & 0x80 != 0;
                    let (len, mut off) = if l0 < 126 { (l0, 2) } else if l0 == 126 { if buf.len() < 4 { break; } (u16::from_be_bytes([buf[2], buf[3]]) as usize, 4) }
                                         else { if buf.len() < 10 { break; } (u64::from_be_bytes([buf[2], buf[3], buf[4], buf[5], buf[6], buf[7], buf[8], buf[9]]) as usize, 10) };
                    if masked { off += 4; }
                    if buf.len() < off + len { break; }
                    if op == 1 || op == 0 { out.extend_from_slice(&buf[off..off + len]); } else if op == 8 { out.extend_from_slice(b"<close>"); }
                    buf.drain(..off + len);
                }
                out
            }
            // everything that arrives on the open sockets until all of them have been silent for `quiet` ms (at most `max` ms)
            fn collect(socks: &mut std::collections::BTreeMap<usize, TcpStream>, need: Option<usize>, quiet: u64, max: u64) -> Vec<(usize, Vec<u8>)> {
                let mut got: std::collections::BTreeMap<usize, Vec<u8>> = std::collections::BTreeMap::new();
                let t0 = Instant::now(); let mut last = Instant::now(); let mut buf = [0u8; 65536];
                loop {
                    let mut any = false;
                    for (sid, s) in socks.iter_mut() {
                        s.set_read_timeout(Some(Duration::from_millis(5))).unwrap();
                        match s.read(&mut buf) { Ok(k) if k > 0 => { got.entry(*sid).or_default().extend_from_slice(&buf[..k]); any = true; } _ => {} }
                    }
                    if any { last = Instant::now(); }
                    let needed = need.map(|sid| !got.contains_key(&sid)).unwrap_or(false);
                    if t0.elapsed() > Duration::from_millis(max) { break; }
                    if !needed && last.elapsed() > Duration::from_millis(quiet) { break; }
                }
                got.into_iter().collect()
            }
            // (the output is gathered in memory and printed at the end: the ws library's default on_error handler println!s when no logger is
            // enabled — a held stdout lock would block the websocket event loop for good, i.e. the harness would wedge the front end itself)
            let mut out: Vec<u8> = Vec::new();
            for line in text.lines() {
                if line.is_empty() { continue; }
                writeln!(out, "> {}", line).unwrap();
                let p = proto::splitn(line, 3);
                match p[0] {
                    "T" => {
                        let sid: usize = p[1].parse().unwrap();
                        socks.insert(sid, connect(&tcp_addr));
                        for (s, b) in collect(&mut socks, Some(sid), 60, 3000) {
                            let b = if ws_sids.contains(&s) { let wb = ws_buf.entry(s).or_default(); wb.extend_from_slice(&b); ws_decode(wb) } else { b };
                            if !b.is_empty() { writeln!(out, "B {} {}", s, proto::esc_bytes(&b, false)).unwrap(); }
                        }
                    }
                    "W" => {
                        // a websocket session: the upgrade handshake by hand, then frames
                        let sid: usize = p[1].parse().unwrap();
                        let mut st = connect(&ws_addr);
                        let req = format!("GET / HTTP/1.1\r\nHost: {}\r\nUpgrade: websocket\r\nConnection: Upgrade\r\nSec-WebSocket-Key: dGhlIHNhbXBsZSBub25jZQ==\r\nSec-WebSocket-Version: 13\r\n\r\n", ws_addr);
                        st.write_all(req.as_bytes()).unwrap(); st.flush().unwrap();
                        st.set_read_timeout(Some(Duration::from_millis(3000))).unwrap();
                        let mut hdr = Vec::new(); let mut one = [0u8; 1];
                        while !hdr.ends_with(b"\r\n\r\n") { match st.read(&mut one) { Ok(1) => hdr.push(one[0]), _ => break } }
                        writeln!(out, "U {} {}", sid, if hdr.starts_with(b"HTTP/1.1 101") { "upgraded" } else { "refused" }).unwrap();
                        socks.insert(sid, st); ws_sids.insert(sid);
                        for (s, b) in collect(&mut socks, None, 60, 3000) {
                            let b = if ws_sids.contains(&s) { let wb = ws_buf.entry(s).or_default(); wb.extend_from_slice(&b); ws_decode(wb) } else { b };
                            if !b.is_empty() { writeln!(out, "B {} {}", s, proto::esc_bytes(&b, false)).unwrap(); }
                        }
                    }
                    "C" => {
                        let sid: usize = p[1].parse().unwrap();
                        let cmd = proto::unesc_bytes(p.get(2).cloned().unwrap_or(""));
                        let is_ws = ws_sids.contains(&sid);
                        if let Some(s) = socks.get_mut(&sid) {
                            if is_ws { let _ = s.write_all(&ws_frame(1, &cmd)); } else { let mut l = cmd.clone(); l.push(10); let _ = s.write_all(&l); }
                            let _ = s.flush();
                        }
                        for (s, b) in collect(&mut socks, Some(sid), 60, 3000) {
                            let b = if ws_sids.contains(&s) { let wb = ws_buf.entry(s).or_default(); wb.extend_from_slice(&b); ws_decode(wb) } else { b };
                            if !b.is_empty() { writeln!(out, "B {} {}", s, proto::esc_bytes(&b, false)).unwrap(); }
                        }
                    }
                    "X" | "XA" | "XC" => {
                        // X: orderly end (a websocket sends close 1000 first); XA: the socket just goes away; XC <sid> <code>: a websocket close frame with that code
                        let sid: usize = p[1].parse().unwrap();
                        let code: u16 = if p[0] == "XC" { p.get(2).and_then(|c| c.parse().ok()).unwrap_or(1000) } else { 1000 };
                        let abrupt = p[0] == "XA";
                        // whatever is still on its way to any socket is collected before the session goes away
                        for (s, b) in collect(&mut socks, None, 80, 3000) {
                            let b = if ws_sids.contains(&s) { let wb = ws_buf.entry(s).or_default(); wb.extend_from_slice(&b); ws_decode(wb) } else { b };
                            if !b.is_empty() { writeln!(out, "B {} {}", s, proto::esc_bytes(&b, false)).unwrap(); }
                        }
                        if let Some(mut s) = socks.remove(&sid) {
                            if ws_sids.contains(&sid) && !abrupt { let _ = s.write_all(&ws_frame(8, &code.to_be_bytes())); let _ = s.flush(); std::thread::sleep(Duration::from_millis(60)); }
                            let _ = s.shutdown(std::net::Shutdown::Both); drop(s);
                        }
                        ws_sids.remove(&sid); ws_buf.remove(&sid);
                        std::thread::sleep(Duration::from_millis(80));
                        for (s, b) in collect(&mut socks, None, 60, 3000) {
                            let b = if ws_sids.contains(&s) { let wb = ws_buf.entry(s).or_default(); wb.extend_from_slice(&b); ws_decode(wb) } else { b };
                            if !b.is_empty() { writeln!(out, "B {} {}", s, proto::esc_bytes(&b, false)).unwrap(); }
                        }
                    }
                    "HA" => {
                        // an upload the peer abandons: chunked transfer, one complete chunk, then the connection goes away
                        let body = proto::unesc_bytes(line.splitn(2, ' ').nth(1).unwrap_or(""));
                        if let Ok(mut s) = TcpStream::connect(&http_addr) {
                            let mut req = b"POST / HTTP/1.1\r\nHost: localhost\r\nTransfer-Encoding: chunked\r\n\r\n".to_vec();
                            req.extend_from_slice(format!("{:x}\r\n", body.len()).as_bytes()); req.extend_from_slice(&body); req.extend_from_slice(b"\r\n");
                            let _ = s.write_all(&req); let _ = s.flush();
                            std::thread::sleep(Duration::from_millis(40));
                            let _ = s.shutdown(std::net::Shutdown::Both);
                        }
                        std::thread::sleep(Duration::from_millis(60));
                    }
                    "H" => {
                        let body = proto::unesc_bytes(line.splitn(2, ' ').nth(1).unwrap_or(""));
                        let mut s = match TcpStream::connect(&http_addr) { Ok(s) => s, Err(e) => { writeln!(out, "H <connect-failed:{}>", e.kind()).unwrap(); continue; } };
                        let mut req = format!("POST / HTTP/1.1\r\nHost: localhost\r\nContent-Length: {}\r\nConnection: close\r\n\r\n", body.len()).into_bytes();
                        req.extend_from_slice(&body);
                        let _ = s.write_all(&req); let _ = s.flush();
                        s.set_read_timeout(Some(Duration::from_millis(3000))).unwrap();
                        let mut resp = Vec::new(); let _ = s.read_to_end(&mut resp);
                        let text = String::from_utf8_lossy(&resp).into_owned();
                        let b = text.split_once("\r\n\r\n").map(|x| x.1.to_string()).unwrap_or_default();
                        writeln!(out, "H {}", proto::esc(&b)).unwrap();
                        for (s, b) in collect(&mut socks, None, 60, 3000) {
                            let b = if ws_sids.contains(&s) { let wb = ws_buf.entry(s).or_default(); wb.extend_from_slice(&b); ws_decode(wb) } else { b };
                            if !b.is_empty() { writeln!(out, "B {} {}", s, proto::esc_bytes(&b, false)).unwrap(); }
                        }
                    }
                    "DUMP" => { for l in n.dump() { writeln!(out, "{}", l).unwrap(); } }
                    _ => { writeln!(out, "E bad-op").unwrap(); }
                }
            }
            writeln!(out, "> END").unwrap();
            for (s, b) in collect(&mut socks, None, 200, 3000) {
                let b = if ws_sids.contains(&s) { let wb = ws_buf.entry(s).or_default(); wb.extend_from_slice(&b); ws_decode(wb) } else { b };
                if !b.is_empty() { writeln!(out, "B {} {}", s, proto::esc_bytes(&b, false)).unwrap(); }
            }
            { let so = std::io::stdout(); let mut so = so.lock(); so.write_all(&out).unwrap(); so.flush().unwrap(); }
            let _ = std::fs::remove_dir_all(&dir);
            std::process::exit(0);
        }
        _ => { eprintln!("usage: nvh run <script> | loaddump <dir> | transport <script>"); std::process::exit(2); }
    }
}
