//! nvh — drives the real nun-db code through the verification line protocol.
//! Same input lines and same canonical output lines as the Lean driver (`nunmodel`).
mod proto;
mod node;

use std::io::{BufRead, Write};

fn main() {
    let args: Vec<String> = std::env::args().collect();
    let cmd = args.get(1).map(|s| s.as_str()).unwrap_or("run");
    match cmd {
        "run" => {
            // nvh run <script> : output on stdout
            let path = args.get(2).expect("script path");
            let f = if path == "-" { None } else { Some(std::fs::File::open(path).expect("open script")) };
            let out = std::io::stdout();
            let mut out = std::io::BufWriter::new(out.lock());
            let mut worlds: std::collections::BTreeMap<usize, node::World> = std::collections::BTreeMap::new();
            std::panic::set_hook(Box::new(|info| {
                let loc = info.location().map(|l| format!("{}:{}", l.file(), l.line())).unwrap_or_default();
                let msg = if let Some(s) = info.payload().downcast_ref::<&str>() { s.to_string() }
                          else if let Some(s) = info.payload().downcast_ref::<String>() { s.clone() } else { String::new() };
                node::LAST_PANIC.with(|p| *p.borrow_mut() = Some(format!("{} {}", loc, msg)));
            }));
            let serve = path == "-";
            let rd: Box<dyn BufRead> = if serve { Box::new(std::io::BufReader::new(std::io::stdin())) } else { Box::new(std::io::BufReader::new(f.unwrap())) };
            for line in rd.lines() {
                let line = line.unwrap();
                if line.starts_with('#') { writeln!(out, "{}", line).unwrap(); if serve { writeln!(out, ".").unwrap(); out.flush().unwrap(); } continue; }
                writeln!(out, "> {}", line).unwrap();
                // `@<i> <op>` addresses node i of a cluster; everything else goes to node 1
                let (ix, op) = match line.strip_prefix('@').and_then(|r| r.split_once(' ')) {
                    Some((i, rest)) => (i.parse::<usize>().unwrap_or(1), rest.to_string()),
                    None => (1, line.clone()),
                };
                let world = worlds.entry(ix).or_insert_with(|| node::World::new_at(ix));
                for o in world.step(&op) { writeln!(out, "{}", o).unwrap(); }
                if serve { writeln!(out, ".").unwrap(); out.flush().unwrap(); }
            }
            out.flush().unwrap();
        }
        "loaddump" => {
            // nvh loaddump <dir> : start-up load of a data directory, prints the dump or the panic
            let dir = args.get(2).expect("dir").clone();
            std::panic::set_hook(Box::new(|_| {}));
            let r = std::panic::catch_unwind(|| {
                let (dbs, repl_rx, sup_rx) = node::make_dbs(&dir, nundb::bo::ClusterRole::Primary, false);
                nundb::bo::Databases::load_all_dbs(&dbs);
                let n = node::Node { name: "n1".to_string(), pid: 1, co_mode: false, cos: std::collections::BTreeMap::new(), next_co: 0, sup_fut: None, sup_in: None, links: vec![], repl_fut: None, repl_in: None, dbs, repl_rx, sup_rx, sessions: std::collections::BTreeMap::new(), dir: dir.clone(), notices: std::collections::HashMap::new(), last_dump: vec![] };
                n.dump()
            });
            match r {
                Ok(d) => for l in d { println!("{}", l); },
                Err(_) => println!("R PANIC restart"),
            }
        }
        "transport" => {
            // nvh transport <script> : the REAL tcp and http front ends (tcp_ops::start_tcp_client, http_ops::start_http_client) on loopback
            // ports, driven over sockets.  Ops: `T <sid>` connect, `C <sid> <escaped command>` one line, `X <sid>` close the socket,
            // `H <escaped body>` one HTTP POST, `DUMP`.  Output: `> op`, then `B <sid> <escaped bytes>` for whatever arrived on a socket while
            // the op ran (until 60 ms of silence), `H <escaped response body>`, dump lines.
            use std::io::Read;
            use std::net::{TcpListener, TcpStream};
            use std::time::{Duration, Instant};
            let path = args.get(2).expect("script path");
            let text = std::fs::read_to_string(path).expect("read script");
            let base = std::env::var("NVH_DIR").unwrap_or_else(|_| "/tmp/nvh-transport".to_string());
            let dir = format!("{}/t{}", base, std::process::id());
            let _ = std::fs::remove_dir_all(&dir);
            let (dbs, repl_rx, sup_rx) = node::make_dbs(&dir, nundb::bo::ClusterRole::Primary, true);
            let free_port = || { let l = TcpListener::bind("127.0.0.1:0").unwrap(); l.local_addr().unwrap().port() };
            let tcp_addr = format!("127.0.0.1:{}", free_port());
            let http_addr = format!("127.0.0.1:{}", free_port());
            { let d = dbs.clone(); let a = tcp_addr.clone(); let dd = dir.clone(); std::thread::spawn(move || { nundb::verif::set_data_dir(Some(dd)); nundb::network::tcp_ops::start_tcp_client(d, &a) }); }
            { let d = dbs.clone(); let a = std::sync::Arc::new(http_addr.clone()); let dd = dir.clone(); std::thread::spawn(move || { nundb::verif::set_data_dir(Some(dd)); nundb::network::http_ops::start_http_client(d, a) }); }
            let connect = |addr: &str| -> TcpStream {
                let t0 = Instant::now();
                loop {
                    match TcpStream::connect(addr) { Ok(s) => return s, Err(_) if t0.elapsed() < Duration::from_secs(5) => std::thread::sleep(Duration::from_millis(10)), Err(e) => panic!("connect {}: {}", addr, e) }
                }
            };
            let n = node::Node { name: "n1".to_string(), pid: 1, co_mode: false, cos: std::collections::BTreeMap::new(), next_co: 0, sup_fut: None, sup_in: None, links: vec![], repl_fut: None, repl_in: None, dbs, repl_rx, sup_rx, sessions: std::collections::BTreeMap::new(), dir: dir.clone(), notices: std::collections::HashMap::new(), last_dump: vec![] };
            let mut socks: std::collections::BTreeMap<usize, TcpStream> = std::collections::BTreeMap::new();
            // everything that arrives on the open sockets until all of them have been silent for `quiet` ms (at most `max` ms)
            fn collect(socks: &mut std::collections::BTreeMap<usize, TcpStream>, need: Option<usize>, quiet: u64, max: u64) -> Vec<(usize, Vec<u8>)> {
                let mut got: std::collections::BTreeMap<usize, Vec<u8>> = std::collections::BTreeMap::new();
                let t0 = Instant::now(); let mut last = Instant::now(); let mut buf = [0u8; 65536];
                loop {
                    let mut any = false;
                    for (sid, s) in socks.iter_mut() {
                        s.set_read_timeout(Some(Duration::from_millis(5))).unwrap();
                        match s.read(&mut buf) { Ok(k) if k > 0 => { got.entry(*sid).or_default().extend_from_slice(&buf[..k]); any = true; } _ => {} }
                    }
                    if any { last = Instant::now(); }
                    let needed = need.map(|sid| !got.contains_key(&sid)).unwrap_or(false);
                    if t0.elapsed() > Duration::from_millis(max) { break; }
                    if !needed && last.elapsed() > Duration::from_millis(quiet) { break; }
                }
                got.into_iter().collect()
            }
            let out = std::io::stdout(); let mut out = std::io::BufWriter::new(out.lock());
            for line in text.lines() {
                if line.is_empty() { continue; }
                writeln!(out, "> {}", line).unwrap();
                let p = proto::splitn(line, 3);
                match p[0] {
                    "T" => {
                        let sid: usize = p[1].parse().unwrap();
                        socks.insert(sid, connect(&tcp_addr));
                        for (s, b) in collect(&mut socks, Some(sid), 60, 3000) { writeln!(out, "B {} {}", s, proto::esc_bytes(&b, false)).unwrap(); }
                    }
                    "C" => {
                        let sid: usize = p[1].parse().unwrap();
                        let cmd = proto::unesc(p.get(2).cloned().unwrap_or(""));
                        if let Some(s) = socks.get_mut(&sid) { let _ = s.write_all(format!("{}\n", cmd).as_bytes()); let _ = s.flush(); }
                        for (s, b) in collect(&mut socks, Some(sid), 60, 3000) { writeln!(out, "B {} {}", s, proto::esc_bytes(&b, false)).unwrap(); }
                    }
                    "X" => {
                        let sid: usize = p[1].parse().unwrap();
                        if let Some(s) = socks.remove(&sid) { let _ = s.shutdown(std::net::Shutdown::Both); drop(s); }
                        std::thread::sleep(Duration::from_millis(80));
                        for (s, b) in collect(&mut socks, None, 60, 3000) { writeln!(out, "B {} {}", s, proto::esc_bytes(&b, false)).unwrap(); }
                    }
                    "H" => {
                        let body = proto::unesc(line.splitn(2, ' ').nth(1).unwrap_or(""));
                        let mut s = connect(&http_addr);
                        let req = format!("POST / HTTP/1.1\r\nHost: localhost\r\nContent-Length: {}\r\nConnection: close\r\n\r\n{}", body.as_bytes().len(), body);
                        s.write_all(req.as_bytes()).unwrap(); s.flush().unwrap();
                        s.set_read_timeout(Some(Duration::from_millis(3000))).unwrap();
                        let mut resp = Vec::new(); let _ = s.read_to_end(&mut resp);
                        let text = String::from_utf8_lossy(&resp).into_owned();
                        let b = text.split_once("\r\n\r\n").map(|x| x.1.to_string()).unwrap_or_default();
                        writeln!(out, "H {}", proto::esc(&b)).unwrap();
                        for (s, b) in collect(&mut socks, None, 60, 3000) { writeln!(out, "B {} {}", s, proto::esc_bytes(&b, false)).unwrap(); }
                    }
                    "DUMP" => { for l in n.dump() { writeln!(out, "{}", l).unwrap(); } }
                    _ => { writeln!(out, "E bad-op").unwrap(); }
                }
            }
            out.flush().unwrap();
            let _ = std::fs::remove_dir_all(&dir);
            std::process::exit(0);
        }
        _ => { eprintln!("usage: nvh run <script> | loaddump <dir> | transport <script>"); std::process::exit(2); }
    }
}
