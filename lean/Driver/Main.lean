import NunVerif.Model.Session
import NunVerif.Model.Oplog
import NunVerif.Model.Repl
import NunVerif.Model.Cluster
import NunVerif.Model.Election
import NunVerif.Model.S3
import NunVerif.Model.S3Part
/-
  Line-protocol driver: one operation per input line, canonical output lines per operation.
  The Rust harness (`nvh`) produces the same lines from the real implementation.
-/
open Nun

def hexDigit (n : Nat) : Char := if n < 10 then Char.ofNat (48 + n) else Char.ofNat (87 + n)

/-- escape for output: printable ASCII except backslash stays; everything else `\xHH` -/
def escByte (sp : Bool) (b : Nat) : List Char :=
  if b = 92 then ['\\', '\\']
  else if b = 32 && sp then ['\\', 'x', '2', '0']
  else if 32 ≤ b && b < 127 then [Char.ofNat b]
  else ['\\', 'x', hexDigit (b / 16), hexDigit (b % 16)]

def esc (s : Bytes) : String := String.ofList (s.flatMap (escByte false))
/-- escape with spaces escaped too (for tokens that must stay one word) -/
def escw (s : Bytes) : String := if s = [] then "\\e" else String.ofList (s.flatMap (escByte true))

def hexVal (c : Nat) : Nat :=
  if 48 ≤ c && c ≤ 57 then c - 48 else if 97 ≤ c && c ≤ 102 then c - 87 else if 65 ≤ c && c ≤ 70 then c - 55 else 0

def unesc : Bytes → Bytes
  | 92 :: 92 :: r => 92 :: unesc r
  | 92 :: 110 :: r => 10 :: unesc r
  | 92 :: 101 :: r => unesc r
  | 92 :: 120 :: a :: b :: r => (hexVal a * 16 + hexVal b) :: unesc r
  | x :: r => x :: unesc r
  | [] => []

def toBytes (s : String) : Bytes := s.toUTF8.toList.map (·.toNat)

def statusCh : Status → String
  | .ok => "O" | .deleted => "D" | .updated => "U" | .new => "N"

def roleStr (r : Role) : String := String.ofList (r.toBytes.map Char.ofNat)
def stratStr (s : Strategy) : String := String.ofList (s.toBytes.map Char.ofNat)

def sortBy {α : Type} (key : α → Bytes) (l : List α) : List α :=
  l.foldr (fun x acc =>
    let rec ins : List α → List α
      | [] => [x]
      | y :: ys => if Bytes.lt (key y) (key x) then y :: ins ys else x :: y :: ys
    ins acc) []

def intStr (i : Int) : String := toString i

def dumpDb (d : Db) (live : Sid → Bool := fun _ => true) : List String :=
  let hdr := s!"D db {escw d.name} id={d.id} strat={stratStr d.strategy} conns={d.conns}"
  let ks := (sortBy (·.1) d.map).map fun (k, e) =>
    s!"D k {escw d.name} {escw k} ver={intStr e.version} st={statusCh e.state} va={e.vaddr} ka={e.kaddr} op={e.opId} v={esc e.value}"
  let ws := (sortBy (·.1) d.watchers).map fun (k, ss) =>
    s!"D w {escw d.name} {escw k} {",".intercalate (ss.map fun x => if live x then toString x else "?")}"   -- a sender whose session is gone
  hdr :: ks ++ ws

def optStr (o : Option Bytes) : String := match o with | some b => escw b | none => "-"

def insSid (x : Sid × Session) : List (Sid × Session) → List (Sid × Session)
  | [] => [x]
  | y :: ys => if y.1 < x.1 then y :: insSid x ys else x :: y :: ys

def dumpNode (n : Node) : List String :=
  let sessions := n.sessions.foldr insSid []
  [s!"D role {roleStr n.role}"]
  ++ (sortBy (·.1) n.dbs).flatMap (fun (_, d) => dumpDb d (fun x => (AL.get? n.sessions x).isSome))
  ++ sessions.map (fun (sid, s) =>
      let mem := match s.member with | some (nm, r) => s!"{escw nm}:{roleStr r}" | none => "-"
      s!"D sess {sid} auth={if s.auth then 1 else 0} db={optStr s.db} user={optStr s.user} member={mem}")
  ++ [s!"D snapq {",".intercalate (n.toSnapshot.map fun (d, r) => s!"{escw d}:{r}")}"]
  ++ (n.pending.foldr (fun x acc =>
        let rec ins : List (Nat × PendingOp) → List (Nat × PendingOp)
          | [] => [x]
          | y :: ys => if y.1 < x.1 then y :: ins ys else x :: y :: ys
        ins acc) []).map (fun (_, p) =>
      let reps := (sortBy (·.1) p.replications).map fun (s, a) => s!"{escw s}:{if a then 1 else 0}"
      s!"D pend {p.opId} rc={p.replicateCount} ac={p.ackCount} {",".intercalate reps}")
  ++ (n.pending.foldr (fun x acc =>
        let rec insC : List (Nat × PendingOp) → List (Nat × PendingOp)
          | [] => [x]
          | y :: ys => if y.1 < x.1 then y :: insC ys else x :: y :: ys
        insC acc) []).map (fun (_, p) =>
      -- `get_copy` hands out the entry's own counters
      s!"D pendcopy {p.opId} rc={p.replicateCount} ac={p.ackCount} full={if p.replicateCount = p.ackCount then 1 else 0}")
  ++ (sortBy (·.1) n.members).map (fun (_, m) => s!"D member {escw m.name} {roleStr m.role} {if m.connected then 1 else 0}")

def respStr : Resp → String
  | .value k v ver => s!"R value {escw k} {intStr ver} {esc v}"
  | .ok => "R ok"
  | .set k v => s!"R set {escw k} {esc v}"
  | .error m => s!"R error {esc m}"
  | .versionError m k ov v => s!"R verr {escw k} {intStr ov} {intStr v} {esc m}"

def evLines (evs : List Ev) : List String :=
  let pushes := evs.filterMap fun e => match e with | .push s l => some (s, l) | _ => none
  let sids := (pushes.map (·.1)).eraseDups
  let sids := sids.foldr (fun x acc =>
    let rec ins : List Nat → List Nat
      | [] => [x]
      | y :: ys => if y < x then y :: ins ys else x :: y :: ys
    ins acc) []
  sids.flatMap (fun s => (pushes.filter (·.1 = s)).map fun (_, l) => s!"M {s} {esc l}")
  ++ evs.filterMap (fun e => match e with | .repl l => some s!"P {esc l}" | _ => none)
  ++ evs.filterMap (fun e => match e with | .sup l => some s!"V {esc l}" | _ => none)
  ++ evs.filterMap (fun e => match e with | .toMember m l => some s!"L {escw m} {esc l}" | _ => none)

def kvList (l : List (Bytes × Nat)) : String := ",".intercalate (l.map fun (k, i) => s!"{escw k}={i}")

def dumpMeta (n : Node) (m : Meta) : List String :=
  let recStr (f : OpFile) : String := ";".intercalate (f.map fun r => s!"{r.t},{r.k},{r.d},{r.o}")
  let idn := n.idName.foldr (fun x acc =>
    let rec ins : List (Nat × Bytes) → List (Nat × Bytes)
      | [] => [x]
      | y :: ys => if y.1 < x.1 then y :: ins ys else x :: y :: ys
    ins acc) []
  [s!"G keysmap {kvList m.keysMap}",
   s!"G idname {",".intercalate (idn.map fun (i, nm) => s!"{i}={escw nm}")}",
   s!"G valid {if m.valid then 1 else 0}",
   s!"G flagfile {match m.flagFile with | some b => toString b | none => "-"}",
   s!"G keysfile {match m.keysFile with | some l => kvList l | none => "-"}",
   s!"O cur {recStr m.oplog.cur}"] ++ (m.oplog.rot.zipIdx.map fun (f, i) => s!"O rot{i} {recStr f}")

def clockStart : Nat := 1000000000000000000

def freshNodeAt (role : Role) (clock : Nat) : Node :=
  let adm := Db.new Gen.adminDb 0 .newer
  let (adm, _, _) := adm.setValue { key := Gen.tokenKey, value := b!"pw", version := -1, opId := clock, resolve := false }
  let (adm, _, _) := adm.setValue { key := Gen.adminDb, value := b!"{}", version := -1, opId := clock + 1, resolve := false }
  { user := b!"adm", pwd := b!"pw", addr := b!"n1", pid := 1, role := role,
    dbs := [(Gen.adminDb, adm)], idName := [(0, Gen.adminDb)], sessions := [], clock := clock + 2,
    members := [], pending := [], toSnapshot := [], keysMap := [], oplogValid := true }

def freshNode (role : Role) : Node := freshNodeAt role clockStart

def opStr : FsOp → String
  | .create p => s!"X create {escw p}"
  | .append p d => s!"X append {escw p} {String.ofList (d.flatMap fun x => [hexDigit (x / 16), hexDigit (x % 16)])}"
  | .pwrite p off d => s!"X pwrite {escw p} {off} {String.ofList (d.flatMap fun x => [hexDigit (x / 16), hexDigit (x % 16)])}"
  | .rename a b => s!"X rename {escw a} {escw b}"
  | .unlink p => s!"X unlink {escw p}"

def hexStr (b : Bytes) : String := String.ofList (b.flatMap fun x => [hexDigit (x / 16), hexDigit (x % 16)])

def dumpFs (fs : Fs) : List String :=
  (sortBy (·.1) fs).map fun (f, c) => s!"F {escw f} {hexStr c}"

/-- `order=<db>:<k1>,<k2>;<db2>:…` (keys and names in `escw` form) -/
def parseOrders (s : Bytes) : List (Bytes × List Bytes) :=
  match s with
  | 111 :: 114 :: 100 :: 101 :: 114 :: 61 :: rest =>
    (Bytes.splitAll 59 rest).filterMap fun part =>
      match Bytes.splitn 58 2 part with
      | [d, ks] => some (unesc d, (Bytes.splitAll 44 ks).filter (· != []) |>.map unesc)
      | _ => none
  | _ => []

/-- a key name with every operation id in it (a run of 16 or more digits) blanked -/
def blankIds (k : Bytes) : Bytes :=
  let rec go (rest : Bytes) (run : Bytes) (acc : Bytes) (fuel : Nat) : Bytes :=
    match fuel, rest with
    | 0, _ => acc
    | _, [] => acc ++ (if run.length ≥ 16 then [35] else run)
    | f + 1, x :: xs =>
      if 48 ≤ x && x ≤ 57 then go xs (run ++ [x]) acc f
      else go xs [] (acc ++ (if run.length ≥ 16 then [35] else run) ++ [x]) f
  go k [] [] (k.length + 1)

/-- the implementation names keys that embed operation ids (`$conflicts_<key>_<op id>`) with ITS ids; the model's keys carry the
model's ids.  Both count upwards in creation order, so the j-th smallest key of a shape on one side is the j-th smallest on the other. -/
def resolveOrder (modelKeys : List Bytes) (order : List Bytes) : List Bytes :=
  order.map fun x =>
    if modelKeys.contains x then x else
    let g := blankIds x
    let rank := (order.filter fun y => blankIds y == g && Bytes.lt y x).length
    let cands := Bytes.sort (modelKeys.filter fun y => blankIds y == g)
    (cands[rank]?).getD x

def ordersOf (n : Node) (a : Bytes) : List (Bytes × List Bytes) :=
  (parseOrders a).map fun (d, ks) =>
    match n.db? d with
    | some db => (d, resolveOrder (db.map.map (·.1)) ks)
    | none => (d, ks)

structure World where
  node : Node
  /-- conflict notices received per session (for `RESOLVE`) -/
  notices : List (Sid × List Bytes) := []
  lastDump : List String := []
  oplog : OplogFs := {}
  /-- pumped replication loop (C16 / cluster): metadata state and the queued replication messages -/
  pump : Bool := false
  mstate : Meta := {}
  replQueue : List Bytes := []
  /-- cluster mode: the supervisor is pumped too; what the node queued for it and for its peer connections -/
  sup : Bool := false
  supQueue : List Bytes := []
  links : List (Bytes × Bool) := []          -- connections opened by this node, in creation order (peer, as primary)
  linkOut : List (Bytes × Bytes) := []       -- lines queued on them (peer, line), oldest first
  /-- s3 storage strategy (C18): the object store, and which PUTs fail (0-based count over the run) -/
  s3mode : Bool := false
  /-- sessions on HOLD (a client that does not read): what is pushed to them is kept until RELEASE -/
  held : List Nat := []
  heldBuf : List (Nat × Bytes) := []
  /-- strategy s3_patition with this many partitions (0 = the plain s3 strategy) -/
  s3parts : Nat := 0
  objs : Objs := []
  puts : Nat := 0
  failPuts : List Nat := []
  /-- coroutine mode (C07): commands that reach start_election park in its wait loops -/
  co : Bool := false
  cos : List (Nat × ECo × Option Bytes × String) := []   -- id ↦ (where parked, replication message due after the election, reply)
  nextCo : Nat := 0
  /-- crash window (C16): between `MARK begin` and `MARK end` every write to the metadata files is listed -/
  xtrace : Bool := false
  xbase : Option (Meta × Node) := none
  xlog : List (XOp × Node) := []

def xopStr : XOp → String
  | .flag b => s!"X flag {b}"
  | .append r => s!"X append {r.t},{r.k},{r.d},{r.o}"
  | .keys km => s!"X keys {kvList km}"
  | .rmOplog => "X rmoplog"
  | .rmKeys => "X rmkeys"
  | .rmFlag => "X rmflag"

/-- the writes of a list of machine operations from state `m` (state threaded through) -/
def tracesOf (m : Meta) (ops : List MOp) : List XOp :=
  (ops.foldl (fun (acc : Meta × List XOp) op => (acc.1.step op, acc.2 ++ acc.1.trace op)) (m, [])).2

def recordNotices (w : World) (evs : List Ev) : World :=
  evs.foldl (fun w e => match e with
    | .push s l =>
      if Bytes.startsWith l (Gen.resolvePrefix ++ [32]) then
        { w with notices := AL.put w.notices s ((AL.get? w.notices s).getD [] ++ [l]) }
      else w
    | _ => w) w

/-- events that stay inside the node (queued for its own loop / supervisor / peer connections) -/
def absorb (w : World) (evs : List Ev) : World × List Ev :=
  let w := if w.pump then { w with replQueue := w.replQueue ++ evs.filterMap fun e => match e with | .repl l => some l | _ => none } else w
  let w := if w.sup then
      { w with supQueue := w.supQueue ++ (evs.filterMap fun e => match e with | .sup l => some l | _ => none),
               linkOut := w.linkOut ++ (evs.filterMap fun e => match e with | .toMember m l => some (m, l) | _ => none) }
    else w
  (w, evs.filter fun e => match e with
    | .repl _ => !w.pump
    | .sup _ => !w.sup
    | .toMember _ _ => !w.sup
    | _ => true)

def optOf (opts : Bytes) (key : Bytes) : Option Bytes :=
  (Bytes.splitAll 44 opts).findSome? fun o => if Bytes.startsWith o (key ++ [61]) then some (o.drop (key.length + 1)) else none

/-- the replication loop over everything queued (one `pump()` of the harness) -/
def pumpLoop (w : World) : World × List String × List (XOp × Node) :=
  let (n, m, outs, dead, xs, tos) := w.replQueue.foldl (fun (acc : Node × Meta × List String × Bool × List (XOp × Node) × List (Bytes × Bytes)) line =>
    let (n, m, outs, dead, xs, tos) := acc
    if dead then (n, m, outs ++ [s!"P {esc line}"], dead, xs, tos) else
    let xs := xs ++ (tracesOf m (n.replMOps line)).map (·, n)
    match n.replStep m line with
    | (n', m', .ok evs) =>
      let mine := evs.filterMap fun e => match e with | .toMember mm l => some (mm, l) | _ => none
      let shown := if w.sup then evs.filter (fun e => match e with | .toMember _ _ => false | _ => true) else evs
      (n', m', outs ++ [s!"P {esc line}"] ++ evLines shown, false, xs, tos ++ mine)
    | (n', m', .panic _) => (n', m', outs ++ [s!"P {esc line}"], true, xs, tos)) (w.node, w.mstate, [], false, [], [])
  let ps := outs.filter (·.startsWith "P ")
  let rest := outs.filter (fun o => !o.startsWith "P ")
  ({ w with node := n, mstate := m, replQueue := [], linkOut := if w.sup then w.linkOut ++ tos else w.linkOut },
   ps ++ (if dead then ["K PANIC"] else []) ++ rest, xs)

/-- the supervisor over everything queued (one `pump_sup()` of the harness) -/
def pumpSup (w : World) : World × List String :=
  let (w, vs, ks, dead) := w.supQueue.foldl (fun (acc : World × List String × List String × Bool) msg =>
    let (w, vs, ks, dead) := acc
    if dead then (w, vs ++ [s!"V {esc msg}"], ks, dead) else
    match w.node.supStep w.mstate msg with
    | (n', .ok effs) =>
      let w := { w with node := n' }
      let w := effs.foldl (fun (w : World) e => match e with
        | .link to isP => { w with links := (w.links.filter (·.1 != to)) ++ [(to, isP)] }   -- the member's sender is replaced: the older connection gets nothing more
        | .send to line => { w with linkOut := w.linkOut ++ [(to, line)] }
        | .repl line => { w with replQueue := w.replQueue ++ [line] }) w
      let newK := effs.filterMap fun e => match e with
        | .link to isP => some s!"K link {escw to} primary={if isP then 1 else 0} lastop={if isP then 0 else lastOpTime w.mstate.oplog.cur w.mstate.oplog.rot}"
        | _ => none
      (w, vs ++ [s!"V {esc msg}"], ks ++ newK, false)
    | (n', .panic _) => ({ w with node := n' }, vs ++ [s!"V {esc msg}"], ks, true)) ({ w with supQueue := [] }, [], [], false)
  (w, vs ++ (if dead then ["K PANIC supervisor"] else []) ++ ks)

def electionTimeout : Nat := 10

/-- a replicated command arrives as `rp <op id> <command>` (also nested): the handler runs the inner command in place -/
def stripRp : Nat → Bytes → Bytes
  | 0, cmd => cmd
  | fuel + 1, cmd =>
    match Bytes.splitn 32 3 cmd with
    | [w0, _, rest] => if w0 = b!"rp" then stripRp fuel rest else cmd
    | _ => cmd

def mayElect (cmd0 : Bytes) (isPrimary : Bool) : Bool :=
  let cmd := stripRp cmd0.length cmd0
  match Bytes.splitAll 32 cmd with
  | w0 :: rest =>
    w0 = b!"join" || w0 = b!"leave" || (w0 = b!"set-primary" && isPrimary) ||
    (w0 = b!"election" && rest.head? = some b!"candidate") || (w0 = b!"debug" && rest.head? = some b!"force-election")
  | [] => false

/-- finish a coroutine: the replication message the command owes after its election, then the reply -/
def coFinish (w : World) (id : Nat) (post : Option Bytes) (resp : String) (evs : List Ev) : World × List String :=
  let (n, evsP) := match post with
    | some msg => w.node.replicateWeb msg
    | none => (w.node, [])
  let (w, shown) := absorb { w with node := n } (evs ++ evsP)
  (w, [s!"Y done {id}", resp] ++ evLines shown)

/-- a command (already executed with the election deferred) whose election now starts -/
def coStart (w : World) (n : Node) (resp : String) (evs : List Ev) (holdPost : Bool) : World × List String :=
  let id := w.nextCo
  let w := { w with nextCo := id + 1 }
  let n := { n with deferElection := false }
  if n.electionRequested then
    let n := { n with electionRequested := false }
    -- the replication of the command itself (leave / election) happens after start_election returns
    let lastRepl := (evs.filterMap fun e => match e with | .repl l => some l | _ => none).getLast?
    let post : Option Bytes := if holdPost then lastRepl.map (fun l => ((Bytes.splitn 32 3 l)[2]?).getD []) else none
    let evs := if holdPost then
        match lastRepl with
        | some l => evs.filter (fun e => e != Ev.repl l)
        | none => evs
      else evs
    let (n, evs2, co) := n.electionBegin electionTimeout
    if co = .done then coFinish { w with node := n } id post resp (evs ++ evs2)
    else
      let (w, shown) := absorb { w with node := n } (evs ++ evs2)
      ({ w with cos := w.cos ++ [(id, co, post, resp)] }, [s!"Y parked {id} {co.site}"] ++ evLines shown)
  else coFinish { w with node := n } id none resp evs

def step (w : World) (line : String) : World × List String :=
  let bs := toBytes line
  let parts := Bytes.splitn 32 3 bs
  let cmd := String.ofList ((parts[0]?.getD []).map Char.ofNat)
  let a1 := parts[1]?.getD []
  let a2 := parts[2]?.getD []
  match cmd with
  | "RESET" =>
    let r0 := (Bytes.splitAll 44 a1).head?.getD []
    let role := if r0 = b!"startingup" then Role.startingUp else if r0 = b!"secoundary" then Role.secoundary else Role.primary
    let opts := Bytes.splitAll 44 a1
    let name := (optOf a1 b!"name").getD b!"n1"
    let pid := ((optOf a1 b!"pid").bind Bytes.parseNat).getD 1
    -- every node has its own range of operation ids
    let n0 := freshNodeAt role w.node.clock
    let n := { n0 with addr := name, pid := pid }
    let fp : List Nat := match optOf a1 b!"failputs" with
      | some l => (Bytes.splitAll 43 l).filterMap Bytes.parseNat
      | none => []
    let isS3 : Bool := opts.contains b!"s3"
    let w' : World := { node := n, oplog := {}, pump := opts.contains b!"pump", sup := opts.contains b!"sup", co := opts.contains b!"co" }
    let nparts := ((optOf a1 b!"s3p").bind Bytes.parseNat).getD 0
    ({ w' with s3mode := isS3 || nparts > 0, s3parts := nparts, failPuts := fp }, ["# reset"] ++ dumpNode n)
  | "SESS" =>
    match Bytes.parseNat a1 with
    | some sid =>
      let n := w.node.setSession sid {}
      ({ w with node := n }, dumpNode n)
    | none => (w, ["E bad-op"])
  | "C" =>
    match Bytes.parseNat a1 with
    | some sid =>
      -- a command on an unknown session id opens the session first (as the harness does)
      let n0 := if (AL.get? w.node.sessions sid).isNone then w.node.setSession sid {} else w.node
      if w.co && mayElect (unesc a2) n0.isPrimary then
        let cmd := unesc a2
        let (n, r, evs) := ({ n0 with deferElection := true, electionRequested := false } : Node).exec sid cmd
        let inner := stripRp cmd.length cmd
        let hold := Bytes.startsWith inner b!"leave" || Bytes.startsWith inner b!"election"
        let (w, outs) := coStart w n (respStr r) evs hold
        (w, outs ++ dumpNode w.node)
      else
      let (n, r, evs) := n0.exec sid (unesc a2)
      let w := recordNotices { w with node := n } evs
      let (w, shown) := absorb w evs
      -- a line pushed to a session that no longer exists goes nowhere (its receiver is gone; the sender may still be registered
      -- as a watcher of a database the session had left before it closed)
      let shown := shown.filter fun e => match e with | .push s _ => (AL.get? n.sessions s).isSome | _ => true
      -- pushes to a session on HOLD wait in its queue (the queue of a connection is unbounded for its senders: nothing is lost)
      let heldNow := shown.filterMap fun e => match e with | .push s l => if w.held.contains s then some (s, l) else none | _ => none
      let shown := shown.filter fun e => match e with | .push s _ => !w.held.contains s | _ => true
      ({ w with heldBuf := w.heldBuf ++ heldNow }, respStr r :: evLines shown ++ dumpNode n)
    | none => (w, ["E bad-op"])
  | "HOLD" =>
    match Bytes.parseNat a1 with
    | some sid => ({ w with held := sid :: w.held }, dumpNode w.node)
    | none => (w, ["E bad-op"])
  | "RELEASE" =>
    match Bytes.parseNat a1 with
    | some sid =>
      let mine := w.heldBuf.filter (·.1 = sid)
      ({ w with held := w.held.filter (· != sid), heldBuf := w.heldBuf.filter (·.1 != sid) },
       (mine.map fun (s, l) => s!"M {s} {esc l}") ++ dumpNode w.node)
    | none => (w, ["E bad-op"])
  | "TCPOPEN" =>
    match Bytes.parseNat a1 with
    | some sid => let n := w.node.setSession sid {}; ({ w with node := n }, s!"B {sid} {esc tcpGreeting}" :: dumpNode n)
    | none => (w, ["E bad-op"])
  | "TCP" | "WS" =>
    -- one line over a tcp connection / one text message over a websocket: `B <sid> <bytes>` is what the connection's socket receives
    match Bytes.parseNat a1 with
    | some sid =>
      let n0 := if (AL.get? w.node.sessions sid).isNone then w.node.setSession sid {} else w.node
      let (n, bytes, evs) := if cmd = "TCP" then n0.tcpLine sid (unesc a2) else n0.wsMessage sid (unesc a2)
      let w := recordNotices { w with node := n } evs
      let (w, shown) := absorb w evs
      let shown := shown.filter fun e => match e with | .push s _ => (AL.get? n.sessions s).isSome | _ => true
      (w, s!"B {sid} {esc bytes}" :: evLines shown ++ dumpNode n)
    | none => (w, ["E bad-op"])
  | "RESOLVE" =>
    -- RESOLVE <sid> <i> <value>: answer the i-th notice this session received
    match Bytes.parseNat a1 with
    | some sid =>
      let p := Bytes.splitn 32 2 a2
      match (p[0]?).bind Bytes.parseNat with
      | some i =>
        match ((AL.get? w.notices sid).getD [])[i]? with
        | some notice =>
          -- notice: resolve <op> <db> <ver> <key> <old> <new>
          let f := Bytes.splitn 32 6 notice
          let cmdline := b!"resolve " ++ (f[1]?.getD []) ++ [32] ++ (f[2]?.getD []) ++ [32] ++ (f[4]?.getD [])
            ++ [32] ++ (f[3]?.getD []) ++ [32] ++ unesc (p[1]?.getD [])
          let (n, r, evs) := w.node.exec sid cmdline
          let w := recordNotices { w with node := n } evs
          (w, s!"# {esc cmdline}" :: respStr r :: evLines evs ++ dumpNode n)
        | none => (w, ["# no-notice"] ++ dumpNode w.node)
      | none => (w, ["E bad-op"])
    | none => (w, ["E bad-op"])
  | "CLOSE" =>
    match Bytes.parseNat a1 with
    | some sid =>
      if (AL.get? w.node.sessions sid).isNone then (w, ["E bad-op"]) else
      if w.co && (match (w.node.session sid).member with | some (_, r) => r = .primary | none => false) then
        let (n, evs) := ({ w.node with deferElection := true, electionRequested := false } : Node).tcpClose sid
        let (w, outs) := coStart w n "R ok" (evs.filter (evNotForSid sid)) true
        (w, outs ++ dumpNode w.node)
      else
      let (n, evs) := w.node.tcpClose sid
      let (w, shown) := absorb { w with node := n } evs
      -- as in `C`: a line pushed to a session that no longer exists goes nowhere
      let shown := shown.filter fun e => match e with | .push s _ => (AL.get? n.sessions s).isSome | _ => true
      (w, evLines (shown.filter (evNotForSid sid)) ++ dumpNode n)
    | none => (w, ["E bad-op"])
  | "HTTP" =>
    match Bytes.parseNat a1 with
    | some sid =>
      let (n, reply, evs) := w.node.http sid (unesc a2)
      let evs := evs.filter fun e => match e with | .push s _ => (AL.get? n.sessions s).isSome | _ => true
      ({ w with node := n }, s!"H {esc reply}" :: evLines evs ++ dumpNode n)
    | none => (w, ["E bad-op"])
  | "SNAP" =>
    if w.s3mode then
      let orders := ordersOf w.node a1
      let q := (dedupConsecutive w.node.toSnapshot).reverse
      let w := q.foldl (fun (w : World) (name, reclaim) =>
        match w.node.db? name with
        | some db =>
          let base := w.puts
          if w.s3parts > 0 then
            match s3pSnapshot (partitionOf w.s3parts) db w.objs reclaim ((AL.get? orders name).getD []) w.node.clock with
            | (db', objs', clock') => { w with node := { w.node.setDb db' with clock := clock' }, objs := objs' }
          else
          match s3Snapshot db w.objs reclaim ((AL.get? orders name).getD []) w.node.clock (fun k => !(w.failPuts.contains (base + k))) with
          | (db', objs', clock') => { w with node := { w.node.setDb db' with clock := clock' }, objs := objs', puts := base + 2 }
        | none => w) { w with node := { w.node with toSnapshot := [] } }
      let fl := (sortBy (·.1) w.objs).map fun (k, v) => s!"F {escw k} {String.ofList (v.flatMap fun x => [hexDigit (x / 16), hexDigit (x % 16)])}"
      (w, fl ++ dumpNode w.node)
    else
    let sx : List (XOp × Node) := if w.pump && !w.node.toSnapshot.isEmpty then (w.mstate.trace .snapshotKeys).map (·, w.node) else []
    let w := if w.xtrace then { w with xlog := w.xlog ++ sx } else w
    let sxl := if w.xtrace then sx.map (xopStr ·.1) else []
    let w := if w.pump && !w.node.toSnapshot.isEmpty then { w with mstate := w.mstate.snapshotKeys } else w
    let n := w.node.snapshotAll (ordersOf w.node a1)
    -- cross-check of the two formulations of the writer (final files vs. operation trace)
    let chk : List String := match (dedupConsecutive w.node.toSnapshot).reverse with
      | [(name, reclaim)] =>
        match w.node.db? name with
        | some db =>
          let viaOps := w.node.fs.applyOps (snapshotOps db w.node.fs reclaim ((AL.get? (ordersOf w.node a1) name).getD []))
          if dumpFs viaOps == dumpFs n.fs then [] else ["E trace-mismatch"]
        | none => []
      | _ => []
    ({ w with node := n }, chk ++ sxl ++ (if w.pump then dumpMeta n w.mstate else []) ++ dumpFs n.fs ++ dumpNode n)
  | "RESTART" =>
    if w.s3mode then
      let fresh := { freshNodeAt w.node.role w.node.clock with addr := w.node.addr, pid := w.node.pid }
      -- the store lists its objects in key order
      let listed := sortBy (·.1) w.objs
      let names := if w.s3parts > 0 then Bytes.sort (s3pDbNames listed) else Bytes.sort (s3DbNames w.objs)
      let res := names.foldl (fun (acc : Option Node) name =>
        match acc with
        | none => none
        | some m =>
          match (if w.s3parts > 0 then s3pLoadDb listed name m.clock else s3LoadDb w.objs name m.clock) with
          | some (db, clock) => some ({ m with clock }.addDatabase db).1
          | none => none) (some fresh)
      match res with
      | some n => ({ w with node := n, notices := [] }, "# restarted" :: dumpNode n)
      | none => ({ w with node := fresh, notices := [] }, ["R PANIC restart"])
    else
    let rx : List (XOp × Node) := if w.pump then (w.mstate.trace .restart).map (·, w.node) else []
    let w := if w.xtrace then { w with xlog := w.xlog ++ rx } else w
    let rxl := if w.xtrace then rx.map (xopStr ·.1) else []
    -- RESTART [role]: a real start-up begins as StartingUp; without an argument the role is kept
    let role := if a1 = [] then w.node.role else if a1 = b!"startingup" then Role.startingUp else if a1 = b!"secoundary" then Role.secoundary else Role.primary
    let fresh := { freshNodeAt role w.node.clock with addr := w.node.addr, pid := w.node.pid }
    match ({ w.node with role := role } : Node).restart fresh with
    | some n =>
      -- the fresh node consumed two ticks before loading
      let m := if w.pump then
          let m := w.mstate.restart
          -- the loop re-opens the oplog stream: a full current file is rotated
          if m.oplog.cur.length * opRecSize ≥ singleLogBytes then { m with oplog := { cur := [], rot := m.oplog.cur :: m.oplog.rot } } else m
        else w.mstate
      let n := { n with keysMap := m.keysMap }
      ({ w with node := n, notices := [], mstate := m, replQueue := [], supQueue := [], links := [], linkOut := [] },
       "# restarted" :: rxl ++ (if w.pump && !w.sup then dumpMeta n m else []) ++ (if w.sup then [] else dumpFs n.fs) ++ dumpNode n)
    | none => ({ w with node := { fresh with fs := w.node.fs }, notices := [] }, ["R PANIC restart"])
  | "PUMP" =>
    -- `PUMP sup`: the supervisor thread gets to its queue before the replication thread does
    let (w, outS) := if a1 = b!"sup" && w.sup then pumpSup w else (w, [])
    let (w, out0, xs0) := pumpLoop w
    let out0 := outS ++ out0
    if w.sup then
      -- loop and supervisor feed each other: both until nothing moves (as the harness does)
      let rec rounds (k : Nat) (w : World) (acc : List String) : World × List String :=
        match k with
        | 0 => (w, acc)
        | k + 1 =>
          let (w, a) := pumpSup w
          let (w, b, _) := pumpLoop w
          if a.isEmpty && b.isEmpty then (w, acc) else rounds k w (acc ++ a ++ b)
      let (w, out) := rounds 8 w out0
      -- what is queued on the peer connections, connection by connection
      let ls := w.links.flatMap fun (to, _) => (w.linkOut.filter (·.1 = to)).map fun (_, l) => s!"L {escw to} {esc l}"
      ({ w with linkOut := [] }, out ++ ls ++ dumpNode w.node)
    else
      let xl := if w.xtrace then xs0.map (xopStr ·.1) else []
      ({ w with xlog := if w.xtrace then w.xlog ++ xs0 else w.xlog }, out0 ++ xl ++ dumpMeta w.node w.mstate ++ dumpNode w.node)
  | "DUMP" => ({ w with lastDump := [] }, dumpNode w.node)
  | "LINKSESS" =>
    match Bytes.parseNat a1 with
    | some sid =>
      let n := w.node.setSession sid { auth := true, member := some (a2, .secoundary) }
      ({ w with node := n }, dumpNode n)
    | none => (w, ["E bad-op"])
  | "RESUME" =>
    match Bytes.parseNat a1 with
    | some id =>
      match w.cos.find? (·.1 = id) with
      | some (_, co, post, resp) =>
        let (n, evs, co') := w.node.electionResume electionTimeout co
        let w := { w with node := n, cos := w.cos.filter (·.1 != id) }
        if co' = .done then
          let (w, outs) := coFinish w id post resp evs
          (w, outs ++ dumpNode w.node)
        else
          let (w, shown) := absorb w evs
          ({ w with cos := w.cos ++ [(id, co', post, resp)] }, [s!"Y parked {id} {co'.site}"] ++ evLines shown ++ dumpNode w.node)
      | none => (w, ["E no-such-coroutine"])
    | none => (w, ["E bad-op"])
  | "ELECT" =>
    if w.co then
      let n := if w.node.isEligible then { w.node with electionRequested := true } else { w.node with electionRequested := false }
      let (w, outs) := coStart w n "R ok" [] false
      (w, outs ++ dumpNode w.node)
    else
    let (n, evs) := if w.node.isEligible then w.node.startElection else (w.node, [])
    let (w, shown) := absorb { w with node := n } evs
    (w, "R ok" :: evLines shown ++ dumpNode n)
  | "UNLINK" =>
    match w.links.find? (·.1 = a1) with
    | some (_, isP) =>
      let n := if isP then w.node.removeMember a1 else w.node
      ({ w with node := n, links := w.links.filter (·.1 != a1), linkOut := w.linkOut.filter (·.1 != a1) }, "# unlinked true" :: dumpNode n)
    | none => (w, "# unlinked false" :: dumpNode w.node)
  | "MARK" =>
    if a1 == b!"begin" then ({ w with xtrace := true, xbase := some (w.mstate, w.node), xlog := [] }, [])
    else ({ w with xtrace := false }, [])
  | "CRASHMETA" =>
    -- CRASHMETA <n> : keep the first n metadata writes of the window, then start the node on those files
    match Bytes.parseNat a1, w.xbase with
    | some k, some (m0, n0) =>
      let m := (w.xlog.take k).foldl (fun m x => m.applyX x.1) m0
      let nd := match k, (w.xlog.take k).getLast? with
        | 0, _ => n0
        | _, some x => x.2
        | _, none => n0
      match nd.restart (freshNodeAt nd.role nd.clock) with
      | some n' => (w, s!"# crash-prefix {k}" :: dumpMeta n' m.restart)
      | none => (w, [s!"# crash-prefix {k}", "R PANIC restart"])
    | _, _ => (w, ["E bad-op"])
  | "COPYDIR" => (w, ["# copied"])
  | "CRASHPLAN" =>
    -- the file operations of the pending snapshot (single database in the queue)
    match (dedupConsecutive w.node.toSnapshot).reverse with
    | (name, reclaim) :: _ =>
      match w.node.db? name with
      | some db =>
        let ops := snapshotOps db w.node.fs reclaim ((AL.get? (ordersOf w.node a1) name).getD [])
        (w, ops.map opStr)
      | none => (w, ["E no-db"])
    | [] => (w, ["E empty-queue"])
  | "CRASHLOAD" =>
    -- CRASHLOAD <n> <order=…> : keep the first n operations of the pending snapshot, then start the node
    let p := Bytes.splitn 32 2 a2
    match Bytes.parseNat a1, (dedupConsecutive w.node.toSnapshot).reverse with
    | some n, (name, reclaim) :: _ =>
      match w.node.db? name with
      | some db =>
        let ops := snapshotOps db w.node.fs reclaim ((AL.get? (ordersOf w.node (p[0]?.getD [])) name).getD [])
        let fs' := w.node.fs.applyOps (ops.take n)
        match ({ w.node with fs := fs' } : Node).restart (freshNodeAt w.node.role w.node.clock) with
        | some n' => (w, s!"# crash-prefix {n}" :: dumpNode n')
        | none => (w, [s!"# crash-prefix {n}", "R PANIC restart"])
      | none => (w, ["E no-db"])
    | _, _ => (w, ["E bad-op"])
  | "DELMETA" =>
    let n := { w.node with fs := AL.erase w.node.fs (metaFile a1) }
    ({ w with node := n }, dumpFs n.fs ++ dumpNode n)
  | "OPLOG" =>
    let parseRecs (b : Bytes) : OpFile :=
      (Bytes.splitAll 59 b).filter (· != []) |>.map fun r =>
        let f := (Bytes.splitAll 44 r).map fun x => (Bytes.parseNat x).getD 0
        { t := f[0]?.getD 0, k := f[1]?.getD 0, d := f[2]?.getD 0, o := f[3]?.getD 0 }
    let recStr (f : OpFile) : String := ";".intercalate (f.map fun r => s!"{r.t},{r.k},{r.d},{r.o}")
    let listing (o : OplogFs) : List String :=
      s!"O cur {recStr o.cur}" :: (o.rot.zipIdx.map fun (f, i) => s!"O rot{i} {recStr f}")
    let sub := String.ofList (a1.map Char.ofNat)
    match sub with
    | "set" => let o := { w.oplog with cur := parseRecs a2 }; ({ w with oplog := o }, listing o)
    | "rot" => let o := { w.oplog with rot := parseRecs a2 :: w.oplog.rot }; ({ w with oplog := o }, listing o)
    | "query" =>
      let since := (Bytes.parseNat a2).getD 0
      let res := readAll w.oplog.cur w.oplog.rot since
      let lines := res.map fun ((d, k), (o, t, _)) => (toBytes s!"{d}_{k}", s!"Q {d}_{k} opp={o} ts={t}")
      (w, (sortBy (·.1) lines).map (·.2) ++ listing w.oplog)
    | "last" => (w, s!"T {lastOpTime w.oplog.cur w.oplog.rot}" :: listing w.oplog)
    | "append" =>
      let recs := parseRecs a2
      let (o, outs, _) := recs.foldl (fun (st : OplogFs × List String × Bool) r =>
        let (o, outs, first) := st
        (o.append 250 r first, outs ++ [s!"A ok {r.t}"], false)) (w.oplog, [], true)
      ({ w with oplog := o }, outs ++ listing o)
    | "declutter" => let o := w.oplog.declutter; ({ w with oplog := o }, listing o)
    | _ => (w, ["E bad-op"])
  | "REG" =>
    match Bytes.parseNat a1 with
    | some op =>
      let (n, msg) := w.node.registerPending op b!"m" a2
      ({ w with node := n }, s!"G {esc msg}" :: dumpNode n)
    | none => (w, ["E bad-op"])
  | "ACK" =>
    match Bytes.parseNat a1 with
    | some op =>
      let n := w.node.ackPending op a2
      ({ w with node := n }, dumpNode n)
    | none => (w, ["E bad-op"])
  | "" => (w, [])
  | _ => (w, ["E bad-op"])

partial def loop (serve : Bool) (h : IO.FS.Stream) (out : IO.FS.Stream) (ws : List (Nat × World)) (gclock : Nat := clockStart) : IO Unit := do
  let line ← h.getLine
  if line.isEmpty then return ()
  let l := String.ofList (line.toList.filter (· != '\n'))
  if l.startsWith "#" then
    out.putStrLn l
    if serve then out.putStrLn "."; out.flush
    loop serve h out ws gclock
  else
    -- `@<i> <op>` addresses node i of a cluster; everything else goes to node 1
    let (ix, op) : Nat × String :=
      if l.startsWith "@" then
        let body : String := String.ofList (l.toList.drop 1)
        match body.splitOn " " with
        | i :: rest => ((i.toNat?).getD 1, " ".intercalate rest)
        | [] => (1, l)
      else (1, l)
    let w0 := (AL.get? ws ix).getD { node := freshNode .primary }
    -- one clock for all the nodes of the process (operation ids are wall-clock time in the real code)
    let w := { w0 with node := { w0.node with clock := max w0.node.clock gclock } }
    let (w', outs) := step w op
    let gclock := max gclock w'.node.clock
    out.putStrLn s!"> {l}"
    -- dump lines (prefix "D ") are replaced by "D =" when identical to the previous dump
    let dump := outs.filter (·.startsWith "D ")
    let rest := outs.filter (fun o => !o.startsWith "D ")
    for o in rest do out.putStrLn o
    if dump.isEmpty then
      if serve then out.putStrLn "."; out.flush
      loop serve h out (AL.put ws ix w') gclock
    else if dump == w'.lastDump && !op.startsWith "RESET" then
      out.putStrLn "D ="
      if serve then out.putStrLn "."; out.flush
      loop serve h out (AL.put ws ix w') gclock
    else
      for o in dump do out.putStrLn o
      if serve then out.putStrLn "."; out.flush
      loop serve h out (AL.put ws ix { w' with lastDump := dump }) gclock

def main (args : List String) : IO Unit := do
  let stdin ← IO.getStdin
  let stdout ← IO.getStdout
  loop (args.contains "--serve") stdin stdout []
