import NunVerif.Model.Session
import NunVerif.Props.C01
import NunVerif.Props.C15
