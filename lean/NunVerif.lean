import NunVerif.Model.Session
import NunVerif.Props.C01
import NunVerif.Props.C02
import NunVerif.Props.C08
import NunVerif.Props.C09
import NunVerif.Props.C10
import NunVerif.Props.C15
import NunVerif.Props.C17
