import NunVerif.Props.C18Part
/-!
# C18 (partitioned strategy) — the listing hypothesis discharged

`C18_part_load_of_synced` takes the answer of the ListObjectsV2 call as a hypothesis.  Here it is
derived from a well-formedness invariant of the bucket — every object below `<prefix>/<db>/` is one
of this database's partition objects `<prefix>/<db>/<p>.nun` — which the snapshot keeps (it only ever
PUTs such objects) and which therefore holds along every history from the empty bucket.  What remains
assumed about the store: the listing returns exactly the keys it holds (the model's `Objs` list).
The parsing of the object names (`partNameOf`: the text between the last `/` and the first `.`) is
proved to read back the partition number the writer printed.
-/
namespace Nun
open Bytes

theorem getLast?_splitn_slash (c : Nat) (t : Bytes) (ht : c ∉ t) : ∀ (k : Nat) (a : Bytes) (n : Nat), a.length ≤ k →
    (a ++ c :: t).length ≤ n → (splitn c (n + 2) (a ++ c :: t)).getLast? = some t := by
  intro k
  induction k with
  | zero =>
    intro a n ha hn
    have : a = [] := List.length_eq_zero_iff.1 (Nat.le_zero.1 ha)
    subst this
    simp only [List.nil_append] at hn ⊢
    have h1 := splitn_cons c n [] t (by simp)
    simp only [List.nil_append] at h1
    rw [h1]
    obtain ⟨m, hm⟩ : ∃ m, n + 1 = m + 2 := ⟨n - 1, by simp only [List.length_cons] at hn; omega⟩
    rw [hm, splitn_last c m t ht]; rfl
  | succ k ih =>
    intro a n ha hn
    by_cases hc : c ∈ a
    · obtain ⟨a1, a2, rfl, hn1⟩ := List.eq_append_cons_of_mem hc
      have e : a1 ++ c :: a2 ++ c :: t = a1 ++ c :: (a2 ++ c :: t) := by simp
      rw [e] at hn ⊢
      rw [splitn_cons c n a1 (a2 ++ c :: t) hn1]
      have hlen : (a2 ++ c :: t).length ≤ n - 1 := by
        simp only [List.length_append, List.length_cons] at hn ⊢; omega
      have hk : a2.length ≤ k := by simp only [List.length_append, List.length_cons] at ha; omega
      obtain ⟨m, hm⟩ : ∃ m, n + 1 = m + 2 := ⟨n - 1, by simp only [List.length_append, List.length_cons] at hn; omega⟩
      have := ih a2 m hk (by omega)
      rw [hm]
      cases hs : splitn c (m + 2) (a2 ++ c :: t) with
      | nil => rw [hs] at this; cases this
      | cons x xs => rw [hs] at this; simpa [List.getLast?_cons_cons] using this
    · rw [splitn_cons c n a t hc]
      obtain ⟨m, hm⟩ : ∃ m, n + 1 = m + 2 := ⟨n - 1, by simp only [List.length_append, List.length_cons] at hn; omega⟩
      rw [hm, splitn_last c m t ht]; rfl

/-- the parser of object names reads back the partition the writer printed -/
theorem partNameOf_objKey (name : Bytes) (p : Nat) : partNameOf (s3pObjKey name p) = Bytes.ofNat p := by
  unfold partNameOf s3pObjKey
  have h47 : (47 : Nat) ∉ Bytes.ofNat p ++ b!".nun" := by
    intro h
    rcases List.mem_append.1 h with h | h
    · exact ofNat_not_mem p 47 (by decide) h
    · revert h; decide
  have e : s3Prefix ++ name ++ [47] ++ Bytes.ofNat p ++ b!".nun" = (s3Prefix ++ name) ++ 47 :: (Bytes.ofNat p ++ b!".nun") := by simp
  rw [e]
  unfold splitAll
  rw [getLast?_splitn_slash 47 _ h47 (s3Prefix ++ name).length (s3Prefix ++ name) _ (Nat.le_refl _) (Nat.le_refl _)]
  simp only [Option.getD_some]
  have h46 : (46 : Nat) ∉ Bytes.ofNat p := ofNat_not_mem p 46 (by decide)
  have e2 : Bytes.ofNat p ++ b!".nun" = Bytes.ofNat p ++ 46 :: b!"nun" := by rfl
  rw [e2, splitn_cons 46 _ (Bytes.ofNat p) b!"nun" h46]
  rfl

theorem startsWith_append (a b : Bytes) : Bytes.startsWith (a ++ b) a = true := by
  induction a with
  | nil => cases b <;> rfl
  | cons x t ih => simp [Bytes.startsWith, ih]


/-! ### the bucket holds, below the database's prefix, partition objects of that database only -/

def dbPrefix (name : Bytes) : Bytes := s3Prefix ++ name ++ [47]

def StoreWF (name : Bytes) (objs : Objs) : Prop :=
  ∀ k v, (k, v) ∈ objs → Bytes.startsWith k (dbPrefix name) = true → ∃ p, k = s3pObjKey name p ∧ p < Bytes.u64Bound

theorem objKey_startsWith (name : Bytes) (p : Nat) : Bytes.startsWith (s3pObjKey name p) (dbPrefix name) = true := by
  have e : s3pObjKey name p = dbPrefix name ++ (Bytes.ofNat p ++ b!".nun") := by simp [s3pObjKey, dbPrefix]
  rw [e]; exact startsWith_append _ _

theorem AL.mem_put {α β : Type} [DecidableEq α] (m : List (α × β)) (k0 : α) (v0 : β) (k : α) (v : β) (h : (k, v) ∈ AL.put m k0 v0) :
    (k, v) ∈ m ∨ (k = k0 ∧ v = v0) := by
  induction m with
  | nil => simp [AL.put] at h; exact Or.inr h
  | cons x t ih =>
    obtain ⟨k', v'⟩ := x
    unfold AL.put at h
    by_cases hk : k' = k0
    · simp only [hk, if_true, List.mem_cons, Prod.mk.injEq] at h
      rcases h with h | h
      · exact Or.inr h
      · exact Or.inl (List.mem_cons_of_mem _ h)
    · simp only [hk, if_false, List.mem_cons, Prod.mk.injEq] at h
      rcases h with h | h
      · exact Or.inl (by rw [h.1, h.2]; exact List.mem_cons_self)
      · rcases ih h with h' | h'
        · exact Or.inl (List.mem_cons_of_mem _ h')
        · exact Or.inr h'

theorem AL.get?_isSome_of_mem {α β : Type} [DecidableEq α] (m : List (α × β)) (k : α) (v : β) (h : (k, v) ∈ m) : (AL.get? m k).isSome = true := by
  induction m with
  | nil => cases h
  | cons x t ih =>
    obtain ⟨k', v'⟩ := x
    unfold AL.get?
    by_cases hk : k' = k
    · simp [hk]
    · simp only [hk, if_false]
      rcases List.mem_cons.1 h with h | h
      · cases h; exact absurd rfl hk
      · exact ih h

theorem StoreWF_put (name : Bytes) (objs : Objs) (p : Nat) (v : Bytes) (hp : p < Bytes.u64Bound) (h : StoreWF name objs) :
    StoreWF name (AL.put objs (s3pObjKey name p) v) := by
  intro k v' hm hs
  rcases AL.mem_put objs _ _ k v' hm with h1 | ⟨h1, _⟩
  · exact h k v' h1 hs
  · exact ⟨p, h1, hp⟩

theorem s3pFold_name (p : Nat) (l : List (Bytes × Entry)) : ∀ (s : S3PSt),
    (l.foldl (fun s (x : Bytes × Entry) => s3pSnapKey p s x.1 x.2) s).db.name = s.db.name := by
  induction l with
  | nil => intro s; rfl
  | cons x t ih =>
    intro s
    simp only [List.foldl_cons]
    rw [ih]
    unfold s3pSnapKey
    by_cases hd : x.2.state = .deleted <;> simp [hd, Db.setValueVersion]

theorem StoreWF_snapFold (h : Bytes → Nat) (hh : ∀ k, h k < Bytes.u64Bound) (order : List Bytes) (ps : List Nat) (hps : ∀ p ∈ ps, p < Bytes.u64Bound) :
    ∀ (db : Db) (objs : Objs) (c : Nat), StoreWF db.name objs →
    StoreWF db.name (ps.foldl (s3pSnapPartition h order) (db, objs, c)).2.1 ∧ (ps.foldl (s3pSnapPartition h order) (db, objs, c)).1.name = db.name := by
  induction ps with
  | nil => intro db objs c hw; exact ⟨hw, rfl⟩
  | cons p t ih =>
    intro db objs c hw
    simp only [List.foldl_cons]
    have hp := hps p List.mem_cons_self
    have hsplit : s3pSnapPartition h order (db, objs, c) p
        = ((s3pSnapPartition h order (db, objs, c) p).1, (s3pSnapPartition h order (db, objs, c) p).2.1, (s3pSnapPartition h order (db, objs, c) p).2.2) := rfl
    have hobjs : (s3pSnapPartition h order (db, objs, c) p).2.1 = AL.put objs (s3pObjKey db.name p) (List.foldl (fun s (x : Bytes × Entry) => s3pSnapKey p s x.1 x.2)
        ({ db := db, clock := c } : S3PSt) ((db.inOrder order).filter fun x => h x.1 = p)).buf := rfl
    have hname : (s3pSnapPartition h order (db, objs, c) p).1.name = db.name :=
      s3pFold_name p ((db.inOrder order).filter fun x => h x.1 = p) ({ db := db, clock := c } : S3PSt)
    rw [hsplit]
    have hw1 : StoreWF (s3pSnapPartition h order (db, objs, c) p).1.name (s3pSnapPartition h order (db, objs, c) p).2.1 := by
      rw [hname, hobjs]; exact StoreWF_put db.name objs p _ hp hw
    obtain ⟨a, b⟩ := ih (fun q hq => hps q (List.mem_cons_of_mem _ hq)) _ _ _ hw1
    exact ⟨by rw [hname] at a; exact a, b.trans hname⟩


theorem mem_dirtyPartitions_bound (h : Bytes → Nat) (hh : ∀ k, h k < Bytes.u64Bound) (db : Db) (reclaim : Bool) :
    ∀ p ∈ dirtyPartitions h db reclaim, p < Bytes.u64Bound := by
  unfold dirtyPartitions
  generalize db.map.filter (fun x => x.2.state != .ok || reclaim) = l
  induction l with
  | nil => intro p hp; cases hp
  | cons x t ih =>
    intro p hp
    simp only [List.foldr_cons, mem_insertNat] at hp
    rcases hp with rfl | hp
    · exact hh _
    · exact ih p hp

theorem StoreWF_snapshot (h : Bytes → Nat) (hh : ∀ k, h k < Bytes.u64Bound) (db : Db) (objs : Objs) (reclaim : Bool) (order : List Bytes) (c : Nat)
    (hw : StoreWF db.name objs) : StoreWF db.name (s3pSnapshot h db objs reclaim order c).2.1 :=
  (StoreWF_snapFold h hh order (dirtyPartitions h db reclaim) (mem_dirtyPartitions_bound h hh db reclaim) db objs c hw).1

/-- the partitions the listing of a well-formed bucket names, in listing order -/
def listedPartitions (name : Bytes) (objs : Objs) : List Nat :=
  objs.filterMap fun kv => if Bytes.startsWith kv.1 (dbPrefix name) then Bytes.parseNat (partNameOf kv.1) else none

/-- **the listing**: for a well-formed bucket `get_patirion_list_form_s3` returns the decimal names of exactly the
partitions that have an object, each below 2^64 -/
theorem listing_of_wf (name : Bytes) (objs : Objs) (L : Ghost) (hw : StoreWF name objs) (hm : ObjsMatch name objs L) :
    s3pPartitionList objs name = (listedPartitions name objs).map Bytes.ofNat ∧
    (∀ p, p ∈ listedPartitions name objs ↔ (L p).isSome) ∧ ∀ p ∈ listedPartitions name objs, p < Bytes.u64Bound := by
  have hmemP : ∀ p, p ∈ listedPartitions name objs ↔ ∃ v, (s3pObjKey name p, v) ∈ objs := by
    intro p
    unfold listedPartitions
    rw [List.mem_filterMap]
    constructor
    · rintro ⟨⟨k, v⟩, hmem, hp⟩
      by_cases hs : Bytes.startsWith k (dbPrefix name) = true
      · simp only [hs, if_true] at hp
        obtain ⟨q, hk, _⟩ := hw k v hmem hs
        subst hk
        rw [partNameOf_objKey, Bytes.parseNat_ofNat] at hp
        cases hp
        exact ⟨v, hmem⟩
      · simp only [hs] at hp; cases hp
    · rintro ⟨v, hmem⟩
      exact ⟨(s3pObjKey name p, v), hmem, by simp only [objKey_startsWith, if_true]; rw [partNameOf_objKey, Bytes.parseNat_ofNat]⟩
  refine ⟨?_, ?_, ?_⟩
  · unfold s3pPartitionList listedPartitions
    have hpre : s3Prefix ++ name ++ [47] = dbPrefix name := rfl
    rw [hpre]
    clear hmemP hm
    induction objs with
    | nil => rfl
    | cons x t ih =>
      obtain ⟨k, v⟩ := x
      have hwt : StoreWF name t := fun k' v' hm' hs' => hw k' v' (List.mem_cons_of_mem _ hm') hs'
      simp only [List.filterMap_cons]
      by_cases hs : Bytes.startsWith k (dbPrefix name) = true
      · obtain ⟨q, hk, _⟩ := hw k v List.mem_cons_self hs
        subst hk
        simp only [hs, if_true, partNameOf_objKey, Bytes.parseNat_ofNat, List.map_cons]
        rw [ih hwt]
      · simp only [hs]
        exact ih hwt
  · intro p
    rw [hmemP p]
    constructor
    · rintro ⟨v, hmem⟩
      have := AL.get?_isSome_of_mem objs _ v hmem
      rw [hm p] at this
      cases hl : L p with
      | none => rw [hl] at this; cases this
      | some l => rfl
    · intro hsome
      cases hl : L p with
      | none => rw [hl] at hsome; cases hsome
      | some l =>
        have hg : AL.get? objs (s3pObjKey name p) = some (encPart l) := by rw [hm p, hl]; rfl
        exact ⟨_, AL.mem_of_get? _ _ _ hg⟩
  · intro p hp
    obtain ⟨v, hmem⟩ := (hmemP p).1 hp
    obtain ⟨q, hk, hq⟩ := hw _ v hmem (objKey_startsWith name p)
    rw [s3pObjKey_inj hk]; exact hq

/-- **C18 for the partitioned strategy, snapshot then start-up, no hypothesis about the listing**: from a state
that satisfies the invariant, with a bucket in which everything below the database's prefix is one of its
partition objects, a snapshot (either mode) followed by a start-up restores exactly the live data. -/
theorem C18_part_roundtrip_wf (h : Bytes → Nat) (hh : ∀ k, h k < Bytes.u64Bound) (db : Db) (objs : Objs) (reclaim : Bool) (order : List Bytes) (c c2 : Nat) (L : Ghost)
    (hn : AL.NoDupKeys db.map) (hst : AllStorable db) (hm : ObjsMatch db.name objs L) (hinv : PartInv h db L) (hw : StoreWF db.name objs) :
    ∃ db' c', s3pLoadDb (s3pSnapshot h db objs reclaim order c).2.1 db.name c2 = some (db', c') ∧
      ∀ k, liveView db'.map k = liveView db.map k := by
  apply C18_part_roundtrip h db objs reclaim order c c2 L hn hst hm hinv
  intro L' hm'
  exact ⟨listedPartitions db.name (s3pSnapshot h db objs reclaim order c).2.1,
    listing_of_wf db.name _ L' (StoreWF_snapshot h hh db objs reclaim order c hw) hm'⟩

/-- the well-formedness of the bucket holds along every history from the empty bucket -/
theorem StoreWF_after_any_history (h : Bytes → Nat) (hh : ∀ k, h k < Bytes.u64Bound) (ops : List POp) : ∀ (s : PSt), StoreWF s.db.name s.objs →
    StoreWF (ops.foldl (PSt.step h) s).db.name (ops.foldl (PSt.step h) s).objs := by
  induction ops with
  | nil => intro s hw; exact hw
  | cons op t ih =>
    intro s hw
    apply ih
    cases op with
    | set c => show StoreWF (s.db.setValue c).1.name s.objs; rw [(writeStep_setValue s.db c).1]; exact hw
    | inc k n op => show StoreWF (s.db.incValue k n op).1.name s.objs; rw [(writeStep_incValue s.db k n op).1]; exact hw
    | remove k =>
      show StoreWF (match s.db.removeValue k with | some (db', _) => { s with db := db' } | none => s).db.name
                   (match s.db.removeValue k with | some (db', _) => { s with db := db' } | none => s).objs
      cases hr : s.db.removeValue k with
      | none => exact hw
      | some x =>
        obtain ⟨db', ps⟩ := x
        show StoreWF db'.name s.objs
        rw [(writeStep_removeValue s.db db' k ps hr).1]; exact hw
    | snap r o =>
      show StoreWF (s3pSnapshot h s.db s.objs r o s.clock).1.name (s3pSnapshot h s.db s.objs r o s.clock).2.1
      have := StoreWF_snapFold h hh o (dirtyPartitions h s.db r) (mem_dirtyPartitions_bound h hh s.db r) s.db s.objs s.clock hw
      rw [show (s3pSnapshot h s.db s.objs r o s.clock).1.name = s.db.name from this.2]
      exact this.1

/-- **C18 (partitioned strategy), end to end**: after ANY admissible history of writes, increments, removes and
snapshots from a fresh database and an empty bucket, one more snapshot (either mode, any iteration order) and a
start-up from the bucket restore exactly the live data of the database — for every placement of keys into
partitions whose numbers fit 64 bits. -/
theorem C18_part_restores_after_any_history (h : Bytes → Nat) (hh : ∀ k, h k < Bytes.u64Bound) (name : Bytes) (id : Nat) (st : Strategy) (c0 c2 : Nat)
    (ops : List POp) (reclaim : Bool) (order : List Bytes)
    (hadm : PAdm h ⟨Db.new name id st, [], c0⟩ ops) (hstor : AllStorable (ops.foldl (PSt.step h) ⟨Db.new name id st, [], c0⟩).db) :
    ∃ db' c', s3pLoadDb (s3pSnapshot h (ops.foldl (PSt.step h) ⟨Db.new name id st, [], c0⟩).db (ops.foldl (PSt.step h) ⟨Db.new name id st, [], c0⟩).objs reclaim order
        (ops.foldl (PSt.step h) ⟨Db.new name id st, [], c0⟩).clock).2.1 (ops.foldl (PSt.step h) ⟨Db.new name id st, [], c0⟩).db.name c2 = some (db', c') ∧
      ∀ k, liveView db'.map k = liveView (ops.foldl (PSt.step h) ⟨Db.new name id st, [], c0⟩).db.map k := by
  obtain ⟨hn, L, hm, hinv⟩ := C18_part_inv_after_any_history h ops _ (PGood_fresh h name id st c0) hadm
  have hw := StoreWF_after_any_history h hh ops ⟨Db.new name id st, [], c0⟩ (by intro k v hmem; cases hmem)
  exact C18_part_roundtrip_wf h hh _ _ reclaim order _ c2 L hn hstor hm hinv hw

/-- the real placement function fits: `partitionOf n` is below 2^64 for every `n` up to 2^64 -/
theorem partitionOf_bound (n : Nat) (hn : 0 < n) (hn2 : n ≤ Bytes.u64Bound) (k : Bytes) : partitionOf n k < Bytes.u64Bound :=
  Nat.lt_of_lt_of_le (Nat.mod_lt _ hn) hn2

end Nun
