import NunVerif.Model.Cluster
import NunVerif.Proofs.AL
/-
  C05 — a (re)joining node resynchronises to exactly the primary's data.

  The property is FALSE on the current tree (the message format of the resynchronisation is
  pinned by unit tests, see DESIGN.md), and that is what the witness theorems show on the model;
  next to them, what does hold: the burst of a full resynchronisation names every database and every
  key of the primary.
-/
namespace Nun

/-- every database of the primary (but the administrative one) is announced by a full
resynchronisation -/
theorem C05_full_sync_names_every_db (n : Node) (name : Bytes) (db : Db) (h : (name, db) ∈ n.dbs) (hn : db.name ≠ Gen.adminDb) :
    createDbCmd db ∈ n.fullSyncOps ∧ syncSnapshotLine db.name ∈ n.fullSyncOps := by
  unfold Node.fullSyncOps
  constructor <;>
  · rw [List.mem_flatMap]
    refine ⟨(name, db), h, ?_⟩
    simp [hn]

/-- every key of such a database (but `$$token` and `$connections`) has a line in the burst -/
theorem C05_full_sync_names_every_key (n : Node) (name : Bytes) (db : Db) (k : Bytes) (e : Entry)
    (h : (name, db) ∈ n.dbs) (hn : db.name ≠ Gen.adminDb) (hk : (k, e) ∈ db.map)
    (h1 : k ≠ Gen.tokenKey) (h2 : k ≠ Gen.connectionsKey) :
    syncSetLine db.name k e.value ∈ n.fullSyncOps := by
  unfold Node.fullSyncOps
  rw [List.mem_flatMap]
  refine ⟨(name, db), h, ?_⟩
  simp only [hn, if_false, List.mem_append, List.mem_filterMap]
  left; right
  exact ⟨(k, e), hk, by simp [h1, h2]⟩

/-- FINDING (witness): the line a resynchronisation sends for a value of several words is read by
the receiver with the first word taken as the version field: the value arrives without it -/
theorem C05_finding_first_word_lost :
    Request.parse (b!"replicate t a " ++ b!"two words") = .ok (.replicateSet b!"t" b!"a" b!"words" (-1)) ∧
    Request.parse (b!"replicate t a " ++ b!"7 lives") = .ok (.replicateSet b!"t" b!"a" b!"lives" 7) ∧
    Request.parse (b!"replicate t a " ++ b!"x1") = .ok (.replicateSet b!"t" b!"a" b!"" (-1)) := by
  refine ⟨?_, ?_, ?_⟩ <;> rfl

/-- the live format, for comparison: the same value with its version field arrives byte for byte -/
theorem C05_live_format_is_exact :
    Request.parse (replicateMsg b!"t" b!"a" b!"two words" (-1)) = .ok (.replicateSet b!"t" b!"a" b!"two words" (-1)) := by
  rfl

/-- FINDING (witness): a database is announced without its conflict strategy -/
theorem C05_finding_strategy_not_sent :
    createDbCmd { (Db.new b!"u" 2 .arbiter) with map := [(Gen.tokenKey, { value := b!"tok", version := 0, opId := 1, state := .ok, vaddr := 0, kaddr := 0 })] }
      = b!"create-db u tok" := by
  decide +kernel

end Nun
