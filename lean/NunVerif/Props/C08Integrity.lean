import NunVerif.Props.C08
import NunVerif.Props.C17
/-!
# C08 — integrity of `$$` entries against every request of a non-administrator

`Node.SecEq n' n`: every `$$` entry (value, version, state) of every database is the same in `n'`
as in `n`.  The main theorems: one request (`C08_request_keeps_secure_entries`), one input line with
every nesting of `rp` (`C08_line_keeps_secure_entries`), and any sequence of lines from sessions
that are not administrators when they act (`C08_history_keeps_secure_entries`).
-/
namespace Nun

def isSecure (k : Bytes) : Bool := Bytes.startsWith k Gen.securePrefix

/-- two versions of a database hold the same `$$` entries -/
def Db.SecEq (a b : Db) : Prop := a.name = b.name ∧ ∀ k, isSecure k = true → a.getValue k = b.getValue k

theorem Db.secEq_refl (a : Db) : a.SecEq a := ⟨rfl, fun _ _ => rfl⟩
theorem Db.secEq_trans {a b c : Db} (h1 : a.SecEq b) (h2 : b.SecEq c) : a.SecEq c :=
  ⟨h1.1.trans h2.1, fun k hk => (h1.2 k hk).trans (h2.2 k hk)⟩

theorem setValueVersion_secEq (db : Db) (k v : Bytes) (ver : Int) (st : Status) (va ka op : Nat) (hk : isSecure k = false) :
    (db.setValueVersion k v ver st va ka op).SecEq db := by
  refine ⟨rfl, ?_⟩
  intro k' hk'
  have : k ≠ k' := by intro h; subst h; rw [hk] at hk'; simp at hk'
  simp [Db.getValue, Db.setValueVersion, AL.get?_put, this]

theorem setValue_secEq (db : Db) (c : Change) (hk : isSecure c.key = false) : (db.setValue c).1.SecEq db := by
  unfold Db.setValue
  split
  · simp only []; split
    · exact db.secEq_refl
    · exact setValueVersion_secEq _ _ _ _ _ _ _ _ hk
  · exact setValueVersion_secEq _ _ _ _ _ _ _ _ hk

theorem conflictKey_not_secure (c : Change) : isSecure (conflictKey c) = false := C08_conflict_keys_not_secure c

theorem applyChange_secEq (n : Node) (db : Db) (c : Change) (hk : isSecure c.key = false) :
    (n.applyChange db c).2.1.SecEq db := by
  unfold Node.applyChange
  split
  · rename_i db' k v ps heq
    have := setValue_secEq db c hk
    rw [heq] at this; exact this
  · rename_i key ov ver old change state ps heq
    -- the version error carries the change's own key
    have hkey : key = c.key ∧ change = c := by
      have := heq
      unfold Db.setValue at this
      split at this
      · simp only [] at this; split at this
        · simp only [Prod.mk.injEq, SetResp.versionError.injEq] at this; exact ⟨this.2.1.1.symm, this.2.1.2.2.2.2.1.symm⟩
        · simp at this
      · simp at this
    obtain ⟨hk1, hc1⟩ := hkey
    subst hk1; subst hc1
    cases db.strategy with
    | none => exact db.secEq_refl
    | newer =>
      simp only []
      split
      · simp only [Node.tick]
        exact setValue_secEq db _ hk
      · exact db.secEq_refl
    | arbiter =>
      simp only []
      split
      · exact db.secEq_refl
      · split
        · exact db.secEq_refl
        · simp only [Node.tick]
          refine Db.secEq_trans (setValue_secEq _ _ (conflictKey_not_secure _)) ?_
          exact setValueVersion_secEq _ _ _ _ _ _ _ _ hk


def Node.secView (n : Node) (d k : Bytes) : Option Entry := (n.db? d).bind (·.getValue k)

/-- the `$$` entries of every database are the same in `n'` as in `n` -/
def Node.SecEq (n' n : Node) : Prop := ∀ d k, isSecure k = true → n'.secView d k = n.secView d k

/-- databases are filed under their own names -/
def NamesOk (n : Node) : Prop := ∀ d db, n.db? d = some db → db.name = d

theorem Node.secEq_refl (n : Node) : n.SecEq n := fun _ _ _ => rfl
theorem Node.secEq_trans {a b c : Node} (h1 : a.SecEq b) (h2 : b.SecEq c) : a.SecEq c :=
  fun d k hk => (h1 d k hk).trans (h2 d k hk)

theorem secEq_of_dbs (n' n : Node) (h : n'.dbs = n.dbs) : n'.SecEq n := by
  intro d k _; simp [Node.secView, Node.db?, h]

theorem setDb_secEq (n : Node) (db db' : Db) (hd : n.db? db.name = some db) (h : db'.SecEq db) : (n.setDb db').SecEq n := by
  intro d k hk
  simp only [Node.secView, Node.db?, Node.setDb, AL.get?_put]
  split
  · rename_i hdd
    rw [h.1] at hdd; subst hdd
    simp only [Node.db?] at hd
    rw [hd]; simp [h.2 k hk]
  · rfl

theorem safeAccess_granted (n : Node) (sid : Sid) (key : Bytes) (kind : PermKind) (db : Db)
    (h : n.safeAccess sid key kind = .granted db) (ha : (n.session sid).auth = false) :
    isSecure key = false ∧ ∃ d, n.db? d = some db := by
  unfold Node.safeAccess at h
  simp only [ha, Bool.not_false, Bool.and_true] at h
  split at h
  · simp at h
  · rename_i hs
    refine ⟨by simpa [isSecure] using hs, ?_⟩
    split at h
    · rename_i d _
      unfold Node.accessDb at h
      cases hdb : n.db? d with
      | none => simp [hdb] at h
      | some db0 =>
        simp only [hdb] at h
        have hx : db0 = db := by
          revert h
          generalize (if Bytes.startsWith key Gen.securePrefix = true then (n.session sid).auth else db0.permits (n.session sid).user kind key) = okp
          intro h
          cases okp
          · simp at h
          · simpa using h
        subst hx; exact ⟨d, hdb⟩
    · cases h

theorem selectedDb_granted (n : Node) (sid : Sid) (db : Db) (h : n.selectedDb sid = .granted db) : ∃ d, n.db? d = some db := by
  unfold Node.selectedDb at h
  split at h
  · rename_i d _
    unfold Node.accessDb at h
    cases hdb : n.db? d with
    | none => simp [hdb] at h
    | some db0 => simp only [hdb] at h; cases h; exact ⟨d, hdb⟩
  · cases h


theorem setKeyValue_frame (n : Node) (db : Db) (k v : Bytes) (ver : Int) :
    (n.setKeyValue db k v ver).1.dbs = n.dbs ∧ (n.setKeyValue db k v ver).2.1.name = db.name ∧
    (isSecure k = false → (n.setKeyValue db k v ver).2.1.SecEq db) := by
  unfold Node.setKeyValue
  simp only [Node.tick]
  have hf := applyChange_frame { n with clock := n.clock + 1 } db { key := k, value := v, version := ver, opId := n.clock, resolve := false }
  have hs := applyChange_secEq { n with clock := n.clock + 1 } db { key := k, value := v, version := ver, opId := n.clock, resolve := false }
  exact ⟨hf.2.2.1, hf.2.1, hs⟩

theorem incValue_secEq (db : Db) (k : Bytes) (inc : Int) (op : Nat) (hk : isSecure k = false) : (db.incValue k inc op).1.SecEq db := by
  unfold Db.incValue
  split
  · split
    · split
      · exact db.secEq_refl
      · simp only [Db.incStore]; split <;> exact setValueVersion_secEq _ _ _ _ _ _ _ _ hk
    · exact db.secEq_refl
  · exact db.secEq_refl

theorem removeValue_secEq (db db' : Db) (k : Bytes) (ps : List Push) (hk : isSecure k = false) (h : db.removeValue k = some (db', ps)) : db'.SecEq db := by
  unfold Db.removeValue at h
  split at h
  · simp at h
  · simp only [Option.some.injEq, Prod.mk.injEq] at h
    rw [← h.1]
    split
    · split
      · refine ⟨rfl, ?_⟩
        intro k' hk'
        have : k ≠ k' := by intro hh; subst hh; rw [hk] at hk'; simp at hk'
        simp [Db.getValue, AL.get?_erase, this]
      · exact setValueVersion_secEq _ _ _ _ _ _ _ _ hk
    · exact db.secEq_refl

theorem watch_secEq (db : Db) (k : Bytes) (s : Sid) : (db.watch k s).SecEq db := by
  unfold Db.watch; split <;> exact ⟨rfl, fun _ _ => rfl⟩

theorem unwatch_secEq (db : Db) (k : Bytes) (s : Sid) : (db.unwatch k s).SecEq db := ⟨rfl, fun _ _ => rfl⟩

theorem unwatchAll_secEq (db : Db) (s : Sid) : (db.unwatchAll s).SecEq db := by
  unfold Db.unwatchAll
  generalize AL.keys db.watchers = ks
  induction ks generalizing db with
  | nil => exact db.secEq_refl
  | cons k rest ih => simp only [List.foldl_cons]; exact Db.secEq_trans (ih _) (unwatch_secEq db k s)

theorem withAccess_secEq (n : Node) (a : Access) (f : Db → Node × Out)
    (hf : ∀ db, a = .granted db → (f db).1.SecEq n) : (n.withAccess a f).1.SecEq n := by
  unfold Node.withAccess
  cases a with
  | refused out => exact n.secEq_refl
  | granted db => exact hf db rfl

theorem conflict_listed_not_secure (db : Db) (k ck : Bytes) (h : ck ∈ db.listConflictKeys k) : isSecure ck = false := by
  have hall : ∀ x, x ∈ db.listKeys (Gen.conflictsKey ++ [95, 42]) true → isSecure x = false := by
    intro x hx
    unfold Db.listKeys at hx
    rw [mem_sort] at hx
    simp only [List.mem_map, List.mem_filter, Prod.exists, exists_and_right, exists_eq_right] at hx
    obtain ⟨e, _, hc⟩ := hx
    simp only [Bool.true_or, Bool.and_eq_true, Bool.true_and] at hc
    have hp : patternMatch (Gen.conflictsKey ++ [95, 42]) x = true := hc.2
    -- the pattern ends in `*`: a prefix match on `$conflicts_`
    have hd : Bytes.dropByte 42 (Gen.conflictsKey ++ [95, 42]) = Gen.conflictsKey ++ [95] := by decide
    have he : Bytes.endsWith (Gen.conflictsKey ++ [95, 42]) [42] = true := by decide
    have : Bytes.startsWith x (Gen.conflictsKey ++ [95]) = true := by
      unfold patternMatch at hp; rw [if_pos he, hd] at hp; exact hp
    have hc : Gen.conflictsKey ++ [95] = 36 :: 99 :: (Gen.conflictsKey ++ [95]).drop 2 := by decide
    rw [hc] at this
    cases x with
    | nil => simp [Bytes.startsWith] at this
    | cons x0 xs =>
      cases xs with
      | nil => simp [Bytes.startsWith] at this
      | cons x1 xs =>
        simp only [Bytes.startsWith, Bool.and_eq_true, decide_eq_true_eq] at this
        have hs : Gen.securePrefix = [36, 36] := by decide
        simp [isSecure, hs, Bytes.startsWith, this.1, this.2.1]
  unfold Db.listConflictKeys at h
  simp only [] at h
  split at h
  · exact hall ck h
  · exact hall ck (List.mem_filter.1 h).1

theorem granted_filed (n : Node) (hnames : NamesOk n) (db : Db) (h : ∃ d, n.db? d = some db) : n.db? db.name = some db := by
  obtain ⟨d, hd⟩ := h; rw [hnames d db hd]; exact hd

theorem setDb_secEq' (n n' : Node) (db db' : Db) (hdbs : n'.dbs = n.dbs) (hd : n.db? db.name = some db) (h : db'.SecEq db) :
    (n'.setDb db').SecEq n := by
  have hd' : n'.db? db.name = some db := by simpa [Node.db?, hdbs] using hd
  exact Node.secEq_trans (setDb_secEq n' db db' hd' h) (secEq_of_dbs n' n hdbs)

theorem registerArbiter_secEq (db : Db) (sid : Sid) : (Node.registerArbiter db sid).1.SecEq db := by
  unfold Node.registerArbiter
  simp only []
  have hw := watch_secEq db Gen.conflictsKey sid
  generalize db.watch Gen.conflictsKey sid = dbw at hw
  have hmem : ∀ ck ∈ dbw.listConflictKeys [], isSecure ck = false := fun ck h => conflict_listed_not_secure dbw [] ck h
  generalize dbw.listConflictKeys [] = cks at hmem
  suffices H : ∀ (acc : Db × List Ev), acc.1.SecEq db →
      (cks.foldl (fun (acc : Db × List Ev) ck =>
        let (d, evs) := acc
        match d.getValue ck with
        | some e =>
          if Bytes.startsWith e.value Gen.resolvedPrefix then
            match d.removeValue ck with
            | some (d', ps) => (d', evs ++ pushes ps)
            | none => (d, evs)
          else (d, evs ++ d.arbiterPushes e.value)
        | none => (d, evs)) acc).1.SecEq db from H (dbw, []) hw
  induction cks with
  | nil => intro acc h; exact h
  | cons ck rest ih =>
    intro acc h
    simp only [List.foldl_cons]
    apply ih (fun c hc => hmem c (List.mem_cons_of_mem _ hc))
    obtain ⟨d, evs⟩ := acc
    simp only []
    split
    · split
      · split
        · rename_i d' ps heq
          exact Db.secEq_trans (removeValue_secEq d d' ck ps (hmem ck (List.mem_cons_self)) heq) h
        · exact h
      · exact h
    · exact h

theorem namesOk_of_dbs (n n' : Node) (h : n'.dbs = n.dbs) (hn : NamesOk n) : NamesOk n' := by
  intro d db hd; apply hn d db; simpa [Node.db?, h] using hd

theorem namesOk_setDb (n : Node) (db' : Db) (hn : NamesOk n) : NamesOk (n.setDb db') := by
  intro d db hd
  simp only [Node.db?, Node.setDb, AL.get?_put] at hd
  split at hd
  · rename_i heq; simp only [Option.some.injEq] at hd; subst hd; exact heq
  · exact hn d db hd

theorem connectionsKey_not_secure : isSecure Gen.connectionsKey = false := by decide

theorem bumpConn_secEq (n : Node) (db : Db) (c : Nat) (hn : NamesOk n) (hf : n.db? db.name = some db) :
    (((n.setConnCounter { db with conns := c }).1.setDb (n.setConnCounter { db with conns := c }).2.1).SecEq n) ∧
    NamesOk ((n.setConnCounter { db with conns := c }).1.setDb (n.setConnCounter { db with conns := c }).2.1) := by
  have hfr := setConnCounter_frame n { db with conns := c }
  have hs : (n.setConnCounter { db with conns := c }).2.1.SecEq db := by
    have h1 := (setKeyValue_frame n { db with conns := c } Gen.connectionsKey (Bytes.ofNat c) (-1)).2.2 connectionsKey_not_secure
    have h2 : (Db.SecEq { db with conns := c } db) := ⟨rfl, fun _ _ => rfl⟩
    exact Db.secEq_trans h1 h2
  exact ⟨setDb_secEq' n _ db _ hfr.2.2.1 hf hs, namesOk_setDb _ _ (namesOk_of_dbs n _ hfr.2.2.1 hn)⟩

theorem releaseSelected_secEq (n : Node) (s : Session) (hn : NamesOk n) :
    (n.releaseSelected s).1.SecEq n ∧ NamesOk (n.releaseSelected s).1 := by
  unfold Node.releaseSelected
  split
  · rename_i prev _
    split
    · rename_i pdb hp
      have hf : n.db? pdb.name = some pdb := granted_filed n hn pdb ⟨prev, hp⟩
      exact bumpConn_secEq n pdb (pdb.conns - 1) hn hf
    · exact ⟨n.secEq_refl, hn⟩
  · exact ⟨n.secEq_refl, hn⟩

theorem countSelected_secEq (n : Node) (name : Bytes) (hn : NamesOk n) :
    (n.countSelected name).1.SecEq n ∧ NamesOk (n.countSelected name).1 := by
  unfold Node.countSelected
  split
  · rename_i db hp
    have hf : n.db? db.name = some db := granted_filed n hn db ⟨name, hp⟩
    exact bumpConn_secEq n db (db.conns + 1) hn hf
  · exact ⟨n.secEq_refl, hn⟩

theorem applyResolution_secEq (db : Db) (c : Change) (hk : isSecure c.key = false) : (db.applyResolution c).1.SecEq db := by
  unfold Db.applyResolution
  simp only []
  split <;> exact setValue_secEq db _ hk

theorem resolveConflict_secEq (n : Node) (db : Db) (c : Change) (hk : isSecure c.key = false) :
    (n.resolveConflict db c).1.dbs = n.dbs ∧ (n.resolveConflict db c).2.1.SecEq db := by
  unfold Node.resolveConflict
  simp only [Node.tick]
  refine ⟨?_, ?_⟩
  · exact (replicateChange_frame _ _ _).1
  · exact Db.secEq_trans (applyResolution_secEq _ c hk) (setValue_secEq db _ (conflictKey_not_secure _))

/-- what one step must keep: the `$$` entries, and the filing of databases under their own names -/
def Keeps (n' n : Node) : Prop := n'.SecEq n ∧ NamesOk n'

theorem keeps_refl (n : Node) (h : NamesOk n) : Keeps n n := ⟨n.secEq_refl, h⟩

theorem keeps_setDb (n n' : Node) (db db' : Db) (hn : NamesOk n) (hdbs : n'.dbs = n.dbs) (hd : n.db? db.name = some db)
    (h : db'.SecEq db) : Keeps (n'.setDb db') n :=
  ⟨setDb_secEq' n n' db db' hdbs hd h, namesOk_setDb _ _ (namesOk_of_dbs n n' hdbs hn)⟩

theorem withAccess_keeps (n : Node) (a : Access) (f : Db → Node × Out) (hn : NamesOk n)
    (hf : ∀ db, a = .granted db → Keeps (f db).1 n) : Keeps (n.withAccess a f).1 n := by
  unfold Node.withAccess
  cases a with
  | refused out => exact keeps_refl n hn
  | granted db => exact hf db rfl

/-- **integrity of `$$` entries, every request kind**: a session that is not authenticated as
administrator cannot change any `$$` entry of any database with ONE request, whatever the request
is (38 kinds), whatever the node's state — given that nested `rp` lines (handled by `fuel`) cannot
either -/
theorem C08_request_keeps_secure_entries (fuel : Node → Sid → Bytes → Node × Out) (n : Node) (sid : Sid) (req : Request)
    (hfuel : ∀ line, Keeps (fuel n sid line).1 n)
    (ha : (n.session sid).auth = false) (hnames : NamesOk n) :
    Keeps (n.processObj fuel sid req).1 n := by
  cases req
  all_goals try (simp only [Node.processObj, ha, notAuth, Bool.not_false, if_true]; exact keeps_refl n hnames)
  case get key =>
    simp only [Node.processObj]; apply withAccess_keeps _ _ _ hnames; intro db _; exact keeps_refl n hnames
  case getSafe key =>
    simp only [Node.processObj]; apply withAccess_keeps _ _ _ hnames; intro db _; exact keeps_refl n hnames
  case keys pattern =>
    simp only [Node.processObj]; apply withAccess_keeps _ _ _ hnames; intro db _; exact keeps_refl n hnames
  case watch key =>
    simp only [Node.processObj]; apply withAccess_keeps _ _ _ hnames; intro db hg
    have hf := granted_filed n hnames db (safeAccess_granted n sid key .read db hg ha).2
    exact keeps_setDb n n db _ hnames rfl hf (watch_secEq db key sid)
  case unwatch key =>
    simp only [Node.processObj]; apply withAccess_keeps _ _ _ hnames; intro db hg
    have hf := granted_filed n hnames db (selectedDb_granted n sid db hg)
    exact keeps_setDb n n db _ hnames rfl hf (unwatch_secEq db key sid)
  case unwatchAll =>
    simp only [Node.processObj]; apply withAccess_keeps _ _ _ hnames; intro db hg
    have hf := granted_filed n hnames db (selectedDb_granted n sid db hg)
    exact keeps_setDb n n db _ hnames rfl hf (unwatchAll_secEq db sid)
  case arbiter =>
    simp only [Node.processObj]; apply withAccess_keeps _ _ _ hnames; intro db hg
    have hf := granted_filed n hnames db (selectedDb_granted n sid db hg)
    exact keeps_setDb n n db _ hnames rfl hf (registerArbiter_secEq db sid)
  case set key value version =>
    simp only [Node.processObj]; apply withAccess_keeps _ _ _ hnames; intro db hg
    obtain ⟨hk, hex⟩ := safeAccess_granted n sid key .write db hg ha
    have hf := granted_filed n hnames db hex
    have hfr := setKeyValue_frame n db key value version
    exact keeps_setDb n _ db _ hnames hfr.1 hf (hfr.2.2 hk)
  case remove key =>
    simp only [Node.processObj]; apply withAccess_keeps _ _ _ hnames; intro db hg
    obtain ⟨hk, hex⟩ := safeAccess_granted n sid key .remove db hg ha
    have hf := granted_filed n hnames db hex
    split
    · rename_i db' ps heq
      exact keeps_setDb n n db db' hnames rfl hf (removeValue_secEq db db' key ps hk heq)
    · exact keeps_refl n hnames
  case increment key inc =>
    simp only [Node.processObj]; apply withAccess_keeps _ _ _ hnames; intro db hg
    obtain ⟨hk, hex⟩ := safeAccess_granted n sid key .increment db hg ha
    have hf := granted_filed n hnames db hex
    split
    · simp only [Node.tick]
      have hs := incValue_secEq db key inc n.clock hk
      split
      · rename_i db' ps heq
        rw [heq] at hs
        exact keeps_setDb n _ db db' hnames rfl hf hs
      all_goals exact keeps_refl n hnames
    · exact keeps_refl n hnames
  case createUser token userName =>
    simp only [Node.processObj]; apply withAccess_keeps _ _ _ hnames; intro db hg
    have hk := (safeAccess_granted n sid Gen.userKeyPrefix .write db hg ha).1
    exact absurd hk (by decide)
  case setPermissions user perms =>
    simp only [Node.processObj]; apply withAccess_keeps _ _ _ hnames; intro db hg
    have hk := (safeAccess_granted n sid Gen.permKeyPrefix .write db hg ha).1
    exact absurd hk (by decide)
  case replicateRequest str op =>
    simp only [Node.processObj]
    split
    · exact keeps_refl n hnames
    · exact hfuel str
  case resolve op dbName key value version =>
    simp only [Node.processObj, ha, Bool.false_eq_true, if_false, Bool.false_and]
    apply withAccess_keeps _ _ _ hnames; intro db hg
    obtain ⟨hk, hex⟩ := safeAccess_granted n sid key .write db hg ha
    have hf := granted_filed n hnames db hex
    split
    · have hr := resolveConflict_secEq n db { key := key, value := value, version := version, opId := op, resolve := true } hk
      exact keeps_setDb n _ db _ hnames hr.1 hf hr.2
    · exact keeps_refl n hnames
  case useDb token name userName =>
    simp only [Node.processObj]
    split
    · exact keeps_refl n hnames
    · split
      · have h1 := releaseSelected_secEq n (n.session sid) hnames
        generalize (n.releaseSelected (n.session sid)) = rel at h1
        obtain ⟨n1, evs0⟩ := rel
        simp only [] at h1 ⊢
        have hk : ∀ s', Keeps ((n1.setSession sid s').countSelected name).1 n := by
          intro s'
          have h2 := countSelected_secEq (n1.setSession sid s') name (namesOk_of_dbs n1 _ rfl h1.2)
          exact ⟨Node.secEq_trans h2.1 (Node.secEq_trans (secEq_of_dbs _ n1 rfl) h1.1), h2.2⟩
        exact hk _
      · exact keeps_refl n hnames

theorem replicateRequest_dbs (n : Node) (req : Request) (d : Option Bytes) (r : Resp) :
    (n.replicateRequest req d r).1.dbs = n.dbs := by
  have core : (Node.replicateRequestCore n req d r).1.dbs = n.dbs := by
    unfold Node.replicateRequestCore
    cases req <;> simp [Node.replicateWeb, Node.tick]
  unfold Node.replicateRequest
  split
  · rfl
  · split
    · split
      · rfl
      · exact core
    · exact core

/-- one input line, nested `rp` lines included, at every nesting depth -/
theorem C08_recur_keeps (fuel : Nat) : ∀ (n : Node) (sid : Sid) (line : Bytes),
    (n.session sid).auth = false → NamesOk n → Keeps (Node.recurOf fuel n sid line).1 n := by
  induction fuel with
  | zero => intro n sid line _ hn; exact keeps_refl n hn
  | succ f ih =>
    intro n sid line ha hn
    simp only [Node.recurOf, Node.processRequestWith]
    split
    · exact keeps_refl n hn
    · rename_i req _
      have h := C08_request_keeps_secure_entries (Node.recurOf f) n sid req (fun l => ih n sid l ha hn) ha hn
      have hd := replicateRequest_dbs (n.processObj (Node.recurOf f) sid req).1 req (n.session sid).db (n.processObj (Node.recurOf f) sid req).2.1
      exact ⟨Node.secEq_trans (secEq_of_dbs _ _ hd) h.1, namesOk_of_dbs _ _ hd h.2⟩

/-- **C08, integrity, one line**: whatever bytes a session that is not authenticated as
administrator sends as one line — every command, every argument, `rp` nested to any depth —
every `$$` entry of every database of the node is afterwards what it was -/
theorem C08_line_keeps_secure_entries (n : Node) (sid : Sid) (input : Bytes)
    (ha : (n.session sid).auth = false) (hn : NamesOk n) : Keeps (n.exec sid input).1 n := by
  have he : n.exec sid input = Node.recurOf (input.length + 1 + 1) n sid input := by
    simp only [Node.exec, Node.processRequest, Node.recurOf]
  rw [he]
  exact C08_recur_keeps (input.length + 1 + 1) n sid input ha hn

/-- a history of input lines, each from a session that is not administrator at the moment it acts
(a session that authenticates with the administrator password is an administrator from then on
and its later lines are outside this predicate) -/
def NonAdminRun : Node → List (Sid × Bytes) → Prop
  | _, [] => True
  | n, (sid, line) :: rest => (n.session sid).auth = false ∧ NonAdminRun (n.exec sid line).1 rest

def runLines (n : Node) (ls : List (Sid × Bytes)) : Node := ls.foldl (fun n p => (n.exec p.1 p.2).1) n

/-- **C08, integrity, every history**: after ANY sequence of lines from any number of sessions,
none of which is an administrator when it acts, every `$$` entry of every database is what it was
at the start -/
theorem C08_history_keeps_secure_entries (ls : List (Sid × Bytes)) : ∀ (n : Node), NamesOk n → NonAdminRun n ls →
    Keeps (runLines n ls) n := by
  induction ls with
  | nil => intro n hn _; exact keeps_refl n hn
  | cons p rest ih =>
    intro n hn hrun
    obtain ⟨sid, line⟩ := p
    obtain ⟨ha, hrest⟩ := hrun
    have h1 := C08_line_keeps_secure_entries n sid line ha hn
    have h2 := ih (n.exec sid line).1 h1.2 hrest
    exact ⟨Node.secEq_trans h2.1 h1.1, h2.2⟩

/-! ## `NamesOk` is an invariant of every request of every session (administrators included) -/

theorem startElection_dbs (n : Node) : n.startElection.1.dbs = n.dbs := by
  unfold Node.startElection
  split
  · rfl
  · split <;> simp [Node.electionWin, Node.replicateWeb, Node.tick]

theorem startNewElection_dbs (n : Node) : n.startNewElection.1.dbs = n.dbs := by
  unfold Node.startNewElection; rw [startElection_dbs]

theorem snapshotByName_dbs (n : Node) (d : Bytes) (r : Bool) : (n.snapshotByName d r).1.dbs = n.dbs := by
  unfold Node.snapshotByName; split <;> rfl

theorem AL.get?_append' {β : Type} (a b : List (Bytes × β)) (k : Bytes) :
    AL.get? (a ++ b) k = (AL.get? a k).orElse fun _ => AL.get? b k := by
  induction a with
  | nil => simp [AL.get?]
  | cons h t ih =>
    obtain ⟨k0, v0⟩ := h
    simp only [List.cons_append, AL.get?]
    split
    · simp
    · exact ih

theorem addDatabase_namesOk (n : Node) (db : Db) (hn : NamesOk n) : NamesOk (n.addDatabase db).1 := by
  unfold Node.addDatabase
  split
  · exact hn
  · have hn' : NamesOk { n with idName := AL.put n.idName db.id db.name, dbs := n.dbs ++ [(db.name, db)] } := by
      intro d x hd
      simp only [Node.db?] at hd
      rw [AL.get?_append'] at hd
      cases h : AL.get? n.dbs d with
      | some y => rw [h] at hd; simp at hd; subst hd; exact hn d y h
      | none =>
        rw [h] at hd
        simp only [AL.get?, Option.orElse] at hd
        split at hd
        · simp at hd; subst hd; assumption
        · simp at hd
    simp only []
    split
    · simp only [Node.tick]
      exact namesOk_setDb _ _ (namesOk_of_dbs _ _ rfl hn')
    · exact hn'

theorem namesOk_setKeyValue (n : Node) (db : Db) (k v : Bytes) (ver : Int) (hn : NamesOk n) : NamesOk (n.setKeyValue db k v ver).1 :=
  namesOk_of_dbs n _ (setKeyValue_frame n db k v ver).1 hn

theorem namesOk_setKeyValue_eq {n n' : Node} {db db' : Db} {k v : Bytes} {ver : Int} {r : Resp} {evs : List Ev}
    (h : n.setKeyValue db k v ver = (n', db', r, evs)) (hn : NamesOk n) : NamesOk n' := by
  have := namesOk_setKeyValue n db k v ver hn; rw [h] at this; exact this

theorem namesOk_addDatabase_eq {m n' : Node} {db : Db} {b : Bool} {evs : List Ev}
    (h : m.addDatabase db = (n', b, evs)) (hm : NamesOk m) : NamesOk n' := by
  have := addDatabase_namesOk m db hm; rw [h] at this; exact this

theorem namesOk_useDb (n : Node) (s s' : Session) (sid : Sid) (name : Bytes) (hn : NamesOk n) :
    NamesOk (((n.releaseSelected s).1.setSession sid s').countSelected name).1 :=
  (countSelected_secEq ((n.releaseSelected s).1.setSession sid s') name
    (namesOk_of_dbs (n.releaseSelected s).1 _ rfl (releaseSelected_secEq n s hn).2)).2

theorem resolveConflict_dbs (n : Node) (db : Db) (c : Change) : (n.resolveConflict db c).1.dbs = n.dbs := by
  unfold Node.resolveConflict
  simp only [Node.tick]
  exact (replicateChange_frame _ _ _).1

theorem snapshotFold_dbs (names : List Bytes) (r : Bool) : ∀ (n : Node),
    (names.foldl (fun n d => (n.snapshotByName d r).1) n).dbs = n.dbs := by
  induction names with
  | nil => intro n; rfl
  | cons d rest ih => intro n; simp only [List.foldl_cons]; rw [ih, snapshotByName_dbs]

theorem snapshotFold2_dbs (names : List Bytes) (r : Bool) : ∀ (acc : Node × Option Bytes),
    (names.foldl (fun (acc : Node × Option Bytes) d =>
      match acc.1.snapshotByName d r with
      | (n', some e) => (n', some e)
      | (n', none) => (n', acc.2)) acc).1.dbs = acc.1.dbs := by
  induction names with
  | nil => intro acc; rfl
  | cons d rest ih =>
    intro acc; simp only [List.foldl_cons]; rw [ih]
    have := snapshotByName_dbs acc.1 d r
    split <;> (rename_i heq; rw [heq] at this; exact this)

theorem withAccess_namesOk (n : Node) (a : Access) (f : Db → Node × Out) (hn : NamesOk n)
    (hf : ∀ db, NamesOk (f db).1) : NamesOk (n.withAccess a f).1 := by
  unfold Node.withAccess
  cases a with
  | refused out => exact hn
  | granted db => exact hf db

theorem processObj_namesOk (fuel : Node → Sid → Bytes → Node × Out) (n : Node) (sid : Sid) (req : Request)
    (hfuel : ∀ line, NamesOk (fuel n sid line).1) (hn : NamesOk n) : NamesOk (n.processObj fuel sid req).1 := by
  cases req
  all_goals simp only [Node.processObj]
  all_goals try (apply withAccess_namesOk _ _ _ hn; intro db)
  all_goals try (repeat' split)
  all_goals try exact hn
  all_goals try (first
    | exact namesOk_setDb _ _ hn
    | exact namesOk_setDb _ _ (namesOk_of_dbs n _ rfl hn)
    | exact namesOk_setDb _ _ (namesOk_setKeyValue _ _ _ _ _ hn)
    | exact namesOk_setDb _ _ (namesOk_setKeyValue_eq (by assumption) hn)
    | exact namesOk_addDatabase_eq (by assumption) (namesOk_setKeyValue _ _ _ _ _ hn)
    | exact namesOk_useDb n _ _ sid _ hn
    | exact namesOk_of_dbs n _ rfl hn
    | exact namesOk_of_dbs n _ (startNewElection_dbs _) hn
    | exact namesOk_of_dbs n _ (startElection_dbs _) hn
    | exact namesOk_of_dbs n _ (snapshotByName_dbs _ _ _) hn
    | exact namesOk_setDb _ _ (namesOk_of_dbs n _ (resolveConflict_dbs _ _ _) hn)
    | exact namesOk_of_dbs n _ (snapshotFold_dbs _ _ _) hn
    | exact namesOk_of_dbs n _ (snapshotFold2_dbs _ _ (n, none)) hn
    | exact hfuel _)


theorem recurOf_namesOk (fuel : Nat) : ∀ (n : Node) (sid : Sid) (line : Bytes), NamesOk n → NamesOk (Node.recurOf fuel n sid line).1 := by
  induction fuel with
  | zero => intro n sid line hn; exact hn
  | succ f ih =>
    intro n sid line hn
    simp only [Node.recurOf, Node.processRequestWith]
    split
    · exact hn
    · rename_i req _
      have h := processObj_namesOk (Node.recurOf f) n sid req (fun l => ih n sid l hn) hn
      exact namesOk_of_dbs _ _ (replicateRequest_dbs _ req (n.session sid).db _) h

theorem exec_namesOk (n : Node) (sid : Sid) (input : Bytes) (hn : NamesOk n) : NamesOk (n.exec sid input).1 := by
  have he : n.exec sid input = Node.recurOf (input.length + 1 + 1) n sid input := by
    simp only [Node.exec, Node.processRequest, Node.recurOf]
  rw [he]; exact recurOf_namesOk _ n sid input hn

theorem runLines_namesOk (ls : List (Sid × Bytes)) : ∀ (n : Node), NamesOk n → NamesOk (runLines n ls) := by
  induction ls with
  | nil => intro n hn; exact hn
  | cons p rest ih => intro n hn; exact ih _ (exec_namesOk n p.1 p.2 hn)

/-- **C08, integrity, every reachable state**: start from any node that files its databases under
their names (the start-up state does: `namesOk_single`), let ANY sessions — administrators
included — send ANY lines; in the state reached, a line from a session that is not an
administrator leaves every `$$` entry of every database as it is.  So `$$` entries change only in
steps taken by administrator sessions. -/
theorem C08_only_administrators_change_secure_entries (n0 : Node) (h0 : NamesOk n0) (history : List (Sid × Bytes))
    (sid : Sid) (line : Bytes) (ha : ((runLines n0 history).session sid).auth = false) :
    ((runLines n0 history).exec sid line).1.SecEq (runLines n0 history) :=
  (C08_line_keeps_secure_entries _ sid line ha (runLines_namesOk history n0 h0)).1

/-- a node with one database filed under its own name (the start-up state: `$admin`) -/
theorem namesOk_single (n : Node) (d : Bytes) (db : Db) (h : n.dbs = [(d, db)]) (hname : db.name = d) : NamesOk n := by
  intro d' x hd
  simp only [Node.db?, h, AL.get?] at hd
  split at hd
  · simp only [Option.some.injEq] at hd; subst hd; rename_i he; rw [hname]; exact he
  · simp at hd

/-! ## Non-vacuity: a reachable state with a `$$` entry and a non-administrator session that tried to overwrite it -/

def c08Start : Node :=
  { user := b!"adm", pwd := b!"pw", addr := b!"n1", pid := 1, role := .primary, dbs := [(b!"t", Db.new b!"t" 1 .none)],
    idName := [(1, b!"t")], sessions := [], clock := 5, members := [], pending := [], toSnapshot := [], keysMap := [], oplogValid := true }
def c08History : List (Sid × Bytes) :=
  [(1, b!"auth adm pw"), (1, b!"create-db v tok arbiter"), (1, b!"use-db v tok"), (1, b!"set $$secret alpha"), (2, b!"use-db v tok"), (2, b!"set $$secret hack"), (2, b!"set k 1")]
example : NamesOk c08Start := namesOk_single _ _ _ rfl rfl
example : ((runLines c08Start c08History).session 2).auth = false := by decide +kernel
example : ((runLines c08Start c08History).secView b!"v" b!"$$secret").map (·.value) = some b!"alpha" := by decide +kernel

/-- the instance of the reachability theorem at that state -/
example : ((runLines c08Start c08History).exec 2 b!"remove $$secret").1.SecEq (runLines c08Start c08History) :=
  C08_only_administrators_change_secure_entries c08Start (namesOk_single _ _ _ rfl rfl) c08History 2 _ (by decide +kernel)

/-- the starting state files no database at all, so `NamesOk` holds of it; and a `$$` entry set by an
administrator is a state the theorems speak about non-vacuously -/
theorem namesOk_of_empty (n : Node) (h : n.dbs = []) : NamesOk n := by
  intro d db hd; simp [Node.db?, h] at hd

end Nun
