import NunVerif.Props.C20
import NunVerif.Gen.Trailers
/-!
# The socket front ends: one request at a time, in order, one trailer each

`Model/Session.lean` has the per-request glue of the tcp loop (`Node.tcpLine`) and of the websocket
handler (`Node.wsMessage`: one text message is split at `;`, every piece is a request).  The real
front ends are compared with these functions byte for byte (`vlib/transport.py`).  What the functions
themselves guarantee, for every node state, session and input:
-/
namespace Nun

/-- the node after a websocket message is the node after running its pieces one by one, in order -/
theorem wsLoop_state (sid : Sid) (pieces : List Bytes) : ∀ (n : Node) (out : Bytes) (evs : List Ev),
    (wsLoop sid pieces n out evs).1 = pieces.foldl (fun n p => (n.exec sid p).1) n := by
  induction pieces with
  | nil => intro n out evs; rfl
  | cons p t ih =>
    intro n out evs
    simp only [wsLoop, List.foldl_cons]
    generalize n.exec sid p = r
    obtain ⟨n1, r1, e1⟩ := r
    exact ih n1 _ _

theorem C20_ws_message_runs_pieces_in_order (n : Node) (sid : Sid) (text : Bytes) :
    (n.wsMessage sid text).1 = (Bytes.splitAll 59 text).foldl (fun n p => (n.exec sid p).1) n :=
  wsLoop_state sid _ n [] []

/-- what the connection receives for a message: for every piece, in order, what that piece pushed on
the session's own channel followed by ONE trailer — nothing is dropped, nothing is shared between pieces -/
def wsSocket (sid : Sid) : List Bytes → Node → Bytes
  | [], _ => []
  | p :: t, n => socketBytes true sid (n.exec sid p).2.1 (n.exec sid p).2.2 ++ wsSocket sid t (n.exec sid p).1

theorem wsLoop_socket (sid : Sid) (pieces : List Bytes) : ∀ (n : Node) (out : Bytes) (evs : List Ev),
    (wsLoop sid pieces n out evs).2.1 = out ++ wsSocket sid pieces n := by
  induction pieces with
  | nil => intro n out evs; simp [wsLoop, wsSocket]
  | cons p t ih =>
    intro n out evs
    simp only [wsLoop, wsSocket]
    generalize n.exec sid p = r
    obtain ⟨n1, r1, e1⟩ := r
    simp only []
    rw [ih n1 _ _, List.append_assoc]

theorem C20_ws_message_one_trailer_per_piece (n : Node) (sid : Sid) (text : Bytes) :
    (n.wsMessage sid text).2.1 = wsSocket sid (Bytes.splitAll 59 text) n := by
  unfold Node.wsMessage
  rw [wsLoop_socket]; rfl

/-- every request ends with exactly the trailer of its response: `error <msg>` for an error, `ok` otherwise -/
theorem socketBytes_ends_with_trailer (ws : Bool) (sid : Sid) (r : Resp) (es : List Ev) :
    ∃ pushed, socketBytes ws sid r es = pushed ++ transportTrailer ws r := ⟨_, rfl⟩

theorem transportTrailer_ok (ws : Bool) (r : Resp) (h : r.isError = false) : transportTrailer ws r = b!"ok \n" := by
  cases r <;> first | rfl | (simp [Resp.isError] at h)

/-- the only difference between the two transports: a version error is `ok` on tcp and `error <msg>` on a websocket -/
theorem transportTrailer_differs_only_on_version_errors (r : Resp) (h : ∀ m k o v, r ≠ .versionError m k o v) :
    transportTrailer true r = transportTrailer false r := by
  cases r with
  | versionError m k o v => exact absurd rfl (h m k o v)
  | _ => rfl

/-- a tcp line leaves the node as `process_request` on that line does (the line's `\n` included) -/
theorem tcpLine_state (n : Node) (sid : Sid) (line : Bytes) : (n.tcpLine sid line).1 = (n.exec sid (line ++ [10])).1 := by
  unfold Node.tcpLine
  generalize n.exec sid (line ++ [10]) = r
  obtain ⟨n1, r1, e1⟩ := r
  rfl


/-! ### the trailer function against the arms of the source -/

/-- the trailer table `transportTrailer` stands for: which Response variants each front end answers with an
`error` line, everything else with `ok` -/
def modelTrailerTable : List (List Nat × List Nat × List Nat) :=
  [(b!"tcp", b!"Error", b!"error {} \n"), (b!"tcp", b!"_", b!"ok \n"),
   (b!"ws", b!"Error", b!"error {} \n"), (b!"ws", b!"VersionError", b!"error {} \n"), (b!"ws", b!"_", b!"ok \n")]

/-- the arms of the two socket loops, regenerated from tcp_ops.rs / ws_ops.rs on every run, are the table the model assumes -/
theorem C20_trailer_arms_of_the_source : Gen.trailerTable = modelTrailerTable := by decide +kernel

/-- … and `transportTrailer` is that table: an `error <msg> ` line for the variants it lists, `ok ` otherwise -/
theorem transportTrailer_is_the_table (msg key : Bytes) (o v : Int) (k2 v2 : Bytes) (ver : Int) :
    transportTrailer false (.error msg) = b!"error " ++ msg ++ b!" \n" ∧
    transportTrailer true (.error msg) = b!"error " ++ msg ++ b!" \n" ∧
    transportTrailer true (.versionError msg key o v) = b!"error " ++ msg ++ b!" \n" ∧
    transportTrailer false (.versionError msg key o v) = b!"ok \n" ∧
    transportTrailer false .ok = b!"ok \n" ∧ transportTrailer true .ok = b!"ok \n" ∧
    transportTrailer false (.set k2 v2) = b!"ok \n" ∧ transportTrailer true (.value k2 v2 ver) = b!"ok \n" :=
  ⟨rfl, rfl, rfl, rfl, rfl, rfl, rfl, rfl⟩

end Nun
