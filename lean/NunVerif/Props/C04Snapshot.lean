import NunVerif.Props.C04Format
import NunVerif.Proofs.WireParse
import NunVerif.Props.C04NewerData
/-!
# C04 — the snapshot line names the databases the primary queued

A client's `snapshot <reclaim> [names]` makes the primary queue a snapshot of the named databases — of the
selected one when no name is given — and print `replicate-snapshot <a|b|…> <reclaim>` for the secondaries.
This file proves the wire half for EVERY list of names: the printed line reads back as
`replicateSnapshot reclaim names` with exactly the names it was printed from (the `|`-join and the
`|`-split are inverse for names without `|`, blanks or line feeds).  Seed C04-7 made the printed names
differ from the queued ones; the cluster scenarios `snapshot-names` compare the queues node by node.
-/
namespace Nun
open Bytes

theorem join_cons_cons (sep x y : Bytes) (r : List Bytes) : Bytes.join sep (x :: y :: r) = x ++ sep ++ Bytes.join sep (y :: r) := rfl

theorem join_length_pos (names : List Bytes) (hne : names ≠ []) (h : ∀ x ∈ names, x ≠ []) : 0 < (Bytes.join [124] names).length := by
  cases names with
  | nil => exact absurd rfl hne
  | cons x t =>
    have hx : 0 < x.length := List.length_pos_iff.2 (h x List.mem_cons_self)
    cases t with
    | nil => simpa [Bytes.join] using hx
    | cons y r => rw [join_cons_cons]; simp only [List.length_append]; omega

/-- `split('|')` undoes `join("|")` — for any budget that is not exhausted -/
theorem splitn_join (names : List Bytes) : ∀ (n : Nat), names ≠ [] → (∀ x ∈ names, 124 ∉ x) →
    (Bytes.join [124] names).length ≤ n → splitn 124 (n + 2) (Bytes.join [124] names) = names := by
  induction names with
  | nil => intro n h; exact absurd rfl h
  | cons x t ih =>
    intro n _ hno hlen
    cases t with
    | nil =>
      simp only [Bytes.join]
      exact splitn_last 124 n x (hno x List.mem_cons_self)
    | cons y r =>
      rw [join_cons_cons] at hlen ⊢
      have e : x ++ [124] ++ Bytes.join [124] (y :: r) = x ++ 124 :: Bytes.join [124] (y :: r) := by simp
      rw [e] at hlen ⊢
      rw [splitn_cons 124 n x _ (hno x List.mem_cons_self)]
      simp only [List.length_append, List.length_cons] at hlen
      obtain ⟨m, hm⟩ : ∃ m, n + 1 = m + 2 := ⟨n - 1, by omega⟩
      rw [hm, ih m (by simp) (fun z hz => hno z (List.mem_cons_of_mem _ hz)) (by omega)]

theorem splitAll_join (names : List Bytes) (hne : names ≠ []) (hno : ∀ x ∈ names, 124 ∉ x) :
    Bytes.splitAll 124 (Bytes.join [124] names) = names := by
  unfold Bytes.splitAll
  exact splitn_join names _ hne hno (Nat.le_refl _)

def snapshotLine (names : List Bytes) (reclaim : Bool) : Bytes :=
  b!"replicate-snapshot " ++ Bytes.join [124] names ++ [32] ++ (if reclaim then b!"true" else b!"false")

theorem not_mem_join (c : Nat) (hc : c ≠ 124) (names : List Bytes) (h : ∀ x ∈ names, c ∉ x) : c ∉ Bytes.join [124] names := by
  induction names with
  | nil => simp [Bytes.join]
  | cons x t ih =>
    cases t with
    | nil => simpa [Bytes.join] using h x List.mem_cons_self
    | cons y r =>
      rw [join_cons_cons]
      intro hm
      rcases List.mem_append.1 hm with hm | hm
      · rcases List.mem_append.1 hm with hm | hm
        · exact h x List.mem_cons_self hm
        · simp only [List.mem_singleton] at hm; exact hc hm
      · exact ih (fun z hz => h z (List.mem_cons_of_mem _ hz)) hm

/-- **the snapshot line reads back as the snapshot it was printed from** — the same databases, the same mode -/
theorem parse_snapshotLine (names : List Bytes) (reclaim : Bool) (hne : names ≠ [])
    (hbar : ∀ x ∈ names, 124 ∉ x) (hsp : ∀ x ∈ names, 32 ∉ x) (hnl : ∀ x ∈ names, 10 ∉ x) :
    Request.parse (snapshotLine names reclaim) = .ok (.replicateSnapshot reclaim names) := by
  unfold Request.parse
  have hshape : snapshotLine names reclaim = b!"replicate-snapshot" ++ 32 :: (Bytes.join [124] names ++ 32 :: (if reclaim then b!"true" else b!"false")) := by
    simp [snapshotLine]
  have hlast : (snapshotLine names reclaim).getLast? ≠ some 59 := by
    rw [hshape, getLast?_sep, if_neg (by cases reclaim <;> simp), getLast?_sep, if_neg (by cases reclaim <;> simp)]
    cases reclaim <;> decide
  rw [trimEnd_id 59 _ hlast, hshape]
  rw [splitn_cons 32 1 _ _ (by decide), splitn_cons 32 0 _ _ (not_mem_join 32 (by decide) names hsp)]
  simp only [splitn]
  have hcmd : (b!"replicate-snapshot" = ([] : Bytes)) = False := by simp
  simp only [hcmd, if_false]
  unfold parseArgs
  have hj : noNl (Bytes.join [124] names) = Bytes.join [124] names := dropByte_id 10 _ (not_mem_join 10 (by decide) names hnl)
  have ht : noNl b!"true" = b!"true" := by decide
  have hf : noNl b!"false" = b!"false" := by decide
  cases reclaim <;>
    simp (decide := true) only [List.getElem?_cons_zero, List.getElem?_cons_succ, Option.getD_some, if_false, if_true, hj, ht, hf, splitAll_join names hne hbar,
      decide_true, decide_false]


/-- the databases a `snapshot` command is about: the named ones, else the selected one -/
def snapshotTargets (names : List Bytes) (sel : Bytes) : List Bytes := if names.isEmpty then [sel] else names

/-- what the primary prints for the secondaries is the line of exactly those databases -/
theorem replicateRequestCore_snapshot (n : Node) (reclaim : Bool) (names : List Bytes) (sel : Option Bytes) (r : Resp) :
    n.replicateRequestCore (.snapshot reclaim names) sel r =
      ((n.replicateWeb (snapshotLine (snapshotTargets names (sel.getD [])) reclaim)).1, .ok,
       (n.replicateWeb (snapshotLine (snapshotTargets names (sel.getD [])) reclaim)).2) := by
  unfold Node.replicateRequestCore snapshotLine snapshotTargets
  simp only []

/-- what the primary's own executor queues for an accepted `snapshot` whose databases all exist: one entry
per target, in order, with the command's mode -/
theorem processObj_snapshot_queues (recur : Node → Sid → Bytes → Node × Out) (n : Node) (sid : Sid) (reclaim : Bool) (names : List Bytes) (sel : Bytes)
    (hauth : (n.session sid).auth = true) (hsel : (n.session sid).db = some sel)
    (hall : ∀ d ∈ snapshotTargets names sel, (n.db? d).isSome) :
    (n.processObj recur sid (.snapshot reclaim names)).1.toSnapshot = n.toSnapshot ++ (snapshotTargets names sel).map (·, reclaim) ∧
    (n.processObj recur sid (.snapshot reclaim names)).2.1 = .ok := by
  have hfold : ∀ (l : List Bytes) (m : Node), (∀ d ∈ l, (m.db? d).isSome) → (∀ d, m.db? d = n.db? d) →
      (l.foldl (fun n d => (n.snapshotByName d reclaim).1) m).toSnapshot = m.toSnapshot ++ l.map (·, reclaim) := by
    intro l
    induction l with
    | nil => intro m _ _; simp
    | cons d t ih =>
      intro m hm hdb
      simp only [List.foldl_cons, List.map_cons]
      have hd : (m.db? d).isSome := hm d List.mem_cons_self
      have h1 : (m.snapshotByName d reclaim).1 = { m with toSnapshot := m.toSnapshot ++ [(d, reclaim)] } := by
        simp [Node.snapshotByName, hd]
      rw [h1, ih _ (fun x hx => by have := hm x (List.mem_cons_of_mem _ hx); simpa [Node.db?] using this) (fun x => by simpa [Node.db?] using hdb x)]
      simp
  unfold snapshotTargets at hall ⊢
  simp only [Node.processObj, hauth, Bool.not_true, Bool.false_eq_true, if_false]
  by_cases he : names.isEmpty = true
  · simp only [he, if_true, hsel] at hall ⊢
    have hd : (n.db? sel).isSome := hall sel (by simp)
    simp [Node.snapshotByName, hd]
  · simp only [he, if_false] at hall ⊢
    have hmiss : names.filter (fun d => (n.db? d).isNone) = [] := by
      rw [List.filter_eq_nil_iff]
      intro d hd
      have := hall d hd
      cases h : n.db? d with
      | none => rw [h] at this; cases this
      | some x => simp
    simp only [hmiss]
    exact ⟨hfold names n hall (fun _ => rfl), rfl⟩


/-! ### the `resolve` line (C13's replicated resolution) -/

theorem resolveMsg_shape (op : Nat) (db key value : Bytes) (ver : Int) :
    resolveMsg op db key value ver = b!"resolve" ++ 32 :: (Bytes.ofNat op ++ 32 :: (db ++ 32 :: (key ++ 32 :: (ofInt ver ++ 32 :: value)))) := by
  simp [resolveMsg]

/-- **resolve**: the line a node prints for a resolution reads back as that resolution — the same operation,
the same DATABASE (the one the command named), key, version and value -/
theorem parse_resolveMsg (op : Nat) (db key value : Bytes) (ver : Int) (hop : op < u64Bound) (w : WireOk db key value) (hdbnl : 10 ∉ db)
    (hv : fitsI32 ver = true) :
    Request.parse (resolveMsg op db key value ver) = .ok (.resolve op db key value ver) := by
  unfold Request.parse
  have hlast : (resolveMsg op db key value ver).getLast? ≠ some 59 := by
    rw [resolveMsg_shape, getLast?_sep, if_neg (by simp), getLast?_sep, if_neg (by simp), getLast?_sep, if_neg (by simp), getLast?_sep, if_neg (by simp), getLast?_sep]
    split
    · simp
    · exact w.val_semi
  rw [trimEnd_id 59 _ hlast, resolveMsg_shape]
  rw [splitn_cons 32 1 _ _ (by decide), splitn_cons 32 0 _ _ (ofNat_not_mem op 32 (by decide))]
  simp only [splitn]
  have hcmd : (b!"resolve" = ([] : Bytes)) = False := by simp
  simp only [hcmd, if_false]
  unfold parseArgs
  simp only [List.getElem?_cons_zero, List.getElem?_cons_succ, Option.getD_some]
  have h4 : splitn 32 4 (db ++ 32 :: (key ++ 32 :: (ofInt ver ++ 32 :: value))) = [db, key, ofInt ver, value] := by
    rw [splitn_cons 32 2 _ _ w.db_sp, splitn_cons 32 1 _ _ w.key_sp, splitn_cons 32 0 _ _ (ofInt_not_mem ver 32 (by decide) (by decide))]
    simp [splitn]
  simp (decide := true) only [h4, List.getElem?_cons_zero, List.getElem?_cons_succ, Option.getD_some, if_false, if_true,
    parseU64_ofNat op hop, parseVersionField_ofInt ver hv, noNl, dropByte_id 10 key w.key_nl, dropByte_id 10 value w.val_nl, dropByte_id 10 db hdbnl]

/-- what a node prints for a resolve names the database of the COMMAND, whatever the session has selected -/
theorem replicateRequestCore_resolve (n : Node) (op : Nat) (db key value : Bytes) (ver : Int) (sel : Option Bytes) (r : Resp) :
    n.replicateRequestCore (.resolve op db key value ver) sel r =
      ((n.replicateWeb (resolveMsg op db key value ver)).1, .ok, (n.replicateWeb (resolveMsg op db key value ver)).2) := by
  unfold Node.replicateRequestCore
  simp only []


/-! ### the `create-db` line of live replication -/

def createDbLine (name token : Bytes) (st : Strategy) : Bytes := b!"create-db " ++ name ++ [32] ++ token ++ [32] ++ st.toBytes

theorem strategy_roundtrip (st : Strategy) : Strategy.ofBytes (noNl st.toBytes) = st := by cases st <;> decide

/-- **create-db**: the line the primary prints for a new database reads back with the same name, token and
conflict strategy (the resynchronisation's `create-db <name> <token>` — without the strategy — is the
recorded finding of C05; this is the LIVE line) -/
theorem parse_createDbLine (name token : Bytes) (st : Strategy) (hn : 32 ∉ name) (ht : 32 ∉ token) (htnl : 10 ∉ token) :
    Request.parse (createDbLine name token st) = .ok (.createDb token name st) := by
  unfold Request.parse
  have hshape : createDbLine name token st = b!"create-db" ++ 32 :: (name ++ 32 :: (token ++ 32 :: st.toBytes)) := by simp [createDbLine]
  have hlast : (createDbLine name token st).getLast? ≠ some 59 := by
    rw [hshape, getLast?_sep, if_neg (by cases st <;> simp [Strategy.toBytes]), getLast?_sep, if_neg (by cases st <;> simp [Strategy.toBytes]),
      getLast?_sep, if_neg (by cases st <;> simp [Strategy.toBytes])]
    cases st <;> decide
  rw [trimEnd_id 59 _ hlast, hshape]
  rw [splitn_cons 32 1 _ _ (by decide), splitn_cons 32 0 _ _ hn]
  simp only [splitn]
  have hcmd : (b!"create-db" = ([] : Bytes)) = False := by simp
  simp only [hcmd, if_false]
  unfold parseArgs
  simp only [List.getElem?_cons_zero, List.getElem?_cons_succ, Option.getD_some]
  have h2 : splitn 32 2 (token ++ 32 :: st.toBytes) = [token, st.toBytes] := by
    rw [splitn_cons 32 0 _ _ ht]; simp [splitn]
  simp (decide := true) only [h2, List.getElem?_cons_zero, List.getElem?_cons_succ, Option.getD_some, if_false, if_true,
    strategy_roundtrip, noNl, dropByte_id 10 token htnl]
  rw [show Bytes.dropByte 10 st.toBytes = noNl st.toBytes from rfl, strategy_roundtrip]

theorem replicateRequestCore_createDb (n : Node) (token name : Bytes) (st : Strategy) (sel : Option Bytes) (r : Resp) :
    n.replicateRequestCore (.createDb token name st) sel r =
      ((n.replicateWeb (createDbLine name token st)).1, .ok, (n.replicateWeb (createDbLine name token st)).2) := by
  unfold Node.replicateRequestCore createDbLine
  simp only []

/-! ### the two lines above are the lines the source prints (`Gen/Wire.lean`, interpreted) -/

theorem C04_create_db_line_is_generated (name token : Bytes) (st : Strategy) :
    armFmt 0 [name, token, st.toBytes] = some (createDbLine name token st) := by
  unfold armFmt; rw [C04_wire_arm_formats]; simp [fmtWith, createDbLine]

theorem C04_snapshot_line_is_generated (names : List Bytes) (reclaim : Bool) :
    armFmt 1 [Bytes.join [124] names, if reclaim then b!"true" else b!"false"] = some (snapshotLine names reclaim) := by
  unfold armFmt; rw [C04_wire_arm_formats]; simp [fmtWith, snapshotLine]

end Nun
