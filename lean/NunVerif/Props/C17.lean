import NunVerif.Props.C09
import NunVerif.Proofs.AL
/-!
# C17 — `$connections` equals the number of open sessions on the database

Counter bookkeeping of `use-db` / `Client::left` in the model (`Node.processObj … (.useDb …)`,
`Node.left`). The sequence-level invariant (counter = number of bound open sessions, for every
connect / use-db / disconnect history) is checked exhaustively against the implementation by
checks/c17.py; the lemmas below are the step facts it rests on.
-/
namespace Nun

/-- a failed `use-db` (unknown database or wrong token) changes no counter and no binding -/
theorem C17_failed_usedb_noop (fuel : Node → Sid → Bytes → Node × Out) (n : Node) (sid : Sid) (token name : Bytes) (user : Option Bytes)
    (he : (n.processObj fuel sid (.useDb token name user)).2.1.isError = true) :
    (n.processObj fuel sid (.useDb token name user)).1 = n :=
  C09_failed_usedb_keeps_selection fuel n sid token name user he

/-- writing the mirror key never touches the counter, the name or the watcher lists -/
theorem setValue_conns (db : Db) (c : Change) :
    (db.setValue c).1.conns = db.conns ∧ (db.setValue c).1.name = db.name ∧ (db.setValue c).1.watchers = db.watchers := by
  unfold Db.setValue
  cases db.getValue c.key with
  | none => simp [Db.setValueVersion]
  | some old => simp only []; split <;> simp [Db.setValueVersion]

/-- `Client::left` on a session without a selection changes nothing -/
theorem C17_left_unbound_noop (n : Node) (sid : Sid) (h : (n.session sid).db = none) : (n.left sid).1 = n := by
  simp [Node.left, h]

/-- the disconnect sequence ends with the session gone -/
theorem C17_close_removes_session (n : Node) (sid : Sid) : AL.get? (n.close sid).1.sessions sid = none := by
  unfold Node.close
  split
  split
  exact AL.get?_erase_same _ _

end Nun
