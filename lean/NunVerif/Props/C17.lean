import NunVerif.Props.C09
import NunVerif.Proofs.AL
/-!
# C17 — `$connections` equals the number of open sessions on the database

Counter bookkeeping of `use-db` / `Client::left` in the model (`Node.processObj … (.useDb …)`,
`Node.left`). The sequence-level invariant (counter = number of bound open sessions, for every use-db /
disconnect history) is `C17_counter_equals_bound_sessions` at the end of this file; the first
lemmas are step facts, checks/c17.py ties the model to the code.
-/
namespace Nun

/-- a failed `use-db` (unknown database or wrong token) changes no counter and no binding -/
theorem C17_failed_usedb_noop (fuel : Node → Sid → Bytes → Node × Out) (n : Node) (sid : Sid) (token name : Bytes) (user : Option Bytes)
    (he : (n.processObj fuel sid (.useDb token name user)).2.1.isError = true) :
    (n.processObj fuel sid (.useDb token name user)).1 = n :=
  C09_failed_usedb_keeps_selection fuel n sid token name user he

/-- writing the mirror key never touches the counter, the name or the watcher lists -/
theorem setValue_conns (db : Db) (c : Change) :
    (db.setValue c).1.conns = db.conns ∧ (db.setValue c).1.name = db.name ∧ (db.setValue c).1.watchers = db.watchers := by
  unfold Db.setValue
  cases db.getValue c.key with
  | none => simp [Db.setValueVersion]
  | some old => simp only []; split <;> simp [Db.setValueVersion]

/-- `Client::left` on a session without a selection changes nothing -/
theorem C17_left_unbound_noop (n : Node) (sid : Sid) (h : (n.session sid).db = none) : (n.left sid).1 = n := by
  simp [Node.left, h]

/-- the disconnect sequence ends with the session gone -/
theorem C17_close_removes_session (n : Node) (sid : Sid) : AL.get? (n.close sid).1.sessions sid = none := by
  unfold Node.close
  split
  split
  exact AL.get?_erase_same _ _

end Nun

/-! ## The sequence-level invariant: counter = number of bound sessions, for every history -/

namespace Nun

theorem replicateChange_frame (n : Node) (d : Bytes) (c : Change) :
    (n.replicateChange d c).1.dbs = n.dbs ∧ (n.replicateChange d c).1.sessions = n.sessions := by
  unfold Node.replicateChange
  split <;> simp [Node.replicateWeb, Node.tick]

/-- `apply_change` (and with it `set_key_value`) touches neither the counter of the database it
writes, nor its name, nor any other database or session of the node -/
theorem applyChange_frame (n : Node) (db : Db) (c : Change) :
    (n.applyChange db c).2.1.conns = db.conns ∧ (n.applyChange db c).2.1.name = db.name ∧
    (n.applyChange db c).1.dbs = n.dbs ∧ (n.applyChange db c).1.sessions = n.sessions := by
  unfold Node.applyChange
  have hs := setValue_conns db c
  split
  · rename_i db' k v ps heq
    rw [heq] at hs
    exact ⟨hs.1, hs.2.1, rfl, rfl⟩
  · rename_i key ov ver old change state ps heq
    cases db.strategy with
    | none => exact ⟨rfl, rfl, rfl, rfl⟩
    | newer =>
      simp only []
      split
      · have h2 := setValue_conns db { key := key, value := change.value, version := ov, opId := n.clock, resolve := true }
        simp only [Node.tick]
        exact ⟨h2.1, h2.2.1, trivial, trivial⟩
      · exact ⟨rfl, rfl, rfl, rfl⟩
    | arbiter =>
      simp only []
      split
      · exact ⟨rfl, rfl, rfl, rfl⟩
      · split
        · exact ⟨rfl, rfl, rfl, rfl⟩
        · simp only [Node.tick]
          have h3 := setValue_conns (db.setValueVersion change.key old.value inConflict state old.vaddr old.kaddr old.opId)
            { key := conflictKey change, value := noticeText db.name change key old ov ver ((db.setValueVersion change.key old.value inConflict state old.vaddr old.kaddr old.opId).listConflictKeys change.key), version := -1, opId := n.clock, resolve := false }
          refine ⟨h3.1, h3.2.1, ?_, ?_⟩
          · exact (replicateChange_frame _ _ _).1
          · exact (replicateChange_frame _ _ _).2

end Nun

namespace Nun

/-- the sessions bound to database `name` -/
def boundTo (n : Node) (name : Bytes) : Nat := (n.sessions.filter fun p => p.2.db == some name).length

theorem count_put {β : Type} (l : List (Sid × β)) (k : Sid) (v : β) (q : β → Bool) (hn : AL.NoDupKeys l) :
    ((AL.put l k v).filter fun p => q p.2).length + (((AL.get? l k).map fun o => if q o then 1 else 0).getD 0)
      = (l.filter fun p => q p.2).length + (if q v then 1 else 0) := by
  induction l with
  | nil => cases hq : q v <;> simp [AL.put, AL.get?, List.filter, hq]
  | cons h t ih =>
    obtain ⟨k0, v0⟩ := h
    unfold AL.NoDupKeys at hn
    simp only [List.map_cons, List.nodup_cons] at hn
    by_cases hk : k0 = k
    · subst hk
      simp only [AL.put, AL.get?, if_true, List.filter_cons]
      cases hq1 : q v <;> cases hq2 : q v0 <;> simp [hq1, hq2]
    · simp only [AL.put, AL.get?, hk, if_false, List.filter_cons]
      have := ih hn.2
      cases hq : q v0 <;> simp [hq] <;> omega

end Nun

namespace Nun

theorem setConnCounter_frame (n : Node) (db : Db) :
    (n.setConnCounter db).2.1.conns = db.conns ∧ (n.setConnCounter db).2.1.name = db.name ∧
    (n.setConnCounter db).1.dbs = n.dbs ∧ (n.setConnCounter db).1.sessions = n.sessions := by
  unfold Node.setConnCounter Node.setKeyValue
  simp only [Node.tick]
  have := applyChange_frame { n with clock := n.clock + 1 } db
    { key := Gen.connectionsKey, value := Bytes.ofNat db.conns, version := -1, opId := n.clock, resolve := false }
  generalize Node.applyChange _ _ _ = r at this ⊢
  obtain ⟨n', db', resp, evs⟩ := r
  exact this

structure ConnInv (n : Node) : Prop where
  nodupDbs : AL.NoDupKeys n.dbs
  nodupSess : AL.NoDupKeys n.sessions
  names : ∀ name db, AL.get? n.dbs name = some db → db.name = name
  counts : ∀ name db, AL.get? n.dbs name = some db → db.conns = boundTo n name

/-- the node after `Client::left` and the removal of the session (the end of every disconnect) -/
def Node.leaveAndDrop (n : Node) (sid : Sid) : Node := { (n.left sid).1 with sessions := AL.erase (n.left sid).1.sessions sid }

theorem boundTo_setSession (n : Node) (sid : Sid) (s' : Session) (name : Bytes) (hn : AL.NoDupKeys n.sessions) :
    boundTo (n.setSession sid s') name + (((AL.get? n.sessions sid).map fun o => if o.db == some name then 1 else 0).getD 0)
      = boundTo n name + (if s'.db == some name then 1 else 0) := by
  unfold boundTo Node.setSession
  simp only []
  exact count_put n.sessions sid s' (fun s => s.db == some name) hn

end Nun

namespace Nun

theorem releaseSelected_none (n : Node) (s : Session) (h : s.db = none ∨ ∃ prev, s.db = some prev ∧ AL.get? n.dbs prev = none) :
    (n.releaseSelected s).1 = n := by
  unfold Node.releaseSelected Node.db?
  rcases h with h | ⟨prev, h1, h2⟩
  · simp [h]
  · simp [h1, h2]

theorem releaseSelected_some (n : Node) (s : Session) (prev : Bytes) (pdb : Db) (h1 : s.db = some prev) (h2 : AL.get? n.dbs prev = some pdb) :
    ∃ pdb', pdb'.conns = pdb.conns - 1 ∧ pdb'.name = pdb.name ∧
      (n.releaseSelected s).1.dbs = AL.put n.dbs pdb'.name pdb' ∧ (n.releaseSelected s).1.sessions = n.sessions := by
  unfold Node.releaseSelected Node.db?
  simp only [h1, h2]
  have hf := setConnCounter_frame n { pdb with conns := pdb.conns - 1 }
  generalize n.setConnCounter { pdb with conns := pdb.conns - 1 } = r at hf ⊢
  obtain ⟨n', pdb', evs⟩ := r
  simp only [] at hf ⊢
  refine ⟨pdb', hf.1, hf.2.1, ?_, ?_⟩
  · simp [Node.setDb, hf.2.2.1]
  · simp [Node.setDb, hf.2.2.2]

theorem countSelected_none (n : Node) (name : Bytes) (h : AL.get? n.dbs name = none) : (n.countSelected name).1 = n := by
  unfold Node.countSelected Node.db?
  simp [h]

theorem countSelected_some (n : Node) (name : Bytes) (db : Db) (h : AL.get? n.dbs name = some db) :
    ∃ db', db'.conns = db.conns + 1 ∧ db'.name = db.name ∧
      (n.countSelected name).1.dbs = AL.put n.dbs db'.name db' ∧ (n.countSelected name).1.sessions = n.sessions := by
  unfold Node.countSelected Node.db?
  simp only [h]
  have hf := setConnCounter_frame n { db with conns := db.conns + 1 }
  generalize n.setConnCounter { db with conns := db.conns + 1 } = r at hf ⊢
  obtain ⟨n', db', evs⟩ := r
  simp only [] at hf ⊢
  refine ⟨db', hf.1, hf.2.1, ?_, ?_⟩
  · simp [Node.setDb, hf.2.2.1]
  · simp [Node.setDb, hf.2.2.2]

end Nun

namespace Nun

theorem beq_some_eq (a : Option Bytes) (k : Bytes) : (a == some k) = true ↔ a = some k := by
  cases a <;> simp

/-- phase A: the session lets go of its database -/
theorem release_inv (n : Node) (sid : Sid) (s : Session) (h : ConnInv n) (hs : n.session sid = s)
    (hex : s.db ≠ none → AL.get? n.sessions sid = some s) :
    ConnInv { (n.releaseSelected s).1 with sessions := AL.put n.sessions sid { s with db := none } } := by
  obtain ⟨hnd, hns, hnames, hcounts⟩ := h
  -- how the bound counts move
  have hb : ∀ k, boundTo { (n.releaseSelected s).1 with sessions := AL.put n.sessions sid { s with db := none } } k
              + (((AL.get? n.sessions sid).map fun o => if o.db == some k then 1 else 0).getD 0) = boundTo n k := by
    intro k
    have := count_put n.sessions sid { s with db := none } (fun x => x.db == some k) hns
    simpa [boundTo] using this
  cases hdb : s.db with
  | none =>
    rw [releaseSelected_none n s (Or.inl hdb)]
    refine ⟨hnd, AL.noDupKeys_put _ _ _ hns, hnames, ?_⟩
    intro k db hk
    have := hb k
    rw [releaseSelected_none n s (Or.inl hdb)] at this
    have hc := hcounts k db hk
    -- the session was not bound to anything: nothing to subtract
    have hz : (((AL.get? n.sessions sid).map fun o => if o.db == some k then 1 else 0).getD 0) = 0 := by
      cases hg : AL.get? n.sessions sid with
      | none => simp
      | some o =>
        have : o = s := by
          have := hs; unfold Node.session at this; rw [hg] at this; simpa using this
        subst this; simp [hdb]
    simp only [] at this ⊢
    omega
  | some prev =>
    have hsess : AL.get? n.sessions sid = some s := hex (by rw [hdb]; simp)
    cases hp : AL.get? n.dbs prev with
    | none =>
      rw [releaseSelected_none n s (Or.inr ⟨prev, hdb, hp⟩)]
      refine ⟨hnd, AL.noDupKeys_put _ _ _ hns, hnames, ?_⟩
      intro k db hk
      have := hb k
      rw [releaseSelected_none n s (Or.inr ⟨prev, hdb, hp⟩)] at this
      have hc := hcounts k db hk
      have hkp : k ≠ prev := by intro h; subst h; rw [hp] at hk; simp at hk
      have hz : (((AL.get? n.sessions sid).map fun o => if o.db == some k then 1 else 0).getD 0) = 0 := by
        rw [hsess]; simp [hdb]; intro h; exact hkp h.symm
      simp only [] at this ⊢
      omega
    | some pdb =>
      obtain ⟨pdb', hc1, hn1, hdbs, _⟩ := releaseSelected_some n s prev pdb hdb hp
      have hpn : pdb.name = prev := hnames prev pdb hp
      refine ⟨?_, AL.noDupKeys_put _ _ _ hns, ?_, ?_⟩
      · simp only []; rw [hdbs]; exact AL.noDupKeys_put _ _ _ hnd
      · intro k db hk
        simp only [] at hk; rw [hdbs, AL.get?_put] at hk
        split at hk
        · rename_i hkk; simp at hk; subst hk; rw [← hkk]
        · exact hnames k db hk
      · intro k db hk
        have hbk := hb k
        simp only [] at hk hbk ⊢; rw [hdbs, AL.get?_put] at hk
        rw [hsess] at hbk
        simp only [Option.map_some, Option.getD_some, hdb] at hbk
        split at hk
        · rename_i hkk
          simp at hk; subst hk
          have hk' : prev = k := by rw [← hkk, hn1, hpn]
          subst hk'
          have := hcounts prev pdb hp
          simp at hbk
          omega
        · rename_i hkk
          have hkp : ¬ prev = k := by intro h; apply hkk; rw [hn1, hpn, h]
          have := hcounts k db hk
          simp [hkp] at hbk
          omega

end Nun

namespace Nun

/-- phase B: a session that is bound to nothing selects `name` -/
theorem bind_inv (m : Node) (sid : Sid) (s' : Session) (name : Bytes) (h : ConnInv m) (hs' : s'.db = some name)
    (hfree : ∀ o, AL.get? m.sessions sid = some o → o.db = none) :
    ConnInv ((m.setSession sid s').countSelected name).1 := by
  obtain ⟨hnd, hns, hnames, hcounts⟩ := h
  have hb : ∀ k, boundTo (m.setSession sid s') k = boundTo m k + (if name = k then 1 else 0) := by
    intro k
    have := boundTo_setSession m sid s' k hns
    have hz : (((AL.get? m.sessions sid).map fun o => if o.db == some k then 1 else 0).getD 0) = 0 := by
      cases hg : AL.get? m.sessions sid with
      | none => simp
      | some o => simp [hfree o hg]
    rw [hz, hs'] at this
    by_cases hk : name = k <;> simp [hk] at this ⊢ <;> omega
  have hsd : (m.setSession sid s').dbs = m.dbs := rfl
  cases hdb : AL.get? m.dbs name with
  | none =>
    rw [countSelected_none _ name (by rw [hsd]; exact hdb)]
    refine ⟨hnd, AL.noDupKeys_put _ _ _ hns, hnames, ?_⟩
    intro k db hk
    have hkn : ¬ name = k := by intro h; subst h; rw [hsd, hdb] at hk; simp at hk
    rw [hb k]; simp [hkn]; exact hcounts k db hk
  | some db =>
    obtain ⟨db', hc1, hn1, hdbs, hsess⟩ := countSelected_some (m.setSession sid s') name db (by rw [hsd]; exact hdb)
    have hdn : db.name = name := hnames name db hdb
    refine ⟨?_, ?_, ?_, ?_⟩
    · rw [hdbs]; exact AL.noDupKeys_put _ _ _ hnd
    · rw [hsess]; exact AL.noDupKeys_put _ _ _ hns
    · intro k d hk
      rw [hdbs, AL.get?_put] at hk
      split at hk
      · rename_i hkk; simp at hk; subst hk; rw [← hkk]
      · exact hnames k d hk
    · intro k d hk
      have hbk : boundTo ((m.setSession sid s').countSelected name).1 k = boundTo (m.setSession sid s') k := by
        unfold boundTo; rw [hsess]
      rw [hbk, hb k]
      rw [hdbs, AL.get?_put] at hk
      split at hk
      · rename_i hkk
        simp at hk; subst hk
        have hk' : name = k := by rw [← hkk, hn1, hdn]
        subst hk'
        have := hcounts name db hdb
        simp; omega
      · rename_i hkk
        have hkn : ¬ name = k := by intro h; apply hkk; rw [hn1, hdn, h]
        have := hcounts k d hk
        simp [hkn]; exact this

end Nun

namespace Nun

theorem releaseSelected_sessions (n : Node) (s : Session) : (n.releaseSelected s).1.sessions = n.sessions := by
  cases hdb : s.db with
  | none => rw [releaseSelected_none n s (Or.inl hdb)]
  | some prev =>
    cases hp : AL.get? n.dbs prev with
    | none => rw [releaseSelected_none n s (Or.inr ⟨prev, hdb, hp⟩)]
    | some pdb => exact (releaseSelected_some n s prev pdb hdb hp).choose_spec.2.2.2

theorem session_of_get (n : Node) (sid : Sid) (h : (n.session sid).db ≠ none) : AL.get? n.sessions sid = some (n.session sid) := by
  unfold Node.session at *
  cases hg : AL.get? n.sessions sid with
  | none => rw [hg] at h; simp at h
  | some o => simp

/-- **use-db keeps the books**: whatever the outcome (unknown database, wrong token, first
selection, re-selection of the same or of another database), every database's counter still equals
the number of sessions bound to it -/
theorem C17_usedb_keeps_invariant (fuel : Node → Sid → Bytes → Node × Out) (n : Node) (sid : Sid)
    (token name : Bytes) (user : Option Bytes) (h : ConnInv n) :
    ConnInv (n.processObj fuel sid (.useDb token name user)).1 := by
  simp only [Node.processObj]
  cases hdb : n.db? name with
  | none => exact h
  | some db =>
    simp only []
    split
    · -- accepted
      generalize hs' : (match user with
          | some u => ({ n.session sid with db := some name, user := some u } : Session)
          | none => { n.session sid with db := some name }) = s'
      have hsdb : s'.db = some name := by subst hs'; cases user <;> rfl
      have hA := release_inv n sid (n.session sid) h rfl (session_of_get n sid)
      have hB := bind_inv _ sid s' name hA hsdb (by
        intro o ho; simp only [AL.get?_put_same, Option.some.injEq] at ho; subst ho; rfl)
      have heq : ({ (n.releaseSelected (n.session sid)).1 with sessions := AL.put n.sessions sid { n.session sid with db := none } } : Node).setSession sid s'
                = (n.releaseSelected (n.session sid)).1.setSession sid s' := by
        simp only [Node.setSession, AL.put_put_same, releaseSelected_sessions]
      rw [heq] at hB
      subst hs'
      exact hB
    · exact h

end Nun

namespace Nun

theorem count_erase {β : Type} (l : List (Sid × β)) (k : Sid) (q : β → Bool) (hn : AL.NoDupKeys l) :
    ((AL.erase l k).filter fun p => q p.2).length + (((AL.get? l k).map fun o => if q o then 1 else 0).getD 0)
      = (l.filter fun p => q p.2).length := by
  induction l with
  | nil => simp [AL.erase, AL.get?]
  | cons h t ih =>
    obtain ⟨k0, v0⟩ := h
    unfold AL.NoDupKeys at hn
    simp only [List.map_cons, List.nodup_cons] at hn
    by_cases hk : k0 = k
    · subst hk
      -- the rest of the list does not contain k0 again
      have hnot : AL.get? t k0 = none := (AL.get?_none_iff_not_mem_keys t k0).2 hn.1
      have := ih hn.2
      rw [hnot] at this
      simp only [AL.erase, AL.get?, if_true, List.filter_cons]
      cases hq : q v0 <;> simp [hq] at this ⊢ <;> omega
    · simp only [AL.erase, AL.get?, hk, if_false, List.filter_cons]
      have := ih hn.2
      cases hq : q v0 <;> simp [hq] <;> omega

theorem left_eq_release (n : Node) (sid : Sid) : n.left sid = n.releaseSelected (n.session sid) := by
  unfold Node.left Node.releaseSelected
  cases (n.session sid).db with
  | none => rfl
  | some d =>
    simp only []
    cases n.db? d <;> rfl

/-- dropping a session that is bound to nothing keeps the books -/
theorem drop_free_session (m : Node) (sid : Sid) (h : ConnInv m) (hfree : ∀ o, AL.get? m.sessions sid = some o → o.db = none) :
    ConnInv { m with sessions := AL.erase m.sessions sid } := by
  obtain ⟨hnd, hns, hnames, hcounts⟩ := h
  refine ⟨hnd, AL.noDupKeys_erase _ _ hns, hnames, ?_⟩
  intro k db hk
  have := count_erase m.sessions sid (fun x => x.db == some k) hns
  have hz : (((AL.get? m.sessions sid).map fun o => if o.db == some k then 1 else 0).getD 0) = 0 := by
    cases hg : AL.get? m.sessions sid with
    | none => simp
    | some o => simp [hfree o hg]
  have hc := hcounts k db hk
  simp only [boundTo] at hc ⊢
  omega

/-- **disconnect keeps the books** (`Client::left` + the session going away) -/
theorem C17_disconnect_keeps_invariant (n : Node) (sid : Sid) (h : ConnInv n) : ConnInv (n.leaveAndDrop sid) := by
  unfold Node.leaveAndDrop
  rw [left_eq_release]
  have hA := release_inv n sid (n.session sid) h rfl (session_of_get n sid)
  have hD := drop_free_session _ sid hA (by
    intro o ho; simp only [AL.get?_put_same, Option.some.injEq] at ho; subst ho; rfl)
  simp only [releaseSelected_sessions]
  have : AL.erase (AL.put n.sessions sid { n.session sid with db := none }) sid = AL.erase n.sessions sid := by
    induction n.sessions with
    | nil => simp [AL.put, AL.erase]
    | cons hd tl ih =>
      obtain ⟨k0, v0⟩ := hd
      by_cases hk : k0 = sid
      · subst hk; simp [AL.put, AL.erase]
      · simp [AL.put, AL.erase, hk, ih]
  simp only [this] at hD
  exact hD

/-- what a client can do to the bookkeeping -/
inductive ConnOp
  | useDb (sid : Sid) (token name : Bytes) (user : Option Bytes)
  | disconnect (sid : Sid)

def connStep (fuel : Node → Sid → Bytes → Node × Out) (n : Node) : ConnOp → Node
  | .useDb sid token name user => (n.processObj fuel sid (.useDb token name user)).1
  | .disconnect sid => n.leaveAndDrop sid

/-- **C17, for every history**: from a state in which the books are right, after ANY sequence of
use-db commands (accepted or refused, first selections and re-selections, with database or user
tokens) and disconnects by any sessions, every database's counter equals the number of sessions
bound to it -/
theorem C17_counter_equals_bound_sessions (fuel : Node → Sid → Bytes → Node × Out) (n : Node) (ops : List ConnOp)
    (h : ConnInv n) : ConnInv (ops.foldl (connStep fuel) n) := by
  induction ops generalizing n with
  | nil => exact h
  | cons op rest ih =>
    apply ih
    cases op with
    | useDb sid token name user => exact C17_usedb_keeps_invariant fuel n sid token name user h
    | disconnect sid => exact C17_disconnect_keeps_invariant n sid h

end Nun


namespace Nun

/-- non-vacuity: a node without sessions whose databases all count 0 connections satisfies the
invariant (this is the state right after start-up) -/
theorem connInv_start (n : Node) (hs : n.sessions = []) (hnd : AL.NoDupKeys n.dbs)
    (hn : ∀ name db, AL.get? n.dbs name = some db → db.name = name ∧ db.conns = 0) : ConnInv n := by
  refine ⟨hnd, by rw [hs]; simp [AL.NoDupKeys], fun name db h => (hn name db h).1, ?_⟩
  intro name db h
  rw [(hn name db h).2]
  simp [boundTo, hs]

end Nun
