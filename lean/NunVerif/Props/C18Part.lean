import NunVerif.Props.C18RoundTrip
import NunVerif.Model.S3Part
import NunVerif.Proofs.Wire
/-!
# C18 — the partitioned S3 strategy (`s3_patition`)

Every statement is for an ARBITRARY placement function `h : Bytes → Nat` (the real one is
`partitionOf n`, SipHash-1-3 of the key modulo the number of partitions; nothing below depends on it).

* `s3pLoadLoop_encPart` — the record codec: the reader's loop over an object that is the
  concatenation of the writer's records rebuilds exactly those records.
* `PartInv` — the invariant that ties memory to the bucket BETWEEN snapshots: every object of the
  database is the encoding of a list of records of keys of that partition, a clean (`Ok`) key of the
  map has a record and the record carries its value and version.
* `C18_part_snapshot_syncs` — a snapshot (either mode, every upload succeeding) started in a state that
  satisfies `PartInv` ends in a state that is `Synced`: every key of the map has a record in the
  object of its partition carrying its value, version and removedness, and the objects hold no other key.
  Partitions the snapshot does not touch are exactly those whose keys are all clean, which is why the
  invariant suffices for them.
* `C18_part_load_of_synced` — a start-up from a `Synced` bucket (the listing returning the objects of
  this database) rebuilds every key with its value and version, removed keys removed, nothing else.
-/
namespace Nun

/-- the concatenation of the writer's records -/
def encPart : List (Bytes × Entry) → Bytes
  | [] => []
  | (k, e) :: t => s3pRec k e ++ encPart t

/-- what the reader builds from them -/
def s3pLoadedFrom : List (Bytes × Entry) → Nat → Nat → KV → KV
  | [], _, _, m => m
  | (k, e) :: t, part, clock, m =>
    s3pLoadedFrom t part (clock + 1)
      (AL.put m k { value := e.value, version := e.version, opId := clock,
                    state := if e.state = .deleted then .deleted else .ok, vaddr := part, kaddr := 0 })

theorem rdPad_at (pre b post : Bytes) (n pos : Nat) (hn : n = b.length) (hp : pos = pre.length) :
    rdPad (pre ++ (b ++ post)) pos n = (b, pos + n) := by
  unfold rdPad
  rw [take_at pre b post n pos hn hp]
  subst hn
  simp

theorem s3pRec_length (k : Bytes) (e : Entry) : (s3pRec k e).length = 8 + k.length + 8 + e.value.length + 4 + 4 := by
  simp [s3pRec, le64_length, le32i_length]; omega

theorem statusOfCode_rec (e : Entry) :
    statusOfCode (i32OfLE (le32i (if e.state = .deleted then 1 else 0))) = (if e.state = .deleted then .deleted else .ok) := by
  by_cases h : e.state = .deleted
  · simp only [h, if_true]; rw [C06_version_roundtrip 1 (by decide) (by decide)]; rfl
  · simp only [h, if_false]; rw [C06_version_roundtrip 0 (by decide) (by decide)]; rfl

theorem encPart_length_ge (l : List (Bytes × Entry)) : l.length ≤ (encPart l).length := by
  induction l with
  | nil => simp [encPart]
  | cons p t ih =>
    obtain ⟨k, e⟩ := p
    simp only [encPart, List.length_cons, List.length_append, s3pRec_length]
    omega

/-- **the record codec of a partition object**: reading back the concatenation of the writer's records -/
theorem s3pLoadLoop_encPart (l : List (Bytes × Entry)) : ∀ (pre : Bytes) (part fuel pos clock : Nat) (m : KV),
    (∀ p ∈ l, S3Storable p.1 p.2) → pos = pre.length → l.length < fuel →
    s3pLoadLoop (pre ++ encPart l) part fuel pos m clock = some (s3pLoadedFrom l part clock m, clock + l.length) := by
  induction l with
  | nil =>
    intro pre part fuel pos clock m _ hpos hfuel
    cases fuel with
    | zero => simp at hfuel
    | succ f => subst hpos; simp [encPart, s3pLoadLoop, s3pLoadedFrom]
  | cons p t ih =>
    obtain ⟨k, e⟩ := p
    intro pre part fuel pos clock m hst hpos hfuel
    have hS := hst (k, e) List.mem_cons_self
    cases fuel with
    | zero => simp at hfuel
    | succ f =>
      simp only [encPart, s3pLoadedFrom, List.length_cons] at hfuel ⊢
      generalize hrest : encPart t = rest
      have hobj : pre ++ (s3pRec k e ++ rest)
          = pre ++ (le64 k.length ++ (k ++ (le64 e.value.length ++ (e.value ++ (le32i (if e.state = .deleted then 1 else 0) ++ (le32i e.version ++ rest)))))) := by
        simp [s3pRec, List.append_assoc]
      rw [hobj]
      have hkl : k.length < 18446744073709551616 := Nat.lt_trans hS.klen allocBound_lt
      have hvl : e.value.length < 18446744073709551616 := Nat.lt_trans hS.vlen allocBound_lt
      have t1 := take_at pre (le64 k.length) (k ++ (le64 e.value.length ++ (e.value ++ (le32i (if e.state = .deleted then 1 else 0) ++ (le32i e.version ++ rest))))) 8 pos (le64_length _).symm hpos
      have r2 := rdPad_at (pre ++ le64 k.length) k (le64 e.value.length ++ (e.value ++ (le32i (if e.state = .deleted then 1 else 0) ++ (le32i e.version ++ rest)))) k.length (pos + 8) rfl
        (by simp [le64_length, hpos])
      have r3 := rdPad_at (pre ++ le64 k.length ++ k) (le64 e.value.length) (e.value ++ (le32i (if e.state = .deleted then 1 else 0) ++ (le32i e.version ++ rest))) 8 (pos + 8 + k.length) (le64_length _).symm
        (by simp [le64_length, hpos]; omega)
      have r4 := rdPad_at (pre ++ le64 k.length ++ k ++ le64 e.value.length) e.value (le32i (if e.state = .deleted then 1 else 0) ++ (le32i e.version ++ rest)) e.value.length (pos + 8 + k.length + 8) rfl
        (by simp [le64_length, hpos]; omega)
      have r5 := rdPad_at (pre ++ le64 k.length ++ k ++ le64 e.value.length ++ e.value) (le32i (if e.state = .deleted then 1 else 0)) (le32i e.version ++ rest) 4 (pos + 8 + k.length + 8 + e.value.length) (le32i_length _).symm
        (by simp [le64_length, hpos]; omega)
      have r6 := rdPad_at (pre ++ le64 k.length ++ k ++ le64 e.value.length ++ e.value ++ le32i (if e.state = .deleted then 1 else 0)) (le32i e.version) rest 4 (pos + 8 + k.length + 8 + e.value.length + 4) (le32i_length _).symm
        (by simp [le64_length, le32i_length, hpos]; omega)
      simp only [List.append_assoc] at r2 r3 r4 r5 r6
      rw [s3pLoadLoop]
      have hk1 : ¬ k.length ≥ allocBound := Nat.not_le.2 hS.klen
      have hv1 : ¬ e.value.length ≥ allocBound := Nat.not_le.2 hS.vlen
      simp only [t1, le64_length, Nat.sub_self, List.replicate_zero, List.append_nil, C06_le64_roundtrip k.length hkl, r2, r3,
        C06_le64_roundtrip e.value.length hvl, r4, r5, r6, C06_version_roundtrip e.version hS.verLo hS.verHi, statusOfCode_rec,
        hk1, hv1, hS.kutf, hS.vutf, if_false, Bool.not_true, Bool.false_eq_true, show (8 : Nat) ≠ 0 by decide]
      have hpos' : pos + 8 + k.length + 8 + e.value.length + 4 + 4 = (pre ++ s3pRec k e).length := by
        simp [s3pRec_length, hpos]; omega
      have h := ih (pre ++ s3pRec k e) part f (pos + 8 + k.length + 8 + e.value.length + 4 + 4) (clock + 1)
        (AL.put m k { value := e.value, version := e.version, opId := clock, state := if e.state = .deleted then .deleted else .ok,
                      vaddr := part, kaddr := 0 })
        (fun p hp => hst p (List.mem_cons_of_mem _ hp)) hpos' (by omega)
      rw [hrest] at h
      have e1 : pre ++ (le64 k.length ++ (k ++ (le64 e.value.length ++ (e.value ++ (le32i (if e.state = .deleted then 1 else 0) ++ (le32i e.version ++ rest))))))
          = pre ++ s3pRec k e ++ rest := by simp [s3pRec, List.append_assoc]
      rw [e1, h]
      simp only [Nat.add_assoc, Nat.add_comm 1]

theorem s3pLoadedFrom_other (l : List (Bytes × Entry)) (k : Bytes) : ∀ (part c : Nat) (m : KV),
    k ∉ l.map (·.1) → AL.get? (s3pLoadedFrom l part c m) k = AL.get? m k := by
  induction l with
  | nil => intro _ _ _ _; rfl
  | cons p t ih =>
    obtain ⟨k0, e0⟩ := p
    intro part c m h
    simp only [List.map_cons, List.mem_cons, not_or] at h
    simp only [s3pLoadedFrom]
    rw [ih _ _ _ h.2]
    exact AL.get?_put_other _ _ (Ne.symm h.1)

/-- what a stored record and an entry have in common when the record "carries" the entry -/
def Entry.SameRec (a b : Entry) : Prop :=
  a.value = b.value ∧ a.version = b.version ∧ (a.state = .deleted ↔ b.state = .deleted)

theorem Entry.SameRec.refl (a : Entry) : a.SameRec a := ⟨rfl, rfl, Iff.rfl⟩
theorem Entry.SameRec.symm {a b : Entry} (h : a.SameRec b) : b.SameRec a := ⟨h.1.symm, h.2.1.symm, h.2.2.symm⟩
theorem Entry.SameRec.trans {a b c : Entry} (h : a.SameRec b) (g : b.SameRec c) : a.SameRec c :=
  ⟨h.1.trans g.1, h.2.1.trans g.2.1, h.2.2.trans g.2.2⟩

theorem s3pRec_congr (k : Bytes) {a b : Entry} (h : a.SameRec b) : s3pRec k a = s3pRec k b := by
  obtain ⟨h1, h2, h3⟩ := h
  unfold s3pRec
  rw [h1, h2]
  by_cases hd : a.state = .deleted
  · simp [hd, h3.1 hd]
  · have : ¬ b.state = .deleted := fun hb => hd (h3.2 hb)
    simp [hd, this]

theorem s3pLoadedFrom_mem (l : List (Bytes × Entry)) (hn : (l.map (·.1)).Nodup) (k : Bytes) (e : Entry) : ∀ (part c : Nat) (m : KV),
    (k, e) ∈ l →
    ∃ e', AL.get? (s3pLoadedFrom l part c m) k = some e' ∧ e'.value = e.value ∧ e'.version = e.version ∧
      e'.state = (if e.state = .deleted then .deleted else .ok) ∧ e'.vaddr = part := by
  induction l with
  | nil => intro _ _ _ h; cases h
  | cons p t ih =>
    obtain ⟨k0, e0⟩ := p
    intro part c m hmem
    simp only [List.map_cons, List.nodup_cons] at hn
    simp only [s3pLoadedFrom]
    rcases List.mem_cons.1 hmem with heq | ht
    · cases heq
      rw [s3pLoadedFrom_other t k _ _ _ hn.1, AL.get?_put_same]
      exact ⟨_, rfl, rfl, rfl, rfl, rfl⟩
    · exact ih hn.2 _ _ _ ht


/-! ### the writer: one partition -/

theorem s3pFoldKeys (p : Nat) (l : List (Bytes × Entry)) : ∀ (s : S3PSt),
    (l.map (·.1)).Nodup → (∀ k e, (k, e) ∈ l → AL.get? s.db.map k = some e) →
    (l.foldl (fun s (x : Bytes × Entry) => s3pSnapKey p s x.1 x.2) s).buf = s.buf ++ encPart l ∧
    (l.foldl (fun s (x : Bytes × Entry) => s3pSnapKey p s x.1 x.2) s).db.name = s.db.name ∧
    (l.foldl (fun s (x : Bytes × Entry) => s3pSnapKey p s x.1 x.2) s).db.map.map (·.1) = s.db.map.map (·.1) ∧
    (∀ k, k ∉ l.map (·.1) → AL.get? (l.foldl (fun s (x : Bytes × Entry) => s3pSnapKey p s x.1 x.2) s).db.map k = AL.get? s.db.map k) ∧
    (∀ k e, (k, e) ∈ l → ∃ e', AL.get? (l.foldl (fun s (x : Bytes × Entry) => s3pSnapKey p s x.1 x.2) s).db.map k = some e' ∧
        e'.SameRec e ∧ (e.state = .ok → e'.state = .ok) ∧ e'.state ≠ .new) := by
  induction l with
  | nil => intro s _ _; simp [encPart]
  | cons x t ih =>
    obtain ⟨k0, e0⟩ := x
    intro s hn hget
    simp only [List.map_cons, List.nodup_cons] at hn
    simp only [List.foldl_cons]
    have hg0 := hget k0 e0 List.mem_cons_self
    have hother : ∀ k, k ≠ k0 → AL.get? (s3pSnapKey p s k0 e0).db.map k = AL.get? s.db.map k := by
      intro k hk
      unfold s3pSnapKey
      by_cases hd : e0.state = .deleted
      · simp [hd]
      · simp only [hd, if_false, Db.setValueVersion]; exact AL.get?_put_other _ _ (Ne.symm hk)
    have hget1 : ∀ k e, (k, e) ∈ t → AL.get? (s3pSnapKey p s k0 e0).db.map k = some e := by
      intro k e hm
      have hne : k ≠ k0 := by
        intro h; subst h; exact hn.1 (List.mem_map.2 ⟨(k, e), hm, rfl⟩)
      rw [hother k hne]; exact hget k e (List.mem_cons_of_mem _ hm)
    obtain ⟨h1, h2, h3, h4, h5⟩ := ih (s3pSnapKey p s k0 e0) hn.2 hget1
    have hkeys0 : (s3pSnapKey p s k0 e0).db.map.map (·.1) = s.db.map.map (·.1) := by
      unfold s3pSnapKey
      by_cases hd : e0.state = .deleted
      · simp [hd]
      · simp only [hd, if_false, Db.setValueVersion]; rw [AL.keys_put]; simp [hg0]
    have hname0 : (s3pSnapKey p s k0 e0).db.name = s.db.name := by
      unfold s3pSnapKey
      by_cases hd : e0.state = .deleted <;> simp [hd, Db.setValueVersion]
    refine ⟨?_, ?_, ?_, ?_, ?_⟩
    · rw [h1]; simp [s3pSnapKey, encPart, List.append_assoc]
    · rw [h2, hname0]
    · rw [h3, hkeys0]
    · intro k hk
      simp only [List.map_cons, List.mem_cons, not_or] at hk
      rw [h4 k hk.2, hother k hk.1]
    · intro k e hm
      rcases List.mem_cons.1 hm with heq | ht
      · cases heq
        rw [h4 k0 hn.1]
        unfold s3pSnapKey
        by_cases hd : e0.state = .deleted
        · simp only [hd, if_true]; exact ⟨e0, hg0, Entry.SameRec.refl _, fun h => by first | cases h | (rw [hd] at h; cases h), by first | (intro hx; cases hx) | (rw [hd]; intro hx; cases hx)⟩
        · simp only [hd, if_false, Db.setValueVersion, AL.get?_put_same]
          exact ⟨_, rfl, ⟨rfl, rfl, by simp [hd]⟩, fun _ => rfl, fun hx => by cases hx⟩
      · exact h5 k e ht

theorem ofNat_inj {a b : Nat} (h : Bytes.ofNat a = Bytes.ofNat b) : a = b := by
  have h1 := Bytes.parseNat_ofNat a
  rw [h, Bytes.parseNat_ofNat] at h1
  exact (Option.some.inj h1).symm

theorem s3pObjKey_inj {n : Bytes} {a b : Nat} (h : s3pObjKey n a = s3pObjKey n b) : a = b := by
  unfold s3pObjKey at h
  simp only [List.append_assoc] at h
  have h1 := List.append_cancel_left (List.append_cancel_left (List.append_cancel_left h))
  exact ofNat_inj (List.append_cancel_right h1)


/-! ### the invariant between memory and the bucket -/

/-- ghost state: the records each partition object holds -/
abbrev Ghost := Nat → Option (List (Bytes × Entry))

def ObjsMatch (name : Bytes) (objs : Objs) (L : Ghost) : Prop :=
  ∀ p, AL.get? objs (s3pObjKey name p) = (L p).map encPart

def AllStorable (db : Db) : Prop := ∀ k e, AL.get? db.map k = some e → S3Storable k e

/-- memory against the bucket, `D` = the partitions the running snapshot has already rewritten
(`D = []` between snapshots): every object is the encoding of records of keys of its partition that
are still in the map; a key that is clean — or lies in a rewritten partition — has a record, and
the record carries the key's value, version and removedness -/
structure Mid (h : Bytes → Nat) (db : Db) (L : Ghost) (D : List Nat) : Prop where
  recs : ∀ p l, L p = some l → (l.map (·.1)).Nodup ∧ ∀ k e', (k, e') ∈ l → h k = p ∧ S3Storable k e' ∧
            ∃ e, AL.get? db.map k = some e ∧ e.state ≠ .new ∧ ((e.state = .ok ∨ p ∈ D) → e.SameRec e')
  cover : ∀ k e, AL.get? db.map k = some e → (e.state = .ok ∨ h k ∈ D) → ∃ l, L (h k) = some l ∧ k ∈ l.map (·.1)

/-- the invariant between snapshots -/
def PartInv (h : Bytes → Nat) (db : Db) (L : Ghost) : Prop := Mid h db L []

theorem S3Storable_congr {k : Bytes} {a b : Entry} (h : a.SameRec b) (hs : S3Storable k b) : S3Storable k a :=
  ⟨hs.klen, by rw [h.1]; exact hs.vlen, hs.kutf, by rw [h.1]; exact hs.vutf, by rw [h.2.1]; exact hs.verLo, by rw [h.2.1]; exact hs.verHi⟩

/-- how a snapshot (or a part of one) may change the map: the same keys, every entry carrying the same
record, clean keys staying clean -/
def MapRel (a b : Db) : Prop :=
  ∀ k, (AL.get? a.map k = none → AL.get? b.map k = none) ∧
    (∀ e, AL.get? a.map k = some e → ∃ e', AL.get? b.map k = some e' ∧ e'.SameRec e ∧ (e.state = .ok → e'.state = .ok))

theorem MapRel.refl (a : Db) : MapRel a a := fun _ => ⟨id, fun e he => ⟨e, he, Entry.SameRec.refl _, id⟩⟩
theorem MapRel.trans {a b c : Db} (h1 : MapRel a b) (h2 : MapRel b c) : MapRel a c := by
  intro k
  refine ⟨fun hn => (h2 k).1 ((h1 k).1 hn), ?_⟩
  intro e he
  obtain ⟨e1, hg1, hs1, ho1⟩ := (h1 k).2 e he
  obtain ⟨e2, hg2, hs2, ho2⟩ := (h2 k).2 e1 hg1
  exact ⟨e2, hg2, hs2.trans hs1, fun ho => ho2 (ho1 ho)⟩

/-- **one partition of a snapshot** -/
theorem s3pSnapPartition_step (h : Bytes → Nat) (order : List Bytes) (db : Db) (objs : Objs) (c : Nat) (L : Ghost) (D : List Nat) (p : Nat)
    (hn : AL.NoDupKeys db.map) (hst : AllStorable db) (hm : ObjsMatch db.name objs L) (hmid : Mid h db L D) :
    ∃ L', ObjsMatch db.name (s3pSnapPartition h order (db, objs, c) p).2.1 L' ∧
      Mid h (s3pSnapPartition h order (db, objs, c) p).1 L' (D ++ [p]) ∧
      AL.NoDupKeys (s3pSnapPartition h order (db, objs, c) p).1.map ∧
      AllStorable (s3pSnapPartition h order (db, objs, c) p).1 ∧
      (s3pSnapPartition h order (db, objs, c) p).1.name = db.name ∧
      MapRel db (s3pSnapPartition h order (db, objs, c) p).1 := by
  obtain ⟨hnd, hmem⟩ := sortByIx_spec order db.map hn
  -- the records of the partition
  have hlpn : (((db.inOrder order).filter fun x => h x.1 = p).map (·.1)).Nodup :=
    List.Nodup.sublist (List.Sublist.map _ List.filter_sublist) hnd
  have hlpm : ∀ k e, (k, e) ∈ ((db.inOrder order).filter fun x => h x.1 = p) ↔ AL.get? db.map k = some e ∧ h k = p := by
    intro k e
    simp only [List.mem_filter, decide_eq_true_eq]
    rw [show (k, e) ∈ db.inOrder order ↔ (k, e) ∈ db.map from hmem (k, e), AL.mem_iff_get?_of_noDup db.map k e hn]
  obtain ⟨f1, f2, f3, f4, f5⟩ := s3pFoldKeys p ((db.inOrder order).filter fun x => h x.1 = p) ({ db := db, clock := c } : S3PSt) hlpn
    (fun k e hm => ((hlpm k e).1 hm).1)
  simp only [List.nil_append] at f1
  have hdb : (s3pSnapPartition h order (db, objs, c) p).1 = (List.foldl (fun s (x : Bytes × Entry) => s3pSnapKey p s x.1 x.2)
      ({ db := db, clock := c } : S3PSt) ((db.inOrder order).filter fun x => h x.1 = p)).db := rfl
  have hobjs : (s3pSnapPartition h order (db, objs, c) p).2.1 = AL.put objs (s3pObjKey db.name p) (List.foldl (fun s (x : Bytes × Entry) => s3pSnapKey p s x.1 x.2)
      ({ db := db, clock := c } : S3PSt) ((db.inOrder order).filter fun x => h x.1 = p)).buf := rfl
  -- the map after the step
  have hrel : MapRel db (s3pSnapPartition h order (db, objs, c) p).1 := by
    intro k
    rw [hdb]
    refine ⟨?_, ?_⟩
    · intro hnone
      rw [f4 k]; exact hnone
      intro hk
      obtain ⟨x, hx, hxk⟩ := List.mem_map.1 hk
      obtain ⟨k', e'⟩ := x
      simp only at hxk; subst hxk
      rw [((hlpm k' e').1 hx).1] at hnone; cases hnone
    · intro e he
      by_cases hp : h k = p
      · obtain ⟨e', a, b, c, _⟩ := f5 k e ((hlpm k e).2 ⟨he, hp⟩); exact ⟨e', a, b, c⟩
      · refine ⟨e, ?_, Entry.SameRec.refl _, id⟩
        show AL.get? _ k = some e
        rw [f4 k]; exact he
        intro hk
        obtain ⟨x, hx, hxk⟩ := List.mem_map.1 hk
        obtain ⟨k', e'⟩ := x
        simp only at hxk; subst hxk
        exact hp ((hlpm k' e').1 hx).2
  have huntouched : ∀ k, h k ≠ p → AL.get? (s3pSnapPartition h order (db, objs, c) p).1.map k = AL.get? db.map k := by
    intro k hp
    rw [hdb, f4 k]
    intro hk
    obtain ⟨x, hx, hxk⟩ := List.mem_map.1 hk
    obtain ⟨k', e'⟩ := x
    simp only at hxk; subst hxk
    exact hp ((hlpm k' e').1 hx).2
  refine ⟨fun q => if q = p then some ((db.inOrder order).filter fun x => h x.1 = p) else L q, ?_, ?_, ?_, ?_, by rw [hdb]; exact f2, hrel⟩
  · -- the objects
    intro q
    rw [hobjs]
    by_cases hq : q = p
    · subst hq; simp only [if_true, Option.map_some, AL.get?_put_same, f1]
    · simp only [hq, if_false]
      rw [AL.get?_put_other _ _ (fun he => hq (s3pObjKey_inj he).symm)]
      exact hm q
  · -- the invariant with p rewritten
    constructor
    · intro q l hl
      by_cases hq : q = p
      · subst hq
        simp only [if_true, Option.some.injEq] at hl
        subst hl
        refine ⟨hlpn, ?_⟩
        intro k e' hmem'
        obtain ⟨hg, hp⟩ := (hlpm k e').1 hmem'
        obtain ⟨e'', hg'', hs'', _, hnn⟩ := f5 k e' hmem'
        exact ⟨hp, hst k e' hg, e'', hg'', hnn, fun _ => hs''⟩
      · simp only [hq, if_false] at hl
        obtain ⟨hnd', hall⟩ := hmid.recs q l hl
        refine ⟨hnd', ?_⟩
        intro k e' hmem'
        obtain ⟨hkq, hstor, e, hge, hnn, himp⟩ := hall k e' hmem'
        refine ⟨hkq, hstor, e, ?_, hnn, ?_⟩
        · rw [huntouched k (by rw [hkq]; exact hq)]; exact hge
        · intro hc
          apply himp
          rcases hc with hc | hc
          · exact Or.inl hc
          · rcases List.mem_append.1 hc with hc | hc
            · exact Or.inr hc
            · simp only [List.mem_singleton] at hc; exact absurd hc hq
    · intro k e hge hc
      by_cases hp : h k = p
      · refine ⟨(db.inOrder order).filter fun x => h x.1 = p, by simp [hp], ?_⟩
        -- k was in the map before the step
        cases hg0 : AL.get? db.map k with
        | none => rw [(hrel k).1 hg0] at hge; cases hge
        | some e0 => exact List.mem_map.2 ⟨(k, e0), (hlpm k e0).2 ⟨hg0, hp⟩, rfl⟩
      · rw [huntouched k hp] at hge
        have hc' : e.state = .ok ∨ h k ∈ D := by
          rcases hc with hc | hc
          · exact Or.inl hc
          · rcases List.mem_append.1 hc with hc | hc
            · exact Or.inr hc
            · simp only [List.mem_singleton] at hc; exact absurd hc hp
        obtain ⟨l, hl, hk⟩ := hmid.cover k e hge hc'
        exact ⟨l, by simp [hp, hl], hk⟩
  · unfold AL.NoDupKeys; rw [hdb, f3]; exact hn
  · intro k e' hge
    cases hg0 : AL.get? db.map k with
    | none => rw [(hrel k).1 hg0] at hge; cases hge
    | some e0 =>
      obtain ⟨e1, hg1, hs1, _⟩ := (hrel k).2 e0 hg0
      rw [hg1] at hge; cases hge
      exact S3Storable_congr hs1 (hst k e0 hg0)


/-- a run of partitions, one after the other -/
theorem s3pSnapFold (h : Bytes → Nat) (order : List Bytes) (ps : List Nat) : ∀ (db : Db) (objs : Objs) (c : Nat) (L : Ghost) (D : List Nat),
    AL.NoDupKeys db.map → AllStorable db → ObjsMatch db.name objs L → Mid h db L D →
    ∃ L', ObjsMatch db.name (ps.foldl (s3pSnapPartition h order) (db, objs, c)).2.1 L' ∧
      Mid h (ps.foldl (s3pSnapPartition h order) (db, objs, c)).1 L' (D ++ ps) ∧
      AL.NoDupKeys (ps.foldl (s3pSnapPartition h order) (db, objs, c)).1.map ∧
      AllStorable (ps.foldl (s3pSnapPartition h order) (db, objs, c)).1 ∧
      (ps.foldl (s3pSnapPartition h order) (db, objs, c)).1.name = db.name ∧
      MapRel db (ps.foldl (s3pSnapPartition h order) (db, objs, c)).1 := by
  induction ps with
  | nil =>
    intro db objs c L D hn hst hm hmid
    exact ⟨L, hm, by simpa using hmid, hn, hst, rfl, MapRel.refl _⟩
  | cons p t ih =>
    intro db objs c L D hn hst hm hmid
    obtain ⟨L1, m1, mid1, n1, st1, nm1, r1⟩ := s3pSnapPartition_step h order db objs c L D p hn hst hm hmid
    simp only [List.foldl_cons]
    have hsplit : s3pSnapPartition h order (db, objs, c) p
        = ((s3pSnapPartition h order (db, objs, c) p).1, (s3pSnapPartition h order (db, objs, c) p).2.1, (s3pSnapPartition h order (db, objs, c) p).2.2) := rfl
    rw [hsplit]
    obtain ⟨L2, m2, mid2, n2, st2, nm2, r2⟩ := ih _ _ _ L1 (D ++ [p]) n1 st1 (by rw [nm1]; exact m1) mid1
    refine ⟨L2, by rw [nm1] at m2; exact m2, ?_, n2, st2, nm2.trans nm1, r1.trans r2⟩
    have : D ++ p :: t = D ++ [p] ++ t := by simp
    rw [this]; exact mid2

theorem mem_insertNat (x y : Nat) (l : List Nat) : y ∈ insertNat x l ↔ y = x ∨ y ∈ l := by
  induction l with
  | nil => simp [insertNat]
  | cons z t ih =>
    unfold insertNat
    by_cases h1 : x < z
    · simp [h1]
    · by_cases h2 : x = z
      · subst h2; simp
      · simp only [h1, h2, if_false, List.mem_cons, ih]
        constructor
        · rintro (h | h | h)
          · exact Or.inr (Or.inl h)
          · exact Or.inl h
          · exact Or.inr (Or.inr h)
        · rintro (h | h | h)
          · exact Or.inr (Or.inl h)
          · exact Or.inl h
          · exact Or.inr (Or.inr h)

theorem mem_dirtyPartitions (h : Bytes → Nat) (db : Db) (reclaim : Bool) (k : Bytes) (e : Entry)
    (hm : (k, e) ∈ db.map) (hd : e.state ≠ .ok ∨ reclaim = true) : h k ∈ dirtyPartitions h db reclaim := by
  unfold dirtyPartitions
  have hf : (k, e) ∈ db.map.filter (fun x => x.2.state != .ok || reclaim) := by
    simp only [List.mem_filter, hm, true_and, Bool.or_eq_true, bne_iff_ne, ne_eq]
    exact hd
  generalize db.map.filter (fun x => x.2.state != .ok || reclaim) = l at hf
  induction l with
  | nil => cases hf
  | cons x t ih =>
    simp only [List.foldr_cons, mem_insertNat]
    rcases List.mem_cons.1 hf with heq | ht
    · subst heq; exact Or.inl rfl
    · exact Or.inr (ih ht)

/-- memory and bucket in step: every key of the map has a record in the object of its partition, the
record carries its value, version and removedness, and the objects hold records of no other key -/
structure Synced (h : Bytes → Nat) (db : Db) (L : Ghost) : Prop where
  recs : ∀ p l, L p = some l → (l.map (·.1)).Nodup ∧ ∀ k e', (k, e') ∈ l → h k = p ∧ S3Storable k e' ∧
            ∃ e, AL.get? db.map k = some e ∧ e.state ≠ .new ∧ e.SameRec e'
  cover : ∀ k e, AL.get? db.map k = some e → ∃ l, L (h k) = some l ∧ k ∈ l.map (·.1)

theorem Synced.toPartInv {h : Bytes → Nat} {db : Db} {L : Ghost} (s : Synced h db L) : PartInv h db L :=
  ⟨fun p l hl => ⟨(s.recs p l hl).1, fun k e' hm => by
      obtain ⟨a, b, e, c, n, d⟩ := (s.recs p l hl).2 k e' hm; exact ⟨a, b, e, c, n, fun _ => d⟩⟩,
   fun k e hg _ => s.cover k e hg⟩

/-- **C18 (partitioned strategy): a snapshot brings the bucket in step with memory.**  From any state
that satisfies the invariant (in particular from the empty bucket with a map of new keys, and from
the state any earlier snapshot left behind followed by ANY writes), for either snapshot mode, any
iteration order and any placement of keys: afterwards every key of the map is stored in the object
of its partition with its value, version and removedness; the map itself holds the same keys with
the same records. -/
theorem C18_part_snapshot_syncs (h : Bytes → Nat) (db : Db) (objs : Objs) (reclaim : Bool) (order : List Bytes) (c : Nat) (L : Ghost)
    (hn : AL.NoDupKeys db.map) (hst : AllStorable db) (hm : ObjsMatch db.name objs L) (hinv : PartInv h db L) :
    ∃ L', ObjsMatch db.name (s3pSnapshot h db objs reclaim order c).2.1 L' ∧
      Synced h (s3pSnapshot h db objs reclaim order c).1 L' ∧
      AL.NoDupKeys (s3pSnapshot h db objs reclaim order c).1.map ∧
      (s3pSnapshot h db objs reclaim order c).1.name = db.name ∧
      MapRel db (s3pSnapshot h db objs reclaim order c).1 := by
  obtain ⟨L', m, mid, n, st, nm, r⟩ := s3pSnapFold h order (dirtyPartitions h db reclaim) db objs c L [] hn hst hm hinv
  simp only [List.nil_append] at mid
  -- every key of the final map is clean or lies in a rewritten partition
  have hall : ∀ k e, AL.get? (s3pSnapshot h db objs reclaim order c).1.map k = some e → e.state = .ok ∨ h k ∈ dirtyPartitions h db reclaim := by
    intro k e hg
    cases hg0 : AL.get? db.map k with
    | none => rw [show AL.get? (s3pSnapshot h db objs reclaim order c).1.map k = none from (r k).1 hg0] at hg; cases hg
    | some e0 =>
      obtain ⟨e1, hg1, _, hok⟩ := (r k).2 e0 hg0
      rw [show AL.get? (s3pSnapshot h db objs reclaim order c).1.map k = some e1 from hg1] at hg
      cases hg
      by_cases h0 : e0.state = .ok
      · exact Or.inl (hok h0)
      · exact Or.inr (mem_dirtyPartitions h db reclaim k e0 (AL.mem_of_get? _ _ _ hg0) (Or.inl h0))
  refine ⟨L', m, ⟨?_, ?_⟩, n, nm, r⟩
  · intro p l hl
    obtain ⟨hnd, hrec⟩ := mid.recs p l hl
    refine ⟨hnd, ?_⟩
    intro k e' hmem
    obtain ⟨hp, hs, e, hg, hnn, himp⟩ := hrec k e' hmem
    refine ⟨hp, hs, e, hg, hnn, himp ?_⟩
    rcases hall k e hg with ho | hd
    · exact Or.inl ho
    · exact Or.inr (hp ▸ hd)
  · intro k e hg
    exact mid.cover k e hg (hall k e hg)


/-! ### the reader -/

/-- what a loaded entry has in common with the record it was read from -/
def Entry.LoadedAs (a r : Entry) : Prop :=
  a.value = r.value ∧ a.version = r.version ∧ a.state = (if r.state = .deleted then .deleted else .ok)

theorem s3pLoadStep_obj (objs : Objs) (name : Bytes) (L : Ghost) (hm : ObjsMatch name objs L) (p : Nat) (l : List (Bytes × Entry))
    (hl : L p = some l) (hp : p < Bytes.u64Bound) (hst : ∀ x ∈ l, S3Storable x.1 x.2) (m : KV) (c : Nat) :
    s3pLoadStep objs name (some (m, c)) (Bytes.ofNat p) = some (s3pLoadedFrom l p c m, c + l.length) := by
  unfold s3pLoadStep
  have hk : s3Prefix ++ name ++ [47] ++ Bytes.ofNat p ++ b!".nun" = s3pObjKey name p := rfl
  simp only [hk, hm p, hl, Option.map_some, Bytes.parseU64_ofNat p hp]
  have := s3pLoadLoop_encPart l [] p ((encPart l).length + 1) 0 c m hst rfl (Nat.lt_succ_of_le (encPart_length_ge l))
  simpa using this

theorem s3pLoadFold (objs : Objs) (name : Bytes) (L : Ghost) (hm : ObjsMatch name objs L) (h : Bytes → Nat)
    (hrecs : ∀ p l, L p = some l → (l.map (·.1)).Nodup ∧ ∀ k e', (k, e') ∈ l → h k = p ∧ S3Storable k e') (ps : List Nat) :
    ∀ (m : KV) (c : Nat), (∀ p ∈ ps, (L p).isSome ∧ p < Bytes.u64Bound) →
    ∃ m' c', (ps.map Bytes.ofNat).foldl (s3pLoadStep objs name) (some (m, c)) = some (m', c') ∧
      (∀ k, (∀ p ∈ ps, ∀ l, L p = some l → k ∉ l.map (·.1)) → AL.get? m' k = AL.get? m k) ∧
      (∀ k, (∃ p ∈ ps, ∃ l, L p = some l ∧ k ∈ l.map (·.1)) →
         ∃ e'' p l e', AL.get? m' k = some e'' ∧ L p = some l ∧ (k, e') ∈ l ∧ e''.LoadedAs e' ∧ e''.vaddr = p) := by
  induction ps with
  | nil => intro m c _; exact ⟨m, c, rfl, fun _ _ => rfl, fun k ⟨p, hp, _⟩ => by cases hp⟩
  | cons p t ih =>
    intro m c hps
    obtain ⟨hsome, hbound⟩ := hps p List.mem_cons_self
    obtain ⟨l, hl⟩ := Option.isSome_iff_exists.1 hsome
    obtain ⟨hnd, hall⟩ := hrecs p l hl
    have hst : ∀ x ∈ l, S3Storable x.1 x.2 := fun x hx => (hall x.1 x.2 hx).2
    simp only [List.map_cons, List.foldl_cons]
    rw [s3pLoadStep_obj objs name L hm p l hl hbound hst m c]
    obtain ⟨m', c', hf, h1, h2⟩ := ih (s3pLoadedFrom l p c m) (c + l.length) (fun q hq => hps q (List.mem_cons_of_mem _ hq))
    refine ⟨m', c', hf, ?_, ?_⟩
    · intro k hk
      rw [h1 k (fun q hq => hk q (List.mem_cons_of_mem _ hq))]
      exact s3pLoadedFrom_other l k p c m (hk p List.mem_cons_self l hl)
    · intro k hk
      by_cases ht : ∃ q ∈ t, ∃ l', L q = some l' ∧ k ∈ l'.map (·.1)
      · exact h2 k ht
      · -- k is in this partition only
        have hnot : ∀ q ∈ t, ∀ l', L q = some l' → k ∉ l'.map (·.1) := fun q hq l' hl' hk' => ht ⟨q, hq, l', hl', hk'⟩
        obtain ⟨q, hq, l', hl', hk'⟩ := hk
        rcases List.mem_cons.1 hq with heq | hq'
        · subst heq
          rw [hl] at hl'; cases hl'
          obtain ⟨x, hx, hxk⟩ := List.mem_map.1 hk'
          obtain ⟨k', e'⟩ := x
          simp only at hxk; subst hxk
          obtain ⟨e'', hg, hv, hver, hs, hva⟩ := s3pLoadedFrom_mem l hnd k' e' q c m hx
          exact ⟨e'', q, l, e', by rw [h1 k' hnot]; exact hg, hl, hx, ⟨hv, hver, hs⟩, hva⟩
        · exact absurd ⟨q, hq', l', hl', hk'⟩ ht

/-- **C18 (partitioned strategy): a start-up from a bucket that is in step with memory rebuilds memory.**
`hlist` is what the listing call returned: the objects of this database, one name per partition that
has an object (the listing is an external call — its answer is a hypothesis here, the parsing of the
object names is compared with the real code by the correspondence runs). -/
theorem C18_part_load_of_synced (h : Bytes → Nat) (db : Db) (objs : Objs) (L : Ghost) (ps : List Nat) (clock : Nat)
    (hsync : Synced h db L) (hm : ObjsMatch db.name objs L)
    (hlist : s3pPartitionList objs db.name = ps.map Bytes.ofNat)
    (hps : ∀ p, p ∈ ps ↔ (L p).isSome) (hbound : ∀ p ∈ ps, p < Bytes.u64Bound) :
    ∃ db' c', s3pLoadDb objs db.name clock = some (db', c') ∧
      (∀ k e, AL.get? db.map k = some e → ∃ e', AL.get? db'.map k = some e' ∧ e'.value = e.value ∧ e'.version = e.version ∧
          e'.state = (if e.state = .deleted then .deleted else .ok) ∧ e'.vaddr = h k) ∧
      (∀ k, AL.get? db.map k = none → AL.get? db'.map k = none) := by
  have hrecs : ∀ p l, L p = some l → (l.map (·.1)).Nodup ∧ ∀ k e', (k, e') ∈ l → h k = p ∧ S3Storable k e' := by
    intro p l hl
    exact ⟨(hsync.recs p l hl).1, fun k e' hmem => ⟨((hsync.recs p l hl).2 k e' hmem).1, ((hsync.recs p l hl).2 k e' hmem).2.1⟩⟩
  obtain ⟨m', c', hf, h1, h2⟩ := s3pLoadFold objs db.name L hm h hrecs ps [] clock (fun p hp => ⟨(hps p).1 hp, hbound p hp⟩)
  refine ⟨{ name := db.name, id := 1, strategy := .arbiter, map := m', watchers := [], conns := 0 }, c', ?_, ?_, ?_⟩
  · unfold s3pLoadDb; rw [hlist, hf]
  · intro k e hg
    obtain ⟨l, hl, hk⟩ := hsync.cover k e hg
    have hp : h k ∈ ps := (hps (h k)).2 (by rw [hl]; rfl)
    obtain ⟨e'', p, l', e', hg', hl', hmem, hload, hva⟩ := h2 k ⟨h k, hp, l, hl, hk⟩
    obtain ⟨hkp, _, e0, hg0, _, hsame⟩ := (hsync.recs p l' hl').2 k e' hmem
    rw [hg] at hg0; cases hg0
    refine ⟨e'', hg', hload.1.trans hsame.1.symm, hload.2.1.trans hsame.2.1.symm, ?_, hva.trans hkp.symm⟩
    rw [hload.2.2]
    by_cases hd : e.state = .deleted
    · simp [hd, hsame.2.2.1 hd]
    · have : ¬ e'.state = .deleted := fun hb => hd (hsame.2.2.2 hb)
      simp [hd, this]
  · intro k hnone
    show AL.get? m' k = none
    rw [h1 k]; rfl
    intro p _ l hl hk
    obtain ⟨x, hx, hxk⟩ := List.mem_map.1 hk
    obtain ⟨k', e'⟩ := x
    simp only at hxk; subst hxk
    obtain ⟨_, _, e, hg, _, _⟩ := (hsync.recs p l hl).2 k' e' hx
    rw [hnone] at hg; cases hg

/-- **C18 for the partitioned strategy, snapshot then start-up**: from any state satisfying the
invariant, a snapshot (either mode) followed by a start-up from the bucket restores every key of the
database with its value and version — live keys live, removed keys removed — and nothing else: the
live data a start-up from a space-reclaiming disk snapshot restores (`C06_reclaim_roundtrip`) . -/
theorem C18_part_roundtrip (h : Bytes → Nat) (db : Db) (objs : Objs) (reclaim : Bool) (order : List Bytes) (c c2 : Nat) (L : Ghost)
    (hn : AL.NoDupKeys db.map) (hst : AllStorable db) (hm : ObjsMatch db.name objs L) (hinv : PartInv h db L)
    (hlisting : ∀ L', ObjsMatch db.name (s3pSnapshot h db objs reclaim order c).2.1 L' →
        ∃ ps : List Nat, s3pPartitionList (s3pSnapshot h db objs reclaim order c).2.1 db.name = ps.map Bytes.ofNat ∧
          (∀ p, p ∈ ps ↔ (L' p).isSome) ∧ ∀ p ∈ ps, p < Bytes.u64Bound) :
    ∃ db' c', s3pLoadDb (s3pSnapshot h db objs reclaim order c).2.1 db.name c2 = some (db', c') ∧
      ∀ k, liveView db'.map k = liveView db.map k := by
  obtain ⟨L', m', sync', _, nm', rel'⟩ := C18_part_snapshot_syncs h db objs reclaim order c L hn hst hm hinv
  obtain ⟨ps, hl1, hl2, hl3⟩ := hlisting L' m'
  have hload := C18_part_load_of_synced h (s3pSnapshot h db objs reclaim order c).1 (s3pSnapshot h db objs reclaim order c).2.1 L' ps c2
    sync' (by rw [nm']; exact m') (by rw [nm']; exact hl1) hl2 hl3
  rw [nm'] at hload
  obtain ⟨db', c', hld, ha, hb⟩ := hload
  refine ⟨db', c', hld, ?_⟩
  intro k
  cases hg : AL.get? db.map k with
  | none =>
    have h1 := hb k ((rel' k).1 hg)
    simp [liveView, h1, hg]
  | some e =>
    obtain ⟨e1, hg1, hs1, _⟩ := (rel' k).2 e hg
    obtain ⟨e2, hg2, hv, hver, hstt, _⟩ := ha k e1 hg1
    simp only [liveView, hg2, hg, Option.bind_some, hstt]
    by_cases hd : e.state = .deleted
    · simp [hd, hs1.2.2.2 hd]
    · have : ¬ e1.state = .deleted := fun hb' => hd (hs1.2.2.1 hb')
      simp [hd, this, hv, hver, hs1.1, hs1.2.1]


/-! ### the invariant holds along every history of writes and snapshots -/

/-- what a client's write does to the map: one key changes; it is left dirty (never `Ok`), a key that
was not new does not become new, and only a new key can vanish -/
def WriteStep (db db' : Db) : Prop :=
  db'.name = db.name ∧ ∃ k, (∀ k', k' ≠ k → AL.get? db'.map k' = AL.get? db.map k') ∧
    (AL.get? db'.map k = AL.get? db.map k
     ∨ (∃ e', AL.get? db'.map k = some e' ∧ e'.state ≠ .ok ∧ (e'.state = .new → ∀ e, AL.get? db.map k = some e → e.state = .new))
     ∨ (AL.get? db'.map k = none ∧ ∃ e, AL.get? db.map k = some e ∧ e.state = .new))

theorem updState_ne_ok (s : Status) : updState s ≠ .ok := by cases s <;> decide
theorem updState_new_inv (s : Status) (h : updState s = .new) : s = .new := by cases s <;> first | rfl | (exact absurd h (by decide))

theorem writeStep_refl (db : Db) : WriteStep db db := ⟨rfl, [], fun _ _ => rfl, Or.inl rfl⟩

theorem writeStep_setValueVersion_existing (db : Db) (k v : Bytes) (ver : Int) (old : Entry) (va ka op : Nat)
    (hg : AL.get? db.map k = some old) : WriteStep db (db.setValueVersion k v ver (updState old.state) va ka op) := by
  refine ⟨rfl, k, fun k' hk => AL.get?_put_other _ _ (Ne.symm hk), Or.inr (Or.inl ⟨_, AL.get?_put_same _ _ _, updState_ne_ok _, ?_⟩)⟩
  intro hnew e he
  rw [hg] at he; cases he
  exact updState_new_inv _ hnew

theorem writeStep_setValueVersion_fresh (db : Db) (k v : Bytes) (ver : Int) (va ka op : Nat)
    (hg : AL.get? db.map k = none) : WriteStep db (db.setValueVersion k v ver .new va ka op) := by
  refine ⟨rfl, k, fun k' hk => AL.get?_put_other _ _ (Ne.symm hk), Or.inr (Or.inl ⟨_, AL.get?_put_same _ _ _, (by intro hx; cases hx), ?_⟩)⟩
  intro _ e he
  rw [hg] at he; cases he

theorem writeStep_setValue (db : Db) (c : Change) : WriteStep db (db.setValue c).1 := by
  unfold Db.setValue Db.getValue
  cases hg : AL.get? db.map c.key with
  | none => exact writeStep_setValueVersion_fresh db _ _ _ _ _ _ hg
  | some old =>
    simp only []
    split
    · exact writeStep_refl db
    · exact writeStep_setValueVersion_existing db _ _ _ old _ _ _ hg

theorem writeStep_incValue (db : Db) (k : Bytes) (n : Int) (op : Nat) : WriteStep db (db.incValue k n op).1 := by
  unfold Db.incValue
  split
  · split
    · split
      · exact writeStep_refl db
      · unfold Db.incStore Db.getValue
        cases hg : AL.get? db.map k with
        | none => exact writeStep_setValueVersion_fresh db _ _ _ _ _ _ hg
        | some old => exact writeStep_setValueVersion_existing db _ _ _ old _ _ _ hg
    · exact writeStep_refl db
  · exact writeStep_refl db

theorem writeStep_removeValue (db db' : Db) (k : Bytes) (ps : List Push) (h : db.removeValue k = some (db', ps)) : WriteStep db db' := by
  unfold Db.removeValue at h
  split at h
  · cases h
  · simp only [Option.some.injEq, Prod.mk.injEq] at h
    obtain ⟨h1, _⟩ := h
    subst h1
    unfold Db.getValue
    cases hg : AL.get? db.map k with
    | none => exact writeStep_refl db
    | some e =>
      simp only []
      by_cases hn : e.state = .new
      · simp only [hn, if_true]
        exact ⟨rfl, k, fun k' hk => AL.get?_erase_other _ hk.symm, Or.inr (Or.inr ⟨AL.get?_erase_same _ _, e, hg, hn⟩)⟩
      · simp only [hn, if_false]
        refine ⟨rfl, k, fun k' hk => AL.get?_put_other _ _ (Ne.symm hk), Or.inr (Or.inl ⟨_, AL.get?_put_same _ _ _, (by intro hx; cases hx), ?_⟩)⟩
        intro hx; cases hx

/-- **a client's write keeps the invariant** (the objects are not touched) -/
theorem PartInv_writeStep (h : Bytes → Nat) (db db' : Db) (L : Ghost) (hw : WriteStep db db') (hinv : PartInv h db L) : PartInv h db' L := by
  obtain ⟨_, k, hother, hk⟩ := hw
  constructor
  · intro p l hl
    obtain ⟨hnd, hall⟩ := hinv.recs p l hl
    refine ⟨hnd, ?_⟩
    intro k0 e' hmem
    obtain ⟨hp, hs, e, hg, hnn, himp⟩ := hall k0 e' hmem
    by_cases hk0 : k0 = k
    · subst hk0
      rcases hk with hsame | ⟨e2, hg2, hnok, hnew⟩ | ⟨_, e3, hg3, hn3⟩
      · exact ⟨hp, hs, e, by rw [hsame]; exact hg, hnn, himp⟩
      · refine ⟨hp, hs, e2, hg2, fun hx => hnn (hnew hx e hg), ?_⟩
        intro hc
        rcases hc with hc | hc
        · exact absurd hc hnok
        · cases hc
      · rw [hg] at hg3; cases hg3; exact absurd hn3 hnn
    · exact ⟨hp, hs, e, by rw [hother k0 hk0]; exact hg, hnn, himp⟩
  · intro k0 e hg hc
    have hok : e.state = .ok := by
      rcases hc with hc | hc
      · exact hc
      · cases hc
    by_cases hk0 : k0 = k
    · subst hk0
      rcases hk with hsame | ⟨e2, hg2, hnok, _⟩ | ⟨hnone, _⟩
      · rw [hsame] at hg; exact hinv.cover k0 e hg (Or.inl hok)
      · rw [hg2] at hg; cases hg; exact absurd hok hnok
      · rw [hnone] at hg; cases hg
    · rw [hother k0 hk0] at hg; exact hinv.cover k0 e hg (Or.inl hok)

inductive POp
  | set (c : Change)
  | inc (k : Bytes) (n : Int) (op : Nat)
  | remove (k : Bytes)
  | snap (reclaim : Bool) (order : List Bytes)

structure PSt where
  db : Db
  objs : Objs
  clock : Nat

def PSt.step (h : Bytes → Nat) (s : PSt) : POp → PSt
  | .set c => { s with db := (s.db.setValue c).1 }
  | .inc k n op => { s with db := (s.db.incValue k n op).1 }
  | .remove k => match s.db.removeValue k with
    | some (db', _) => { s with db := db' }
    | none => s
  | .snap r o => ⟨(s3pSnapshot h s.db s.objs r o s.clock).1, (s3pSnapshot h s.db s.objs r o s.clock).2.1, (s3pSnapshot h s.db s.objs r o s.clock).2.2⟩

/-- a history is admissible when the entries are storable whenever a snapshot is taken (sizes the
reader accepts, UTF-8 text, `i32` versions — what the request path guarantees of every stored entry) -/
def PAdm (h : Bytes → Nat) : PSt → List POp → Prop
  | _, [] => True
  | s, op :: t => (match op with | .snap _ _ => AllStorable s.db | _ => True) ∧ PAdm h (s.step h op) t

/-- distinct keys, and the invariant for some record assignment -/
def PGood (h : Bytes → Nat) (s : PSt) : Prop :=
  AL.NoDupKeys s.db.map ∧ ∃ L, ObjsMatch s.db.name s.objs L ∧ PartInv h s.db L

theorem PGood_step (h : Bytes → Nat) (s : PSt) (op : POp) (hg : PGood h s)
    (ha : match op with | .snap _ _ => AllStorable s.db | _ => True) : PGood h (s.step h op) := by
  obtain ⟨hn, L, hm, hinv⟩ := hg
  cases op with
  | set c =>
    have hw := writeStep_setValue s.db c
    exact ⟨setValue_noDup s.db c hn, L, by show ObjsMatch (s.db.setValue c).1.name s.objs L; rw [hw.1]; exact hm, PartInv_writeStep h _ _ L hw hinv⟩
  | inc k n op =>
    have hw := writeStep_incValue s.db k n op
    exact ⟨incValue_noDup s.db k n op hn, L, by show ObjsMatch (s.db.incValue k n op).1.name s.objs L; rw [hw.1]; exact hm, PartInv_writeStep h _ _ L hw hinv⟩
  | remove k =>
    show PGood h (match s.db.removeValue k with | some (db', _) => { s with db := db' } | none => s)
    cases hr : s.db.removeValue k with
    | none => exact ⟨hn, L, hm, hinv⟩
    | some x =>
      obtain ⟨db', ps⟩ := x
      show PGood h { s with db := db' }
      have hw := writeStep_removeValue s.db db' k ps hr
      exact ⟨removeValue_noDup s.db db' k ps hn hr, L, by show ObjsMatch db'.name s.objs L; rw [hw.1]; exact hm, PartInv_writeStep h _ _ L hw hinv⟩
  | snap r o =>
    obtain ⟨L', m', sync', n', nm', _⟩ := C18_part_snapshot_syncs h s.db s.objs r o s.clock L hn ha hm hinv
    exact ⟨n', L', by show ObjsMatch (s3pSnapshot h s.db s.objs r o s.clock).1.name _ L'; rw [nm']; exact m', sync'.toPartInv⟩

/-- **C18 (partitioned strategy): the invariant holds after ANY history** of writes, increments, removes
and snapshots (either mode) — so `C18_part_roundtrip` applies after any history: one more snapshot and a
start-up restore the live data. -/
theorem C18_part_inv_after_any_history (h : Bytes → Nat) (ops : List POp) : ∀ (s : PSt), PGood h s → PAdm h s ops →
    PGood h (ops.foldl (PSt.step h) s) := by
  induction ops with
  | nil => intro s hg _; exact hg
  | cons op t ih =>
    intro s hg ha
    exact ih _ (PGood_step h s op hg ha.1) ha.2

/-- a fresh database and an empty bucket satisfy the invariant -/
theorem PGood_fresh (h : Bytes → Nat) (name : Bytes) (id : Nat) (st : Strategy) (c : Nat) : PGood h ⟨Db.new name id st, [], c⟩ := by
  refine ⟨by unfold AL.NoDupKeys; simp [Db.new], fun _ => none, fun _ => rfl, ⟨?_, ?_⟩⟩
  · intro p l hl; cases hl
  · intro k e hg; simp [Db.new, AL.get?] at hg


/-! ### non-vacuity: a concrete history (two writes, a snapshot, a remove, a write, a snapshot) is admissible
from the fresh state, for a placement by key length -/

def c18pH : Bytes → Nat := fun k => k.length % 2
def c18pS0 : PSt := ⟨Db.new b!"t" 1 .newer, [], 10⟩
def c18pOps : List POp :=
  [.set { key := b!"a", value := b!"one", version := -1, opId := 1, resolve := false }, .set { key := b!"bb", value := b!"two words", version := -1, opId := 2, resolve := false },
   .snap false [], .remove b!"a", .inc b!"n" 5 3, .snap true []]

example : PGood c18pH c18pS0 := PGood_fresh _ _ _ _ _

theorem allStorable_of_list (db : Db) (l : List (Bytes × Entry)) (hm : db.map = l) (h : ∀ x ∈ l, S3Storable x.1 x.2) : AllStorable db := by
  intro k e hg
  rw [hm] at hg
  exact h (k, e) (AL.mem_of_get? _ _ _ hg)

example : PAdm c18pH c18pS0 c18pOps := by
  refine ⟨trivial, trivial, ?_, trivial, trivial, ?_, trivial⟩
  · refine allStorable_of_list _ [(b!"a", ⟨b!"one", 0, 1, .new, 0, 0⟩), (b!"bb", ⟨b!"two words", 0, 2, .new, 0, 0⟩)] (by decide) ?_
    intro x hx
    simp only [List.mem_cons, List.not_mem_nil, or_false] at hx
    rcases hx with rfl | rfl <;> exact ⟨by decide, by decide, by decide, by decide, by decide, by decide⟩
  · refine allStorable_of_list _ [(b!"a", ⟨b!"<Empty>", 1, 11, .deleted, 1, 1⟩), (b!"bb", ⟨b!"two words", 0, 10, .ok, 0, 0⟩), (b!"n", ⟨b!"5", 1, 3, .new, 0, 0⟩)] (by decide) ?_
    intro x hx
    simp only [List.mem_cons, List.not_mem_nil, or_false] at hx
    rcases hx with rfl | rfl | rfl <;> exact ⟨by decide, by decide, by decide, by decide, by decide, by decide⟩

end Nun
