import NunVerif.Proofs.Oplog
/-!
# C12 — the operation-log query never misses an operation

`readFile` / `readAll` (Model/Oplog.lean) transcribe `read_operations_since_from_file` (bisection,
rewind over records sharing an id, forward scan) and `read_operations_since` (rotated files oldest
first, current file last). A "miss" is a `(db, key)` with a record at or after `since` that is absent
from the result; extra entries are allowed.
-/
namespace Nun

/-- **No miss, for every log and every starting timestamp.** Any number of records, keys,
databases, kinds and rotated files; timestamps non-decreasing within each file (equal timestamps
allowed — one id is written for several records by `replicate-snapshot a|b`); any `since`. -/
theorem C12_never_misses (cur : OpFile) (rot : List OpFile) (since : Nat)
    (hcur : cur.Sorted) (hrot : ∀ g ∈ rot, g.Sorted)
    (g : OpFile) (hg : g = cur ∨ g ∈ rot) (j : Nat) (r : OpRec) (hr : g[j]? = some r) (ht : since ≤ r.t) :
    (AL.get? (readAll cur rot since) (opKey r)).isSome :=
  readAll_no_miss cur rot since hcur hrot g hg j r hr ht

/-- **The bisection terminates and never underflows**: within its `2n + 4` iterations, on every
sorted file and every `since` (termination is a result, not an assumption). -/
theorem C12_bisection_total (f : OpFile) (since : Nat) (hs : f.Sorted) :
    bisect f since ≠ .underflow ∧ bisect f since ≠ .outOfFuel :=
  bisect_total f since hs

/-- **Label (one file)**: an entry that has to be there carries the kind of the most recent record
of its `(db, key)`. -/
theorem C12_label (f : OpFile) (since : Nat) (hs : f.Sorted)
    (j : Nat) (r : OpRec) (hr : f[j]? = some r) (ht : since ≤ r.t) :
    (AL.get? (readFile f since []) (opKey r)).map (·.1) = lastKind (opKey r) f none :=
  readFile_label f since hs j r hr ht

/-- **Last operation time**: the timestamp of the newest record — of the current file, or of the
newest rotated file right after a rotation — and `0` for an empty log. -/
theorem C12_last_op_time (cur : OpFile) (rot : List OpFile) :
    lastOpTime cur rot =
      match cur.getLast?, rot with
      | some r, _ => r.t
      | none, [] => 0
      | none, g :: _ => (g.getLast?.map (·.t)).getD 0 := by
  unfold lastOpTime
  cases cur.getLast? with
  | some r => rfl
  | none =>
    cases rot with
    | nil => rfl
    | cons g gs => simp only [List.head?_cons]; cases g.getLast? <;> rfl

/-- **Rotation keeps the newest records**: an append never removes a record from the files — the
record written is the last record of the current file afterwards, and every record that was on
disk before is still on disk (rotation only moves the current file to the rotated list). -/
theorem C12_append_keeps (fs : OplogFs) (single : Nat) (r : OpRec) (reopen : Bool) (x : OpRec)
    (hx : x ∈ fs.cur ∨ ∃ g ∈ fs.rot, x ∈ g) :
    let fs' := fs.append single r reopen
    (x ∈ fs'.cur ∨ ∃ g ∈ fs'.rot, x ∈ g) ∧ fs'.cur.getLast? = some r := by
  unfold OplogFs.append
  simp only []
  split <;> split <;> (try split) <;> simp_all <;> grind

/-- pruning keeps the 9 newest rotated files untouched and in order -/
theorem C12_declutter_keeps_newest (fs : OplogFs) :
    fs.declutter.cur = fs.cur ∧ fs.declutter.rot = (if fs.rot.length < 10 then fs.rot else fs.rot.take 9) := by
  unfold OplogFs.declutter
  split <;> simp_all

/-- non-vacuity + regression witness of the fixed equal-timestamp defect: records at times
10,20,20,30,30,40,50,60,60 queried at 20 return both records of time 20 -/
example :
    let f : OpFile := [⟨10,0,1,0⟩, ⟨20,1,1,0⟩, ⟨20,2,1,0⟩, ⟨30,3,1,0⟩, ⟨30,4,1,0⟩, ⟨40,5,1,0⟩, ⟨50,6,1,0⟩, ⟨60,7,1,0⟩, ⟨60,8,1,0⟩]
    (readFile f 20 []).map (·.1) = [(1,1),(1,2),(1,3),(1,4),(1,5),(1,6),(1,7),(1,8)] := by
  decide

end Nun
