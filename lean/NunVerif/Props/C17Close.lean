import NunVerif.Props.C17
import NunVerif.Props.C20
import NunVerif.Props.C20Transport
import NunVerif.Gen.Close
/-
  C17 / C20 — the disconnect glue of the transports is what the model's close sequences assume.

  The harness does not run `tcp_ops::handle_client`, the websocket handler's `release` (reached from `on_close` and from `Drop`) or the socket side of
  `http_ops`: its `CLOSE` operation (and the model's `Node.tcpClose` / `Node.http`) re-enact their
  disconnect sequence — `unwatch-all`, then (tcp only, for a connection that announced itself as a
  cluster member) the leave handling, then `Client::left`, the last two UNCONDITIONALLY.  The theorem
  `C17_counter_is_bound_sessions` speaks about sessions that are released when they end; that rests
  on this glue.  `Gen.closeSequences` is regenerated from /repo/src on every run (which of the steps
  occur inside the disconnect arm, in which order, how deeply nested); these pins fail to check when
  the release is no longer unconditional, or no longer follows the unwatch.
-/
namespace Nun

/-- the steps of a disconnect sequence other than the cluster-member leave handling -/
def closeCore (steps : List (List Nat × Nat)) : List (List Nat × Nat) := steps.filter fun s => s.1 != b!"leave"

theorem C17_tcp_disconnect_releases_unconditionally :
    (AL.get? Gen.closeSequences b!"tcp").map closeCore = some [(b!"unwatch-all", 0), (b!"left", 0)] := by decide +kernel

theorem C17_ws_disconnect_releases_unconditionally :
    (AL.get? Gen.closeSequences b!"ws").map closeCore = some [(b!"unwatch-all", 0), (b!"left", 0)] := by decide +kernel

/-- the websocket handler reaches its release from both ends of a connection's life: the close frame (`on_close`) and the
handler being dropped (a connection the library tears down after a protocol error never gets an `on_close`; fix 8d6b870) -/
theorem C17_ws_release_is_reached_from_on_close_and_from_drop :
    AL.get? Gen.closeSequences b!"ws-on-close" = some [(b!"release", 0)] ∧ AL.get? Gen.closeSequences b!"ws-drop" = some [(b!"release", 0)] := by decide +kernel

theorem C20_http_request_end_releases_unconditionally :
    (AL.get? Gen.closeSequences b!"http").map closeCore = some [(b!"unwatch-all", 0), (b!"left", 0)] := by decide +kernel

/-- the member leave handling of the tcp transport sits between the two -/
theorem C17_tcp_leave_handling_before_release :
    ((AL.get? Gen.closeSequences b!"tcp").getD []).map (·.1) = [b!"unwatch-all", b!"leave", b!"left"] := by decide +kernel

end Nun
