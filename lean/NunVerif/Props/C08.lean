import NunVerif.Props.C09
import NunVerif.Proofs.Kv
/-!
# C08 — secure (`$$`) keys are invisible and immutable to non-administrators
-/
namespace Nun

/-- **Uniform refusal.** Whatever two servers store (the states `n₁`, `n₂` are arbitrary and
unrelated), a non-admin session's get / get-safe / watch / set / set-safe / increment / remove /
resolve on a `$$` key gets the same reply and the same (empty) pushes on both, and neither server
changes: nothing about `$$` keys — not even their existence — reaches such a session this way. -/
theorem C08_secure_refused_uniform (fuel : Node → Sid → Bytes → Node × Out) (n₁ n₂ : Node) (sid : Sid) (req : Request) (key : Bytes) (kind : PermKind)
    (hk : req.keyedKind = some (key, kind)) (hs : Bytes.startsWith key Gen.securePrefix = true)
    (ha₁ : (n₁.session sid).auth = false) (ha₂ : (n₂.session sid).auth = false) :
    (n₁.processObj fuel sid req).2 = (n₂.processObj fuel sid req).2 ∧
    (n₁.processObj fuel sid req).1 = n₁ ∧ (n₂.processObj fuel sid req).1 = n₂ := by
  rw [C09_secure_key_refused fuel n₁ sid req key kind hk ha₁ hs, C09_secure_key_refused fuel n₂ sid req key kind hk ha₂ hs]
  exact ⟨rfl, rfl, rfl⟩

/-- `keys` never lists a `$$` key to a non-administrator, for any pattern and any database. -/
theorem C08_keys_hides_secure (db : Db) (pat k : Bytes) (h : k ∈ db.listKeys pat false) :
    Bytes.startsWith k Gen.securePrefix = false := by
  unfold Db.listKeys at h
  rw [mem_sort] at h
  simp only [List.mem_map, List.mem_filter, Prod.exists, exists_and_right, exists_eq_right] at h
  obtain ⟨e, _, hc⟩ := h
  simp only [Bool.false_or, Bool.and_eq_true, Bool.not_eq_eq_eq_not, Bool.not_true] at hc
  exact hc.1.1

/-- `$$token` cannot be removed by anyone: `remove_value` refuses it in every database … -/
theorem C08_token_irremovable_db (db : Db) : db.removeValue Gen.tokenKey = none := by
  simp [Db.removeValue]

/-- … so a `remove $$token` from any session — administrators included — leaves the node unchanged -/
theorem C08_token_irremovable (fuel : Node → Sid → Bytes → Node × Out) (n : Node) (sid : Sid) :
    (n.processObj fuel sid (.remove Gen.tokenKey)).1 = n := by
  simp only [Node.processObj, Node.withAccess]
  cases h : n.safeAccess sid Gen.tokenKey .remove with
  | refused out => rfl
  | granted db => simp [C08_token_irremovable_db]

/-- the same for the replicated form of the command -/
theorem C08_token_irremovable_replicated (fuel : Node → Sid → Bytes → Node × Out) (n : Node) (sid : Sid) (dbn : Bytes) :
    (n.processObj fuel sid (.replicateRemove dbn Gen.tokenKey)).1 = n := by
  simp only [Node.processObj]
  split
  · rfl
  · cases n.db? dbn with
    | none => rfl
    | some db => simp [C08_token_irremovable_db]

/-- the conflict keys an arbiter database writes on behalf of a client never fall under the
secure prefix themselves (their name starts with `$conflicts`, one `$`) -/
theorem C08_conflict_keys_not_secure (c : Change) : Bytes.startsWith (conflictKey c) Gen.securePrefix = false := by
  simp [conflictKey, Gen.conflictsKey, Gen.securePrefix, Bytes.startsWith]

/-- a version conflict on a `$$` key of an arbiter database is answered as a plain version error:
no notice (which would carry the key's old and new value) is built for the arbiter clients -/
theorem C08_no_notice_for_secure_keys (n : Node) (db : Db) (c : Change) (hs : Bytes.startsWith c.key Gen.securePrefix = true)
    (hst : db.strategy = .arbiter) : (n.applyChange db c).2.2.2 = (pushes (db.setValue c).2.2) ∨ (n.applyChange db c).2.2.2 = [] := by
  unfold Node.applyChange
  cases hres : db.setValue c with
  | mk db' rest =>
    obtain ⟨r, ps⟩ := rest
    cases r with
    | set k v => left; rfl
    | versionError key ov v old c' st =>
      right
      have hk : key = c.key := by
        unfold Db.setValue at hres
        cases hg : db.getValue c.key with
        | none => simp [hg] at hres
        | some o =>
          simp only [hg] at hres
          split at hres
          · simp only [Prod.mk.injEq, SetResp.versionError.injEq] at hres; exact hres.2.1.1.symm
          · simp at hres
      simp [hst, hk, hs]

end Nun
