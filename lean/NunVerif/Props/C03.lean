import NunVerif.Model.Exec
import NunVerif.Proofs.AL
import NunVerif.Proofs.Kv
/-
  C03 — watchers get every committed change, only committed changes, and end up current.

  Stated on the database object (`Database::set_value`, `remove_value`, `inc_value`, `watch_key`,
  `unwatch_key`, `unwatch_all`): the subscription table is `watchers : key ↦ senders` and every
  mutation returns the list of pushes it made.  Sequential semantics: one operation at a time on the
  node (the interleaving of two operations' lock regions is explored on the code by the schedule
  stage, not proved here — see DESIGN.md).
-/
namespace Nun

/-- `s` is subscribed to `k` -/
def Db.Subscribed (db : Db) (k : Bytes) (s : Sid) : Prop := s ∈ (AL.get? db.watchers k).getD []

/-- the pushes of a list addressed to `s` -/
def pushesTo (ps : List Push) (s : Sid) : List Bytes := (ps.filter (·.sid = s)).map (·.line)

/-- no sender is registered twice for a key -/
def Db.WatchNodup (db : Db) : Prop := ∀ k, ((AL.get? db.watchers k).getD []).Nodup

/-! ### subscription bookkeeping -/

theorem subscribed_watch_self (db : Db) (k : Bytes) (s : Sid) : (db.watch k s).Subscribed k s := by
  unfold Db.Subscribed Db.watch
  split <;> simp_all [AL.get?_put_same]

theorem subscribed_watch_iff (db : Db) (k k' : Bytes) (s s' : Sid) (h : ¬(k' = k ∧ s' = s)) :
    (db.watch k' s').Subscribed k s ↔ db.Subscribed k s := by
  unfold Db.Subscribed Db.watch
  split
  · rfl
  · simp only [AL.get?_put]
    split
    · rename_i hk; subst hk
      simp only [Option.getD_some, List.mem_append, List.mem_singleton]
      constructor
      · rintro (h1 | h1)
        · exact h1
        · exact absurd ⟨rfl, h1.symm⟩ h
      · intro h1; exact Or.inl h1
    · rfl

theorem watch_nodup (db : Db) (k : Bytes) (s : Sid) (h : db.WatchNodup) : (db.watch k s).WatchNodup := by
  intro k'
  unfold Db.watch
  split
  · exact h k'
  · rename_i hn
    simp only [AL.get?_put]
    split
    · simp only [Option.getD_some]
      rw [List.nodup_append]
      refine ⟨h k, by simp, ?_⟩
      intro a ha b hb
      simp at hb; subst hb
      intro hab; subst hab
      exact hn ha
    · exact h k'

theorem subscribed_unwatch_iff (db : Db) (k k' : Bytes) (s s' : Sid) :
    (db.unwatch k' s').Subscribed k s ↔ (db.Subscribed k s ∧ ¬(k' = k ∧ s' = s)) := by
  unfold Db.Subscribed Db.unwatch
  simp only [AL.get?_put]
  split
  · rename_i hk; subst hk
    simp only [Option.getD_some, List.mem_filter, bne_iff_ne, ne_eq]
    constructor
    · rintro ⟨h1, h2⟩; exact ⟨h1, fun ⟨_, h3⟩ => h2 h3.symm⟩
    · rintro ⟨h1, h2⟩; exact ⟨h1, fun h3 => h2 ⟨rfl, h3.symm⟩⟩
  · rename_i hk
    constructor
    · intro h1; exact ⟨h1, fun ⟨h2, _⟩ => hk h2⟩
    · intro h1; exact h1.1

theorem unwatch_nodup (db : Db) (k : Bytes) (s : Sid) (h : db.WatchNodup) : (db.unwatch k s).WatchNodup := by
  intro k'
  unfold Db.unwatch
  simp only [AL.get?_put]
  split
  · simp only [Option.getD_some]; exact List.Nodup.filter _ (h k)
  · exact h k'

theorem unwatchFold_subscribed (ks : List Bytes) (db : Db) (k : Bytes) (s s' : Sid) :
    (ks.foldl (fun d k => d.unwatch k s') db).Subscribed k s ↔ (db.Subscribed k s ∧ ¬(k ∈ ks ∧ s' = s)) := by
  induction ks generalizing db with
  | nil => simp
  | cons k0 rest ih =>
    simp only [List.foldl_cons, ih, subscribed_unwatch_iff, List.mem_cons]
    constructor
    · rintro ⟨⟨h1, h2⟩, h3⟩
      refine ⟨h1, ?_⟩
      rintro ⟨h4 | h4, h5⟩
      · exact h2 ⟨h4.symm, h5⟩
      · exact h3 ⟨h4, h5⟩
    · rintro ⟨h1, h2⟩
      exact ⟨⟨h1, fun ⟨h3, h4⟩ => h2 ⟨Or.inl h3.symm, h4⟩⟩, fun ⟨h3, h4⟩ => h2 ⟨Or.inr h3, h4⟩⟩

/-- **another client's** watch / unwatch / unwatch-all never drops or alters a subscription -/
theorem C03_other_clients_cannot_touch (db : Db) (k k' : Bytes) (s s' : Sid) (hne : s' ≠ s) :
    ((db.watch k' s').Subscribed k s ↔ db.Subscribed k s) ∧
    ((db.unwatch k' s').Subscribed k s ↔ db.Subscribed k s) ∧
    ((db.unwatchAll s').Subscribed k s ↔ db.Subscribed k s) := by
  refine ⟨subscribed_watch_iff db k k' s s' (fun h => hne h.2), ?_, ?_⟩
  · rw [subscribed_unwatch_iff]; exact ⟨fun h => h.1, fun h => ⟨h, fun h2 => hne h2.2⟩⟩
  · unfold Db.unwatchAll
    rw [unwatchFold_subscribed]; exact ⟨fun h => h.1, fun h => ⟨h, fun h2 => hne h2.2⟩⟩

/-- after its own unwatch / unwatch-all a client is not subscribed any more -/
theorem C03_unsubscribe (db : Db) (k : Bytes) (s : Sid) :
    ¬(db.unwatch k s).Subscribed k s ∧ ¬(db.unwatchAll s).Subscribed k s := by
  refine ⟨by rw [subscribed_unwatch_iff]; exact fun h => h.2 ⟨rfl, rfl⟩, ?_⟩
  unfold Db.unwatchAll
  rw [unwatchFold_subscribed]
  rintro ⟨h1, h2⟩
  apply h2
  refine ⟨?_, rfl⟩
  -- a subscribed key is a key of the table
  unfold Db.Subscribed at h1
  cases hg : AL.get? db.watchers k with
  | none => simp [hg] at h1
  | some l =>
    have := AL.mem_of_get? db.watchers k l hg
    exact List.mem_map.2 ⟨(k, l), this, rfl⟩

/-! ### what a mutation pushes -/

theorem notify_to (db : Db) (k v : Bytes) (ver : Int) (s : Sid) (hn : db.WatchNodup) :
    pushesTo (db.notify k v ver) s =
      if db.Subscribed k s then
        [Gen.changedPrefix ++ k ++ [32] ++ v ++ [10],
         Gen.changedVersionPrefix ++ k ++ [32] ++ Bytes.ofInt ver ++ [32] ++ v ++ [10]]
      else [] := by
  unfold Db.notify Db.Subscribed pushesTo
  have hnk := hn k
  cases hg : AL.get? db.watchers k with
  | none => simp
  | some ss =>
    rw [hg] at hnk
    simp only [Option.getD_some] at hnk ⊢
    induction ss with
    | nil => simp
    | cons a rest ih =>
      simp only [List.nodup_cons] at hnk
      simp only [List.flatMap_cons, List.filter_append, List.map_append, List.mem_cons]
      by_cases has : a = s
      · subst has
        have hr : ¬ a ∈ rest := hnk.1
        have := ih hnk.2
        simp only [hr, if_false] at this
        simp [this]
      · have := ih hnk.2
        rw [this]
        have hsa : ¬ s = a := fun h => has h.symm
        simp [has, hsa]

theorem notifyRemoved_to (db : Db) (k : Bytes) (s : Sid) (hn : db.WatchNodup) :
    pushesTo (db.notifyRemoved k) s = if db.Subscribed k s then [Gen.removedPrefix ++ k ++ [10]] else [] := by
  unfold Db.notifyRemoved Db.Subscribed pushesTo
  have hnk := hn k
  cases hg : AL.get? db.watchers k with
  | none => simp
  | some ss =>
    rw [hg] at hnk
    simp only [Option.getD_some] at hnk ⊢
    induction ss with
    | nil => simp
    | cons a rest ih =>
      simp only [List.nodup_cons] at hnk
      simp only [List.map_cons, List.filter_cons, List.mem_cons]
      by_cases has : a = s
      · subst has
        have hr : ¬ a ∈ rest := hnk.1
        have := ih hnk.2
        simp only [hr, if_false] at this
        simp [this]
      · have := ih hnk.2
        have hsa : ¬ s = a := fun h => has h.symm
        simp [has, hsa, this]

/-- a write never touches the subscription table -/
theorem setValue_watchers (db : Db) (c : Change) : (db.setValue c).1.watchers = db.watchers := by
  unfold Db.setValue
  split
  · split <;> simp [Db.setValueVersion]
  · simp [Db.setValueVersion]

/-- **set / set-safe / replicated write.** Accepted: a subscriber of the key receives exactly one
`changed` + `changed-version` pair carrying the committed value and version, everybody else
nothing; refused: nobody receives anything and the database is unchanged. -/
theorem C03_write_notifies (db : Db) (c : Change) (s : Sid) (hn : db.WatchNodup) :
    match db.setValue c with
    | (db', .set _ _, ps) =>
        (∃ e, db'.getValue c.key = some e ∧ e.value = c.value ∧
          pushesTo ps s =
            if db.Subscribed c.key s then
              [Gen.changedPrefix ++ c.key ++ [32] ++ c.value ++ [10],
               Gen.changedVersionPrefix ++ c.key ++ [32] ++ Bytes.ofInt e.version ++ [32] ++ c.value ++ [10]]
            else [])
    | (db', .versionError .., ps) => ps = [] ∧ db' = db := by
  unfold Db.setValue
  split
  · rename_i old hold
    split
    · exact ⟨rfl, rfl⟩
    · simp only []
      refine ⟨_, by simp [Db.getValue, Db.setValueVersion, AL.get?_put_same], rfl, ?_⟩
      rw [notify_to _ _ _ _ _ (by intro k; exact hn k)]
      rfl
  · simp only []
    refine ⟨_, by simp [Db.getValue, Db.setValueVersion, AL.get?_put_same], rfl, ?_⟩
    rw [notify_to _ _ _ _ _ (by intro k; exact hn k)]
    rfl

/-- **remove.** A subscriber of the key receives exactly one `removed` line, everybody else nothing;
a refused remove (`$$token`) pushes nothing. -/
theorem C03_remove_notifies (db : Db) (k : Bytes) (s : Sid) (hn : db.WatchNodup) :
    match db.removeValue k with
    | some (_, ps) => pushesTo ps s = if db.Subscribed k s then [Gen.removedPrefix ++ k ++ [10]] else []
    | none => True := by
  unfold Db.removeValue
  split
  · trivial
  · simp only []
    rw [notifyRemoved_to]
    · congr 1
      unfold Db.Subscribed
      split <;> (try split) <;> simp [Db.setValueVersion]
    · intro k'
      split <;> (try split) <;> exact hn k'

/-- **increment.** Accepted: exactly one pair carrying the new number; refused (not a number,
overflow, version cap): nothing and the database is unchanged. -/
theorem C03_increment_notifies (db : Db) (k : Bytes) (inc : Int) (op : Nat) (s : Sid) (hn : db.WatchNodup) :
    match db.incValue k inc op with
    | (db', .ok, ps) =>
        ∃ cur, Bytes.parseI32 (db.incText k) = some cur ∧
          pushesTo ps s =
            if db.Subscribed k s then
              [Gen.changedPrefix ++ k ++ [32] ++ Bytes.ofInt (cur + inc) ++ [10],
               Gen.changedVersionPrefix ++ k ++ [32] ++ Bytes.ofInt (-1) ++ [32] ++ Bytes.ofInt (cur + inc) ++ [10]]
            else []
    | (db', _, ps) => ps = [] ∧ db' = db := by
  unfold Db.incValue
  split
  · rename_i cur hcur
    split
    · split
      · exact ⟨rfl, rfl⟩
      · simp only []
        refine ⟨cur, rfl, ?_⟩
        rw [notify_to]
        · congr 1
        · intro k'; unfold Db.incStore; split <;> exact hn k'
    · exact ⟨rfl, rfl⟩
  · exact ⟨rfl, rfl⟩

/-! ### ending up current -/

/-- the value carried by the last `changed-version` line for `k` in an inbox, if any -/
def lastNote (k : Bytes) (inbox : List Bytes) : Option Bytes :=
  (inbox.reverse.find? (fun l => Bytes.startsWith l (Gen.changedVersionPrefix ++ k ++ [32]))).map id

/-- a sequence of accepted/refused writes of one key by any clients, all pushes to `s` collected -/
def runWrites (db : Db) (s : Sid) : List Change → Db × List Bytes
  | [] => (db, [])
  | c :: rest =>
    match db.setValue c with
    | (db', _, ps) =>
      let r := runWrites db' s rest
      (r.1, pushesTo ps s ++ r.2)

theorem runWrites_refused_keeps (db : Db) (s : Sid) (cs : List Change) (k : Bytes) (e : Entry) (hn : db.WatchNodup)
    (hsub : db.Subscribed k s) (hk : ∀ c ∈ cs, c.key = k) (hnil : (runWrites db s cs).2 = [])
    (hget : db.getValue k = some e) : (runWrites db s cs).1.getValue k = some e := by
  induction cs generalizing db with
  | nil => exact hget
  | cons c rest ih =>
    have hck : c.key = k := hk c (by simp)
    have hw := C03_write_notifies db c s hn
    simp only [runWrites] at hnil ⊢
    generalize hres : db.setValue c = res at hw hnil
    obtain ⟨db', resp, ps⟩ := res
    simp only [List.append_eq_nil_iff] at hnil
    cases resp with
    | versionError a b c1 d e1 f =>
      simp only [] at hw
      obtain ⟨_, hdb⟩ := hw
      subst hdb
      exact ih db' hn hsub (fun c' hc' => hk c' (by simp [hc'])) hnil.2 hget
    | set a b =>
      simp only [] at hw
      obtain ⟨e2, _, _, hpush⟩ := hw
      rw [hck] at hpush
      simp only [hsub, if_true] at hpush
      rw [hpush] at hnil
      simp at hnil

/-- **ends up current.** While `s` stays subscribed to `k`, after any sequence of writes to `k`
(accepted or refused, from anyone) of which at least one was accepted, the LAST notification pair
`s` received carries the value the key now has. -/
theorem C03_ends_current (db : Db) (s : Sid) (k : Bytes) (cs : List Change) (hn : db.WatchNodup)
    (hsub : db.Subscribed k s) (hk : ∀ c ∈ cs, c.key = k) :
    let r := runWrites db s cs
    r.2 = [] ∨ ∃ e, r.1.getValue k = some e ∧
      r.2.getLast? = some (Gen.changedVersionPrefix ++ k ++ [32] ++ Bytes.ofInt e.version ++ [32] ++ e.value ++ [10]) := by
  induction cs generalizing db with
  | nil => left; rfl
  | cons c rest ih =>
    have hck : c.key = k := hk c (by simp)
    have hw := C03_write_notifies db c s hn
    simp only [runWrites]
    have hwat := setValue_watchers db c
    generalize hres : db.setValue c = res at hw hwat
    obtain ⟨db', resp, ps⟩ := res
    simp only [] at hwat
    have hn' : db'.WatchNodup := by intro k'; rw [hwat]; exact hn k'
    have hsub' : db'.Subscribed k s := by unfold Db.Subscribed; rw [hwat]; exact hsub
    have ihr := ih db' hn' hsub' (fun c' hc' => hk c' (by simp [hc']))
    cases resp with
    | versionError a b c1 d e f =>
      simp only [] at hw
      obtain ⟨hps, hdb⟩ := hw
      subst hps
      simpa [pushesTo] using ihr
    | set a b =>
      simp only [] at hw
      obtain ⟨e, hget, hval, hpush⟩ := hw
      rw [hck] at hpush hget
      simp only [hsub, if_true] at hpush
      rcases ihr with hnil | ⟨e', hget', hlast'⟩
      · right
        -- no later notification: later writes were all refused, the key still holds e
        refine ⟨e, ?_, ?_⟩
        · exact runWrites_refused_keeps db' s rest k e hn' hsub' (fun c' hc' => hk c' (by simp [hc'])) hnil hget
        · simp only []
          rw [hnil, List.append_nil, hpush, ← hval]
          simp
      · right
        refine ⟨e', hget', ?_⟩
        simp only []
        rw [List.getLast?_append_of_ne_nil _ (by intro h; rw [h] at hlast'; simp at hlast')]
        exact hlast'

end Nun
