import NunVerif.Model.Exec
import NunVerif.Proofs.AL
import NunVerif.Proofs.Kv
import NunVerif.Props.C02
import NunVerif.Props.C13
/-
  C03 — watchers get every committed change, only committed changes, and end up current.

  Stated on the database object (`Database::set_value`, `remove_value`, `inc_value`, `watch_key`,
  `unwatch_key`, `unwatch_all`): the subscription table is `watchers : key ↦ senders` and every
  mutation returns the list of pushes it made.  Sequential semantics: one operation at a time on the
  node (the interleaving of two operations' lock regions is explored on the code by the schedule
  stage, not proved here — see DESIGN.md).
-/
namespace Nun

/-- `s` is subscribed to `k` -/
def Db.Subscribed (db : Db) (k : Bytes) (s : Sid) : Prop := s ∈ (AL.get? db.watchers k).getD []

instance (db : Db) (k : Bytes) (s : Sid) : Decidable (db.Subscribed k s) := by
  unfold Db.Subscribed; infer_instance

/-- the pushes of a list addressed to `s` -/
def pushesTo (ps : List Push) (s : Sid) : List Bytes := (ps.filter (·.sid = s)).map (·.line)

/-- no sender is registered twice for a key -/
def Db.WatchNodup (db : Db) : Prop := ∀ k, ((AL.get? db.watchers k).getD []).Nodup

/-! ### subscription bookkeeping -/

theorem subscribed_watch_self (db : Db) (k : Bytes) (s : Sid) : (db.watch k s).Subscribed k s := by
  unfold Db.Subscribed Db.watch
  split <;> simp_all [AL.get?_put_same]

theorem subscribed_watch_iff (db : Db) (k k' : Bytes) (s s' : Sid) (h : ¬(k' = k ∧ s' = s)) :
    (db.watch k' s').Subscribed k s ↔ db.Subscribed k s := by
  unfold Db.Subscribed Db.watch
  split
  · rfl
  · simp only [AL.get?_put]
    split
    · rename_i hk; subst hk
      simp only [Option.getD_some, List.mem_append, List.mem_singleton]
      constructor
      · rintro (h1 | h1)
        · exact h1
        · exact absurd ⟨rfl, h1.symm⟩ h
      · intro h1; exact Or.inl h1
    · rfl

theorem watch_nodup (db : Db) (k : Bytes) (s : Sid) (h : db.WatchNodup) : (db.watch k s).WatchNodup := by
  intro k'
  unfold Db.watch
  split
  · exact h k'
  · rename_i hn
    simp only [AL.get?_put]
    split
    · simp only [Option.getD_some]
      rw [List.nodup_append]
      refine ⟨h k, by simp, ?_⟩
      intro a ha b hb
      simp at hb; subst hb
      intro hab; subst hab
      exact hn ha
    · exact h k'

theorem subscribed_unwatch_iff (db : Db) (k k' : Bytes) (s s' : Sid) :
    (db.unwatch k' s').Subscribed k s ↔ (db.Subscribed k s ∧ ¬(k' = k ∧ s' = s)) := by
  unfold Db.Subscribed Db.unwatch
  simp only [AL.get?_put]
  by_cases hk : k' = k
  · subst hk
    simp only [if_true, Option.getD_some, List.mem_filter, bne_iff_ne, ne_eq, true_and]
    constructor
    · rintro ⟨h1, h2⟩; exact ⟨h1, fun h3 => h2 h3.symm⟩
    · rintro ⟨h1, h2⟩; exact ⟨h1, fun h3 => h2 h3.symm⟩
  · simp [hk]

theorem unwatch_nodup (db : Db) (k : Bytes) (s : Sid) (h : db.WatchNodup) : (db.unwatch k s).WatchNodup := by
  intro k'
  unfold Db.unwatch
  simp only [AL.get?_put]
  split
  · simp only [Option.getD_some]; exact List.Nodup.sublist List.filter_sublist (h k)
  · exact h k'

theorem unwatchFold_subscribed (ks : List Bytes) (db : Db) (k : Bytes) (s s' : Sid) :
    (ks.foldl (fun d k => d.unwatch k s') db).Subscribed k s ↔ (db.Subscribed k s ∧ ¬(k ∈ ks ∧ s' = s)) := by
  induction ks generalizing db with
  | nil => simp
  | cons k0 rest ih =>
    simp only [List.foldl_cons, ih, subscribed_unwatch_iff, List.mem_cons]
    constructor
    · rintro ⟨⟨h1, h2⟩, h3⟩
      refine ⟨h1, ?_⟩
      rintro ⟨h4 | h4, h5⟩
      · exact h2 ⟨h4.symm, h5⟩
      · exact h3 ⟨h4, h5⟩
    · rintro ⟨h1, h2⟩
      exact ⟨⟨h1, fun ⟨h3, h4⟩ => h2 ⟨Or.inl h3.symm, h4⟩⟩, fun ⟨h3, h4⟩ => h2 ⟨Or.inr h3, h4⟩⟩

/-- **another client's** watch / unwatch / unwatch-all never drops or alters a subscription -/
theorem C03_other_clients_cannot_touch (db : Db) (k k' : Bytes) (s s' : Sid) (hne : s' ≠ s) :
    ((db.watch k' s').Subscribed k s ↔ db.Subscribed k s) ∧
    ((db.unwatch k' s').Subscribed k s ↔ db.Subscribed k s) ∧
    ((db.unwatchAll s').Subscribed k s ↔ db.Subscribed k s) := by
  refine ⟨subscribed_watch_iff db k k' s s' (fun h => hne h.2), ?_, ?_⟩
  · rw [subscribed_unwatch_iff]; exact ⟨fun h => h.1, fun h => ⟨h, fun h2 => hne h2.2⟩⟩
  · unfold Db.unwatchAll
    rw [unwatchFold_subscribed]; exact ⟨fun h => h.1, fun h => ⟨h, fun h2 => hne h2.2⟩⟩

/-- after its own unwatch / unwatch-all a client is not subscribed any more -/
theorem C03_unsubscribe (db : Db) (k : Bytes) (s : Sid) :
    ¬(db.unwatch k s).Subscribed k s ∧ ¬(db.unwatchAll s).Subscribed k s := by
  refine ⟨by rw [subscribed_unwatch_iff]; exact fun h => h.2 ⟨rfl, rfl⟩, ?_⟩
  unfold Db.unwatchAll
  rw [unwatchFold_subscribed]
  rintro ⟨h1, h2⟩
  apply h2
  refine ⟨?_, rfl⟩
  -- a subscribed key is a key of the table
  unfold Db.Subscribed at h1
  cases hg : AL.get? db.watchers k with
  | none => simp [hg] at h1
  | some l =>
    have := AL.mem_of_get? db.watchers k l hg
    exact List.mem_map.2 ⟨(k, l), this, rfl⟩

/-! ### what a mutation pushes -/

theorem pair_to (ss : List Sid) (a b : Bytes) (s : Sid) (hnd : ss.Nodup) :
    pushesTo (ss.flatMap fun x => [⟨x, a⟩, ⟨x, b⟩]) s = if s ∈ ss then [a, b] else [] := by
  unfold pushesTo
  induction ss with
  | nil => simp
  | cons x rest ih =>
    simp only [List.nodup_cons] at hnd
    simp only [List.flatMap_cons, List.filter_append, List.map_append, List.mem_cons]
    rw [ih hnd.2]
    by_cases hxs : x = s
    · subst hxs
      simp [hnd.1]
    · have hsx : ¬ s = x := fun h => hxs h.symm
      simp [hxs, hsx]

theorem single_to (ss : List Sid) (a : Bytes) (s : Sid) (hnd : ss.Nodup) :
    pushesTo (ss.map fun x => ⟨x, a⟩) s = if s ∈ ss then [a] else [] := by
  unfold pushesTo
  induction ss with
  | nil => simp
  | cons x rest ih =>
    simp only [List.nodup_cons] at hnd
    simp only [List.map_cons, List.filter_cons, List.mem_cons]
    by_cases hxs : x = s
    · subst hxs
      have := ih hnd.2
      simp only [hnd.1, if_false] at this
      simp [this]
    · have hsx : ¬ s = x := fun h => hxs h.symm
      simp [hxs, hsx, ih hnd.2]

theorem notify_to (db : Db) (k v : Bytes) (ver : Int) (s : Sid) (hn : db.WatchNodup) :
    pushesTo (db.notify k v ver) s =
      if db.Subscribed k s then
        [Gen.changedPrefix ++ k ++ [32] ++ v ++ [10],
         Gen.changedVersionPrefix ++ k ++ [32] ++ Bytes.ofInt ver ++ [32] ++ v ++ [10]]
      else [] := by
  have hnk := hn k
  by_cases hsub : db.Subscribed k s
  · rw [if_pos hsub]
    unfold Db.notify
    unfold Db.Subscribed at hsub
    cases hg : AL.get? db.watchers k with
    | none => rw [hg] at hsub; simp at hsub
    | some ss =>
      rw [hg] at hsub hnk
      simp only [Option.getD_some] at hsub hnk ⊢
      rw [pair_to ss _ _ s hnk, if_pos hsub]
  · rw [if_neg hsub]
    unfold Db.notify
    unfold Db.Subscribed at hsub
    cases hg : AL.get? db.watchers k with
    | none => simp [pushesTo]
    | some ss =>
      rw [hg] at hsub hnk
      simp only [Option.getD_some] at hsub hnk ⊢
      rw [pair_to ss _ _ s hnk, if_neg hsub]

theorem notifyRemoved_to (db : Db) (k : Bytes) (s : Sid) (hn : db.WatchNodup) :
    pushesTo (db.notifyRemoved k) s = if db.Subscribed k s then [Gen.removedPrefix ++ k ++ [10]] else [] := by
  have hnk := hn k
  by_cases hsub : db.Subscribed k s
  · rw [if_pos hsub]
    unfold Db.notifyRemoved
    unfold Db.Subscribed at hsub
    cases hg : AL.get? db.watchers k with
    | none => rw [hg] at hsub; simp at hsub
    | some ss =>
      rw [hg] at hsub hnk
      simp only [Option.getD_some] at hsub hnk ⊢
      rw [single_to ss _ s hnk, if_pos hsub]
  · rw [if_neg hsub]
    unfold Db.notifyRemoved
    unfold Db.Subscribed at hsub
    cases hg : AL.get? db.watchers k with
    | none => simp [pushesTo]
    | some ss =>
      rw [hg] at hsub hnk
      simp only [Option.getD_some] at hsub hnk ⊢
      rw [single_to ss _ s hnk, if_neg hsub]

/-- a write never touches the subscription table -/
theorem setValue_watchers (db : Db) (c : Change) : (db.setValue c).1.watchers = db.watchers := by
  unfold Db.setValue
  split
  · simp only []; split <;> simp [Db.setValueVersion]
  · simp [Db.setValueVersion]

theorem setValueVersion_watchers (db : Db) (k v : Bytes) (ver : Int) (st : Status) (va ka op : Nat) :
    (db.setValueVersion k v ver st va ka op).watchers = db.watchers := rfl

theorem subscribed_congr (db db' : Db) (h : db'.watchers = db.watchers) (k : Bytes) (s : Sid) :
    db'.Subscribed k s ↔ db.Subscribed k s := by unfold Db.Subscribed; rw [h]

theorem watchNodup_congr (db db' : Db) (h : db'.watchers = db.watchers) (hn : db.WatchNodup) : db'.WatchNodup := by
  intro k; rw [h]; exact hn k

/-- **set / set-safe / replicated write, accepted.** A subscriber of the key receives exactly one
`changed` + `changed-version` pair carrying the committed value and version; everybody else nothing. -/
theorem C03_write_accepted (db db' : Db) (c : Change) (a b : Bytes) (ps : List Push) (s : Sid) (hn : db.WatchNodup)
    (h : db.setValue c = (db', .set a b, ps)) :
    ∃ e, db'.getValue c.key = some e ∧ e.value = c.value ∧
      pushesTo ps s =
        if db.Subscribed c.key s then
          [Gen.changedPrefix ++ c.key ++ [32] ++ c.value ++ [10],
           Gen.changedVersionPrefix ++ c.key ++ [32] ++ Bytes.ofInt e.version ++ [32] ++ c.value ++ [10]]
        else [] := by
  cases hg : db.getValue c.key with
  | none =>
    rw [setValue_absent db c hg] at h
    simp only [Prod.mk.injEq] at h
    obtain ⟨h1, _, h3⟩ := h
    subst h1; subst h3
    refine ⟨{ value := c.value, version := vinc c.version, opId := c.opId, state := .new, vaddr := 0, kaddr := 0 },
      by simp [Db.getValue, Db.setValueVersion, AL.get?_put_same], rfl, ?_⟩
    have hn' : (db.setValueVersion c.key c.value (vinc c.version) .new 0 0 c.opId).WatchNodup := watchNodup_congr db _ rfl hn
    rw [notify_to _ _ _ _ _ hn']
    simp only [subscribed_congr db _ (setValueVersion_watchers db ..)]
  | some old =>
    rw [setValue_on_entry db c old hg] at h
    split at h
    · simp at h
    · simp only [Prod.mk.injEq] at h
      obtain ⟨h1, _, h3⟩ := h
      subst h1; subst h3
      refine ⟨{ value := c.value, version := c.nextVersion old, opId := c.opId, state := updState old.state, vaddr := old.vaddr, kaddr := old.kaddr },
        by simp [Db.getValue, Db.setValueVersion, AL.get?_put_same], rfl, ?_⟩
      have hn' : (db.setValueVersion c.key c.value (c.nextVersion old) (updState old.state) old.vaddr old.kaddr c.opId).WatchNodup :=
        watchNodup_congr db _ rfl hn
      rw [notify_to _ _ _ _ _ hn']
      simp only [subscribed_congr db _ (setValueVersion_watchers db ..)]

/-- **refused write.** Nobody receives anything and the database is unchanged. -/
theorem C03_write_refused (db db' : Db) (c : Change) (k : Bytes) (ov v : Int) (old : Entry) (c' : Change) (st : Status)
    (ps : List Push) (h : db.setValue c = (db', .versionError k ov v old c' st, ps)) : ps = [] ∧ db' = db := by
  have := setValue_err_unchanged db db' c k ov v old c' st ps h
  exact ⟨this.2, this.1⟩

/-- **remove.** A subscriber of the key receives exactly one `removed` line, everybody else nothing. -/
theorem C03_remove_notifies (db db' : Db) (k : Bytes) (ps : List Push) (s : Sid) (hn : db.WatchNodup)
    (h : db.removeValue k = some (db', ps)) :
    pushesTo ps s = if db.Subscribed k s then [Gen.removedPrefix ++ k ++ [10]] else [] := by
  unfold Db.removeValue at h
  by_cases hk : k = Gen.tokenKey
  · simp [hk] at h
  · simp only [hk, if_false, Option.some.injEq, Prod.mk.injEq] at h
    obtain ⟨h1, h2⟩ := h
    have hw : db'.watchers = db.watchers := by
      rw [← h1]; split <;> (try split) <;> rfl
    rw [← h2, h1, notifyRemoved_to _ _ _ (watchNodup_congr db _ hw hn)]
    simp only [subscribed_congr db _ hw]

/-- **increment, accepted.** Exactly one pair carrying the new number. -/
theorem C03_increment_accepted (db db' : Db) (k : Bytes) (inc : Int) (op : Nat) (ps : List Push) (s : Sid) (hn : db.WatchNodup)
    (h : db.incValue k inc op = (db', .ok, ps)) :
    ∃ cur, Bytes.parseI32 (db.incText k) = some cur ∧
      pushesTo ps s =
        if db.Subscribed k s then
          [Gen.changedPrefix ++ k ++ [32] ++ Bytes.ofInt (cur + inc) ++ [10],
           Gen.changedVersionPrefix ++ k ++ [32] ++ Bytes.ofInt (-1) ++ [32] ++ Bytes.ofInt (cur + inc) ++ [10]]
        else [] := by
  unfold Db.incValue at h
  cases hp : Bytes.parseI32 (db.incText k) with
  | none => simp [hp] at h
  | some cur =>
    simp only [hp] at h
    split at h
    · split at h
      · simp at h
      · simp only [Prod.mk.injEq] at h
        obtain ⟨h1, _, h3⟩ := h
        refine ⟨cur, rfl, ?_⟩
        have hw : (db.incStore k (Bytes.ofInt (cur + inc)) op).watchers = db.watchers := by
          unfold Db.incStore; split <;> rfl
        rw [← h3, notify_to _ _ _ _ _ (watchNodup_congr db _ hw hn)]
        simp only [subscribed_congr db _ hw]
    · simp at h

/-- **increment, refused** (not a number, overflow, version cap): nothing is pushed, nothing changes -/
theorem C03_increment_refused (db db' : Db) (k : Bytes) (inc : Int) (op : Nat) (ps : List Push) (r : IncResp)
    (hr : r ≠ .ok) (h : db.incValue k inc op = (db', r, ps)) : ps = [] ∧ db' = db := by
  cases r with
  | ok => exact absurd rfl hr
  | notNumeric => have := incValue_notNumeric db db' k inc op ps h; exact ⟨this.2.2, this.2.1⟩
  | overflow => have := incValue_overflow db db' k inc op ps h; exact ⟨this.2.2, this.2.1⟩
  | versionCap => have := incValue_versionCap db db' k inc op ps h; exact ⟨this.2.2, this.2.1⟩

/-! ### ending up current -/

/-- the value carried by the last `changed-version` line for `k` in an inbox, if any -/
def lastNote (k : Bytes) (inbox : List Bytes) : Option Bytes :=
  (inbox.reverse.find? (fun l => Bytes.startsWith l (Gen.changedVersionPrefix ++ k ++ [32]))).map id

/-- a sequence of accepted/refused writes of one key by any clients, all pushes to `s` collected -/
def runWrites (db : Db) (s : Sid) : List Change → Db × List Bytes
  | [] => (db, [])
  | c :: rest =>
    match db.setValue c with
    | (db', _, ps) =>
      let r := runWrites db' s rest
      (r.1, pushesTo ps s ++ r.2)

theorem runWrites_cons (db : Db) (s : Sid) (c : Change) (rest : List Change) :
    runWrites db s (c :: rest) =
      ((runWrites (db.setValue c).1 s rest).1, pushesTo (db.setValue c).2.2 s ++ (runWrites (db.setValue c).1 s rest).2) := by
  simp only [runWrites]

theorem runWrites_refused_keeps (db : Db) (s : Sid) (cs : List Change) (k : Bytes) (e : Entry) (hn : db.WatchNodup)
    (hsub : db.Subscribed k s) (hk : ∀ c ∈ cs, c.key = k) (hnil : (runWrites db s cs).2 = [])
    (hget : db.getValue k = some e) : (runWrites db s cs).1.getValue k = some e := by
  induction cs generalizing db with
  | nil => exact hget
  | cons c rest ih =>
    have hck : c.key = k := hk c (by simp)
    rw [runWrites_cons] at hnil ⊢
    simp only [List.append_eq_nil_iff] at hnil
    have hwat := setValue_watchers db c
    rcases hres : db.setValue c with ⟨db', resp, ps⟩
    simp only [hres] at hnil hwat ⊢
    cases resp with
    | versionError a b c1 d e1 f =>
      have := C03_write_refused db db' c a b c1 d e1 f ps hres
      rw [this.2]
      rw [this.2] at hnil
      exact ih db hn hsub (fun c' hc' => hk c' (by simp [hc'])) hnil.2 hget
    | set a b =>
      obtain ⟨e2, _, _, hpush⟩ := C03_write_accepted db db' c a b ps s hn hres
      rw [hck] at hpush
      rw [if_pos hsub] at hpush
      rw [hpush] at hnil
      simp at hnil

/-- **ends up current.** While `s` stays subscribed to `k`, after any sequence of writes to `k`
(accepted or refused, from anyone) either `s` received nothing (all were refused) or the LAST
notification `s` holds carries the value and version the key now has. -/
theorem C03_ends_current (db : Db) (s : Sid) (k : Bytes) (cs : List Change) (hn : db.WatchNodup)
    (hsub : db.Subscribed k s) (hk : ∀ c ∈ cs, c.key = k) :
    (runWrites db s cs).2 = [] ∨ ∃ e, (runWrites db s cs).1.getValue k = some e ∧
      (runWrites db s cs).2.getLast? = some (Gen.changedVersionPrefix ++ k ++ [32] ++ Bytes.ofInt e.version ++ [32] ++ e.value ++ [10]) := by
  induction cs generalizing db with
  | nil => left; rfl
  | cons c rest ih =>
    have hck : c.key = k := hk c (by simp)
    rw [runWrites_cons]
    have hwat := setValue_watchers db c
    rcases hres : db.setValue c with ⟨db', resp, ps⟩
    simp only [hres] at hwat ⊢
    have hn' : db'.WatchNodup := watchNodup_congr db db' hwat hn
    have hsub' : db'.Subscribed k s := (subscribed_congr db db' hwat k s).2 hsub
    have ihr := ih db' hn' hsub' (fun c' hc' => hk c' (by simp [hc']))
    cases resp with
    | versionError a b c1 d e f =>
      have := C03_write_refused db db' c a b c1 d e f ps hres
      rw [this.1]
      simpa [pushesTo] using ihr
    | set a b =>
      obtain ⟨e, hget, hval, hpush⟩ := C03_write_accepted db db' c a b ps s hn hres
      rw [hck] at hpush hget
      rw [if_pos hsub] at hpush
      right
      rcases ihr with hnil | ⟨e', hget', hlast'⟩
      · refine ⟨e, runWrites_refused_keeps db' s rest k e hn' hsub' (fun c' hc' => hk c' (by simp [hc'])) hnil hget, ?_⟩
        rw [hnil, List.append_nil, hpush, ← hval]
        simp
      · refine ⟨e', hget', ?_⟩
        rw [List.getLast?_append, hlast']
        rfl

end Nun
