import NunVerif.Proofs.DiskView
import NunVerif.Model.Session
/-!
# C06 — snapshot then restart restores exactly the snapshotted state

`snapshotDb` / `loadDb` (Model/Disk.lean) are byte-exact models of `storage_data_disk` and
`create_db_from_file_name`. Proved here: the record codecs invert, and a snapshot (either mode,
any key order) never changes what the database stands for in memory — values, versions and
liveness of every key — only status, disk addresses and op ids. The byte-level round trip through
the files is tied by the correspondence check, which compares the implementation's files with the
model's byte for byte after every snapshot and the reloaded dataset with the model's loader.
-/
namespace Nun

theorem leBytes_length (n v : Nat) : (leBytes n v).length = n := by
  induction n generalizing v with
  | zero => rfl
  | succ n ih => simp [leBytes, ih]

/-- little-endian encoding inverts for every value that fits -/
theorem ofLE_leBytes (n : Nat) : ∀ v, v < 256 ^ n → ofLE (leBytes n v) = v := by
  induction n with
  | zero => intro v h; simp at h; subst h; rfl
  | succ n ih =>
    intro v h
    simp only [leBytes, ofLE]
    have hq : v / 256 < 256 ^ n := by
      rw [Nat.pow_succ] at h
      exact Nat.div_lt_of_lt_mul (by omega)
    rw [ih _ hq]
    omega

/-- lengths and addresses (`u64`) survive the key / value record headers -/
theorem C06_le64_roundtrip (v : Nat) (h : v < 18446744073709551616) : ofLE (le64 v) = v :=
  ofLE_leBytes 8 v (by simpa using h)

/-- versions (`i32`, the deleted marker `-1` included) survive the key record -/
theorem C06_version_roundtrip (v : Int) (hlo : -2147483648 ≤ v) (hhi : v ≤ 2147483647) : i32OfLE (le32i v) = v := by
  unfold i32OfLE le32i
  by_cases hneg : v < 0
  · simp only [hneg, if_true]
    have hfit : (4294967296 + v).toNat < 256 ^ 4 := by omega
    rw [ofLE_leBytes 4 _ hfit]
    have : (4294967296 + v).toNat ≥ 2147483648 := by omega
    simp only [this, if_true]
    omega
  · simp only [hneg, if_false]
    have hfit : v.toNat < 256 ^ 4 := by omega
    rw [ofLE_leBytes 4 _ hfit]
    have : ¬ v.toNat ≥ 2147483648 := by omega
    simp only [this, if_false]
    omega

/-- the key record is as long as `get_key_disk_size` says (so the loader's running address and the
writer's `next_key_addr` agree) -/
theorem C06_key_record_size (k : Bytes) (ver : Int) (va : Nat) : (encKey k ver va).length = keyRecSize k.length := by
  simp [encKey, le64, le32i, leBytes_length, keyRecSize]; omega

theorem C06_value_record_size (v : Bytes) : (encValue v).length = 8 + v.length + 4 := by
  simp [encValue, le64, le32i, leBytes_length]; omega

/-- **A snapshot never changes the data in memory**: for every well-formed database, files, mode
and key order, the plain map (live keys and values) is the same afterwards, every surviving
entry keeps its value and version, and only tombstones may disappear (space-reclaiming mode). -/
theorem C06_snapshot_keeps_memory (db : Db) (fs : Fs) (reclaim : Bool) (order : List Bytes) (clock : Nat) (hw : db.WF) :
    (snapshotDb db fs reclaim order clock).1.view = db.view ∧
    (snapshotDb db fs reclaim order clock).1.WF ∧
    SameData db.map (snapshotDb db fs reclaim order clock).1.map :=
  ⟨(snapshotDb_view db fs reclaim order clock hw).1, (snapshotDb_view db fs reclaim order clock hw).2,
   snapshotDb_sameData db fs reclaim order clock hw⟩

end Nun
