import NunVerif.Props.C10
import NunVerif.Gen.Commands
import NunVerif.Proofs.Wire
/-!
# C10 / C09 — the command vocabulary of the model is the command vocabulary of the source

`Gen.commandTable` is regenerated from `PARSER_HASH_TABLE` of parse_request.rs on every run.  Pinned here:
the list of command words; every one of them is a word the MODEL's parser knows (it does not answer
`unknown command`); the aliases share their parser; and — for every word at all — a word that is not in
the table is refused by the model as unknown.  A command added to or removed from the source breaks one
of these; the fuzz alphabet of the checks (checks/cmdgen.py) is compared with the same table.
-/
namespace Nun
open Bytes

def isUnknownCommand (w : Bytes) : Bool :=
  match Request.parse w with
  | .error m => Bytes.startsWith m b!"unknown command: "
  | .ok _ => false

theorem C10_command_vocabulary :
    Gen.commandTable.map (·.1) = [b!"ack", b!"arbiter", b!"auth", b!"cluster-state", b!"create-db", b!"create-user", b!"debug", b!"election", b!"get", b!"get-safe", b!"increment", b!"join", b!"keys", b!"leave", b!"ls", b!"metrics-state", b!"remove", b!"replicate", b!"replicate-increment", b!"replicate-join", b!"replicate-leave", b!"replicate-remove", b!"replicate-since", b!"replicate-snapshot", b!"resolve", b!"rp", b!"set", b!"set-primary", b!"set-safe", b!"set-secoundary", b!"snapshot", b!"unwatch", b!"unwatch-all", b!"use", b!"use-db", b!"watch", b!"list-commands", b!"set-permissions"] := by decide +kernel

theorem C10_every_command_word_of_the_source_is_modelled :
    Gen.commandTable.all (fun r => !isUnknownCommand r.1) = true := by decide +kernel

theorem C10_aliases_share_a_parser :
    AL.get? Gen.commandTable b!"ls" = AL.get? Gen.commandTable b!"keys" ∧ AL.get? Gen.commandTable b!"use" = AL.get? Gen.commandTable b!"use-db" := by decide +kernel

/-- **a word that is not a command of the source is not a command of the model** — for EVERY word (no blank in it, not empty, not ending in `;`) -/
theorem C10_unlisted_word_is_unknown (w : Bytes) (hsp : 32 ∉ w) (hne : w ≠ []) (hsemi : w.getLast? ≠ some 59)
    (h : w ∉ [b!"ack", b!"arbiter", b!"auth", b!"cluster-state", b!"create-db", b!"create-user", b!"debug", b!"election", b!"get", b!"get-safe", b!"increment", b!"join", b!"keys", b!"leave", b!"ls", b!"metrics-state", b!"remove", b!"replicate", b!"replicate-increment", b!"replicate-join", b!"replicate-leave", b!"replicate-remove", b!"replicate-since", b!"replicate-snapshot", b!"resolve", b!"rp", b!"set", b!"set-primary", b!"set-safe", b!"set-secoundary", b!"snapshot", b!"unwatch", b!"unwatch-all", b!"use", b!"use-db", b!"watch", b!"list-commands", b!"set-permissions"]) :
    Request.parse w = .error (b!"unknown command: " ++ w) := by
  unfold Request.parse
  rw [trimEnd_id 59 w hsemi, splitn_last 32 1 w hsp]
  simp only [hne, if_false]
  simp only [List.mem_cons, List.not_mem_nil, or_false, not_or] at h
  obtain ⟨h0, h1, h2, h3, h4, h5, h6, h7, h8, h9, h10, h11, h12, h13, h14, h15, h16, h17, h18, h19, h20, h21, h22, h23, h24, h25, h26, h27, h28, h29, h30, h31, h32, h33, h34, h35, h36, h37⟩ := h
  unfold parseArgs
  simp only [h0, h1, h2, h3, h4, h5, h6, h7, h8, h9, h10, h11, h12, h13, h14, h15, h16, h17, h18, h19, h20, h21, h22, h23, h24, h25, h26, h27, h28, h29, h30, h31, h32, h33, h34, h35, h36, h37, if_false, false_or, or_false]

end Nun
