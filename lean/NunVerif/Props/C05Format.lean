import NunVerif.Props.C04Format
import NunVerif.Props.C05
/-!
# C05 — the lines of a resynchronisation burst as they are PRINTED, from the source

The burst a (re)joining node is sent is made of four kinds of lines.  Their format texts and
argument orders are REGENERATED from `make_create_db_command`, `get_full_sync_opps` and
`get_pendding_opps_since_from_sync` on every run (`Gen/Wire.lean`, `syncFormats`), printed by the
`{}`-substituting printer of `Props/C04Format.lean`, and proved equal to the line functions the
model's burst is built from (`syncCreateDbLine`, `syncSetLine`, `syncRemoveLine`,
`syncSnapshotLine`) — for every database name, key, value and token.  That the `replicate` line of
the burst has THREE fields where the live line has four (no version) is the recorded format
finding; here it is read off the source instead of asserted.
-/
namespace Nun
open Bytes

theorem C05_sync_formats :
    Gen.syncFormats =
      [(b!"make_create_db_command", b!"create-db {} {}", [b!"db_name", b!"token"]),
       (b!"get_full_sync_opps", b!"replicate {} {} {}", [b!"db_name", b!"key", b!"value"]),
       (b!"get_full_sync_opps", b!"replicate-snapshot {}", [b!"db_name"]),
       (b!"get_pendding_opps_since_from_sync", b!"replicate {} {} {}", [b!"db_name", b!"key_str", b!"value"]),
       (b!"get_pendding_opps_since_from_sync", b!"replicate-remove {} {}", [b!"db_name", b!"key_str"]),
       (b!"get_pendding_opps_since_from_sync", b!"replicate-snapshot {}", [b!"db_name"])] := by decide +kernel

/-- the i-th line format of the burst, printed with the given argument texts -/
def syncFmt (i : Nat) (args : List Bytes) : Option Bytes := (Gen.syncFormats[i]?).map fun p => fmtWith p.2.1 args

theorem C05_create_db_line_is_generated (name token : Bytes) : syncFmt 0 [name, token] = some (syncCreateDbLine name token) := by
  unfold syncFmt; rw [C05_sync_formats]; simp [fmtWith, syncCreateDbLine]

/-- the `replicate` line of BOTH kinds of burst: database, key, value — and no version -/
theorem C05_set_line_is_generated (db key value : Bytes) :
    syncFmt 1 [db, key, value] = some (syncSetLine db key value) ∧ syncFmt 3 [db, key, value] = some (syncSetLine db key value) := by
  constructor <;> (unfold syncFmt; rw [C05_sync_formats]; simp [fmtWith, syncSetLine])

theorem C05_remove_line_is_generated (db key : Bytes) : syncFmt 4 [db, key] = some (syncRemoveLine db key) := by
  unfold syncFmt; rw [C05_sync_formats]; simp [fmtWith, syncRemoveLine]

theorem C05_snapshot_line_is_generated (db : Bytes) :
    syncFmt 2 [db] = some (syncSnapshotLine db) ∧ syncFmt 5 [db] = some (syncSnapshotLine db) := by
  constructor <;> (unfold syncFmt; rw [C05_sync_formats]; simp [fmtWith, syncSnapshotLine])

/-- the finding, read off the generated table: the burst's `replicate` has three holes, the live one four -/
theorem C05_finding_no_version_field_in_the_burst :
    ((Gen.syncFormats[1]?).map fun p => p.2.2.length) = some 3 ∧
    ((AL.get? Gen.wireFormats b!"get_replicate_message").map fun p => p.2.length) = some 4 := by decide +kernel

end Nun
