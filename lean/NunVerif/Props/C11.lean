import NunVerif.Model.Session
/-!
# C11 — a crash during a snapshot never damages previously persisted data

`snapshotOps` (Model/Disk.lean) is the sequence of file operations of `storage_data_disk`
(+ `remove_backup_key_file`), automatic `BufWriter` flushes included; the check records the real
system calls with `strace` and compares them call for call, then replays every prefix. A crash
keeps a prefix of that sequence: `crashLoad n` is what the next start sees.

On the current tree the property is **false**; the four ways it fails are recorded findings, each
proved below on a minimal dataset by kernel evaluation of the byte-level model (no `native_decide`).
-/
namespace Nun

/-- what a start-up after a crash at operation `n` of the snapshot loads for the database -/
def crashLoad (db : Db) (fs : Fs) (reclaim : Bool) (order : List Bytes) (n : Nat) : Option (List (Bytes × Bytes × Int)) :=
  match (loadDb (fs.applyOps ((snapshotOps db fs reclaim order).take n)) db.name 0).1 with
  | .ok m => some (m.map fun (k, e) => (k, e.value, e.version))
  | .panic _ => none

namespace C11W
/-- database `t`: key `a` = "1" snapshotted once -/
def db0 : Db := Db.new [116] 1 .newer
def s1 : Db := (db0.setValue { key := [97], value := [49], version := -1, opId := 1, resolve := false }).1
def snap1 := snapshotDb s1 [] false [[97]] 2
/-- then a new key `d` = "new" is added -/
def sNew : Db := (snap1.1.setValue { key := [100], value := [110, 101, 119], version := -1, opId := 9, resolve := false }).1
/-- or the persisted key `a` is updated to "2" -/
def sUpd : Db := (snap1.1.setValue { key := [97], value := [50], version := -1, opId := 9, resolve := false }).1
end C11W
open C11W

/-- the complete operation sequence restores what was written (both scenarios, both modes) -/
theorem C11_complete_is_post :
    crashLoad sNew snap1.2.1 false [[100]] 4 = some [([97], [49], 0), ([100], [110, 101, 119], 0)] ∧
    crashLoad sUpd snap1.2.1 false [[97]] 5 = some [([97], [50], 1)] ∧
    crashLoad sUpd snap1.2.1 true [[97]] 10 = some [([97], [50], 1)] := by
  decide +kernel

/-- a crash before the first operation leaves the previous state -/
theorem C11_prefix_zero_is_pre :
    crashLoad sNew snap1.2.1 false [[100]] 0 = some [([97], [49], 0)] ∧
    crashLoad sUpd snap1.2.1 true [[97]] 0 = some [([97], [49], 0)] := by
  decide +kernel

/-- **Finding (keys flushed before values).** Append-only snapshot of a new key: after the keys
flush and before the values flush the new key loads with a value that was never stored (one NUL
byte per byte of its key length — the loader reuses its length buffer on the short read). -/
theorem C11_finding_keys_before_values :
    crashLoad sNew snap1.2.1 false [[100]] 1 = some [([97], [49], 0), ([100], [0], 0)] := by
  decide +kernel

/-- **Finding (torn in-place update).** Update of a persisted key: after the 4-byte version write
and before the 8-byte offset write the key has the new version with the old value; one operation
later the new version with a value read from beyond the end of the values file — neither was
ever stored. -/
theorem C11_finding_torn_inplace_update :
    crashLoad sUpd snap1.2.1 false [[97]] 1 = some [([97], [49], 1)] ∧
    crashLoad sUpd snap1.2.1 false [[97]] 2 = some [([97], [0], 1)] := by
  decide +kernel

/-- **Finding (space reclaim deletes the old values first).** After `rename(.values → .values.old)`
and `remove(.values.old)` no byte of the new files exists yet: the next start does not find the
database's data (here: the loader fails on the missing values file). -/
theorem C11_finding_reclaim_deletes_first :
    crashLoad sUpd snap1.2.1 true [[97]] 3 = none ∧ crashLoad sUpd snap1.2.1 true [[97]] 4 = none := by
  decide +kernel

/-- the operation sequences of the two witness snapshots, as the check sees them with `strace` -/
theorem C11_witness_traces :
    snapshotOps sNew snap1.2.1 false [[100]] =
      [.append (keysFile [116]) (encKey [100] 0 13), .append (valuesFile [116]) (encValue [110, 101, 119]),
       .pwrite (metaFile [116]) 0 (le64 1), .pwrite (metaFile [116]) 8 (le32i 1)] ∧
    snapshotOps sUpd snap1.2.1 false [[97]] =
      [.pwrite (keysFile [116]) 9 (le32i 1), .pwrite (keysFile [116]) 13 (le64 13), .append (valuesFile [116]) (encValue [50]),
       .pwrite (metaFile [116]) 0 (le64 1), .pwrite (metaFile [116]) 8 (le32i 1)] := by
  decide +kernel

end Nun
