import NunVerif.Props.C04Wire
/-
  C04 for all three data commands — `set` / `set-safe`, `remove`, `increment` — end to end.

  `Props/C04Wire.lean` proves convergence for writes.  A remove is where plain agreement on
  (value, version, removed) ends (`C04_finding_remove_depends_on_persistence`): what a remove does
  depends on whether the entry has been written to disk.  The relation that IS preserved by all
  three commands also says "never snapshotted" of both copies or of neither (`Db.AgreeS`); it holds
  between a primary and a secondary as long as their periodic snapshots have not run apart — which
  is exactly the premise under which the recorded finding does not bite.  This file proves:

  * `setValue_agreeS`, `incValue_agreeS`, `removeValue_agreeS` — one operation, two replicas;
  * per command: what the primary does and prints, what a secondary does with the printed line;
  * `C04_data_commands_converge`: ANY history of `set` / `set-safe` / `remove` / `increment`
    commands of the primary's clients, interleaved in ANY way with FIFO deliveries, no snapshot in
    between: at quiescence the secondary's databases agree with the primary's (`AgreeS`).
-/
namespace Nun
open Bytes

/-- what matters of an entry for the data commands: value, version, removed or not, never snapshotted or not -/
def Entry.pubS (e : Entry) : Bytes × Int × Bool × Bool := (e.value, e.version, e.state == .deleted, e.state == .new)

def Db.AgreeS (a b : Db) : Prop := ∀ k, (a.getValue k).map Entry.pubS = (b.getValue k).map Entry.pubS

theorem Db.AgreeS.agree {a b : Db} (h : a.AgreeS b) : a.Agree b := by
  intro k
  have := h k
  unfold Db.pubOf
  cases ha : a.getValue k <;> cases hb : b.getValue k <;> simp [ha, hb, Entry.pubS, Entry.pub] at this ⊢
  exact ⟨this.1, this.2.1, this.2.2.1⟩

theorem agreeS_entries {a b : Db} (h : a.AgreeS b) (k : Bytes) :
    (a.getValue k = none ∧ b.getValue k = none) ∨
    ∃ ea eb, a.getValue k = some ea ∧ b.getValue k = some eb ∧ ea.value = eb.value ∧ ea.version = eb.version ∧
      ((ea.state == .deleted) = (eb.state == .deleted)) ∧ ((ea.state == .new) = (eb.state == .new)) := by
  have := h k
  cases ha : a.getValue k <;> cases hb : b.getValue k <;> simp [ha, hb, Entry.pubS] at this
  · left; exact ⟨rfl, rfl⟩
  · right; exact ⟨_, _, rfl, rfl, this.1, this.2.1, this.2.2.1, this.2.2.2⟩

theorem status_beq_iff {s t c : Status} (h : (s == c) = (t == c)) : s = c ↔ t = c := by
  cases s <;> cases t <;> cases c <;> simp_all

theorem updState_beq_new (s : Status) : (updState s == Status.new) = (s == Status.new) := by
  cases s <;> decide

theorem updState_eq_of_new {s t : Status} (h : (s == Status.new) = (t == Status.new)) : updState s = updState t := by
  cases s <;> cases t <;> simp_all [updState]

theorem agreeS_put (a b : Db) (h : a.AgreeS b) (k v : Bytes) (ver : Int) (sa sb : Status) (va ka opa vb kb opb : Nat)
    (hd : (sa == .deleted) = (sb == .deleted)) (hn : (sa == .new) = (sb == .new)) :
    (a.setValueVersion k v ver sa va ka opa).AgreeS (b.setValueVersion k v ver sb vb kb opb) := by
  intro k'
  simp only [getValue_setValueVersion]
  split
  · simp [Entry.pubS, hd, hn]
  · exact h k'

/-- **one write, two replicas** (the stronger relation) -/
theorem setValue_agreeS (a b : Db) (c c' : Change) (h : a.AgreeS b) (hc : c.Same c') :
    (a.setValue c).1.AgreeS (b.setValue c').1 := by
  obtain ⟨hk, hv, hver, hres⟩ := hc
  rcases agreeS_entries h c.key with ⟨ha, hb⟩ | ⟨ea, eb, ha, hb, hpv, hpver, hpd, hpn⟩
  · have hb' : b.getValue c'.key = none := by rw [← hk]; exact hb
    rw [setValue_absent a c ha, setValue_absent b c' hb', ← hk, ← hv, ← hver]
    exact agreeS_put a b h _ _ _ _ _ _ _ _ _ _ _ rfl rfl
  · have hb' : b.getValue c'.key = some eb := by rw [← hk]; exact hb
    have hnv : c.nextVersion ea = c'.nextVersion eb := by
      simp only [Change.nextVersion, Change.keepInConflict, Entry.inConflict, hver, hres, hpver]
      try rfl
    have hkc : c.keepInConflict = c'.keepInConflict := by simp [Change.keepInConflict, hver]
    rw [setValue_on_entry a c ea ha, setValue_on_entry b c' eb hb', hnv, hpver, hkc]
    split
    · exact h
    · rw [← hk, ← hv]
      apply agreeS_put a b h
      · simp [updState_not_deleted]
      · rw [updState_beq_new, updState_beq_new]; exact hpn

/-- **one increment, two replicas** -/
theorem incValue_agreeS (a b : Db) (k : Bytes) (inc : Int) (opa opb : Nat) (h : a.AgreeS b) :
    (a.incValue k inc opa).1.AgreeS (b.incValue k inc opb).1 ∧ (a.incValue k inc opa).2.1 = (b.incValue k inc opb).2.1 := by
  have htext : a.incText k = b.incText k := by
    unfold Db.incText
    rcases agreeS_entries h k with ⟨ha, hb⟩ | ⟨ea, eb, ha, hb, hpv, _, hpd, _⟩
    · rw [ha, hb]
    · simp only [ha, hb]
      have : (ea.state = .deleted) ↔ (eb.state = .deleted) := status_beq_iff hpd
      by_cases hd : ea.state = .deleted
      · rw [if_pos hd, if_pos (this.1 hd)]
      · rw [if_neg hd, if_neg (fun hh => hd (this.2 hh))]; exact hpv
  have hcap : a.versionCapped k = b.versionCapped k := by
    unfold Db.versionCapped
    rcases agreeS_entries h k with ⟨ha, hb⟩ | ⟨ea, eb, ha, hb, _, hpver, _, _⟩
    · rw [ha, hb]
    · simp only [ha, hb, hpver]
  have hstore : ∀ next, (a.incStore k next opa).AgreeS (b.incStore k next opb) := by
    intro next
    unfold Db.incStore
    rcases agreeS_entries h k with ⟨ha, hb⟩ | ⟨ea, eb, ha, hb, _, hpver, _, hpn⟩
    · simp only [ha, hb]; exact agreeS_put a b h _ _ _ _ _ _ _ _ _ _ _ rfl rfl
    · simp only [ha, hb, hpver]
      apply agreeS_put a b h
      · simp [updState_not_deleted]
      · rw [updState_beq_new, updState_beq_new]; exact hpn
  unfold Db.incValue
  rw [htext, hcap]
  cases Bytes.parseI32 (b.incText k) with
  | none => exact ⟨h, rfl⟩
  | some cur =>
    simp only []
    split
    · split
      · exact ⟨h, rfl⟩
      · exact ⟨hstore _, rfl⟩
    · exact ⟨h, rfl⟩

/-- **one remove, two replicas**: both refuse (`$$token`) or both remove, and agree afterwards -/
theorem removeValue_agreeS (a b : Db) (k : Bytes) (h : a.AgreeS b) :
    (a.removeValue k = none ∧ b.removeValue k = none) ∨
    ∃ a' b' pa pb, a.removeValue k = some (a', pa) ∧ b.removeValue k = some (b', pb) ∧ a'.AgreeS b' := by
  unfold Db.removeValue
  by_cases ht : k = Gen.tokenKey
  · left; simp [ht]
  · right
    simp only [ht, if_false]
    refine ⟨_, _, _, _, rfl, rfl, ?_⟩
    rcases agreeS_entries h k with ⟨ha, hb⟩ | ⟨ea, eb, ha, hb, _, hpver, _, hpn⟩
    · simp only [ha, hb]; exact h
    · simp only [ha, hb]
      have hnew : (ea.state = .new) ↔ (eb.state = .new) := status_beq_iff hpn
      by_cases hn : ea.state = .new
      · rw [if_pos hn, if_pos (hnew.1 hn)]
        intro k'
        simp only [Db.getValue, AL.get?_erase]
        split
        · rfl
        · exact h k'
      · rw [if_neg hn, if_neg (fun hh => hn (hnew.2 hh)), hpver]
        exact agreeS_put a b h _ _ _ _ _ _ _ _ _ _ _ rfl rfl

/-! ### the envelope, for any inner line -/

/-- executing `rp <id> <msg>` changes the node's databases and sessions exactly as handling the
parsed `<msg>` does: the two `replicate_request` layers around it touch neither -/
theorem envelope_frame (T : Node) (link : Sid) (id : Nat) (msg : Bytes) (req : Request) (fuel : Nat)
    (hparse : Request.parse (Bytes.trimBoth 10 msg) = .ok req)
    (hne : msg ≠ []) (h59 : msg.getLast? ≠ some 59) (h10 : msg.getLast? ≠ some 10)
    (hnoenv : Bytes.startsWith (Bytes.trimBoth 10 msg) b!"rp " = false) (hid : id < u64Bound) :
    (Node.processRequestWith (Node.recurOf (fuel + 1)) T link (rpLine id msg)).1.dbs
      = (Node.processObj (Node.recurOf fuel) T link req).1.dbs ∧
    (Node.processRequestWith (Node.recurOf (fuel + 1)) T link (rpLine id msg)).1.sessions
      = (Node.processObj (Node.recurOf fuel) T link req).1.sessions := by
  rw [processRequestWith_of_parse _ _ _ _ _ (parse_trim_rpLine id _ hid hne h59 h10)]
  have inner : (Node.recurOf (fuel + 1) T link msg).1.dbs = (Node.processObj (Node.recurOf fuel) T link req).1.dbs ∧
      (Node.recurOf (fuel + 1) T link msg).1.sessions = (Node.processObj (Node.recurOf fuel) T link req).1.sessions := by
    simp only [Node.recurOf]
    rw [processRequestWith_of_parse _ _ _ _ _ hparse]
    generalize Node.processObj (Node.recurOf fuel) T link req = res
    obtain ⟨n1, r1, e1⟩ := res
    simp only []
    have := replicateRequest_frame n1 req (T.session link).db r1
    generalize Node.replicateRequest n1 req (T.session link).db r1 = rr at this
    obtain ⟨n2, r2, e2⟩ := rr
    exact ⟨this.1, this.2.1⟩
  simp only [Node.processObj, hnoenv, Bool.false_eq_true, if_false]
  generalize Node.recurOf (fuel + 1) T link msg = res at inner
  obtain ⟨n1, r1, e1⟩ := res
  simp only []
  have := replicateRequest_frame n1 (Request.replicateRequest msg id) (T.session link).db r1
  generalize Node.replicateRequest n1 (Request.replicateRequest msg id) (T.session link).db r1 = rr at this
  obtain ⟨n2, r2, e2⟩ := rr
  simp only [] at this inner ⊢
  rw [this.1, this.2.1]; exact inner

theorem replicateRemoveMsg_last (d k : Bytes) (c : Nat) (h32 : c ≠ 32) (h : k.getLast? ≠ some c) :
    (replicateRemoveMsg d k).getLast? ≠ some c := by
  rw [replicateRemoveMsg_shape, getLast?_sep, if_neg (by simp), getLast?_sep]
  split
  · simp; exact fun e => h32 e.symm
  · exact h

theorem replicateIncMsg_last (d k : Bytes) (inc : Int) (c : Nat) (hc : isDigit c = false) (h45 : c ≠ 45) :
    (replicateIncMsg d k inc).getLast? ≠ some c := by
  have hne : ofInt inc ≠ [] := by
    unfold ofInt; split
    · simp
    · exact ofNat_ne_nil _
  rw [replicateIncMsg_shape, getLast?_sep, if_neg (by simp), getLast?_sep, if_neg (by simp), getLast?_sep, if_neg hne]
  exact ofInt_last_ne inc c hc h45

/-- **the secondary's side of a remove** -/
theorem secondary_applies_remove (T : Node) (link : Sid) (id : Nat) (d k : Bytes) (dbT : Db) (fuel : Nat)
    (hauth : (T.session link).auth = true) (hdb : T.db? d = some dbT)
    (hd : 32 ∉ d) (hnl : 10 ∉ k) (hsemi : k.getLast? ≠ some 59) (hid : id < u64Bound) :
    let r := (Node.processRequestWith (Node.recurOf (fuel + 1)) T link (rpLine id (replicateRemoveMsg d k))).1
    r.sessions = T.sessions ∧
    (match dbT.removeValue k with
     | some (db', _) => r.dbs = AL.put T.dbs db'.name db'
     | none => r.dbs = T.dbs) := by
  have h10 := replicateRemoveMsg_last d k 10 (by decide) (last_ne_of_not_mem k 10 hnl)
  have h59 := replicateRemoveMsg_last d k 59 (by decide) hsemi
  have hne : replicateRemoveMsg d k ≠ [] := by rw [replicateRemoveMsg_shape]; simp
  have htrim : Bytes.trimBoth 10 (replicateRemoveMsg d k) = replicateRemoveMsg d k :=
    trimBoth_id 10 _ (by rw [replicateRemoveMsg_shape]; simp) h10
  have hparse : Request.parse (Bytes.trimBoth 10 (replicateRemoveMsg d k)) = .ok (.replicateRemove d k) := by
    rw [htrim]; exact parse_replicateRemoveMsg d k hd hnl hsemi
  have hnoenv : Bytes.startsWith (Bytes.trimBoth 10 (replicateRemoveMsg d k)) b!"rp " = false := by
    rw [htrim, replicateRemoveMsg_shape]; simp [Bytes.startsWith]
  obtain ⟨h1, h2⟩ := envelope_frame T link id _ _ fuel hparse hne h59 h10 hnoenv hid
  intro r
  have hr1 : r.dbs = _ := h1
  have hr2 : r.sessions = _ := h2
  rw [hr1, hr2]
  simp only [Node.processObj, hauth, hdb, Bool.not_true, Bool.false_eq_true, if_false]
  cases dbT.removeValue k with
  | none => exact ⟨rfl, rfl⟩
  | some p => obtain ⟨db', ps⟩ := p; exact ⟨rfl, rfl⟩

/-- **the secondary's side of an increment** -/
theorem secondary_applies_inc (T : Node) (link : Sid) (id : Nat) (d k : Bytes) (inc : Int) (dbT : Db) (fuel : Nat)
    (hauth : (T.session link).auth = true) (hdb : T.db? d = some dbT)
    (hd : 32 ∉ d) (hk : 32 ∉ k) (hdnl : 10 ∉ d) (hv : fitsI32 inc = true) (hid : id < u64Bound) :
    let r := (Node.processRequestWith (Node.recurOf (fuel + 1)) T link (rpLine id (replicateIncMsg d k inc))).1
    r.sessions = T.sessions ∧ r.dbs = AL.put T.dbs (dbT.incValue k inc T.clock).1.name (dbT.incValue k inc T.clock).1 := by
  have h10 := replicateIncMsg_last d k inc 10 (by decide) (by decide)
  have h59 := replicateIncMsg_last d k inc 59 (by decide) (by decide)
  have hne : replicateIncMsg d k inc ≠ [] := by rw [replicateIncMsg_shape]; simp
  have htrim : Bytes.trimBoth 10 (replicateIncMsg d k inc) = replicateIncMsg d k inc :=
    trimBoth_id 10 _ (by rw [replicateIncMsg_shape]; simp) h10
  have hparse : Request.parse (Bytes.trimBoth 10 (replicateIncMsg d k inc)) = .ok (.replicateIncrement d k inc) := by
    rw [htrim]; exact parse_replicateIncMsg d k inc hd hk hdnl hv
  have hnoenv : Bytes.startsWith (Bytes.trimBoth 10 (replicateIncMsg d k inc)) b!"rp " = false := by
    rw [htrim, replicateIncMsg_shape]; simp [Bytes.startsWith]
  obtain ⟨h1, h2⟩ := envelope_frame T link id _ _ fuel hparse hne h59 h10 hnoenv hid
  intro r
  have hr1 : r.dbs = _ := h1
  have hr2 : r.sessions = _ := h2
  rw [hr1, hr2]
  simp only [Node.processObj, hauth, hdb, Bool.not_true, Bool.false_eq_true, if_false, Node.tick]
  generalize dbT.incValue k inc T.clock = res
  obtain ⟨db', resp, ps⟩ := res
  exact ⟨rfl, rfl⟩

/-! ### the primary's side of a remove and of an increment -/

theorem removeValue_frame (db : Db) (k : Bytes) (db' : Db) (ps : List Push) (h : db.removeValue k = some (db', ps)) :
    db'.name = db.name ∧ db'.strategy = db.strategy := by
  unfold Db.removeValue at h
  split at h
  · cases h
  · simp only [Option.some.injEq, Prod.mk.injEq] at h
    obtain ⟨h1, _⟩ := h
    subst h1
    cases db.getValue k with
    | none => exact ⟨rfl, rfl⟩
    | some e => simp only []; split <;> exact ⟨rfl, rfl⟩

theorem incValue_frame (db : Db) (k : Bytes) (inc : Int) (op : Nat) :
    (db.incValue k inc op).1.name = db.name ∧ (db.incValue k inc op).1.strategy = db.strategy := by
  unfold Db.incValue
  cases Bytes.parseI32 (db.incText k) with
  | none => exact ⟨rfl, rfl⟩
  | some cur =>
    simp only []
    split
    · split
      · exact ⟨rfl, rfl⟩
      · unfold Db.incStore
        cases db.getValue k <;> exact ⟨rfl, rfl⟩
    · exact ⟨rfl, rfl⟩

theorem replLines_single_repl (l : Bytes) : replLines [Ev.repl l] = [l] := rfl

/-- a client's `remove` on the primary: an accepted one is `removeValue` on the selected database and
exactly one envelope of `replicate-remove <db> <key>`; a refused one (`$$token`) changes nothing -/
theorem primary_remove_emits (recur : Node → Sid → Bytes → Node × Out) (P : Node) (sid : Sid) (key : Bytes) (dbP : Db)
    (hnames : NamesOk P) (hrole : P.role = .primary) (hacc : P.safeAccess sid key .remove = .granted dbP) :
    let res : Node × Out :=
      match Node.processObj recur P sid (.remove key) with
      | (n', r, evs) =>
        match Node.replicateRequest n' (.remove key) (P.session sid).db r with
        | (n'', r', evs') => (n'', r', evs ++ evs')
    (match dbP.removeValue key with
     | some (db', _) => res.1.dbs = AL.put P.dbs dbP.name db' ∧ replLines res.2.2 = [rpLine P.clock (replicateRemoveMsg dbP.name key)] ∧ res.1.role = P.role
     | none => res.1.dbs = P.dbs ∧ replLines res.2.2 = [] ∧ res.1.role = P.role) := by
  obtain ⟨d, hsel, hd⟩ := safeAccess_selected P sid key .remove dbP hacc
  have hname : dbP.name = d := hnames d dbP hd
  intro res
  have hres : res =
      (match Node.processObj recur P sid (.remove key) with
      | (n', r, evs) =>
        match Node.replicateRequest n' (.remove key) (P.session sid).db r with
        | (n'', r', evs') => (n'', r', evs ++ evs')) := rfl
  simp only [Node.processObj, hacc, Node.withAccess] at hres
  have hprim : P.isPrimary = true := by simp [Node.isPrimary, hrole]
  cases hrm : dbP.removeValue key with
  | none =>
    rw [hrm] at hres
    simp only [Node.replicateRequest, Resp.isError, if_true] at hres
    rw [hres]; exact ⟨rfl, rfl, rfl⟩
  | some p =>
    obtain ⟨db', ps⟩ := p
    rw [hrm] at hres
    obtain ⟨hnm, _⟩ := removeValue_frame dbP key db' ps hrm
    have hfound : (P.setDb db').db? d = some db' := by simp [Node.setDb, Node.db?, ← hname, ← hnm]
    simp only [hprim, Bool.not_true, Bool.false_eq_true, if_false, List.append_nil, Node.replicateRequest, Resp.isError, hsel, hfound,
      Option.isNone_some, Node.replicateRequestCore, Node.replicateWeb, Node.tick, Option.getD_some] at hres
    rw [hres]
    refine ⟨?_, ?_, ?_⟩
    · simp [Node.setDb, hnm]
    · rw [replLines_append, replLines_pushes]
      simp [replLines, rpLine, Node.setDb, hname]
    · simp [Node.setDb]

/-- a client's `increment` on the primary: an accepted one is `incValue` on the selected database and
exactly one envelope of `replicate-increment <db> <key> <amount>`; a refused one changes nothing -/
theorem primary_inc_emits (recur : Node → Sid → Bytes → Node × Out) (P : Node) (sid : Sid) (key : Bytes) (inc : Int) (dbP : Db)
    (hnames : NamesOk P) (hrole : P.role = .primary) (hacc : P.safeAccess sid key .increment = .granted dbP) :
    let res : Node × Out :=
      match Node.processObj recur P sid (.increment key inc) with
      | (n', r, evs) =>
        match Node.replicateRequest n' (.increment key inc) (P.session sid).db r with
        | (n'', r', evs') => (n'', r', evs ++ evs')
    ((dbP.incValue key inc P.clock).2.1 = .ok →
        res.1.dbs = AL.put P.dbs dbP.name (dbP.incValue key inc P.clock).1 ∧
        replLines res.2.2 = [rpLine (P.clock + 1) (replicateIncMsg dbP.name key inc)] ∧ res.1.role = P.role) ∧
    ((dbP.incValue key inc P.clock).2.1 ≠ .ok → res.1.dbs = P.dbs ∧ replLines res.2.2 = [] ∧ res.1.role = P.role) := by
  obtain ⟨d, hsel, hd⟩ := safeAccess_selected P sid key .increment dbP hacc
  have hname : dbP.name = d := hnames d dbP hd
  intro res
  have hres : res =
      (match Node.processObj recur P sid (.increment key inc) with
      | (n', r, evs) =>
        match Node.replicateRequest n' (.increment key inc) (P.session sid).db r with
        | (n'', r', evs') => (n'', r', evs ++ evs')) := rfl
  have hprim : P.isPrimary = true := by simp [Node.isPrimary, hrole]
  simp only [Node.processObj, hacc, Node.withAccess, hprim, if_true, Node.tick] at hres
  have hnm := (incValue_frame dbP key inc P.clock).1
  generalize hiv : dbP.incValue key inc P.clock = iv at hres hnm ⊢
  obtain ⟨db', resp, ps⟩ := iv
  cases resp with
  | ok =>
    simp only [] at hres hnm
    refine ⟨fun _ => ?_, fun hno => absurd rfl hno⟩
    have hfound : (({ P with clock := P.clock + 1 } : Node).setDb db').db? d = some db' := by
      simp [Node.setDb, Node.db?, ← hname, ← hnm]
    simp only [Node.replicateRequest, Resp.isError, hsel, hfound, Option.isNone_some, Bool.false_eq_true, if_false,
      Node.replicateRequestCore, Node.replicateWeb, Node.tick, Option.getD_some] at hres
    rw [hres]
    refine ⟨?_, ?_, ?_⟩
    · simp [Node.setDb, hnm]
    · rw [replLines_append, replLines_pushes]
      simp [replLines, rpLine, Node.setDb, hname]
    · simp [Node.setDb]
  | notNumeric =>
    simp only [Node.replicateRequest, Resp.isError, if_true] at hres
    refine ⟨fun h => (by cases h), fun _ => ?_⟩
    rw [hres]; exact ⟨rfl, rfl, rfl⟩
  | overflow =>
    simp only [Node.replicateRequest, Resp.isError, if_true] at hres
    refine ⟨fun h => (by cases h), fun _ => ?_⟩
    rw [hres]; exact ⟨rfl, rfl, rfl⟩
  | versionCap =>
    simp only [Node.replicateRequest, Resp.isError, if_true] at hres
    refine ⟨fun h => (by cases h), fun _ => ?_⟩
    rw [hres]; exact ⟨rfl, rfl, rfl⟩

/-! ### any history of data commands, any FIFO interleaving -/

/-- a data command of a client of the primary, as the parser hands it to `process_request` -/
inductive DReq
  | set (sid : Sid) (key value : Bytes) (ver : Int)
  | remove (sid : Sid) (key : Bytes)
  | inc (sid : Sid) (key : Bytes) (amount : Int)

def DReq.sid : DReq → Sid
  | .set s _ _ _ => s | .remove s _ => s | .inc s _ _ => s

def DReq.request : DReq → Request
  | .set _ k v ver => .set k v ver
  | .remove _ k => .remove k
  | .inc _ k a => .increment k a

def primaryStepD (recur : Node → Sid → Bytes → Node × Out) (P : Node) (r : DReq) : Node × Out :=
  match Node.processObj recur P r.sid r.request with
  | (n', resp, evs) =>
    match Node.replicateRequest n' r.request (P.session r.sid).db resp with
    | (n'', resp', evs') => (n'', resp', evs ++ evs')

def GoodS (link : Sid) (P T : Node) : Prop :=
  NamesOk P ∧ NamesOk T ∧ P.role = .primary ∧ (T.session link).auth = true ∧
  ∀ d dbP, P.db? d = some dbP → dbP.strategy = .none ∧ ∃ dbT, T.db? d = some dbT ∧ dbT.strategy = .none ∧ dbP.AgreeS dbT

/-- what a command must satisfy: numbers that fit the wire, and — if the session may touch the key at
all — fields the text format carries unchanged -/
def OpOk (P : Node) : DReq → Prop
  | .set sid key value ver => fitsI32 ver = true ∧ P.clock + 1 < u64Bound ∧
      ∀ dbP, P.safeAccess sid key .write = .granted dbP → WireOk dbP.name key value
  | .remove sid key => P.clock < u64Bound ∧ 10 ∉ key ∧ key.getLast? ≠ some 59 ∧
      ∀ dbP, P.safeAccess sid key .remove = .granted dbP → 32 ∉ dbP.name
  | .inc sid key amount => fitsI32 amount = true ∧ P.clock + 1 < u64Bound ∧ 32 ∉ key ∧
      ∀ dbP, P.safeAccess sid key .increment = .granted dbP → 32 ∉ dbP.name ∧ 10 ∉ dbP.name

theorem goodS_same (link : Sid) (P T P' : Node) (hg : GoodS link P T) (hd : P'.dbs = P.dbs) (hr : P'.role = P.role) :
    GoodS link P' T := by
  obtain ⟨hnP, hnT, hrole, hlink, hall⟩ := hg
  refine ⟨namesOk_of_dbs _ _ hd hnP, hnT, by rw [hr]; exact hrole, hlink, ?_⟩
  intro d dbP h
  have : P.db? d = some dbP := by
    have h2 : AL.get? P'.dbs d = some dbP := h
    rw [hd] at h2; exact h2
  exact hall d dbP this

theorem goodS_update (link : Sid) (P T P' T' : Node) (name : Bytes) (dbP' dbT' : Db) (hg : GoodS link P T)
    (hPd : P'.dbs = AL.put P.dbs name dbP') (hTd : T'.dbs = AL.put T.dbs name dbT')
    (hn1 : dbP'.name = name) (hn2 : dbT'.name = name) (hs1 : dbP'.strategy = .none) (hs2 : dbT'.strategy = .none)
    (hag : dbP'.AgreeS dbT') (hr : P'.role = P.role) (hss : T'.sessions = T.sessions) : GoodS link P' T' := by
  obtain ⟨hnP, hnT, hrole, hlink, hall⟩ := hg
  refine ⟨?_, ?_, by rw [hr]; exact hrole, by rw [session_of_sessions T' T link hss]; exact hlink, ?_⟩
  · have : P'.dbs = (P.setDb dbP').dbs := by rw [hPd]; simp [Node.setDb, hn1]
    exact namesOk_of_dbs _ _ this (namesOk_setDb P _ hnP)
  · have : T'.dbs = (T.setDb dbT').dbs := by rw [hTd]; simp [Node.setDb, hn2]
    exact namesOk_of_dbs _ _ this (namesOk_setDb T _ hnT)
  · intro d' dbP'' hd'
    have hd'' : AL.get? (AL.put P.dbs name dbP') d' = some dbP'' := by
      have : AL.get? P'.dbs d' = some dbP'' := hd'
      rw [hPd] at this; exact this
    rw [AL.get?_put] at hd''
    by_cases hdd : name = d'
    · rw [if_pos hdd] at hd''
      cases hd''
      refine ⟨hs1, dbT', ?_, hs2, hag⟩
      show AL.get? T'.dbs d' = _
      rw [hTd, AL.get?_put, if_pos hdd]
    · rw [if_neg hdd] at hd''
      obtain ⟨hs', dbT0, hdT0, hsT0, hag0⟩ := hall d' dbP'' hd''
      refine ⟨hs', dbT0, ?_, hsT0, hag0⟩
      show AL.get? T'.dbs d' = _
      rw [hTd, AL.get?_put, if_neg hdd]; exact hdT0

theorem primaryStepD_refused (recur : Node → Sid → Bytes → Node × Out) (P : Node) (r : DReq) (kind : PermKind) (key : Bytes) (out : Out)
    (hreq : (r.request = .set key (match r with | .set _ _ v _ => v | _ => []) (match r with | .set _ _ _ ver => ver | _ => 0) ∧ kind = .write) ∨
            (r.request = .remove key ∧ kind = .remove) ∨ (∃ a, r.request = .increment key a ∧ kind = .increment))
    (hacc : P.safeAccess r.sid key kind = .refused out) :
    primaryStepD recur P r = (P, out.1, out.2 ++ []) := by
  obtain ⟨herr, _⟩ := safeAccess_refused P r.sid key kind out hacc
  unfold primaryStepD
  rcases hreq with ⟨h1, h2⟩ | ⟨h1, h2⟩ | ⟨a, h1, h2⟩ <;> subst h2 <;> rw [h1] <;>
    simp only [Node.processObj, hacc, Node.withAccess, Node.replicateRequest, herr, if_true]

/-- **one step of the history**: the primary handles a data command, the secondary executes what the
primary printed; `GoodS` is kept -/
theorem good_op (recur : Node → Sid → Bytes → Node × Out) (fuel : Nat) (link : Sid) (P T : Node) (r : DReq)
    (hg : GoodS link P T) (hw : OpOk P r) :
    GoodS link (primaryStepD recur P r).1 ((replLines (primaryStepD recur P r).2.2).foldl (applyLine fuel link) T) := by
  have hg0 := hg
  obtain ⟨hnP, hnT, hrole, hlink, hall⟩ := hg
  cases r with
  | set sid key value ver =>
    obtain ⟨hv, hclock, hwire⟩ := hw
    cases hacc : P.safeAccess sid key .write with
    | refused out =>
      have hstep := primaryStepD_refused recur P (.set sid key value ver) .write key out (Or.inl ⟨rfl, rfl⟩) hacc
      obtain ⟨_, hnol⟩ := safeAccess_refused P sid key .write out hacc
      rw [hstep]; simp only [List.append_nil, hnol, List.foldl_nil]; exact hg0
    | granted dbP =>
      obtain ⟨d, hsel, hd⟩ := safeAccess_selected P sid key .write dbP hacc
      have hname : dbP.name = d := hnP d dbP hd
      obtain ⟨hsP, dbT, hdT, hsT, hag0⟩ := hall d dbP hd
      have hdT' : T.db? dbP.name = some dbT := by rw [hname]; exact hdT
      have hTname : dbT.name = dbP.name := hnT _ _ hdT'
      have hwo := hwire dbP hacc
      have hP := primary_set_emits recur P sid key value ver dbP hnP hrole hacc hsP
      have hagS := setValue_agreeS dbP dbT { key := key, value := value, version := ver, opId := P.clock, resolve := false }
        { key := key, value := value, version := ver, opId := T.clock, resolve := false } hag0 ⟨rfl, rfl, rfl, rfl⟩
      have hiff := (setValue_agree dbP dbT { key := key, value := value, version := ver, opId := P.clock, resolve := false }
        { key := key, value := value, version := ver, opId := T.clock, resolve := false } hag0.agree ⟨rfl, rfl, rfl, rfl⟩).2
      by_cases hok : ∃ k v, (dbP.setValue { key := key, value := value, version := ver, opId := P.clock, resolve := false }).2.1 = .set k v
      · obtain ⟨hdbs, hlines, hr, _, _, _⟩ := hP.1 hok
        have hlines' : replLines (primaryStepD recur P (.set sid key value ver)).2.2 = [rpLine (P.clock + 1) (replicateMsg dbP.name key value ver)] := hlines
        rw [hlines']
        simp only [List.foldl_cons, List.foldl_nil]
        obtain ⟨hsdbs, hssess⟩ := secondary_applies_set T link (P.clock + 1) dbP.name key value ver dbT fuel hlink hdT' hwo hv hclock
        have hskv := (setKeyValue_none T dbT key value ver hsT).1 (hiff.1 hok)
        have hnmT : (dbT.setValue { key := key, value := value, version := ver, opId := T.clock, resolve := false }).1.name = dbP.name := by
          rw [(setValue_conns dbT _).2.1]; exact hTname
        have hTd : (applyLine fuel link T (rpLine (P.clock + 1) (replicateMsg dbP.name key value ver))).dbs
            = AL.put T.dbs dbP.name (dbT.setValue { key := key, value := value, version := ver, opId := T.clock, resolve := false }).1 := by
          unfold applyLine
          rw [hsdbs, hskv]
          simp only [Node.setDb, (setKeyValue_frame T dbT key value ver).1]
          rw [hnmT]
        exact goodS_update link P T _ _ dbP.name _ _ hg0 hdbs hTd (setValue_conns dbP _).2.1 hnmT (by rw [setValue_strategy]; exact hsP)
          (by rw [setValue_strategy]; exact hsT) hagS hr hssess
      · obtain ⟨hdbs, hlines, hr⟩ := hP.2 hok
        have hlines' : replLines (primaryStepD recur P (.set sid key value ver)).2.2 = [] := hlines
        rw [hlines']; simp only [List.foldl_nil]
        exact goodS_same link P T _ hg0 hdbs hr
  | remove sid key =>
    obtain ⟨hclock, hnl, hsemi, hwire⟩ := hw
    cases hacc : P.safeAccess sid key .remove with
    | refused out =>
      have hstep := primaryStepD_refused recur P (.remove sid key) .remove key out (Or.inr (Or.inl ⟨rfl, rfl⟩)) hacc
      obtain ⟨_, hnol⟩ := safeAccess_refused P sid key .remove out hacc
      rw [hstep]; simp only [List.append_nil, hnol, List.foldl_nil]; exact hg0
    | granted dbP =>
      obtain ⟨d, hsel, hd⟩ := safeAccess_selected P sid key .remove dbP hacc
      have hname : dbP.name = d := hnP d dbP hd
      obtain ⟨hsP, dbT, hdT, hsT, hag0⟩ := hall d dbP hd
      have hdT' : T.db? dbP.name = some dbT := by rw [hname]; exact hdT
      have hTname : dbT.name = dbP.name := hnT _ _ hdT'
      have hd32 := hwire dbP hacc
      have hP := primary_remove_emits recur P sid key dbP hnP hrole hacc
      have hS := secondary_applies_remove T link P.clock dbP.name key dbT fuel hlink hdT' hd32 hnl hsemi hclock
      rcases removeValue_agreeS dbP dbT key hag0 with ⟨ha, hb⟩ | ⟨a', b', pa, pb, ha, hb, hagS⟩
      · rw [ha] at hP
        obtain ⟨hdbs, hlines, hr⟩ := hP
        have hlines' : replLines (primaryStepD recur P (.remove sid key)).2.2 = [] := hlines
        rw [hlines']; simp only [List.foldl_nil]
        exact goodS_same link P T _ hg0 hdbs hr
      · rw [ha] at hP
        rw [hb] at hS
        obtain ⟨hdbs, hlines, hr⟩ := hP
        obtain ⟨hssess, hsdbs⟩ := hS
        have hlines' : replLines (primaryStepD recur P (.remove sid key)).2.2 = [rpLine P.clock (replicateRemoveMsg dbP.name key)] := hlines
        rw [hlines']
        simp only [List.foldl_cons, List.foldl_nil]
        obtain ⟨hna, hsa⟩ := removeValue_frame dbP key a' pa ha
        obtain ⟨hnb, hsb⟩ := removeValue_frame dbT key b' pb hb
        have hTd : (applyLine fuel link T (rpLine P.clock (replicateRemoveMsg dbP.name key))).dbs = AL.put T.dbs dbP.name b' := by
          unfold applyLine
          rw [hsdbs, hnb, hTname]
        exact goodS_update link P T _ _ dbP.name a' b' hg0 hdbs hTd hna (by rw [hnb]; exact hTname) (by rw [hsa]; exact hsP)
          (by rw [hsb]; exact hsT) hagS hr hssess
  | inc sid key amount =>
    obtain ⟨hv, hclock, hk32, hwire⟩ := hw
    cases hacc : P.safeAccess sid key .increment with
    | refused out =>
      have hstep := primaryStepD_refused recur P (.inc sid key amount) .increment key out (Or.inr (Or.inr ⟨amount, rfl, rfl⟩)) hacc
      obtain ⟨_, hnol⟩ := safeAccess_refused P sid key .increment out hacc
      rw [hstep]; simp only [List.append_nil, hnol, List.foldl_nil]; exact hg0
    | granted dbP =>
      obtain ⟨d, hsel, hd⟩ := safeAccess_selected P sid key .increment dbP hacc
      have hname : dbP.name = d := hnP d dbP hd
      obtain ⟨hsP, dbT, hdT, hsT, hag0⟩ := hall d dbP hd
      have hdT' : T.db? dbP.name = some dbT := by rw [hname]; exact hdT
      have hTname : dbT.name = dbP.name := hnT _ _ hdT'
      obtain ⟨hd32, hd10⟩ := hwire dbP hacc
      have hP := primary_inc_emits recur P sid key amount dbP hnP hrole hacc
      obtain ⟨hagS, hresp⟩ := incValue_agreeS dbP dbT key amount P.clock T.clock hag0
      by_cases hok : (dbP.incValue key amount P.clock).2.1 = .ok
      · obtain ⟨hdbs, hlines, hr⟩ := hP.1 hok
        have hlines' : replLines (primaryStepD recur P (.inc sid key amount)).2.2 = [rpLine (P.clock + 1) (replicateIncMsg dbP.name key amount)] := hlines
        rw [hlines']
        simp only [List.foldl_cons, List.foldl_nil]
        obtain ⟨hssess, hsdbs⟩ := secondary_applies_inc T link (P.clock + 1) dbP.name key amount dbT fuel hlink hdT' hd32 hk32 hd10 hv hclock
        obtain ⟨hna, hsa⟩ := incValue_frame dbP key amount P.clock
        obtain ⟨hnb, hsb⟩ := incValue_frame dbT key amount T.clock
        have hTd : (applyLine fuel link T (rpLine (P.clock + 1) (replicateIncMsg dbP.name key amount))).dbs
            = AL.put T.dbs dbP.name (dbT.incValue key amount T.clock).1 := by
          unfold applyLine
          rw [hsdbs, hnb, hTname]
        exact goodS_update link P T _ _ dbP.name (dbP.incValue key amount P.clock).1 (dbT.incValue key amount T.clock).1 hg0 hdbs hTd
          hna (by rw [hnb]; exact hTname) (by rw [hsa]; exact hsP) (by rw [hsb]; exact hsT) hagS hr hssess
      · obtain ⟨hdbs, hlines, hr⟩ := hP.2 hok
        have hlines' : replLines (primaryStepD recur P (.inc sid key amount)).2.2 = [] := hlines
        rw [hlines']; simp only [List.foldl_nil]
        exact goodS_same link P T _ hg0 hdbs hr

inductive DStep
  | op (r : DReq)
  | deliver

def Pair.stepD (recur : Node → Sid → Bytes → Node × Out) (fuel : Nat) (link : Sid) (c : Pair) : DStep → Pair
  | .op r => { c with p := (primaryStepD recur c.p r).1, q := c.q ++ replLines (primaryStepD recur c.p r).2.2 }
  | .deliver =>
    match c.q with
    | [] => c
    | l :: rest => { c with t := applyLine fuel link c.t l, q := rest }

def Pair.runD (recur : Node → Sid → Bytes → Node × Out) (fuel : Nat) (link : Sid) (c : Pair) (steps : List DStep) : Pair :=
  steps.foldl (Pair.stepD recur fuel link) c

/-- every command of the schedule satisfies `OpOk` in the state it is issued in -/
def AdmOps (recur : Node → Sid → Bytes → Node × Out) (fuel : Nat) (link : Sid) : Pair → List DStep → Prop
  | _, [] => True
  | c, s :: rest => (match s with | .op r => OpOk c.p r | .deliver => True) ∧ AdmOps recur fuel link (c.stepD recur fuel link s) rest

theorem good_stepD (recur : Node → Sid → Bytes → Node × Out) (fuel : Nat) (link : Sid) (c : Pair) (s : DStep)
    (hg : GoodS link c.p (c.settled fuel link)) (hs : match s with | .op r => OpOk c.p r | .deliver => True) :
    GoodS link (c.stepD recur fuel link s).p ((c.stepD recur fuel link s).settled fuel link) := by
  cases s with
  | op r =>
    have := good_op recur fuel link c.p (c.settled fuel link) r hg hs
    show GoodS link (primaryStepD recur c.p r).1 ((c.q ++ replLines (primaryStepD recur c.p r).2.2).foldl (applyLine fuel link) c.t)
    rw [List.foldl_append]; exact this
  | deliver =>
    simp only [Pair.stepD]
    cases hq : c.q with
    | nil => simp only [Pair.settled, hq] at hg ⊢; exact hg
    | cons l rest =>
      simp only [Pair.settled, hq, List.foldl_cons] at hg ⊢
      exact hg

/-- **C04 for every history of data commands and every FIFO interleaving** (no snapshot in between).
Start from a primary and a secondary whose databases agree (`GoodS`).  Let clients of the primary
issue ANY sequence of `set` / `set-safe` / `remove` / `increment` commands — any sessions, keys,
values, versions, amounts; accepted or refused — interleaved in ANY way with deliveries of the
printed lines to the secondary, in FIFO order.  At every point of the run: once the lines still
in flight are delivered, every database of the primary has a copy on the secondary that agrees
with it on every key's value, version, removed status (and on whether it was ever snapshotted). -/
theorem C04_data_commands_converge (recur : Node → Sid → Bytes → Node × Out) (fuel : Nat) (link : Sid) (steps : List DStep) :
    ∀ (c : Pair), GoodS link c.p (c.settled fuel link) → AdmOps recur fuel link c steps →
      GoodS link (c.runD recur fuel link steps).p ((c.runD recur fuel link steps).settled fuel link) := by
  induction steps with
  | nil => intro c hg _; exact hg
  | cons s rest ih =>
    intro c hg ha
    exact ih (c.stepD recur fuel link s) (good_stepD recur fuel link c s hg ha.1) ha.2

/-- spelled out: at quiescence a client reads the same from either node -/
theorem C04_data_quiescent_agreement (recur : Node → Sid → Bytes → Node × Out) (fuel : Nat) (link : Sid) (steps : List DStep) (c : Pair)
    (hg : GoodS link c.p (c.settled fuel link)) (ha : AdmOps recur fuel link c steps)
    (hq : (c.runD recur fuel link steps).q = []) (d : Bytes) (dbP : Db) (hd : (c.runD recur fuel link steps).p.db? d = some dbP) :
    ∃ dbT, (c.runD recur fuel link steps).t.db? d = some dbT ∧ ∀ k, dbP.pubOf k = dbT.pubOf k := by
  have h := C04_data_commands_converge recur fuel link steps c hg ha
  obtain ⟨_, dbT, hT, _, hag⟩ := h.2.2.2.2 d dbP hd
  refine ⟨dbT, ?_, hag.agree⟩
  simpa [Pair.settled, hq] using hT

def c04DSteps : List DStep :=
  [.op (.set 1 b!"a" b!"two words" (-1)), .op (.inc 1 b!"n" 5), .deliver, .op (.remove 1 b!"a"), .op (.inc 1 b!"n" (-2)), .op (.inc 1 b!"a" 1),
   .deliver, .op (.set 1 b!"a" b!"back" (-1)), .op (.remove 1 b!"$$token"), .deliver, .deliver, .deliver, .deliver]

/-- non-vacuity: a concrete run with a write, increments (one on a removed key), a remove, a refused
remove, deliveries in between; both nodes end with the same data -/
example : ((Pair.runD (Node.recurOf 3) 3 100 ⟨c04P, c04T, []⟩ c04DSteps).q = []) ∧
    (((Pair.runD (Node.recurOf 3) 3 100 ⟨c04P, c04T, []⟩ c04DSteps).t.db? b!"t").map fun db => (db.pubOf b!"a", db.pubOf b!"n"))
      = some (some (b!"back", 2, false), some (b!"3", 2, false)) ∧
    (((Pair.runD (Node.recurOf 3) 3 100 ⟨c04P, c04T, []⟩ c04DSteps).p.db? b!"t").map fun db => (db.pubOf b!"a", db.pubOf b!"n"))
      = some (some (b!"back", 2, false), some (b!"3", 2, false)) := by
  refine ⟨?_, ?_, ?_⟩ <;> rfl

end Nun
