import NunVerif.Props.C04
import NunVerif.Props.C08Integrity
import NunVerif.Proofs.WireParse
import NunVerif.Gen.Atomic
/-
  C04, end to end — from the client's `set` on the primary to the secondary's database.

  `Props/C04.lean` proves that two replicas which receive the same sequence of changes agree, and
  that the primary's loop queues a message for every connected secondary.  What it takes for
  granted is that the LINE the primary prints is read back by the secondary as the change the
  primary applied.  This file proves that for the model's own printer, parser and request path:

  * `parse_replicateMsg`, `parse_replicateRemoveMsg`, `parse_replicateIncMsg`, `parse_rpLine`
    (Proofs/WireParse.lean): the text format is lossless for every database name, key, value,
    version and operation id — under explicit conditions on the fields (`WireOk`): no blank in the
    database name or key, no newline, and the LAST field must not end in the statement
    terminator `;`.  That last condition is not a convenience: where it fails the property fails,
    on the model and on the real cluster alike (`C04_finding_terminator_in_last_field`, recorded
    finding; checks/c04.py runs the witness on real nodes).
  * `secondary_applies_set`: a node that executes the envelope `rp <id> replicate <db> <key>
    <version> <value>` on an authenticated link performs exactly `set_key_value` with those
    fields on its own copy of the database.
  * `primary_set_emits`: a client's `set` / `set-safe` that the primary accepts changes the
    primary's database by `setValue` and puts exactly that envelope on the replication channel;
    a refused one changes nothing and prints nothing.
  * `C04_write_end_to_end`: primary and secondary agree before ⇒ they agree after the secondary
    has executed what the primary printed, whatever their clocks, sessions and persistence states
    (databases without a conflict strategy).
-/
namespace Nun
open Bytes

theorem trimBoth_id (c : Nat) (s : Bytes) (hh : s.head? ≠ some c) (hl : s.getLast? ≠ some c) : trimBoth c s = s := by
  unfold trimBoth
  rw [dropWhileEq_id c s hh, trimEnd_id c s hl]

theorem last_ne_of_not_mem (s : Bytes) (c : Nat) (h : c ∉ s) : s.getLast? ≠ some c :=
  fun e => h (List.mem_of_getLast? e)

theorem rpLine_last (id : Nat) (msg : Bytes) (c : Nat) (hne : msg ≠ []) (h : msg.getLast? ≠ some c) : (rpLine id msg).getLast? ≠ some c := by
  rw [rpLine_shape, getLast?_sep, if_neg (by simp), getLast?_sep, if_neg hne]; exact h

theorem replicateMsg_ne_nil (d k v : Bytes) (ver : Int) : replicateMsg d k v ver ≠ [] := by
  rw [replicateMsg_shape]; simp

/-- `process_request` once the line is parsed -/
theorem processRequestWith_of_parse (recur : Node → Sid → Bytes → Node × Out) (n : Node) (sid : Sid) (input : Bytes) (req : Request)
    (h : Request.parse (Bytes.trimBoth 10 input) = .ok req) :
    Node.processRequestWith recur n sid input =
      (match Node.processObj recur n sid req with
       | (n', r, evs) =>
         match Node.replicateRequest n' req (n.session sid).db r with
         | (n'', r', evs') => (n'', r', evs ++ evs')) := by
  unfold Node.processRequestWith
  simp only [h]

theorem parse_trim_replicateMsg (d k v : Bytes) (ver : Int) (w : WireOk d k v) (hv : fitsI32 ver = true) :
    Request.parse (Bytes.trimBoth 10 (replicateMsg d k v ver)) = .ok (.replicateSet d k v ver) := by
  rw [trimBoth_id 10 _ (by rw [replicateMsg_shape]; simp) (replicateMsg_last d k v ver 10 (by decide) (last_ne_of_not_mem v 10 w.val_nl))]
  exact parse_replicateMsg d k v ver w hv

theorem parse_trim_rpLine (id : Nat) (msg : Bytes) (hid : id < u64Bound) (hne : msg ≠ []) (h59 : msg.getLast? ≠ some 59) (h10 : msg.getLast? ≠ some 10) :
    Request.parse (Bytes.trimBoth 10 (rpLine id msg)) = .ok (.replicateRequest msg id) := by
  rw [trimBoth_id 10 _ (by rw [rpLine_shape]; simp) (rpLine_last id msg 10 hne h10)]
  exact parse_rpLine id msg hid hne h59

theorem replicateRequest_frame (n : Node) (req : Request) (d : Option Bytes) (r : Resp) :
    (n.replicateRequest req d r).1.dbs = n.dbs ∧ (n.replicateRequest req d r).1.sessions = n.sessions ∧
    (n.replicateRequest req d r).1.role = n.role := by
  have core : (Node.replicateRequestCore n req d r).1.dbs = n.dbs ∧ (Node.replicateRequestCore n req d r).1.sessions = n.sessions ∧
      (Node.replicateRequestCore n req d r).1.role = n.role := by
    unfold Node.replicateRequestCore
    cases req <;> simp [Node.replicateWeb, Node.tick]
  unfold Node.replicateRequest
  split
  · exact ⟨rfl, rfl, rfl⟩
  · split
    · split
      · exact ⟨rfl, rfl, rfl⟩
      · exact core
    · exact core

theorem setKeyValue_sessions (n : Node) (db : Db) (k v : Bytes) (ver : Int) :
    (n.setKeyValue db k v ver).1.sessions = n.sessions := by
  unfold Node.setKeyValue
  simp only [Node.tick]
  exact (applyChange_frame { n with clock := n.clock + 1 } db { key := k, value := v, version := ver, opId := n.clock, resolve := false }).2.2.2

/-- **the secondary's side**: executing the envelope of a replicated write performs `set_key_value`
with the printed fields on the node's own copy of the named database — nothing else of the node's
databases changes, and no session does -/
theorem secondary_applies_set (T : Node) (link : Sid) (id : Nat) (d k v : Bytes) (ver : Int) (dbT : Db) (fuel : Nat)
    (hauth : (T.session link).auth = true) (hdb : T.db? d = some dbT)
    (w : WireOk d k v) (hv : fitsI32 ver = true) (hid : id < u64Bound) :
    (Node.processRequestWith (Node.recurOf (fuel + 1)) T link (rpLine id (replicateMsg d k v ver))).1.dbs
      = ((T.setKeyValue dbT k v ver).1.setDb (T.setKeyValue dbT k v ver).2.1).dbs ∧
    (Node.processRequestWith (Node.recurOf (fuel + 1)) T link (rpLine id (replicateMsg d k v ver))).1.sessions = T.sessions := by
  have hmsg59 := replicateMsg_last d k v ver 59 (by decide) w.val_semi
  have hmsg10 := replicateMsg_last d k v ver 10 (by decide) (last_ne_of_not_mem v 10 w.val_nl)
  rw [processRequestWith_of_parse _ _ _ _ _ (parse_trim_rpLine id _ hid (replicateMsg_ne_nil d k v ver) hmsg59 hmsg10)]
  -- the envelope: acknowledge, then the inner line through `process_request` again
  have inner : (Node.recurOf (fuel + 1) T link (replicateMsg d k v ver)).1.dbs
      = ((T.setKeyValue dbT k v ver).1.setDb (T.setKeyValue dbT k v ver).2.1).dbs ∧
      (Node.recurOf (fuel + 1) T link (replicateMsg d k v ver)).1.sessions = T.sessions := by
    simp only [Node.recurOf]
    rw [processRequestWith_of_parse _ _ _ _ _ (parse_trim_replicateMsg d k v ver w hv)]
    simp only [Node.processObj, hauth, hdb, Bool.not_true, Bool.false_eq_true, if_false]
    have hss := setKeyValue_sessions T dbT k v ver
    generalize T.setKeyValue dbT k v ver = res at hss
    obtain ⟨n1, db1, r1, e1⟩ := res
    simp only [] at hss ⊢
    generalize hrr : Node.replicateRequest (n1.setDb db1) (Request.replicateSet d k v ver) (T.session link).db r1 = rr
    obtain ⟨n2, r2, e2⟩ := rr
    have := replicateRequest_frame (n1.setDb db1) (Request.replicateSet d k v ver) (T.session link).db r1
    rw [hrr] at this
    exact ⟨this.1, by rw [this.2.1]; exact hss⟩
  have hnoenv : Bytes.startsWith (Bytes.trimBoth 10 (replicateMsg d k v ver)) b!"rp " = false := by
    rw [trimBoth_id 10 _ (by rw [replicateMsg_shape]; simp) hmsg10, replicateMsg_shape]
    simp [Bytes.startsWith]
  simp only [Node.processObj, hnoenv, Bool.false_eq_true, if_false]
  generalize hin : Node.recurOf (fuel + 1) T link (replicateMsg d k v ver) = res at inner
  obtain ⟨n1, r1, e1⟩ := res
  simp only []
  generalize hrr : Node.replicateRequest n1 (Request.replicateRequest (replicateMsg d k v ver) id) (T.session link).db r1 = rr
  obtain ⟨n2, r2, e2⟩ := rr
  have := replicateRequest_frame n1 (Request.replicateRequest (replicateMsg d k v ver) id) (T.session link).db r1
  rw [hrr] at this
  simp only [] at this inner ⊢
  rw [this.1, this.2.1]; exact inner

/-- the lines a command puts on the replication channel -/
def replLines (evs : List Ev) : List Bytes := evs.filterMap fun e => match e with | .repl l => some l | _ => none

theorem replLines_append (a b : List Ev) : replLines (a ++ b) = replLines a ++ replLines b := by
  simp [replLines, List.filterMap_append]

theorem replLines_pushes (ps : List Push) : replLines (pushes ps) = [] := by
  unfold replLines pushes
  induction ps with
  | nil => rfl
  | cons p rest ih => simpa using ih

theorem safeAccess_selected (n : Node) (sid : Sid) (key : Bytes) (kind : PermKind) (db : Db)
    (h : n.safeAccess sid key kind = .granted db) : ∃ d, (n.session sid).db = some d ∧ n.db? d = some db := by
  unfold Node.safeAccess at h
  simp only [] at h
  split at h
  · cases h
  · split at h
    · rename_i d hd
      refine ⟨d, hd, ?_⟩
      unfold Node.accessDb at h
      cases hdb : n.db? d with
      | none => simp [hdb] at h
      | some db0 =>
        simp only [hdb] at h
        have hx : db0 = db := by
          revert h
          generalize (if Bytes.startsWith key Gen.securePrefix = true then (n.session sid).auth else db0.permits (n.session sid).user kind key) = okp
          intro h
          cases okp
          · simp at h
          · simpa using h
        subst hx; rfl
    · cases h

/-- what the primary does with a client's `set` / `set-safe` (request level), on a database without
a conflict strategy: an accepted write is `setValue` on the selected database and exactly one line
on the replication channel — the envelope of `replicate <db> <key> <version> <value>` with the
request's own fields; a refused one changes no database and prints nothing -/
theorem primary_set_emits (recur : Node → Sid → Bytes → Node × Out) (P : Node) (sid : Sid) (key value : Bytes) (ver : Int) (dbP : Db)
    (hnames : NamesOk P) (hrole : P.role = .primary)
    (hacc : P.safeAccess sid key .write = .granted dbP) (hstrat : dbP.strategy = .none) :
    let c : Change := { key := key, value := value, version := ver, opId := P.clock, resolve := false }
    let res : Node × Out :=
      match Node.processObj recur P sid (.set key value ver) with
      | (n', r, evs) =>
        match Node.replicateRequest n' (.set key value ver) (P.session sid).db r with
        | (n'', r', evs') => (n'', r', evs ++ evs')
    ((∃ k v, (dbP.setValue c).2.1 = .set k v) →
        res.1.dbs = AL.put P.dbs dbP.name (dbP.setValue c).1 ∧
        replLines res.2.2 = [rpLine (P.clock + 1) (replicateMsg dbP.name key value ver)] ∧ res.1.role = P.role ∧
        res.1.pending = P.pending ∧ res.1.members = P.members ∧ res.1.addr = P.addr) ∧
    ((¬ ∃ k v, (dbP.setValue c).2.1 = .set k v) → res.1.dbs = P.dbs ∧ replLines res.2.2 = [] ∧ res.1.role = P.role) := by
  obtain ⟨d, hsel, hd⟩ := safeAccess_selected P sid key .write dbP hacc
  have hname : dbP.name = d := hnames d dbP hd
  intro c res
  have hres : res =
      (match Node.processObj recur P sid (.set key value ver) with
      | (n', r, evs) =>
        match Node.replicateRequest n' (.set key value ver) (P.session sid).db r with
        | (n'', r', evs') => (n'', r', evs ++ evs')) := rfl
  simp only [Node.processObj, hacc, Node.withAccess, Node.setKeyValue, Node.tick, Node.applyChange, hstrat] at hres
  have hprim : ∀ (m : Node), m.role = .primary → m.isPrimary = true := by intro m hm; simp [Node.isPrimary, hm]
  cases hsv : dbP.setValue c with
  | mk db' rest =>
    cases rest with
    | mk resp ps =>
      have hsv' : dbP.setValue { key := key, value := value, version := ver, opId := P.clock, resolve := false } = (db', resp, ps) := hsv
      rw [hsv'] at hres
      cases resp with
      | set k v =>
        simp only [] at hres
        refine ⟨fun _ => ?_, fun hno => absurd ⟨k, v, rfl⟩ hno⟩
        have hp : (({ P with clock := P.clock + 1 } : Node).setDb db').isPrimary = true := hprim _ (by simp [Node.setDb, hrole])
        simp only [hp, Bool.not_true, Bool.false_eq_true, if_false, List.append_nil] at hres
        have hnm : db'.name = d := by
          have := (setValue_conns dbP c).2.1
          rw [hsv] at this; simp only [] at this; rw [this]; exact hname
        have hfound : (({ P with clock := P.clock + 1 } : Node).setDb db').db? d = some db' := by
          simp [Node.setDb, Node.db?, ← hnm]
        simp only [Node.replicateRequest, Resp.isError, hsel, hfound, Option.isNone_some, Bool.false_eq_true, if_false,
          Node.replicateRequestCore, Node.replicateWeb, Node.tick, Option.getD_some] at hres
        rw [hres]
        refine ⟨?_, ?_, ?_, ?_, ?_, ?_⟩
        · simp [Node.setDb, hname, hnm]
        · rw [replLines_append, replLines_pushes]
          simp [replLines, rpLine, Node.setDb, hname]
        · simp [Node.setDb]
        · simp [Node.setDb]
        · simp [Node.setDb]
        · simp [Node.setDb]
      | versionError k ov vv old ch st =>
        simp only [] at hres
        refine ⟨fun ⟨k', v', hkv⟩ => (by cases hkv), fun _ => ?_⟩
        have hp : (({ P with clock := P.clock + 1 } : Node).setDb dbP).isPrimary = true := hprim _ (by simp [Node.setDb, hrole])
        simp only [hp, Bool.not_true, Bool.false_eq_true, if_false, List.append_nil, Node.replicateRequest, Resp.isError, if_true] at hres
        rw [hres]
        refine ⟨?_, rfl, rfl⟩
        simp only [Node.setDb]
        exact AL.put_same_value P.dbs dbP.name dbP (by rw [hname]; exact hd)

/-- `set_key_value` on a database without a conflict strategy: the change is applied or the
database is left as it is -/
theorem setKeyValue_none (n : Node) (db : Db) (k v : Bytes) (ver : Int) (hs : db.strategy = .none) :
    let c : Change := { key := k, value := v, version := ver, opId := n.clock, resolve := false }
    ((∃ k' v', (db.setValue c).2.1 = .set k' v') → (n.setKeyValue db k v ver).2.1 = (db.setValue c).1) ∧
    ((¬ ∃ k' v', (db.setValue c).2.1 = .set k' v') → (n.setKeyValue db k v ver).2.1 = db) := by
  intro c
  simp only [Node.setKeyValue, Node.tick, Node.applyChange, hs]
  cases hsv : db.setValue c with
  | mk db' rest =>
    cases rest with
    | mk resp ps =>
      cases resp with
      | set k' v' => exact ⟨fun _ => rfl, fun hno => absurd ⟨k', v', rfl⟩ hno⟩
      | versionError k' ov vv old ch st => exact ⟨fun ⟨a, b, hab⟩ => (by cases hab), fun _ => rfl⟩

/-- **one write, end to end.**  A primary and a secondary hold copies of a database (no conflict
strategy) that agree on every key's value, version and removed status.  A client of the primary
sends `set` / `set-safe`; the secondary then executes, on its authenticated link, every line the
primary put on its replication channel for that command.  Afterwards the two copies agree again —
whatever the two nodes' clocks, sessions, other databases and persistence states are, whether the
write was accepted or refused. -/
theorem C04_write_end_to_end (recur : Node → Sid → Bytes → Node × Out) (P T : Node) (sid link : Sid) (key value : Bytes) (ver : Int)
    (dbP dbT : Db) (fuel : Nat)
    (hnP : NamesOk P) (hnT : NamesOk T) (hrole : P.role = .primary)
    (hacc : P.safeAccess sid key .write = .granted dbP) (hsP : dbP.strategy = .none)
    (hlink : (T.session link).auth = true) (hdbT : T.db? dbP.name = some dbT) (hsT : dbT.strategy = .none)
    (hagree : dbP.Agree dbT)
    (w : WireOk dbP.name key value) (hv : fitsI32 ver = true) (hclock : P.clock + 1 < u64Bound) :
    let res : Node × Out :=
      match Node.processObj recur P sid (.set key value ver) with
      | (n', r, evs) =>
        match Node.replicateRequest n' (.set key value ver) (P.session sid).db r with
        | (n'', r', evs') => (n'', r', evs ++ evs')
    let T' := (replLines res.2.2).foldl (fun t l => (Node.processRequestWith (Node.recurOf (fuel + 1)) t link l).1) T
    ∃ dbP' dbT', res.1.db? dbP.name = some dbP' ∧ T'.db? dbP.name = some dbT' ∧ dbP'.Agree dbT' := by
  intro res T'
  have hfiled : P.db? dbP.name = some dbP := by
    obtain ⟨d, _, hd⟩ := safeAccess_selected P sid key .write dbP hacc
    exact granted_filed P hnP dbP ⟨d, hd⟩
  have hTname : dbT.name = dbP.name := hnT _ _ hdbT
  let cP : Change := { key := key, value := value, version := ver, opId := P.clock, resolve := false }
  let cT : Change := { key := key, value := value, version := ver, opId := T.clock, resolve := false }
  have hsame : cP.Same cT := ⟨rfl, rfl, rfl, rfl⟩
  have hag := setValue_agree dbP dbT cP cT hagree hsame
  have hP : ((∃ k v, (dbP.setValue cP).2.1 = .set k v) →
        res.1.dbs = AL.put P.dbs dbP.name (dbP.setValue cP).1 ∧
        replLines res.2.2 = [rpLine (P.clock + 1) (replicateMsg dbP.name key value ver)] ∧ res.1.role = P.role ∧
        res.1.pending = P.pending ∧ res.1.members = P.members ∧ res.1.addr = P.addr) ∧
      ((¬ ∃ k v, (dbP.setValue cP).2.1 = .set k v) → res.1.dbs = P.dbs ∧ replLines res.2.2 = [] ∧ res.1.role = P.role) :=
    primary_set_emits recur P sid key value ver dbP hnP hrole hacc hsP
  by_cases hok : ∃ k v, (dbP.setValue cP).2.1 = .set k v
  · obtain ⟨hdbs, hlines, _⟩ := hP.1 hok
    have hokT := hag.2.1 hok
    have hT : T' = (Node.processRequestWith (Node.recurOf (fuel + 1)) T link (rpLine (P.clock + 1) (replicateMsg dbP.name key value ver))).1 := by
      show (replLines res.2.2).foldl _ T = _
      rw [hlines]; rfl
    have hsec := (secondary_applies_set T link (P.clock + 1) dbP.name key value ver dbT fuel hlink hdbT w hv hclock).1
    have hskv := (setKeyValue_none T dbT key value ver hsT).1 hokT
    refine ⟨(dbP.setValue cP).1, (dbT.setValue cT).1, ?_, ?_, hag.1⟩
    · show AL.get? res.1.dbs dbP.name = _
      rw [hdbs]; simp
    · show AL.get? T'.dbs dbP.name = _
      rw [hT, hsec, hskv]
      have hnm : (dbT.setValue { key := key, value := value, version := ver, opId := T.clock, resolve := false }).1.name = dbP.name := by
        rw [(setValue_conns dbT _).2.1]; exact hTname
      simp only [Node.setDb]
      rw [hnm]
      exact AL.get?_put_same _ _ _
  · obtain ⟨hdbs, hlines, _⟩ := hP.2 hok
    have hT : T' = T := by
      show (replLines res.2.2).foldl _ T = _
      rw [hlines]; rfl
    refine ⟨dbP, dbT, ?_, ?_, hagree⟩
    · show AL.get? res.1.dbs dbP.name = _
      rw [hdbs]; exact hfiled
    · rw [hT]; exact hdbT

/-! ### any history of client writes, any FIFO interleaving -/

theorem setValue_strategy (db : Db) (c : Change) : (db.setValue c).1.strategy = db.strategy := by
  unfold Db.setValue
  cases db.getValue c.key with
  | none => simp [Db.setValueVersion]
  | some old => simp only []; split <;> simp [Db.setValueVersion]

theorem safeAccess_refused (n : Node) (sid : Sid) (key : Bytes) (kind : PermKind) (out : Out)
    (h : n.safeAccess sid key kind = .refused out) : out.1.isError = true ∧ replLines out.2 = [] := by
  unfold Node.safeAccess at h
  simp only [] at h
  split at h
  · cases h; exact ⟨rfl, rfl⟩
  · split at h
    · rename_i d hd
      unfold Node.accessDb at h
      cases hdb : n.db? d with
      | none => simp only [hdb] at h; cases h; exact ⟨rfl, rfl⟩
      | some db0 =>
        simp only [hdb] at h
        revert h
        generalize (if Bytes.startsWith key Gen.securePrefix = true then (n.session sid).auth else db0.permits (n.session sid).user kind key) = okp
        intro h
        cases okp
        · simp at h; cases h; exact ⟨rfl, rfl⟩
        · simp at h
    · cases h; exact ⟨rfl, rfl⟩

/-- a client write as the parser hands it to `process_request`: session, key, value, version (-1 = plain `set`) -/
structure WReq where
  sid : Sid
  key : Bytes
  value : Bytes
  ver : Int

/-- `process_request` on the primary for a parsed `set` / `set-safe` -/
def primaryStep (recur : Node → Sid → Bytes → Node × Out) (P : Node) (w : WReq) : Node × Out :=
  match Node.processObj recur P w.sid (.set w.key w.value w.ver) with
  | (n', r, evs) =>
    match Node.replicateRequest n' (.set w.key w.value w.ver) (P.session w.sid).db r with
    | (n'', r', evs') => (n'', r', evs ++ evs')

/-- the secondary executes one line that arrived on its link -/
def applyLine (fuel : Nat) (link : Sid) (t : Node) (l : Bytes) : Node :=
  (Node.processRequestWith (Node.recurOf (fuel + 1)) t link l).1

/-- what the two nodes must satisfy for the theorem to speak about them: databases filed under their
names, the primary is the primary, the link is authenticated, and every database of the primary
has no conflict strategy and a copy on the secondary that agrees with it -/
def Good (link : Sid) (P T : Node) : Prop :=
  NamesOk P ∧ NamesOk T ∧ P.role = .primary ∧ (T.session link).auth = true ∧
  ∀ d dbP, P.db? d = some dbP → dbP.strategy = .none ∧ ∃ dbT, T.db? d = some dbT ∧ dbT.strategy = .none ∧ dbP.Agree dbT

/-- what a write must satisfy: a 32-bit version, an operation id that fits the wire, and — if the
session may write the key at all — fields the text format carries unchanged -/
def WriteOk (P : Node) (w : WReq) : Prop :=
  fitsI32 w.ver = true ∧ P.clock + 1 < u64Bound ∧
  ∀ dbP, P.safeAccess w.sid w.key .write = .granted dbP → WireOk dbP.name w.key w.value

theorem session_of_sessions (a b : Node) (s : Sid) (h : a.sessions = b.sessions) : a.session s = b.session s := by
  simp [Node.session, h]

/-- **one step of the history**: the primary processes a client write, the secondary executes what
the primary printed; `Good` is kept -/
theorem good_write (recur : Node → Sid → Bytes → Node × Out) (fuel : Nat) (link : Sid) (P T : Node) (w : WReq)
    (hg : Good link P T) (hw : WriteOk P w) :
    Good link (primaryStep recur P w).1 ((replLines (primaryStep recur P w).2.2).foldl (applyLine fuel link) T) := by
  obtain ⟨hnP, hnT, hrole, hlink, hall⟩ := hg
  obtain ⟨hv, hclock, hwire⟩ := hw
  cases hacc : P.safeAccess w.sid w.key .write with
  | refused out =>
    obtain ⟨herr, hnol⟩ := safeAccess_refused P w.sid w.key .write out hacc
    have hstep : primaryStep recur P w = (P, out.1, out.2 ++ []) := by
      unfold primaryStep
      simp only [Node.processObj, hacc, Node.withAccess, Node.replicateRequest, herr, if_true]
    rw [hstep]
    simp only [List.append_nil, hnol, List.foldl_nil]
    exact ⟨hnP, hnT, hrole, hlink, hall⟩
  | granted dbP =>
    obtain ⟨d, hsel, hd⟩ := safeAccess_selected P w.sid w.key .write dbP hacc
    have hname : dbP.name = d := hnP d dbP hd
    obtain ⟨hsP, dbT, hdT, hsT, hag0⟩ := hall d dbP hd
    have hdT' : T.db? dbP.name = some dbT := by rw [hname]; exact hdT
    have hTname : dbT.name = dbP.name := hnT _ _ hdT'
    have hwo := hwire dbP hacc
    let cP : Change := { key := w.key, value := w.value, version := w.ver, opId := P.clock, resolve := false }
    let cT : Change := { key := w.key, value := w.value, version := w.ver, opId := T.clock, resolve := false }
    have hag := setValue_agree dbP dbT cP cT hag0 ⟨rfl, rfl, rfl, rfl⟩
    have hP : ((∃ k v, (dbP.setValue cP).2.1 = .set k v) →
          (primaryStep recur P w).1.dbs = AL.put P.dbs dbP.name (dbP.setValue cP).1 ∧
          replLines (primaryStep recur P w).2.2 = [rpLine (P.clock + 1) (replicateMsg dbP.name w.key w.value w.ver)] ∧
          (primaryStep recur P w).1.role = P.role ∧ (primaryStep recur P w).1.pending = P.pending ∧
          (primaryStep recur P w).1.members = P.members ∧ (primaryStep recur P w).1.addr = P.addr) ∧
        ((¬ ∃ k v, (dbP.setValue cP).2.1 = .set k v) →
          (primaryStep recur P w).1.dbs = P.dbs ∧ replLines (primaryStep recur P w).2.2 = [] ∧ (primaryStep recur P w).1.role = P.role) :=
      primary_set_emits recur P w.sid w.key w.value w.ver dbP hnP hrole hacc hsP
    by_cases hok : ∃ k v, (dbP.setValue cP).2.1 = .set k v
    · obtain ⟨hdbs, hlines, hr, _, _, _⟩ := hP.1 hok
      have hokT := hag.2.1 hok
      obtain ⟨hsdbs, hssess⟩ := secondary_applies_set T link (P.clock + 1) dbP.name w.key w.value w.ver dbT fuel hlink hdT' hwo hv hclock
      have hskv := (setKeyValue_none T dbT w.key w.value w.ver hsT).1 hokT
      have hTdbs : (applyLine fuel link T (rpLine (P.clock + 1) (replicateMsg dbP.name w.key w.value w.ver))).dbs
          = AL.put T.dbs dbP.name (dbT.setValue cT).1 := by
        show (Node.processRequestWith (Node.recurOf (fuel + 1)) T link _).1.dbs = _
        rw [hsdbs, hskv]
        simp only [Node.setDb, (setKeyValue_frame T dbT w.key w.value w.ver).1]
        have hnm : (dbT.setValue { key := w.key, value := w.value, version := w.ver, opId := T.clock, resolve := false }).1.name = dbP.name := by
          rw [(setValue_conns dbT _).2.1]; exact hTname
        rw [hnm]
      rw [hlines]
      simp only [List.foldl_cons, List.foldl_nil]
      refine ⟨?_, ?_, by rw [hr]; exact hrole, ?_, ?_⟩
      · have hnmP : (dbP.setValue cP).1.name = dbP.name := (setValue_conns dbP cP).2.1
        have : (primaryStep recur P w).1.dbs = (P.setDb (dbP.setValue cP).1).dbs := by rw [hdbs]; simp [Node.setDb, hnmP]
        exact namesOk_of_dbs _ _ this (namesOk_setDb P _ hnP)
      · have hnmT : (dbT.setValue cT).1.name = dbP.name := by rw [(setValue_conns dbT cT).2.1]; exact hTname
        have : (applyLine fuel link T (rpLine (P.clock + 1) (replicateMsg dbP.name w.key w.value w.ver))).dbs = (T.setDb (dbT.setValue cT).1).dbs := by
          rw [hTdbs]; simp [Node.setDb, hnmT]
        exact namesOk_of_dbs _ _ this (namesOk_setDb T _ hnT)
      · have : (applyLine fuel link T (rpLine (P.clock + 1) (replicateMsg dbP.name w.key w.value w.ver))).sessions = T.sessions := hssess
        rw [session_of_sessions _ T link this]; exact hlink
      · intro d' dbP' hd'
        have hd'' : AL.get? (AL.put P.dbs dbP.name (dbP.setValue cP).1) d' = some dbP' := by
          have : AL.get? (primaryStep recur P w).1.dbs d' = some dbP' := hd'
          rw [hdbs] at this; exact this
        rw [AL.get?_put] at hd''
        by_cases hdd : dbP.name = d'
        · rw [if_pos hdd] at hd''
          cases hd''
          refine ⟨by rw [setValue_strategy]; exact hsP, (dbT.setValue cT).1, ?_, by rw [setValue_strategy]; exact hsT, hag.1⟩
          show AL.get? (applyLine fuel link T _).dbs d' = _
          rw [hTdbs, AL.get?_put, if_pos hdd]
        · rw [if_neg hdd] at hd''
          obtain ⟨hs', dbT', hdT'', hsT', hag'⟩ := hall d' dbP' hd''
          refine ⟨hs', dbT', ?_, hsT', hag'⟩
          show AL.get? (applyLine fuel link T _).dbs d' = _
          rw [hTdbs, AL.get?_put, if_neg hdd]; exact hdT''
    · obtain ⟨hdbs, hlines, hr⟩ := hP.2 hok
      rw [hlines]
      simp only [List.foldl_nil]
      refine ⟨namesOk_of_dbs _ _ hdbs hnP, hnT, by rw [hr]; exact hrole, hlink, ?_⟩
      intro d' dbP' hd'
      have : P.db? d' = some dbP' := by
        have h2 : AL.get? (primaryStep recur P w).1.dbs d' = some dbP' := hd'
        rw [hdbs] at h2; exact h2
      exact hall d' dbP' this

/-- the cluster as the theorem sees it: the primary, one secondary, and the lines in flight on the
FIFO link between them (oldest first) -/
structure Pair where
  p : Node
  t : Node
  q : List Bytes

/-- what can happen next: a client of the primary writes, or the secondary takes the oldest line off the link -/
inductive PStep
  | write (w : WReq)
  | deliver

def Pair.step (recur : Node → Sid → Bytes → Node × Out) (fuel : Nat) (link : Sid) (c : Pair) : PStep → Pair
  | .write w => { c with p := (primaryStep recur c.p w).1, q := c.q ++ replLines (primaryStep recur c.p w).2.2 }
  | .deliver =>
    match c.q with
    | [] => c
    | l :: rest => { c with t := applyLine fuel link c.t l, q := rest }

def Pair.run (recur : Node → Sid → Bytes → Node × Out) (fuel : Nat) (link : Sid) (c : Pair) (steps : List PStep) : Pair :=
  steps.foldl (Pair.step recur fuel link) c

/-- the secondary once everything in flight has been delivered -/
def Pair.settled (fuel : Nat) (link : Sid) (c : Pair) : Node := c.q.foldl (applyLine fuel link) c.t

/-- every write of the schedule satisfies `WriteOk` in the state it is issued in -/
def AdmWrites (recur : Node → Sid → Bytes → Node × Out) (fuel : Nat) (link : Sid) : Pair → List PStep → Prop
  | _, [] => True
  | c, s :: rest => (match s with | .write w => WriteOk c.p w | .deliver => True) ∧ AdmWrites recur fuel link (c.step recur fuel link s) rest

theorem good_step (recur : Node → Sid → Bytes → Node × Out) (fuel : Nat) (link : Sid) (c : Pair) (s : PStep)
    (hg : Good link c.p (c.settled fuel link)) (hs : match s with | .write w => WriteOk c.p w | .deliver => True) :
    Good link (c.step recur fuel link s).p ((c.step recur fuel link s).settled fuel link) := by
  cases s with
  | write w =>
    have := good_write recur fuel link c.p (c.settled fuel link) w hg hs
    show Good link (primaryStep recur c.p w).1 ((c.q ++ replLines (primaryStep recur c.p w).2.2).foldl (applyLine fuel link) c.t)
    rw [List.foldl_append]; exact this
  | deliver =>
    simp only [Pair.step]
    cases hq : c.q with
    | nil => simp only [Pair.settled, hq] at hg ⊢; exact hg
    | cons l rest =>
      simp only [Pair.settled, hq, List.foldl_cons] at hg ⊢
      exact hg

/-- **C04 for every history of client writes and every FIFO interleaving.**  Start from a primary and a
secondary that agree on every database (`Good`, the link empty or not).  Let clients of the primary
issue ANY sequence of `set` / `set-safe` commands — any sessions, keys, values, versions, accepted or
refused — interleaved in ANY way with deliveries of the printed lines to the secondary, in FIFO
order.  Then at every point of the run: once the lines still in flight are delivered, every
database of the primary has a copy on the secondary with the same value, version and removed
status for every key. -/
theorem C04_writes_converge (recur : Node → Sid → Bytes → Node × Out) (fuel : Nat) (link : Sid) (steps : List PStep) :
    ∀ (c : Pair), Good link c.p (c.settled fuel link) → AdmWrites recur fuel link c steps →
      Good link (c.run recur fuel link steps).p ((c.run recur fuel link steps).settled fuel link) := by
  induction steps with
  | nil => intro c hg _; exact hg
  | cons s rest ih =>
    intro c hg ha
    exact ih (c.step recur fuel link s) (good_step recur fuel link c s hg ha.1) ha.2

/-- the statement of the property, spelled out: at quiescence the secondary equals the primary -/
theorem C04_quiescent_agreement (recur : Node → Sid → Bytes → Node × Out) (fuel : Nat) (link : Sid) (steps : List PStep) (c : Pair)
    (hg : Good link c.p (c.settled fuel link)) (ha : AdmWrites recur fuel link c steps)
    (hq : (c.run recur fuel link steps).q = []) (d : Bytes) (dbP : Db) (hd : (c.run recur fuel link steps).p.db? d = some dbP) :
    ∃ dbT, (c.run recur fuel link steps).t.db? d = some dbT ∧ ∀ k, dbP.pubOf k = dbT.pubOf k := by
  have h := C04_writes_converge recur fuel link steps c hg ha
  obtain ⟨_, dbT, hT, _, hag⟩ := h.2.2.2.2 d dbP hd
  refine ⟨dbT, ?_, hag⟩
  simpa [Pair.settled, hq] using hT

/-! ### where the condition on the last field bites (recorded finding), and non-vacuity -/

/-- FINDING (witness): a key that ends in the statement terminator does not survive the text format —
the primary removes `a;`, the line it prints is read back as the removal of `a`.  checks/c04.py
runs this on a real cluster (`remove a; ` with a trailing blank): the secondaries lose `a` and keep `a;` -/
theorem C04_finding_terminator_in_last_field :
    Request.parse (replicateRemoveMsg b!"t" b!"a;") = .ok (.replicateRemove b!"t" b!"a") ∧
    Request.parse (replicateMsg b!"t" b!"k" b!"v;" (-1)) = .ok (.replicateSet b!"t" b!"k" b!"v" (-1)) := by
  constructor <;> rfl

def c04P : Node :=
  { user := b!"adm", pwd := b!"pw", addr := b!"n1", pid := 1, role := .primary, dbs := [(b!"t", Db.new b!"t" 1 .none)],
    idName := [(1, b!"t")], sessions := [(1, { auth := true, db := some b!"t" })], clock := 5, members := [], pending := [], toSnapshot := [], keysMap := [], oplogValid := true }
def c04T : Node :=
  { user := b!"adm", pwd := b!"pw", addr := b!"n2", pid := 2, role := .secoundary, dbs := [(b!"t", Db.new b!"t" 1 .none)],
    idName := [(1, b!"t")], sessions := [(100, { auth := true })], clock := 900, members := [], pending := [], toSnapshot := [], keysMap := [], oplogValid := true }
def c04Steps : List PStep :=
  [.write ⟨1, b!"a", b!"two words", -1⟩, .write ⟨1, b!"a", b!"x", 1⟩, .deliver, .write ⟨1, b!"a", b!"stale", 0⟩, .write ⟨1, b!"b", b!"", 7⟩, .deliver, .deliver]

/-- the hypotheses are satisfiable and the conclusion is not empty: a concrete run with an accepted
plain write, an accepted and a refused versioned write, deliveries in between; the secondary ends
with the primary's data -/
example : ((Pair.run (Node.recurOf 3) 3 100 ⟨c04P, c04T, []⟩ c04Steps).q = []) ∧
    (((Pair.run (Node.recurOf 3) 3 100 ⟨c04P, c04T, []⟩ c04Steps).t.db? b!"t").map fun db => (db.pubOf b!"a", db.pubOf b!"b"))
      = some (some (b!"x", 2, false), some (b!"", 8, false)) ∧
    (((Pair.run (Node.recurOf 3) 3 100 ⟨c04P, c04T, []⟩ c04Steps).p.db? b!"t").map fun db => (db.pubOf b!"a", db.pubOf b!"b"))
      = some (some (b!"x", 2, false), some (b!"", 8, false)) := by
  refine ⟨?_, ?_, ?_⟩ <;> rfl

/-! ### the model's atomic steps on the replication path are critical sections of the source -/

/-- the loop registers the pending acknowledgement and queues the line for every secondary under the
cluster lock (regenerated from /repo/src on every run, see Props/C02Atomic.lean) -/
theorem C04_fanout_is_one_critical_section :
    AL.get? Gen.atomicSites b!"fan-out-registers-and-queues-under-the-cluster-lock" = some true := by decide +kernel

theorem C04_forward_is_one_critical_section :
    AL.get? Gen.atomicSites b!"forward-to-primary-under-the-cluster-lock" = some true := by decide +kernel

end Nun
