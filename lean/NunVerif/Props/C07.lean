import NunVerif.Model.Election
/-
  C07 — elections end with exactly one primary, the oldest node, and all agree.

  Per-node facts about the election as the model runs it (and as the lockstep check compares it,
  turn by turn, with the real `start_election` parked at its yield points):
  * it TERMINATES: whatever the rest of the node does between two turns, an election is over after
    at most `2·timeout + 6` turns (`C07_election_terminates`);
  * a node alone in its member table claims the primary role at once, without asking anybody
    (`C07_lone_member_wins_at_once`) — the root of the recorded finding "an older node that joins
    a running primary does not take over";
  * the comparison of ages: a candidacy from an older node (smaller id) makes the receiver a
    secondary; a candidacy from a younger one makes it run its own election (`C07_older_candidate_wins_the_comparison`).
  Cluster-level agreement — and where it fails — is decided on the running cluster by checks/c07.py.
-/
namespace Nun

def ECo.rank (timeout : Nat) : ECo → Nat
  | .waitReg _ t => (timeout - t) + timeout + 6
  | .waitAck _ t => (timeout + 2 - t) + 3
  | .final => 1
  | .done => 0

theorem electionEnterAcks_rank (n : Node) (id : Nat) (timeout : Nat) :
    (n.electionEnterAcks id).2.2.rank timeout ≤ timeout + 5 := by
  unfold Node.electionEnterAcks
  split
  · split
    · split <;> simp [ECo.rank] <;> omega
    · simp [ECo.rank]
  · simp [ECo.rank]

/-- one turn strictly decreases the rank (or the election is over already) — whatever state the
node is in when the turn is taken -/
theorem resume_decreases (n : Node) (timeout : Nat) (co : ECo) (h : co ≠ .done) :
    (n.electionResume timeout co).2.2.rank timeout < co.rank timeout := by
  cases co with
  | done => exact absurd rfl h
  | final =>
    simp only [Node.electionResume]
    split <;> simp [ECo.rank]
  | waitReg id t =>
    simp only [Node.electionResume]
    split
    · split
      · simp only [ECo.rank]; omega
      · simp [ECo.rank]
    · have := electionEnterAcks_rank n id timeout
      simp only [ECo.rank] at this ⊢
      omega
  | waitAck id t =>
    simp only [Node.electionResume]
    split
    · simp [ECo.rank]
    · rename_i hle
      split
      · split
        · split
          · simp [ECo.rank]
          · simp only [ECo.rank]; omega
        · simp [ECo.rank]
      · simp [ECo.rank]

/-- the states an election goes through when it is resumed against an arbitrary sequence of node
states (the rest of the node — and of the cluster — does whatever it does in between) -/
def runTurns (timeout : Nat) : List Node → ECo → ECo
  | [], co => co
  | n :: rest, co => runTurns timeout rest (n.electionResume timeout co).2.2

theorem done_stays (timeout : Nat) (ns : List Node) : runTurns timeout ns .done = .done := by
  induction ns with
  | nil => rfl
  | cons n rest ih => simp [runTurns, Node.electionResume, ih]

theorem runTurns_rank (timeout : Nat) (ns : List Node) (co : ECo) :
    (runTurns timeout ns co).rank timeout + ns.length ≤ co.rank timeout ∨ runTurns timeout ns co = .done := by
  induction ns generalizing co with
  | nil => left; simp [runTurns]
  | cons n rest ih =>
    by_cases hd : co = .done
    · right; rw [hd]; exact done_stays timeout (n :: rest)
    · have hdec := resume_decreases n timeout co hd
      simp only [runTurns]
      rcases ih (n.electionResume timeout co).2.2 with h | h
      · left; simp only [List.length_cons]; omega
      · right; exact h

/-- **termination**: after `2·timeout + 6` turns every election is over, whatever happened to the
node in between -/
theorem C07_election_terminates (timeout : Nat) (ns : List Node) (co : ECo) (h : 2 * timeout + 6 < ns.length) :
    runTurns timeout ns co = .done := by
  rcases runTurns_rank timeout ns co with hr | hr
  · exfalso
    have hb : co.rank timeout ≤ 2 * timeout + 6 := by
      cases co <;> simp [ECo.rank] <;> omega
    omega
  · exact hr

/-- a node that knows of no other member claims the primary role at once -/
theorem C07_lone_member_wins_at_once (n : Node) (timeout : Nat) (h : n.members.length ≤ 1) :
    (n.electionBegin timeout).2.2 = .done ∧ (n.electionBegin timeout).1.role = .primary := by
  simp [Node.electionBegin, h, Node.electionWin]

/-- the age comparison of `election_eval`: a candidacy from an OLDER node (smaller id) makes an
authenticated receiver a secondary; its own id is ignored -/
theorem C07_older_candidate_wins_the_comparison (fuel : Node → Sid → Bytes → Node × Out) (n : Node) (sid : Sid)
    (id : Nat) (name : Bytes) (hauth : (n.session sid).auth = true) (hlt : id < n.pid) :
    (n.processObj fuel sid (.election id name)).1.role = .secoundary := by
  simp only [Node.processObj, hauth]
  have h1 : ¬ id = n.pid := by omega
  have h2 : ¬ id > n.pid := by omega
  simp [h1, h2, Node.replicateWeb, Node.tick]

end Nun
