import NunVerif.Proofs.KvSeq
import NunVerif.Model.Session
/-!
# C01 — reads return the latest successful write (single-node key-value semantics)

`KvCmd` / `kvStep` (Proofs/KvSeq.lean) are the database-level effects of `set`, `set-safe`, `get`,
`get-safe`, `remove`, `increment` and of a snapshot (`persist`, either mode, any key order) on a
database without conflict strategy — the very functions `process_request_obj` calls
(`Db.setValue`, `Db.getKV`, `Db.removeValue`, `Db.incValue`, `snapshotDb`). The plain map a database
stands for is `Db.view` (live entries only).
-/
namespace Nun

/-- **Refinement.** For every well-formed database, every command sequence (any length, any keys
and values, snapshots of either mode interleaved anywhere) whose version arguments are ≥ -1:
each reply is the one the plain map gives — `get` returns the value of the most recent accepted
`set`/`increment` or `<Empty>` if the key was never set or was removed (even when its
tombstone is still waiting to be deleted from disk); `increment` succeeds exactly when the map's
value (absent = 0) is an `i32` and the sum is in range, and then stores exactly the sum; `remove`
is refused only for `$$token`; a plain `set` is never refused (except when the key's version counter
has reached `i32::MAX`, where it is refused as an invalid version); a refused command leaves the
map as it was. -/
theorem C01_refines_map (cs : List KvCmd) (s : KvSt) (hw : s.db.WF) (hc : ∀ c ∈ cs, cmdOk c) :
    kvRunOk s cs :=
  kvRun_sim cs s hw hc

/-- `keys` lists exactly the live keys that match the pattern (prefix `p*`, suffix `*p`, otherwise
substring), hiding `$$` keys from non-administrators, for every state reachable as above. -/
theorem C01_keys_exact (db : Db) (hw : db.WF) (pat k : Bytes) (admin : Bool) :
    k ∈ db.listKeys pat admin ↔
      ((db.view k).isSome ∧ (admin = true ∨ Bytes.startsWith k Gen.securePrefix = false) ∧ patternMatch pat k = true) :=
  listKeys_mem db hw.nodup pat k admin

/-- A refused versioned write changes nothing at all (not only the plain map) and notifies nobody. -/
theorem C01_refused_write_changes_nothing (db db' : Db) (c : Change) (k : Bytes) (ov v : Int) (old : Entry)
    (c' : Change) (st : Status) (ps : List Push)
    (h : db.setValue c = (db', .versionError k ov v old c' st, ps)) : db' = db ∧ ps = [] :=
  setValue_err_unchanged db db' c k ov v old c' st ps h

/-- A refused increment (non-numeric text, or a sum outside `i32`) changes nothing at all. -/
theorem C01_refused_increment_changes_nothing (db db' : Db) (k : Bytes) (inc : Int) (op : Nat) (r : IncResp)
    (ps : List Push) (h : db.incValue k inc op = (db', r, ps)) (hr : r ≠ .ok) : db' = db ∧ ps = [] := by
  cases r with
  | ok => exact absurd rfl hr
  | notNumeric => exact (incValue_notNumeric _ _ _ _ _ _ h).2
  | overflow => exact (incValue_overflow _ _ _ _ _ _ h).2
  | versionCap => exact (incValue_versionCap _ _ _ _ _ _ h).2

/-- the tombstone text and the text reported for a missing key are the same literal in the source -/
theorem C01_pin_tombstone_is_empty : Gen.tombstoneValue = Gen.emptyValue := by decide

/-- The empty database is well-formed, and so is every database reached from it (`kvStep_sim`). -/
theorem C01_wf_new (name : Bytes) (id : Nat) (st : Strategy) : (Db.new name id st).WF :=
  ⟨by simp [Db.new, AL.NoDupKeys], by intro k e h; simp [Db.new] at h, by intro k e h; simp [Db.new] at h⟩

/-- non-vacuity and a regression witness: the history of the recorded (fixed) defect —
`set k 1; snapshot; remove k; increment k 5; get k` — now answers `5`. -/
example :
    kvRun { db := Db.new [116] 1 .none, fs := [], clock := 0 }
      [.set [107] [49] (-1), .persist false [[107]], .remove [107], .inc [107] 5, .get [107]]
      = [.ok, .ok, .ok, .ok, .value [53]] := by
  decide

end Nun
