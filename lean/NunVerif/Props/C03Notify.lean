import NunVerif.Props.C03
import NunVerif.Props.C13
import NunVerif.Gen.Notify
/-
  C03 / C13 — the fan-out loops of the source are what the model's notification lists assume.

  In the model a committed write pushes its lines to EVERY registered subscriber of the key
  (`Db.notify`, `Db.notifyRemoved`, the arbiter notice), unconditionally: a push cannot fail for one
  subscriber and cannot end the loop for the others.  In the source that rests on two facts about the
  loops over the stored senders — each `try_send` is made on a CLONE of the stored sender (a clone of a
  futures mpsc sender owns a slot of the bounded queue, so a full queue of a slow subscriber does not
  lose the line, and the stored sender is never left in the `blocked` state), and the loop body is never
  left early.  `Gen.notifySites` is regenerated from /repo/src on every run; these pins fail to check
  when a site stops cloning, or a `break` / `return` / short-circuiting adaptor enters a fan-out loop.
-/
namespace Nun

/-- every `try_send` of the function is on a clone, there is at least one, and the loop has no early exit -/
def notifySiteOk (name : List Nat) : Bool :=
  match AL.get? Gen.notifySites name with
  | some (sends, cloned, early) => decide (0 < sends) && decide (sends = cloned) && decide (early = 0)
  | none => false

theorem C03_changed_fanout_reaches_every_subscriber : notifySiteOk b!"notify_watchers" = true := by decide +kernel
theorem C03_removed_fanout_reaches_every_subscriber : notifySiteOk b!"remove_value" = true := by decide +kernel
theorem C13_arbiter_fanout_reaches_every_arbiter : notifySiteOk b!"send_message_to_arbiter_client" = true := by decide +kernel

end Nun
