import NunVerif.Props.C02
import NunVerif.Gen.Atomic
/-
  C02 — the steps the model takes atomically are critical sections of the source.

  `Db.setValue`, `Db.incValue` and `Db.removeValue` are single functions: look-up, decision and
  write are one step, and the sequential theorems of `Props/C02.lean` carry over to concurrent
  clients only if the source holds ONE lock from the look-up to the write.  `Gen.atomicSites` is
  regenerated from /repo/src on every run (extract/extract.py: inside the function the write lock
  is taken first, the look-up and the write follow, and the block holding the guard stays open);
  these theorems fail to check when a site is no longer a critical section.  The schedule stage of
  checks/c02.py then looks for an interleaving that shows it.
-/
namespace Nun

theorem C02_set_value_is_one_critical_section :
    AL.get? Gen.atomicSites b!"set_value-checks-and-writes-under-one-write-lock" = some true := by decide +kernel

theorem C02_inc_value_is_one_critical_section :
    AL.get? Gen.atomicSites b!"inc_value-reads-and-writes-under-one-write-lock" = some true := by decide +kernel

theorem C02_remove_value_is_one_critical_section :
    AL.get? Gen.atomicSites b!"remove_value-looks-up-and-removes-under-one-write-lock" = some true := by decide +kernel

end Nun
