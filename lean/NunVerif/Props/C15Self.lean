import NunVerif.Props.C15
import NunVerif.Model.Repl
/-!
# C15 — a node never waits for its own acknowledgement

The accounting of `Props/C15.lean` is exact for whatever is registered; this file is about WHAT the
replication loop registers.  `replicate_message_to_secoundary` / `replicate_message_to_all` skip the
member whose name is the node's own address, so however the member table looks — the node listed in
its own table as a secondary, connected or not — no pending operation ever waits for the node
itself: an entry that could only be released by an acknowledgement the node would have to send to
itself would stay in the table for good (`C15_stuck_without_nodup` shows what a stuck entry is).

The theorem quantifies over every history of loop messages and acknowledgements, any member table,
any role.  The cluster stage of `checks/c15.py` runs the same rule on real elections.
-/
namespace Nun

/-- no operation in the table is waiting for an acknowledgement of `s` -/
def PMap.NotWaitingFor (m : PMap) (s : Bytes) : Prop :=
  ∀ op p, AL.get? m op = some p → AL.get? p.replications s ≠ some false

theorem notWaitingFor_empty (s : Bytes) : PMap.NotWaitingFor [] s := by
  intro op p h; simp [AL.get?] at h

/-- registering for another server keeps it -/
theorem register_notWaitingFor (m : PMap) (op : Nat) (msg server s : Bytes) (hne : server ≠ s)
    (h : m.NotWaitingFor s) : (m.register op msg server).1.NotWaitingFor s := by
  intro op' p' hg
  simp only [PMap.register] at hg
  rw [AL.get?_put] at hg
  split at hg
  · cases hg
    simp only [PendingOp.replicated]
    rw [AL.get?_put, if_neg hne]
    cases hm : AL.get? m op with
    | none => simp [PendingOp.fresh, AL.get?]
    | some p0 => simp only [Option.getD]; exact h op p0 hm
  · exact h op' p' hg

/-- an acknowledgement — from anyone, of anything — keeps it -/
theorem ack_notWaitingFor (m : PMap) (op : Nat) (server s : Bytes)
    (h : m.NotWaitingFor s) : (m.ack op server).1.NotWaitingFor s := by
  intro op' p' hg
  unfold PMap.ack at hg
  cases hm : AL.get? m op with
  | none => rw [hm] at hg; exact h op' p' hg
  | some p =>
    rw [hm] at hg
    simp only [] at hg
    have hp := h op p hm
    -- whatever `ack` returns, its replications are the old ones with `server ↦ true`
    have hrep : ∀ q b, p.ack server = (q, b) → AL.get? q.replications s ≠ some false := by
      intro q b hq
      unfold PendingOp.ack at hq
      have : q.replications = AL.put p.replications server true := by
        cases hprev : AL.get? p.replications server with
        | none => rw [hprev] at hq; cases hq; rfl
        | some v => cases v <;> (rw [hprev] at hq; cases hq; rfl)
      rw [this, AL.get?_put]
      split
      · simp
      · exact hp
    cases hq : p.ack server with
    | mk q b =>
      rw [hq] at hg
      have hq' := hrep q b hq
      cases b with
      | true =>
        simp only [] at hg
        by_cases hf : q.fullyAcked = true
        · rw [if_pos hf] at hg
          simp only [] at hg
          rw [AL.get?_erase] at hg
          split at hg
          · cases hg
          · exact h op' p' hg
        · rw [if_neg hf] at hg
          simp only [] at hg
          rw [AL.get?_put] at hg
          split at hg
          · cases hg; exact hq'
          · exact h op' p' hg
      | false =>
        simp only [] at hg
        rw [AL.get?_put] at hg
        split at hg
        · cases hg; exact hq'
        · exact h op' p' hg

/-- the fan-out over targets none of which is `s` -/
theorem fanOut_notWaitingFor (targets : List (Bytes × Member)) (n : Node) (opId : Nat) (req s : Bytes)
    (ht : ∀ t ∈ targets, t.1 ≠ s) (h : n.pending.NotWaitingFor s) :
    (n.fanOut opId req targets).1.pending.NotWaitingFor s ∧ (n.fanOut opId req targets).1.addr = n.addr := by
  unfold Node.fanOut
  suffices H : ∀ (acc : Node × List Ev), acc.1.pending.NotWaitingFor s →
      (targets.foldl (fun (acc : Node × List Ev) (t : Bytes × Member) =>
        let (nn, wire) := acc.1.registerPending opId req t.1
        (nn, acc.2 ++ (if t.2.connected then [Ev.toMember t.2.name wire] else []))) acc).1.pending.NotWaitingFor s ∧
      (targets.foldl (fun (acc : Node × List Ev) (t : Bytes × Member) =>
        let (nn, wire) := acc.1.registerPending opId req t.1
        (nn, acc.2 ++ (if t.2.connected then [Ev.toMember t.2.name wire] else []))) acc).1.addr = acc.1.addr from H (n, []) h
  induction targets with
  | nil => intro acc ha; exact ⟨ha, rfl⟩
  | cons t rest ih =>
    intro acc ha
    simp only [List.foldl_cons]
    have h1 := ih (fun t' ht' => ht t' (List.mem_cons_of_mem _ ht'))
      ((acc.1.registerPending opId req t.1).1, acc.2 ++ (if t.2.connected then [Ev.toMember t.2.name (acc.1.registerPending opId req t.1).2] else []))
      (by simp only [Node.registerPending]
          exact register_notWaitingFor acc.1.pending opId req t.1 s (ht t (List.mem_cons_self ..)) ha)
    exact ⟨h1.1, by rw [h1.2]; rfl⟩

/-- **the sending half of the loop never registers the node itself**, whatever its role and member table -/
theorem replSend_notWaitingForSelf (n : Node) (ok : Bool) (opId : Nat) (req : Bytes)
    (h : n.pending.NotWaitingFor n.addr) :
    (n.replSend ok opId req).1.pending.NotWaitingFor n.addr ∧ (n.replSend ok opId req).1.addr = n.addr := by
  unfold Node.replSend
  cases n.role with
  | secoundary => exact ⟨h, rfl⟩
  | primary =>
    simp only []
    split
    · exact ⟨h, rfl⟩
    · exact fanOut_notWaitingFor _ n opId req n.addr (by
        intro t ht
        have := (List.mem_filter.mp ht).2
        simp only [Bool.and_eq_true, bne_iff_ne, ne_eq] at this
        exact this.2) h
  | startingUp =>
    simp only []
    split
    · exact ⟨h, rfl⟩
    · exact fanOut_notWaitingFor _ n opId req n.addr (by
        intro t ht
        have := (List.mem_filter.mp ht).2
        simp only [bne_iff_ne, ne_eq] at this
        exact this) h

/-- one message of the replication channel, whatever it is -/
theorem replStep_notWaitingForSelf (n : Node) (m : Meta) (line : Bytes) (h : n.pending.NotWaitingFor n.addr) :
    (n.replStep m line).1.pending.NotWaitingFor n.addr ∧ (n.replStep m line).1.addr = n.addr := by
  unfold Node.replStep
  split
  · split
    · exact ⟨h, rfl⟩
    · exact replSend_notWaitingForSelf n _ _ _ h
  · exact ⟨h, rfl⟩

/-- what the loop thread and the acknowledging connections do to the table, in any order -/
inductive SelfEv
  | loop (m : Meta) (line : Bytes)
  | ack (op : Nat) (server : Bytes)

def Node.selfStep (n : Node) : SelfEv → Node
  | .loop m line => (n.replStep m line).1
  | .ack op server => n.ackPending op server

/-- **C15, the loop's side**: after ANY history of replication-loop messages (any lines, any oplog
state) and acknowledgements (any operation, any sender — the node's own name included), no pending
operation of the node waits for the node's own acknowledgement. -/
theorem C15_never_waits_for_itself (evs : List SelfEv) :
    ∀ (n : Node), n.pending.NotWaitingFor n.addr →
      (evs.foldl Node.selfStep n).pending.NotWaitingFor (evs.foldl Node.selfStep n).addr := by
  induction evs with
  | nil => intro n h; exact h
  | cons e rest ih =>
    intro n h
    simp only [List.foldl_cons]
    apply ih
    cases e with
    | loop m line =>
      have := replStep_notWaitingForSelf n m line h
      simp only [Node.selfStep]
      rw [this.2]; exact this.1
    | ack op server =>
      simp only [Node.selfStep, Node.ackPending]
      exact ack_notWaitingFor n.pending op server n.addr h

/-! ### non-vacuity: a primary that lists ITSELF as a connected secondary (what a node sees of itself
when its peers know it by another address) registers the other member only -/

def c15SelfMembers : List (Bytes × Member) :=
  [(b!"a:1", ⟨b!"a:1", .secoundary, true⟩), (b!"b:2", ⟨b!"b:2", .secoundary, true⟩)]
def c15SelfAddr : Bytes := b!"a:1"
def c15SelfNode : Node :=
  { (default : Node) with role := .primary, members := c15SelfMembers, addr := c15SelfAddr }

example : ((c15SelfNode.replSend true 7 b!"replicate t k -1 v").1.pending.map fun (_, p) => p.replications)
    = [[(b!"b:2", false)]] := by decide +kernel

end Nun
