import NunVerif.Props.C06Layout
import NunVerif.Props.C06Reclaim
/-!
# C06 — snapshot then restart restores exactly the snapshotted state, after ANY history

`HOp` / `hstep`: what can happen to one database (set, increment, remove, snapshot of either kind,
restart).  `J`: memory and disk are linked (`DiskInv`).  `C06_history_inv`: `J` survives every
admissible history.  `C06_snapshot_restores_after_any_history`: after any such history one more
snapshot makes the files load to exactly the live data of memory.  `J_fresh`: a just-created
database is such a starting point.
-/
namespace Nun

theorem recs_count_le (rs : List KRec) : rs.length ≤ (encRecs rs).length := by
  induction rs with
  | nil => simp
  | cons r t ih => rw [encRecs_cons, List.length_append, KRec.enc_length, List.length_cons]; simp only [keyRecSize]; omega

/-- **loading clean files**: when memory and disk are linked and every key is in its post-snapshot
condition, the loader succeeds and returns exactly the live data of memory -/
theorem load_clean {name : Bytes} {m : KV} {fs : Fs} {rs : List KRec} {vs : List Bytes} (hinv : DiskInv name m fs rs vs)
    (hclean : ∀ k, CleanKey m rs k) (hne : ∀ k e, AL.get? m k = some e → e.state ≠ .deleted → e.version ≠ -1) (c : Nat) :
    loadDb fs name c = (.ok (loadedRecs rs 0 c []), c + liveRecs rs) ∧ ∀ k, liveView (loadedRecs rs 0 c []) k = liveView m k := by
  have hload := loadLoop_recs (encVals vs) rs [] ((encRecs rs).length + 1) { clock := c } hinv.good rfl rfl rfl rfl
    (Nat.lt_succ_of_le (recs_count_le rs))
  constructor
  · unfold loadDb
    rw [hinv.keys, hinv.values]
    simpa using hload
  · intro k
    have hbk' := hinv.filesOk.live_bkey
    obtain ⟨g1, g2, g3⟩ := loadedRecs_get rs hinv.nodup hbk' k 0 c []
    cases hg : AL.get? m k with
    | none =>
      cases hgr : getRec rs k with
      | none => have := g1 hgr; simp [liveView, this, hg]
      | some r =>
        obtain ⟨hrm, hrk⟩ := getRec_mem_key rs k r hgr
        have hver : r.ver = -1 := by
          rcases hinv.bk r hrm with h | ⟨_, h⟩
          · have hu : validUtf8 k = true := by rw [← hrk, ← h]; exact (hinv.good r hrm).kutf
            have ho : offOf rs k ≠ none := by
              rw [Ne, offOf_none_iff]; intro hc; exact hc (List.mem_map.2 ⟨r, hrm, hrk⟩)
            obtain ⟨e, he, _⟩ := hinv.known k ho hu
            rw [hg] at he; cases he
          · exact h
        have := g2 r hgr hver
        simp [liveView, this, hg]
    | some e =>
      rcases hclean k e hg with ⟨hok, r, hr1, hr2, hr3⟩ | ⟨hdel, r, hr1, hr2⟩
      · have hver : e.version ≠ -1 := hne k e hg (by rw [hok]; decide)
        obtain ⟨e', he', hv', hver', hst'⟩ := g3 r hr1 (by rw [hr2]; exact hver)
        simp [liveView, he', hst', hv', hver', hr2, hr3, hok, hg]
      · have := g2 r hr1 hr2
        simp [liveView, this, hdel, hg]

/-! ## Histories -/

theorem snapKey_keeps (r : Bool) (name : Bytes) (s : SnapSt) (k : Bytes) (e : Entry) (n0 : Bytes)
    (h : AL.NoDupKeys s.db.map ∧ s.db.name = n0) : AL.NoDupKeys (snapKey r name s k e).db.map ∧ (snapKey r name s k e).db.name = n0 := by
  obtain ⟨hn, hname⟩ := h
  have hput : ∀ (v : Bytes) (ver : Int) (st : Status) (va ka op : Nat),
      AL.NoDupKeys (s.db.setValueVersion k v ver st va ka op).map ∧ (s.db.setValueVersion k v ver st va ka op).name = n0 :=
    fun _ _ _ _ _ _ => ⟨AL.noDupKeys_put _ _ _ hn, hname⟩
  unfold snapKey
  cases e.state <;> simp only []
  · split
    · exact hput _ _ _ _ _ _
    · exact ⟨hn, hname⟩
  · split
    · exact ⟨hn, hname⟩
    · split
      · split
        · exact ⟨AL.noDupKeys_erase _ _ hn, hname⟩
        · exact ⟨hn, hname⟩
      · exact ⟨hn, hname⟩
  · split
    · exact hput _ _ _ _ _ _
    · exact hput _ _ _ _ _ _
  · exact hput _ _ _ _ _ _

theorem snapshotDb_keeps (db : Db) (fs : Fs) (r : Bool) (order : List Bytes) (clock : Nat) (hn : AL.NoDupKeys db.map) :
    AL.NoDupKeys (snapshotDb db fs r order clock).1.map ∧ (snapshotDb db fs r order clock).1.name = db.name := by
  unfold snapshotDb
  simp only []
  generalize ((db.map.filter fun (x : Bytes × Entry) => match x with | (_, e) => e.state != .ok || r).foldr (insertByIx order) []) = todo
  generalize hs0 : ({ db := db, fs := _, vaddr := _, kaddr := _, clock := clock } : SnapSt) = s0
  have h0 : AL.NoDupKeys s0.db.map ∧ s0.db.name = db.name := by subst hs0; exact ⟨hn, rfl⟩
  clear hs0
  induction todo generalizing s0 with
  | nil => exact h0
  | cons p t ih =>
    obtain ⟨k, e⟩ := p
    simp only [List.foldl_cons]
    exact ih _ (snapKey_keeps r db.name s0 k e db.name h0)

theorem setValue_keeps (db : Db) (c : Change) (hn : AL.NoDupKeys db.map) :
    AL.NoDupKeys (db.setValue c).1.map ∧ (db.setValue c).1.name = db.name := by
  unfold Db.setValue
  split
  · simp only []; split
    · exact ⟨hn, rfl⟩
    · exact ⟨AL.noDupKeys_put _ _ _ hn, rfl⟩
  · exact ⟨AL.noDupKeys_put _ _ _ hn, rfl⟩

theorem incValue_keeps (db : Db) (k : Bytes) (n : Int) (op : Nat) (hn : AL.NoDupKeys db.map) :
    AL.NoDupKeys (db.incValue k n op).1.map ∧ (db.incValue k n op).1.name = db.name := by
  unfold Db.incValue
  split
  · split
    · split
      · exact ⟨hn, rfl⟩
      · simp only [Db.incStore]; split <;> exact ⟨AL.noDupKeys_put _ _ _ hn, rfl⟩
    · exact ⟨hn, rfl⟩
  · exact ⟨hn, rfl⟩

theorem removeValue_keeps (db db' : Db) (k : Bytes) (ps : List Push) (h : db.removeValue k = some (db', ps)) (hn : AL.NoDupKeys db.map) :
    AL.NoDupKeys db'.map ∧ db'.name = db.name := by
  unfold Db.removeValue at h
  split at h
  · cases h
  · simp only [Option.some.injEq, Prod.mk.injEq] at h
    rw [← h.1]
    split
    · split
      · exact ⟨AL.noDupKeys_erase _ _ hn, rfl⟩
      · exact ⟨AL.noDupKeys_put _ _ _ hn, rfl⟩
    · exact ⟨hn, rfl⟩

theorem loadedRecs_nodup (rs : List KRec) : ∀ (ka c : Nat) (m : KV), AL.NoDupKeys m → AL.NoDupKeys (loadedRecs rs ka c m) := by
  induction rs with
  | nil => intro _ _ m h; exact h
  | cons r t ih =>
    intro ka c m h
    simp only [loadedRecs]
    split
    · exact ih _ _ _ (AL.noDupKeys_put _ _ _ h)
    · exact ih _ _ _ h

/-- what can happen to one database -/
inductive HOp
  | set (c : Change)
  | inc (k : Bytes) (n : Int) (op : Nat)
  | remove (k : Bytes)
  | snapshot (reclaim : Bool) (order : List Bytes) (clock : Nat)
  | restart (clock : Nat)

def hstep (st : Db × Fs) : HOp → Db × Fs
  | .set c => ((st.1.setValue c).1, st.2)
  | .inc k n op => ((st.1.incValue k n op).1, st.2)
  | .remove k => match st.1.removeValue k with
    | some (db', _) => (db', st.2)
    | none => st
  | .snapshot r order clock => ((snapshotDb st.1 st.2 r order clock).1, (snapshotDb st.1 st.2 r order clock).2.1)
  | .restart c => match loadDb st.2 st.1.name c with
    | (.ok m, _) => ({ st.1 with map := m }, st.2)
    | _ => st

/-- memory and disk of the database `name` are linked -/
def J (name : Bytes) (st : Db × Fs) : Prop :=
  st.1.name = name ∧ AL.NoDupKeys st.1.map ∧ ∃ rs vs, DiskInv name st.1.map st.2 rs vs

/-- every entry can be written to disk and read back: UTF-8 text of a size the loader accepts, an `i32`
version, and a live entry never carries the tombstone marker -/
def GoodDb (db : Db) : Prop :=
  (∀ k e, AL.get? db.map k = some e → GoodEntry k e) ∧ (∀ k e, AL.get? db.map k = some e → e.state ≠ .deleted → e.version ≠ -1)

/-- the side conditions of an operation: keys are UTF-8 text; at a snapshot the database is storable and
the values file stays below 2^64 bytes -/
def Adm (name : Bytes) (st : Db × Fs) : HOp → Prop
  | .set c => validUtf8 c.key = true
  | .inc k _ _ => validUtf8 k = true
  | .remove _ => True
  | .snapshot false _ _ => GoodDb st.1 ∧ st.2.size (valuesFile name) + growth st.1.map < 18446744073709551616
  | .snapshot true _ _ => GoodDb st.1 ∧ growth st.1.map < 18446744073709551616
  | .restart _ => True

theorem hstep_J (name : Bytes) (st : Db × Fs) (op : HOp) (hJ : J name st) (ha : Adm name st op) : J name (hstep st op) := by
  obtain ⟨hname, hn, rs, vs, hinv⟩ := hJ
  cases op with
  | set c =>
    obtain ⟨h1, h2⟩ := setValue_keeps st.1 c hn
    exact ⟨h2.trans hname, h1, rs, vs, diskInv_setValue st.1 hinv c ha⟩
  | inc k n op =>
    obtain ⟨h1, h2⟩ := incValue_keeps st.1 k n op hn
    exact ⟨h2.trans hname, h1, rs, vs, diskInv_incValue st.1 hinv k n op ha⟩
  | remove k =>
    simp only [hstep]
    cases hr : st.1.removeValue k with
    | none => exact ⟨hname, hn, rs, vs, hinv⟩
    | some p =>
      obtain ⟨db', ps⟩ := p
      obtain ⟨h1, h2⟩ := removeValue_keeps st.1 db' k ps hr hn
      exact ⟨h2.trans hname, h1, rs, vs, diskInv_removeValue st.1 db' hinv k ps hr⟩
  | snapshot r order clock =>
    obtain ⟨h1, h2⟩ := snapshotDb_keeps st.1 st.2 r order clock hn
    refine ⟨h2.trans hname, h1, ?_⟩
    cases r with
    | false =>
      obtain ⟨⟨hg1, hg2⟩, hfit⟩ := ha
      have hfit' : (encVals vs).length + growth st.1.map < 18446744073709551616 := by
        have : st.2.size (valuesFile name) = (encVals vs).length := by simp [Fs.size, hinv.values]
        omega
      obtain ⟨rs', vs', h, _⟩ := C06_incremental_roundtrip st.1 st.2 rs vs order clock 0 (hname ▸ hinv) hn hg1 hg2 hfit'
      exact ⟨rs', vs', hname ▸ h⟩
    | true =>
      obtain ⟨⟨hg1, _⟩, hfit⟩ := ha
      obtain ⟨rs', vs', h, _⟩ := C06_reclaim_inv st.1 st.2 order clock hn hg1 hfit
      exact ⟨rs', vs', hname ▸ h⟩
  | restart c =>
    have hload := loadLoop_recs (encVals vs) rs [] ((encRecs rs).length + 1) { clock := c } hinv.good rfl rfl rfl rfl
      (Nat.lt_succ_of_le (recs_count_le rs))
    have hl : loadDb st.2 st.1.name c = (.ok (loadedRecs rs 0 c []), c + liveRecs rs) := by
      unfold loadDb
      rw [hname, hinv.keys, hinv.values]
      simpa using hload
    simp only [hstep, hl]
    exact ⟨hname, loadedRecs_nodup rs 0 c [] (by simp [AL.NoDupKeys]), orphanizeFrom 0 rs, vs, restart_inv hinv.filesOk c⟩

def hrun (st : Db × Fs) (ops : List HOp) : Db × Fs := ops.foldl hstep st

def AdmRun (name : Bytes) : Db × Fs → List HOp → Prop
  | _, [] => True
  | st, op :: t => Adm name st op ∧ AdmRun name (hstep st op) t

/-- **C06, every history**: memory and disk stay linked through any sequence of writes, removals,
increments, snapshots of either kind and restarts -/
theorem C06_history_inv (name : Bytes) (ops : List HOp) : ∀ st, J name st → AdmRun name st ops → J name (hrun st ops) := by
  induction ops with
  | nil => intro st h _; exact h
  | cons op t ih => intro st h ha; exact ih _ (hstep_J name st op h ha.1) ha.2

theorem admRun_append (name : Bytes) (a b : List HOp) : ∀ st, AdmRun name st (a ++ b) → AdmRun name st a ∧ AdmRun name (hrun st a) b := by
  induction a with
  | nil => intro st h; exact ⟨trivial, h⟩
  | cons op t ih =>
    intro st h
    obtain ⟨h1, h2⟩ := ih (hstep st op) h.2
    exact ⟨⟨h.1, h1⟩, h2⟩

/-- **C06: snapshot then restart restores exactly the snapshotted state — after ANY history.**
Start from a state in which memory and disk are linked; let any admissible sequence of operations
happen (writes, removals, increments, snapshots of either kind, restarts, in any order and number);
take one more snapshot (either kind, any hash order).  Then loading the files succeeds and gives
exactly the live data (key ↦ value, version) the database had in memory at that snapshot. -/
theorem C06_snapshot_restores_after_any_history (name : Bytes) (st : Db × Fs) (ops : List HOp) (r : Bool) (order : List Bytes) (clock c : Nat)
    (hJ : J name st) (hadm : AdmRun name st (ops ++ [.snapshot r order clock])) :
    ∃ m c', loadDb (hstep (hrun st ops) (.snapshot r order clock)).2 name c = (.ok m, c') ∧
      ∀ k, liveView m k = liveView (hrun st ops).1.map k := by
  obtain ⟨ha1, ha2⟩ := admRun_append name ops [.snapshot r order clock] st hadm
  have hJ' := C06_history_inv name ops st hJ ha1
  obtain ⟨hname, hn, rs, vs, hinv⟩ := hJ'
  have ha := ha2.1
  generalize hrun st ops = S at hname hn hinv ha ⊢
  cases r with
  | false =>
    obtain ⟨⟨hg1, hg2⟩, hfit⟩ := ha
    have hfit' : (encVals vs).length + growth S.1.map < 18446744073709551616 := by
      have : S.2.size (valuesFile name) = (encVals vs).length := by simp [Fs.size, hinv.values]
      omega
    obtain ⟨_, _, _, _, _, m, c', h1, h2⟩ := C06_incremental_roundtrip S.1 S.2 rs vs order clock c (hname ▸ hinv) hn hg1 hg2 hfit'
    exact ⟨m, c', by rw [← hname]; exact h1, h2⟩
  | true =>
    obtain ⟨⟨hg1, hg2⟩, hfit⟩ := ha
    obtain ⟨rs', vs', h1, h2, h3⟩ := C06_reclaim_inv S.1 S.2 order clock hn hg1 hfit
    have hne' : ∀ k e, AL.get? (snapshotDb S.1 S.2 true order clock).1.map k = some e → e.state ≠ .deleted → e.version ≠ -1 := by
      intro k e hg hd
      have hl : liveView S.1.map k = some (e.value, e.version) := by rw [← h3 k]; simp [liveView, hg, hd]
      unfold liveView at hl
      cases hg0 : AL.get? S.1.map k with
      | none => simp [hg0] at hl
      | some e0 =>
        simp only [hg0, Option.bind_some] at hl
        by_cases hd0 : e0.state = .deleted
        · simp [hd0] at hl
        · simp only [hd0, if_false, Option.some.injEq, Prod.mk.injEq] at hl
          rw [← hl.2]; exact hg2 k e0 hg0 hd0
    obtain ⟨l1, l2⟩ := load_clean h1 h2 hne' c
    exact ⟨_, _, by simp only [hstep]; rw [← hname]; exact l1, fun k => by rw [l2 k, h3 k]⟩

/-! ## Where histories start: a database that was just created (nothing on disk yet) -/

/-- a freshly created database — every entry `New`, no data files — is linked to a disk on which both
files exist and are empty; and its first incremental snapshot does not see the difference (it creates
the files it misses) -/
theorem J_fresh (db : Db) (fs : Fs) (hn : AL.NoDupKeys db.map)
    (hk : fs.read (keysFile db.name) = none) (hv : fs.read (valuesFile db.name) = none)
    (hnew : ∀ k e, AL.get? db.map k = some e → e.state = .new) :
    J db.name (db, AL.put (AL.put fs (keysFile db.name) []) (valuesFile db.name) []) ∧
    ∀ order clock, snapshotDb db fs false order clock =
      snapshotDb db (AL.put (AL.put fs (keysFile db.name) []) (valuesFile db.name) []) false order clock := by
  have hk' : Fs.read (AL.put (AL.put fs (keysFile db.name) []) (valuesFile db.name) []) (keysFile db.name) = some [] := by
    rw [read_put_other _ _ _ _ (keys_ne_values db.name).symm, read_put_same]
  have hv' : Fs.read (AL.put (AL.put fs (keysFile db.name) []) (valuesFile db.name) []) (valuesFile db.name) = some [] := read_put_same _ _ _
  constructor
  · refine ⟨rfl, hn, [], [], ?_⟩
    exact {
      keys := hk'
      values := hv'
      nodup := by simp
      good := by intro r hr; cases hr
      goodVals := by intro v hv; cases hv
      fresh := by intro _ _ _ _; rfl
      stored := by intro k e hg hs; exact absurd (hnew k e hg) hs
      known := by intro k ho; exact absurd rfl ho
      bk := by intro r hr; cases hr }
  · intro order clock
    have hv2 : Fs.read (AL.put fs (keysFile db.name) []) (valuesFile db.name) = none := by
      rw [read_put_other _ _ _ _ (keys_ne_values db.name), hv]
    unfold snapshotDb
    simp [hk, hv, hk', hv', hv2, read_put_same]

/-! ## Non-vacuity: a concrete fresh database meets every hypothesis of the history theorem -/

def c06Fresh : Db := { Db.new b!"t" 1 .none with
  map := [(Gen.tokenKey, { value := b!"tok", version := 0, opId := 1, state := .new, vaddr := 0, kaddr := 0 }),
          (b!"a", { value := b!"one", version := -2, opId := 2, state := .new, vaddr := 0, kaddr := 0 })] }

example : J c06Fresh.name (c06Fresh, AL.put (AL.put [] (keysFile c06Fresh.name) []) (valuesFile c06Fresh.name) []) :=
  (J_fresh c06Fresh [] (by unfold AL.NoDupKeys; decide) rfl rfl (by
    intro k e h
    have hm := AL.mem_of_get? _ _ _ h
    simp only [c06Fresh, List.mem_cons, Prod.mk.injEq, List.not_mem_nil, or_false] at hm
    rcases hm with ⟨_, rfl⟩ | ⟨_, rfl⟩ <;> rfl)).1

example : GoodDb c06Fresh := by
  constructor
  · intro k e h
    have hm := AL.mem_of_get? _ _ _ h
    simp only [c06Fresh, List.mem_cons, Prod.mk.injEq, List.not_mem_nil, or_false] at hm
    rcases hm with ⟨rfl, rfl⟩ | ⟨rfl, rfl⟩ <;> exact ⟨by decide, by decide, by decide, by decide, by decide, by decide⟩
  · intro k e h _
    have hm := AL.mem_of_get? _ _ _ h
    simp only [c06Fresh, List.mem_cons, Prod.mk.injEq, List.not_mem_nil, or_false] at hm
    rcases hm with ⟨_, rfl⟩ | ⟨_, rfl⟩ <;> decide

end Nun
