import NunVerif.Gen.OpRec
import NunVerif.Props.C06
import NunVerif.Props.C12
/-!
# C12 / C16 — the operation-log RECORD, byte for byte, from the source

`Model/Oplog.lean` works with records `(t, k, d, o)` and files that hold whole records.  This file
ties that level to the bytes: the order and width of the fields `write_op_log` writes and the order
in which the forward scan of `read_operations_since_from_file` reads them back are REGENERATED from
`disk_ops.rs` on every run (`Gen/OpRec.lean`), interpreted here — a writer that turns a record into
bytes field by field, a reader that consumes buffers in the scan's order — and proved inverse for
every record whose fields fit their widths; a file of records is the concatenation and reads back
record by record.  Swap two fields in the writer, read them in another order, change a width or the
numbering of the operation kinds, and a theorem below stops checking.
-/
namespace Nun

/-! ### the generated tables, pinned -/

theorem C12_record_constants : Gen.opRecordConsts = [25, 8, 8, 8, 1] ∧ opRecSize = 25 := by decide
theorem C12_record_writer_layout :
    Gen.opRecWriter = [(b!"opp_id", 8), (b!"key", 8), (b!"db_id", 8), (b!"opp_to_write", 1)] := by decide +kernel
theorem C12_record_reader_layout :
    Gen.opRecReader = [(b!"key_buffer", 8), (b!"db_id_buffer", 8), (b!"oop_buffer", 1), (b!"time_buffer", 8)] ∧ Gen.opRecReaderSkips = 8 := by
  decide +kernel
theorem C12_record_reader_decodes :
    Gen.opRecDecoded = [(b!"key_id", b!"key_buffer"), (b!"db_id", b!"db_id_buffer"), (b!"opp", b!"oop_buffer"), (b!"opp_time", b!"time_buffer")] := by
  decide +kernel
/-- what the scan decodes goes into the record's fields of the same meaning (no transposition at the constructor call) -/
theorem C12_record_constructor_call :
    Gen.opRecNewArgs.zip Gen.opRecNewParams
      = [(b!"db_id", b!"db"), (b!"key_id", b!"key"), (b!"opp_time", b!"timestamp"), (b!"opp_count", b!"opp_position"), (b!"opp", b!"opp")] := by
  decide +kernel
/-- the numbering of the operation kinds is the model's (`o := 0 / 1 / 2 / 3` in `Node.replStep`), and reading inverts writing -/
theorem C12_operation_kinds :
    Gen.opKindToU8 = [(b!"Update", 0), (b!"Remove", 1), (b!"CreateDb", 2), (b!"Snapshot", 3)] ∧
    (∀ p ∈ Gen.opKindToU8, AL.get? Gen.opKindFromU8 p.2 = some p.1) := by decide +kernel

/-! ### writer and reader, interpreting the tables -/

/-- the value a written name stands for -/
def OpRec.field (r : OpRec) (name : Bytes) : Option Nat :=
  if name = b!"opp_id" then some r.t else if name = b!"key" then some r.k
  else if name = b!"db_id" then some r.d else if name = b!"opp_to_write" then some r.o else none

/-- `write_op_log`, field by field, little-endian -/
def encodeWith : List (Bytes × Nat) → OpRec → Option Bytes
  | [], _ => some []
  | (name, w) :: rest, r =>
    match r.field name, encodeWith rest r with
    | some v, some tl => some (leBytes w v ++ tl)
    | _, _ => none

/-- consecutive reads into buffers of the given sizes -/
def readFields : List (Bytes × Nat) → Bytes → List (Bytes × Nat)
  | [], _ => []
  | (name, w) :: rest, bs => (name, ofLE (bs.take w)) :: readFields rest (bs.drop w)

/-- one record as the forward scan sees it: positioned behind the time stamp (`skip` bytes, read through the
LAST buffer of the loop — it is the next record's time stamp when the loop comes round), then the other
buffers in reading order, each decoded into the variable the source decodes it into -/
def decodeWith (reader : List (Bytes × Nat)) (skip : Nat) (decoded : List (Bytes × Bytes)) (bs : Bytes) : Option OpRec :=
  let vals := readFields reader.dropLast (bs.drop skip)
  let var (v : Bytes) : Option Nat := (AL.get? decoded v).bind (AL.get? vals)
  match reader.getLast?, AL.get? decoded b!"opp_time", var b!"key_id", var b!"db_id", var b!"opp" with
  | some (tb, tw), some tb', some k, some d, some o => if tb = tb' ∧ tw = skip then some ⟨ofLE (bs.take skip), k, d, o⟩ else none
  | _, _, _, _, _ => none

def encRec (r : OpRec) : Bytes := le64 r.t ++ le64 r.k ++ le64 r.d ++ leBytes 1 r.o

def OpRec.Fits (r : OpRec) : Prop := r.t < 18446744073709551616 ∧ r.k < 18446744073709551616 ∧ r.d < 18446744073709551616 ∧ r.o < 256

theorem encodeWith_gen (r : OpRec) : encodeWith Gen.opRecWriter r = some (encRec r) := by
  rw [C12_record_writer_layout]
  simp [encodeWith, OpRec.field, encRec, le64]

theorem encRec_length (r : OpRec) : (encRec r).length = 25 := by
  simp [encRec, le64, leBytes_length]

theorem take_app {α} (a b : List α) (n : Nat) (h : a.length = n) : (a ++ b).take n = a := by
  subst h; simp
theorem drop_app {α} (a b : List α) (n : Nat) (h : a.length = n) : (a ++ b).drop n = b := by
  subst h; simp

/-- **the record codec regenerated from the source is lossless**: what the scan decodes from the bytes
`write_op_log` produced is the record that was written — every time stamp, key id and database id below
2⁶⁴, every operation byte -/
theorem C12_record_roundtrip (r : OpRec) (h : r.Fits) :
    ∃ bs, encodeWith Gen.opRecWriter r = some bs ∧ bs.length = Gen.opRecordConsts.headD 0 ∧
      decodeWith Gen.opRecReader Gen.opRecReaderSkips Gen.opRecDecoded bs = some r := by
  obtain ⟨ht, hk, hd, ho⟩ := h
  refine ⟨encRec r, encodeWith_gen r, by rw [encRec_length, C12_record_constants.1]; rfl, ?_⟩
  rw [C12_record_reader_layout.1, C12_record_reader_layout.2, C12_record_reader_decodes]
  have l8 : ∀ v, (le64 v).length = 8 := fun v => leBytes_length 8 v
  have e1 : (encRec r).take 8 = le64 r.t := by
    unfold encRec; rw [List.append_assoc, List.append_assoc]; exact take_app _ _ 8 (l8 _)
  have e2 : (encRec r).drop 8 = le64 r.k ++ (le64 r.d ++ leBytes 1 r.o) := by
    unfold encRec; rw [List.append_assoc, List.append_assoc]; exact drop_app _ _ 8 (l8 _)
  have hvals : readFields [(b!"key_buffer", 8), (b!"db_id_buffer", 8), (b!"oop_buffer", 1)] ((encRec r).drop 8)
      = [(b!"key_buffer", r.k), (b!"db_id_buffer", r.d), (b!"oop_buffer", r.o)] := by
    rw [e2]
    simp only [readFields]
    rw [take_app _ _ 8 (l8 _), drop_app _ _ 8 (l8 _), take_app _ _ 8 (l8 _), drop_app _ _ 8 (l8 _)]
    have h1 : (leBytes 1 r.o).take 1 = leBytes 1 r.o := by simp [leBytes]
    rw [h1]
    simp only [le64]
    rw [ofLE_leBytes 8 r.k (by simpa using hk), ofLE_leBytes 8 r.d (by simpa using hd), ofLE_leBytes 1 r.o (by simpa using ho)]
  have hdl : ([(b!"key_buffer", 8), (b!"db_id_buffer", 8), (b!"oop_buffer", 1), (b!"time_buffer", 8)] : List (Bytes × Nat)).dropLast
      = [(b!"key_buffer", 8), (b!"db_id_buffer", 8), (b!"oop_buffer", 1)] := rfl
  simp only [decodeWith, hdl, hvals, e1]
  have ht' : ofLE (le64 r.t) = r.t := ofLE_leBytes 8 r.t (by simpa using ht)
  rw [ht']
  cases r
  rfl

/-! ### a file is whole records: the record-level files of `Model/Oplog.lean` are the byte files, read back -/

def encFile (rs : List OpRec) : Bytes := rs.flatMap encRec

/-- cut a byte file into records of the generated size and decode each with the generated reader -/
def decFile : Nat → Bytes → List (Option OpRec)
  | 0, _ => []
  | n + 1, bs =>
    if bs.length < 25 then [] else
    decodeWith Gen.opRecReader Gen.opRecReaderSkips Gen.opRecDecoded (bs.take 25) :: decFile n (bs.drop 25)

theorem encFile_length (rs : List OpRec) : (encFile rs).length = 25 * rs.length := by
  induction rs with
  | nil => rfl
  | cons r rest ih => simp only [encFile, List.flatMap_cons, List.length_append, encRec_length, List.length_cons] at ih ⊢; omega

theorem decodeWith_encRec (r : OpRec) (h : r.Fits) :
    decodeWith Gen.opRecReader Gen.opRecReaderSkips Gen.opRecDecoded (encRec r) = some r := by
  obtain ⟨bs, h1, _, h3⟩ := C12_record_roundtrip r h
  rw [encodeWith_gen] at h1
  cases h1; exact h3

/-- **a log file reads back record by record**: any number of records, any values that fit -/
theorem C12_file_roundtrip (rs : List OpRec) (h : ∀ r ∈ rs, r.Fits) (fuel : Nat) (hf : rs.length ≤ fuel) :
    decFile fuel (encFile rs) = rs.map some := by
  induction rs generalizing fuel with
  | nil => cases fuel <;> simp [decFile, encFile]
  | cons r rest ih =>
    cases fuel with
    | zero => simp at hf
    | succ n =>
      have hl : ¬ (encFile (r :: rest)).length < 25 := by rw [encFile_length]; simp only [List.length_cons]; omega
      have e : encFile (r :: rest) = encRec r ++ encFile rest := by simp [encFile]
      simp only [decFile, hl, if_false, List.map_cons]
      rw [e, take_app _ _ 25 (encRec_length r), drop_app _ _ 25 (encRec_length r),
        decodeWith_encRec r (h r (List.mem_cons_self ..)),
        ih (fun r' hr' => h r' (List.mem_cons_of_mem _ hr')) n (by simpa using hf)]

/-- non-vacuity: the record `(t = 2⁶³ + 5, key 300, database 2, Remove)` as bytes, and back -/
example : encRec ⟨9223372036854775813, 300, 2, 1⟩ = [5, 0, 0, 0, 0, 0, 0, 128, 44, 1, 0, 0, 0, 0, 0, 0, 2, 0, 0, 0, 0, 0, 0, 0, 1] ∧
    decodeWith Gen.opRecReader Gen.opRecReaderSkips Gen.opRecDecoded (encRec ⟨9223372036854775813, 300, 2, 1⟩) = some ⟨9223372036854775813, 300, 2, 1⟩ := by
  decide +kernel

end Nun
