import NunVerif.Model.S3
import NunVerif.Proofs.AL
/-
  C18 — S3 storage strategies restore what the disk strategy would.

  Model of the `s3` strategy (`s3Snapshot`, `s3LoadDb`); the partitioned strategy is decided by
  the differential oracle only (checks/c18.py).  What holds of the model for every input, what is
  shown on a concrete database by kernel evaluation, and the two recorded findings as theorems.
-/
namespace Nun

/-- FINDING (every input): whatever was stored, a database loaded from the object store has
identifier 1 and the arbiter strategy — its own are never written -/
theorem C18_finding_identity_not_stored (objs : Objs) (name : Bytes) (clock : Nat) (db : Db) (c : Nat)
    (h : s3LoadDb objs name clock = some (db, c)) : db.id = 1 ∧ db.strategy = .arbiter ∧ db.name = name := by
  unfold s3LoadDb at h
  split at h
  · split at h
    · simp only [Option.some.injEq, Prod.mk.injEq] at h
      obtain ⟨h1, _⟩ := h
      subst h1; exact ⟨rfl, rfl, rfl⟩
    · simp at h
  · simp at h

/-- FINDING (every input): when both uploads fail the snapshot still returns normally, the object
store is unchanged — and the caller cannot tell (the function has no failure result) -/
theorem C18_finding_failed_upload_is_silent (db : Db) (objs : Objs) (reclaim : Bool) (order : List Bytes) (clock : Nat) :
    (s3Snapshot db objs reclaim order clock (fun _ => false)).2.1 = objs := by
  simp [s3Snapshot]

/-- every key of the database goes into the objects, whatever `reclaim` says (the fix of the
incremental-snapshot defect, pinned) -/
theorem C18_snapshot_ignores_reclaim (db : Db) (objs : Objs) (order : List Bytes) (clock : Nat) (f : Nat → Bool) :
    s3Snapshot db objs true order clock f = s3Snapshot db objs false order clock f := by
  simp [s3Snapshot]

def demoDb : Db :=
  { (Db.new b!"t" 7 .newer) with map :=
      [(Gen.tokenKey, { value := b!"tok", version := 0, opId := 1, state := .new, vaddr := 0, kaddr := 0 }),
       (b!"a", { value := b!"two words h\xc3\xa9", version := 3, opId := 2, state := .updated, vaddr := 0, kaddr := 0 }),
       (b!"gone", { value := Gen.tombstoneValue, version := 2, opId := 3, state := .deleted, vaddr := 0, kaddr := 0 }),
       (b!"same", { value := b!"1", version := 1, opId := 4, state := .ok, vaddr := 5, kaddr := 9 })] }

def entryView (db : Db) (k : Bytes) : Option (Bytes × Int × Bool) :=
  (db.getValue k).map fun e => (e.value, e.version, e.state == .deleted)

/-- round trip on a database with a new, an updated, a removed and an untouched key (multi-byte
value included): an INCREMENTAL snapshot followed by a start restores every key with its value and
version, the removed key as removed (kernel evaluation of the byte-level model) -/
def roundTrip (db : Db) (order : List Bytes) (ks : List Bytes) : Option (List (Option (Bytes × Int × Bool))) :=
  (s3LoadDb (s3Snapshot db [] false order 100).2.1 db.name 200).map fun r => ks.map (entryView r.1)

theorem C18_round_trip_witness :
    roundTrip demoDb [b!"same", b!"gone", Gen.tokenKey, b!"a"] [Gen.tokenKey, b!"a", b!"gone", b!"same"] =
      some ([Gen.tokenKey, b!"a", b!"gone", b!"same"].map (entryView demoDb)) := by
  decide +kernel

end Nun
