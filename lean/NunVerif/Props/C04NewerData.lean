import NunVerif.Props.C04Newer
/-
  C04 on `newer` databases, ALL THREE data commands.  `Props/C04Newer` proves convergence for
  `set` / `set-safe` on databases with the `newer` strategy (or none); `Props/C04Data` proves it
  for `set` / `remove` / `increment` on databases without a strategy.  This file closes the square:
  any history of `set` / `set-safe` / `remove` / `increment` on databases with either strategy.

  A replicated `remove` or `increment` is not arbitrated at all (`replicate-remove` and
  `replicate-increment` go straight to `remove_value` / `inc_value`), so what has to be carried
  through those two commands is the invariant the arbitration of LATER writes depends on: every
  stored entry stays below its node's clock (`DbBelow`) — the tombstone keeps the operation id of
  the entry it replaces, the incremented entry takes the id the node's clock has just left.
-/
namespace Nun
open Bytes

/-! ### the clock through a `remove` and an `increment`, on either node -/

theorem processObj_remove_clock (recur : Node → Sid → Bytes → Node × Out) (P : Node) (sid : Sid) (key : Bytes) :
    (Node.processObj recur P sid (.remove key)).1.clock = P.clock := by
  simp only [Node.processObj]
  cases P.safeAccess sid key .remove with
  | refused out => rfl
  | granted db =>
    simp only [Node.withAccess]
    cases db.removeValue key with
    | none => rfl
    | some p => obtain ⟨db', ps⟩ := p; rfl

theorem primaryStepD_clock_remove (recur : Node → Sid → Bytes → Node × Out) (P : Node) (sid : Sid) (key : Bytes) :
    P.clock ≤ (primaryStepD recur P (.remove sid key)).1.clock := by
  unfold primaryStepD
  have h1 := processObj_remove_clock recur P sid key
  simp only [DReq.sid, DReq.request]
  generalize Node.processObj recur P sid (.remove key) = res at h1
  obtain ⟨n1, r1, e1⟩ := res
  simp only [] at h1 ⊢
  have := replicateRequest_clock n1 (.remove key) (P.session sid).db r1
  generalize Node.replicateRequest n1 (.remove key) (P.session sid).db r1 = rr at this
  obtain ⟨n2, r2, e2⟩ := rr
  simp only [] at this ⊢
  omega

theorem processObj_inc_clock (recur : Node → Sid → Bytes → Node × Out) (P : Node) (sid : Sid) (key : Bytes) (inc : Int) (dbP : Db)
    (hrole : P.role = .primary) (hacc : P.safeAccess sid key .increment = .granted dbP) :
    (Node.processObj recur P sid (.increment key inc)).1.clock = P.clock + 1 := by
  have hprim : P.isPrimary = true := by simp [Node.isPrimary, hrole]
  simp only [Node.processObj, hacc, Node.withAccess, hprim, if_true, Node.tick]
  generalize dbP.incValue key inc P.clock = iv
  obtain ⟨db', resp, ps⟩ := iv
  cases resp <;> rfl

theorem primaryStepD_clock_inc (recur : Node → Sid → Bytes → Node × Out) (P : Node) (sid : Sid) (key : Bytes) (inc : Int) (dbP : Db)
    (hrole : P.role = .primary) (hacc : P.safeAccess sid key .increment = .granted dbP) :
    P.clock < (primaryStepD recur P (.inc sid key inc)).1.clock := by
  unfold primaryStepD
  have h1 := processObj_inc_clock recur P sid key inc dbP hrole hacc
  simp only [DReq.sid, DReq.request]
  generalize Node.processObj recur P sid (.increment key inc) = res at h1
  obtain ⟨n1, r1, e1⟩ := res
  simp only [] at h1 ⊢
  have := replicateRequest_clock n1 (.increment key inc) (P.session sid).db r1
  generalize Node.replicateRequest n1 (.increment key inc) (P.session sid).db r1 = rr at this
  obtain ⟨n2, r2, e2⟩ := rr
  simp only [] at this ⊢
  omega

/-- the secondary's clock through a replicated remove: it never goes back -/
theorem secondary_remove_clock (T : Node) (link : Sid) (id : Nat) (d k : Bytes) (dbT : Db) (fuel : Nat)
    (hauth : (T.session link).auth = true) (hdb : T.db? d = some dbT)
    (hd : 32 ∉ d) (hnl : 10 ∉ k) (hsemi : k.getLast? ≠ some 59) (hid : id < u64Bound) :
    T.clock ≤ (applyLine fuel link T (rpLine id (replicateRemoveMsg d k))).clock := by
  have h10 := replicateRemoveMsg_last d k 10 (by decide) (last_ne_of_not_mem k 10 hnl)
  have h59 := replicateRemoveMsg_last d k 59 (by decide) hsemi
  have hne : replicateRemoveMsg d k ≠ [] := by rw [replicateRemoveMsg_shape]; simp
  have htrim : Bytes.trimBoth 10 (replicateRemoveMsg d k) = replicateRemoveMsg d k :=
    trimBoth_id 10 _ (by rw [replicateRemoveMsg_shape]; simp) h10
  have hparse : Request.parse (Bytes.trimBoth 10 (replicateRemoveMsg d k)) = .ok (.replicateRemove d k) := by
    rw [htrim]; exact parse_replicateRemoveMsg d k hd hnl hsemi
  have hnoenv : Bytes.startsWith (Bytes.trimBoth 10 (replicateRemoveMsg d k)) b!"rp " = false := by
    rw [htrim, replicateRemoveMsg_shape]; simp [Bytes.startsWith]
  have hc := envelope_clock T link id _ _ fuel hparse hne h59 h10 hnoenv hid
  have hin : (Node.processObj (Node.recurOf fuel) T link (.replicateRemove d k)).1.clock = T.clock := by
    simp only [Node.processObj, hauth, hdb, Bool.not_true, Bool.false_eq_true, if_false]
    cases dbT.removeValue k with
    | none => rfl
    | some p => obtain ⟨db', ps⟩ := p; rfl
  unfold applyLine
  omega

/-- the secondary's clock through a replicated increment: it moves past the id the entry takes -/
theorem secondary_inc_clock (T : Node) (link : Sid) (id : Nat) (d k : Bytes) (inc : Int) (dbT : Db) (fuel : Nat)
    (hauth : (T.session link).auth = true) (hdb : T.db? d = some dbT)
    (hd : 32 ∉ d) (hk : 32 ∉ k) (hdnl : 10 ∉ d) (hv : fitsI32 inc = true) (hid : id < u64Bound) :
    T.clock < (applyLine fuel link T (rpLine id (replicateIncMsg d k inc))).clock := by
  have h10 := replicateIncMsg_last d k inc 10 (by decide) (by decide)
  have h59 := replicateIncMsg_last d k inc 59 (by decide) (by decide)
  have hne : replicateIncMsg d k inc ≠ [] := by rw [replicateIncMsg_shape]; simp
  have htrim : Bytes.trimBoth 10 (replicateIncMsg d k inc) = replicateIncMsg d k inc :=
    trimBoth_id 10 _ (by rw [replicateIncMsg_shape]; simp) h10
  have hparse : Request.parse (Bytes.trimBoth 10 (replicateIncMsg d k inc)) = .ok (.replicateIncrement d k inc) := by
    rw [htrim]; exact parse_replicateIncMsg d k inc hd hk hdnl hv
  have hnoenv : Bytes.startsWith (Bytes.trimBoth 10 (replicateIncMsg d k inc)) b!"rp " = false := by
    rw [htrim, replicateIncMsg_shape]; simp [Bytes.startsWith]
  have hc := envelope_clock T link id _ _ fuel hparse hne h59 h10 hnoenv hid
  have hin : (Node.processObj (Node.recurOf fuel) T link (.replicateIncrement d k inc)).1.clock = T.clock + 1 := by
    simp only [Node.processObj, hauth, hdb, Bool.not_true, Bool.false_eq_true, if_false, Node.tick]
    generalize dbT.incValue k inc T.clock = res
    obtain ⟨db', resp, ps⟩ := res
    rfl
  unfold applyLine
  omega

/-! ### keeping `GoodN` -/

theorem goodN_same (link : Sid) (P T P' : Node) (hg : GoodN link P T) (hd : P'.dbs = P.dbs) (hr : P'.role = P.role)
    (hc : P.clock ≤ P'.clock) : GoodN link P' T := by
  obtain ⟨hnP, hnT, hrole, hlink, hall⟩ := hg
  refine ⟨namesOk_of_dbs _ _ hd hnP, hnT, by rw [hr]; exact hrole, hlink, ?_⟩
  intro d dbP h
  have : P.db? d = some dbP := by
    have h2 : AL.get? P'.dbs d = some dbP := h
    rw [hd] at h2; exact h2
  obtain ⟨a1, a2, dbT0, a3, a4, a5, a6⟩ := hall d dbP this
  exact ⟨a1, dbBelow_mono a2 hc, dbT0, a3, a4, a5, a6⟩

theorem goodN_update (link : Sid) (P T P' T' : Node) (name : Bytes) (dbP dbP' dbT' : Db) (hg : GoodN link P T)
    (hPd : P'.dbs = AL.put P.dbs name dbP') (hTd : T'.dbs = AL.put T.dbs name dbT')
    (hn1 : dbP'.name = name) (hn2 : dbT'.name = name)
    (hs0 : dbP.strategy = .none ∨ dbP.strategy = .newer) (hs1 : dbP'.strategy = dbP.strategy) (hs2 : dbT'.strategy = dbP.strategy)
    (hcP : P.clock ≤ P'.clock) (hcT : T.clock ≤ T'.clock) (hbP : DbBelow dbP' P'.clock) (hbT : DbBelow dbT' T'.clock)
    (hag : dbP'.AgreeS dbT') (hr : P'.role = P.role) (hss : T'.sessions = T.sessions) : GoodN link P' T' := by
  obtain ⟨hnP, hnT, hrole, hlink, hall⟩ := hg
  refine ⟨?_, ?_, by rw [hr]; exact hrole, by rw [session_of_sessions T' T link hss]; exact hlink, ?_⟩
  · have : P'.dbs = (P.setDb dbP').dbs := by rw [hPd]; simp [Node.setDb, hn1]
    exact namesOk_of_dbs _ _ this (namesOk_setDb P _ hnP)
  · have : T'.dbs = (T.setDb dbT').dbs := by rw [hTd]; simp [Node.setDb, hn2]
    exact namesOk_of_dbs _ _ this (namesOk_setDb T _ hnT)
  · intro d' dbP'' hd'
    have hd'' : AL.get? (AL.put P.dbs name dbP') d' = some dbP'' := by
      have : AL.get? P'.dbs d' = some dbP'' := hd'
      rw [hPd] at this; exact this
    rw [AL.get?_put] at hd''
    by_cases hdd : name = d'
    · rw [if_pos hdd] at hd''
      cases hd''
      refine ⟨by rw [hs1]; exact hs0, hbP, dbT', ?_, by rw [hs1, hs2], hbT, hag⟩
      show AL.get? T'.dbs d' = _
      rw [hTd, AL.get?_put, if_pos hdd]
    · rw [if_neg hdd] at hd''
      obtain ⟨a1, a2, dbT0, a3, a4, a5, a6⟩ := hall d' dbP'' hd''
      refine ⟨a1, dbBelow_mono a2 hcP, dbT0, ?_, a4, dbBelow_mono a5 hcT, a6⟩
      show AL.get? T'.dbs d' = _
      rw [hTd, AL.get?_put, if_neg hdd]; exact a3

/-- what a command must satisfy on a `newer` / strategy-less database: `OpOk`'s demands on the text
format, with the headroom under 2⁶⁴ the resolving write needs -/
def OpOkN (P : Node) : DReq → Prop
  | .set sid key value ver => WriteOkN P ⟨sid, key, value, ver⟩
  | r => OpOk P r

theorem primaryStepD_set (recur : Node → Sid → Bytes → Node × Out) (P : Node) (sid : Sid) (key value : Bytes) (ver : Int) :
    primaryStepD recur P (.set sid key value ver) = primaryStep recur P ⟨sid, key, value, ver⟩ := rfl

/-- **one step of the history on `none` / `newer` databases**: the primary handles a data command,
the secondary executes what the primary printed; `GoodN` — agreement AND both replicas below their
clocks — is kept -/
theorem good_op_nn (recur : Node → Sid → Bytes → Node × Out) (fuel : Nat) (link : Sid) (P T : Node) (r : DReq)
    (hg : GoodN link P T) (hw : OpOkN P r) :
    GoodN link (primaryStepD recur P r).1 ((replLines (primaryStepD recur P r).2.2).foldl (applyLine fuel link) T) := by
  have hg0 := hg
  obtain ⟨hnP, hnT, hrole, hlink, hall⟩ := hg
  cases r with
  | set sid key value ver =>
    rw [primaryStepD_set]
    exact good_write_nn recur fuel link P T ⟨sid, key, value, ver⟩ hg0 hw
  | remove sid key =>
    obtain ⟨hclock, hnl, hsemi, hwire⟩ := hw
    have hcP := primaryStepD_clock_remove recur P sid key
    cases hacc : P.safeAccess sid key .remove with
    | refused out =>
      have hstep := primaryStepD_refused recur P (.remove sid key) .remove key out (Or.inr (Or.inl ⟨rfl, rfl⟩)) hacc
      obtain ⟨_, hnol⟩ := safeAccess_refused P sid key .remove out hacc
      rw [hstep]; simp only [List.append_nil, hnol, List.foldl_nil]; exact hg0
    | granted dbP =>
      obtain ⟨d, hsel, hd⟩ := safeAccess_selected P sid key .remove dbP hacc
      have hname : dbP.name = d := hnP d dbP hd
      obtain ⟨hsP, hbP, dbT, hdT, hsT, hbT, hag0⟩ := hall d dbP hd
      have hdT' : T.db? dbP.name = some dbT := by rw [hname]; exact hdT
      have hTname : dbT.name = dbP.name := hnT _ _ hdT'
      have hd32 := hwire dbP hacc
      have hP := primary_remove_emits recur P sid key dbP hnP hrole hacc
      have hS := secondary_applies_remove T link P.clock dbP.name key dbT fuel hlink hdT' hd32 hnl hsemi hclock
      have hcT := secondary_remove_clock T link P.clock dbP.name key dbT fuel hlink hdT' hd32 hnl hsemi hclock
      rcases removeValue_agreeS dbP dbT key hag0 with ⟨ha, hb⟩ | ⟨a', b', pa, pb, ha, hb, hagS⟩
      · rw [ha] at hP
        obtain ⟨hdbs, hlines, hr⟩ := hP
        have hlines' : replLines (primaryStepD recur P (.remove sid key)).2.2 = [] := hlines
        rw [hlines']; simp only [List.foldl_nil]
        exact goodN_same link P T _ hg0 hdbs hr hcP
      · rw [ha] at hP
        rw [hb] at hS
        obtain ⟨hdbs, hlines, hr⟩ := hP
        obtain ⟨hssess, hsdbs⟩ := hS
        have hlines' : replLines (primaryStepD recur P (.remove sid key)).2.2 = [rpLine P.clock (replicateRemoveMsg dbP.name key)] := hlines
        rw [hlines']
        simp only [List.foldl_cons, List.foldl_nil]
        obtain ⟨hna, hsa⟩ := removeValue_frame dbP key a' pa ha
        obtain ⟨hnb, hsb⟩ := removeValue_frame dbT key b' pb hb
        have hTd : (applyLine fuel link T (rpLine P.clock (replicateRemoveMsg dbP.name key))).dbs = AL.put T.dbs dbP.name b' := by
          unfold applyLine
          rw [hsdbs, hnb, hTname]
        exact goodN_update link P T _ _ dbP.name dbP a' b' hg0 hdbs hTd hna (by rw [hnb]; exact hTname) hsP hsa
          (by rw [hsb]; exact hsT) hcP hcT
          (dbBelow_mono (dbBelow_removeValue dbP a' key pa P.clock hbP ha) hcP)
          (dbBelow_mono (dbBelow_removeValue dbT b' key pb T.clock hbT hb) hcT)
          hagS hr hssess
  | inc sid key amount =>
    obtain ⟨hv, hclock, hk32, hwire⟩ := hw
    cases hacc : P.safeAccess sid key .increment with
    | refused out =>
      have hstep := primaryStepD_refused recur P (.inc sid key amount) .increment key out (Or.inr (Or.inr ⟨amount, rfl, rfl⟩)) hacc
      obtain ⟨_, hnol⟩ := safeAccess_refused P sid key .increment out hacc
      rw [hstep]; simp only [List.append_nil, hnol, List.foldl_nil]; exact hg0
    | granted dbP =>
      obtain ⟨d, hsel, hd⟩ := safeAccess_selected P sid key .increment dbP hacc
      have hname : dbP.name = d := hnP d dbP hd
      obtain ⟨hsP, hbP, dbT, hdT, hsT, hbT, hag0⟩ := hall d dbP hd
      have hdT' : T.db? dbP.name = some dbT := by rw [hname]; exact hdT
      have hTname : dbT.name = dbP.name := hnT _ _ hdT'
      obtain ⟨hd32, hd10⟩ := hwire dbP hacc
      have hP := primary_inc_emits recur P sid key amount dbP hnP hrole hacc
      have hcP := primaryStepD_clock_inc recur P sid key amount dbP hrole hacc
      obtain ⟨hagS, hresp⟩ := incValue_agreeS dbP dbT key amount P.clock T.clock hag0
      by_cases hok : (dbP.incValue key amount P.clock).2.1 = .ok
      · obtain ⟨hdbs, hlines, hr⟩ := hP.1 hok
        have hlines' : replLines (primaryStepD recur P (.inc sid key amount)).2.2 = [rpLine (P.clock + 1) (replicateIncMsg dbP.name key amount)] := hlines
        rw [hlines']
        simp only [List.foldl_cons, List.foldl_nil]
        obtain ⟨hssess, hsdbs⟩ := secondary_applies_inc T link (P.clock + 1) dbP.name key amount dbT fuel hlink hdT' hd32 hk32 hd10 hv hclock
        have hcT := secondary_inc_clock T link (P.clock + 1) dbP.name key amount dbT fuel hlink hdT' hd32 hk32 hd10 hv hclock
        obtain ⟨hna, hsa⟩ := incValue_frame dbP key amount P.clock
        obtain ⟨hnb, hsb⟩ := incValue_frame dbT key amount T.clock
        have hTd : (applyLine fuel link T (rpLine (P.clock + 1) (replicateIncMsg dbP.name key amount))).dbs
            = AL.put T.dbs dbP.name (dbT.incValue key amount T.clock).1 := by
          unfold applyLine
          rw [hsdbs, hnb, hTname]
        exact goodN_update link P T _ _ dbP.name dbP (dbP.incValue key amount P.clock).1 (dbT.incValue key amount T.clock).1 hg0 hdbs hTd
          hna (by rw [hnb]; exact hTname) hsP hsa (by rw [hsb]; exact hsT) (Nat.le_of_lt hcP) (Nat.le_of_lt hcT)
          (dbBelow_incValue dbP key amount P.clock _ (dbBelow_mono hbP (Nat.le_of_lt hcP)) hcP)
          (dbBelow_incValue dbT key amount T.clock _ (dbBelow_mono hbT (Nat.le_of_lt hcT)) hcT)
          hagS hr hssess
      · obtain ⟨hdbs, hlines, hr⟩ := hP.2 hok
        have hlines' : replLines (primaryStepD recur P (.inc sid key amount)).2.2 = [] := hlines
        rw [hlines']; simp only [List.foldl_nil]
        exact goodN_same link P T _ hg0 hdbs hr (Nat.le_of_lt hcP)

/-- every command of the schedule satisfies `OpOkN` in the state it is issued in -/
def AdmOpsN (recur : Node → Sid → Bytes → Node × Out) (fuel : Nat) (link : Sid) : Pair → List DStep → Prop
  | _, [] => True
  | c, s :: rest => (match s with | .op r => OpOkN c.p r | .deliver => True) ∧ AdmOpsN recur fuel link (c.stepD recur fuel link s) rest

theorem good_stepD_nn (recur : Node → Sid → Bytes → Node × Out) (fuel : Nat) (link : Sid) (c : Pair) (s : DStep)
    (hg : GoodN link c.p (c.settled fuel link)) (hs : match s with | .op r => OpOkN c.p r | .deliver => True) :
    GoodN link (c.stepD recur fuel link s).p ((c.stepD recur fuel link s).settled fuel link) := by
  cases s with
  | op r =>
    have := good_op_nn recur fuel link c.p (c.settled fuel link) r hg hs
    show GoodN link (primaryStepD recur c.p r).1 ((c.q ++ replLines (primaryStepD recur c.p r).2.2).foldl (applyLine fuel link) c.t)
    rw [List.foldl_append]; exact this
  | deliver =>
    simp only [Pair.stepD]
    cases hq : c.q with
    | nil => simp only [Pair.settled, hq] at hg ⊢; exact hg
    | cons l rest =>
      simp only [Pair.settled, hq, List.foldl_cons] at hg ⊢
      exact hg

/-- **C04 on `newer` databases, every data command.**  Start from a primary and a secondary whose
databases — each with the `newer` strategy or none — agree and lie below their nodes' clocks
(`GoodN`).  Let clients of the primary issue ANY sequence of `set` / `set-safe` / `remove` /
`increment` commands — stale versioned writes included, which `newer` resolves instead of refusing;
removes of keys that are absent; increments of texts that are not numbers — interleaved in ANY way
with FIFO deliveries of the printed lines.  At every point of the run: once the lines in flight are
delivered, every database of the primary has a copy on the secondary that agrees with it on every
key's value, version and removed status. -/
theorem C04_newer_data_commands_converge (recur : Node → Sid → Bytes → Node × Out) (fuel : Nat) (link : Sid) (steps : List DStep) :
    ∀ (c : Pair), GoodN link c.p (c.settled fuel link) → AdmOpsN recur fuel link c steps →
      GoodN link (c.runD recur fuel link steps).p ((c.runD recur fuel link steps).settled fuel link) := by
  induction steps with
  | nil => intro c hg _; exact hg
  | cons s rest ih =>
    intro c hg ha
    exact ih (c.stepD recur fuel link s) (good_stepD_nn recur fuel link c s hg ha.1) ha.2

/-- spelled out: at quiescence a client reads the same from either node -/
theorem C04_newer_data_quiescent_agreement (recur : Node → Sid → Bytes → Node × Out) (fuel : Nat) (link : Sid) (steps : List DStep) (c : Pair)
    (hg : GoodN link c.p (c.settled fuel link)) (ha : AdmOpsN recur fuel link c steps)
    (hq : (c.runD recur fuel link steps).q = []) (d : Bytes) (dbP : Db) (hd : (c.runD recur fuel link steps).p.db? d = some dbP) :
    ∃ dbT, (c.runD recur fuel link steps).t.db? d = some dbT ∧ ∀ k, dbP.pubOf k = dbT.pubOf k := by
  have h := C04_newer_data_commands_converge recur fuel link steps c hg ha
  obtain ⟨_, _, dbT, hT, _, _, hag⟩ := h.2.2.2.2 d dbP hd
  refine ⟨dbT, ?_, hag.agree⟩
  simpa [Pair.settled, hq] using hT

/-! ### non-vacuity -/

def c04NDSteps : List DStep :=
  [.op (.set 1 b!"n" b!"5" (-1)), .op (.inc 1 b!"n" 3), .deliver, .op (.set 1 b!"n" b!"40" 0), .op (.remove 1 b!"n"),
   .op (.inc 1 b!"n" 2), .deliver, .deliver, .deliver, .deliver]

/-- a concrete run on a `newer` database: set, increment, a STALE versioned set (resolved, not
refused), a remove, an increment of the removed key — the queue drains and the two nodes read alike -/
example : ((Pair.runD (Node.recurOf 3) 3 100 ⟨c04PN, c04TN, []⟩ c04NDSteps).q = []) ∧
    (((Pair.runD (Node.recurOf 3) 3 100 ⟨c04PN, c04TN, []⟩ c04NDSteps).t.db? b!"t").map fun db => db.pubOf b!"n")
      = (((Pair.runD (Node.recurOf 3) 3 100 ⟨c04PN, c04TN, []⟩ c04NDSteps).p.db? b!"t").map fun db => db.pubOf b!"n") := by
  refine ⟨?_, ?_⟩ <;> rfl

end Nun
