import NunVerif.Props.C04Wire
import NunVerif.Props.C14
/-
  C14, composed — the whole burst of one client write on the primary.

  `Props/C14.lean` bounds what ONE node does with ONE line.  This file follows the lines of an
  actual burst through the model's own printer, parser, loop and request path (databases without a
  conflict strategy):

    client `set` on the primary
      → exactly one envelope on the primary's replication channel        (`primary_set_emits`, C04Wire)
      → the loop queues THAT envelope, once, for every connected secondary (`loop_copies_are_the_envelope`,
                                                                            `C04_fanout_reaches_every_secondary`)
      → a secondary that executes it emits one acknowledgement on the link, notifications to its own
        watchers and one line for its own loop — nothing for any member, nothing for the supervisor
                                                                           (`secondary_envelope_is_quiet`)
      → the secondary's loop drops that line                              (`C14_secondary_never_fans_out`)
      → the primary's handling of the acknowledgement emits nothing       (`C14_ack_is_silent`)

  so: no forward, one copy per connected secondary, one acknowledgement per copy, then silence
  (`C14_write_burst`).
-/
namespace Nun
open Bytes

/-- the pending entry of operation `id`, if any, was registered for this very message -/
def PendOk (n : Node) (id : Nat) (msg : Bytes) : Prop :=
  ∀ p, AL.get? n.pending id = some p → p.opId = id ∧ p.message = msg

theorem registerPending_wire (n : Node) (id : Nat) (msg server : Bytes) (h : PendOk n id msg) :
    (n.registerPending id msg server).2 = rpLine id msg ∧ PendOk (n.registerPending id msg server).1 id msg := by
  unfold Node.registerPending PMap.register
  simp only []
  cases hg : AL.get? n.pending id with
  | none =>
    refine ⟨by simp [PendingOp.wire, PendingOp.replicated, PendingOp.fresh, rpLine], ?_⟩
    intro p hp
    simp only [AL.get?_put_same, Option.some.injEq] at hp
    subst hp
    simp [PendingOp.replicated, PendingOp.fresh]
  | some p0 =>
    obtain ⟨h1, h2⟩ := h p0 hg
    refine ⟨by simp [PendingOp.wire, PendingOp.replicated, h1, h2, rpLine], ?_⟩
    intro p hp
    simp only [AL.get?_put_same, Option.some.injEq] at hp
    subst hp
    simp [PendingOp.replicated, h1, h2]

theorem fanOut_wires (id : Nat) (msg : Bytes) (targets : List (Bytes × Member)) :
    ∀ (n : Node) (acc : List Ev), PendOk n id msg → (∀ e ∈ acc, ∀ nm l, e = Ev.toMember nm l → l = rpLine id msg) →
      ∀ e ∈ (targets.foldl (fun (a : Node × List Ev) (t : Bytes × Member) =>
          ((a.1.registerPending id msg t.1).1,
           a.2 ++ (if t.2.connected then [Ev.toMember t.2.name (a.1.registerPending id msg t.1).2] else []))) (n, acc)).2,
        ∀ nm l, e = Ev.toMember nm l → l = rpLine id msg := by
  induction targets with
  | nil => intro n acc _ hacc; simpa using hacc
  | cons t rest ih =>
    intro n acc hp hacc
    simp only [List.foldl_cons]
    obtain ⟨hw, hp'⟩ := registerPending_wire n id msg t.1 hp
    apply ih _ _ hp'
    intro e he nm l hel
    rw [List.mem_append] at he
    rcases he with he | he
    · exact hacc e he nm l hel
    · split at he
      · simp only [List.mem_singleton] at he
        rw [he] at hel
        cases hel
        exact hw
      · cases he

/-- **every copy is the envelope**: whatever the primary's loop queues for a member when it handles
the envelope of operation `id` is that envelope itself (the operation id is fresh, or was registered
for this message) -/
theorem loop_copies_are_the_envelope (n : Node) (id : Nat) (msg : Bytes) (h : PendOk n id msg) :
    ∀ p ∈ memberSends (n.replSend true id msg).2, p.2 = rpLine id msg := by
  intro p hp
  unfold Node.replSend at hp
  cases hr : n.role with
  | secoundary => simp [hr, memberSends] at hp
  | primary =>
    simp only [hr, Bool.not_true, Bool.false_eq_true, if_false, Node.fanOut, memberSends] at hp
    rw [List.mem_filterMap] at hp
    obtain ⟨e, he, hep⟩ := hp
    have := fanOut_wires id msg _ n [] h (by intro e he; cases he) e he
    cases e with
    | toMember nm l => simp only [Option.some.injEq] at hep; subst hep; exact this nm l rfl
    | push _ _ => cases hep
    | repl _ => cases hep
    | sup _ => cases hep
  | startingUp =>
    simp only [hr, Bool.not_true, Bool.false_eq_true, if_false, Node.fanOut, memberSends] at hp
    rw [List.mem_filterMap] at hp
    obtain ⟨e, he, hep⟩ := hp
    have := fanOut_wires id msg _ n [] h (by intro e he; cases he) e he
    cases e with
    | toMember nm l => simp only [Option.some.injEq] at hep; subst hep; exact this nm l rfl
    | push _ _ => cases hep
    | repl _ => cases hep
    | sup _ => cases hep

/-- an event that stays inside the node: a line for one of its own client sessions, or for its own loop -/
def Ev.Quiet : Ev → Prop
  | .push _ _ => True
  | .repl _ => True
  | _ => False

theorem quiet_pushes (ps : List Push) : ∀ e ∈ pushes ps, e.Quiet := by
  intro e he
  unfold pushes at he
  rw [List.mem_map] at he
  obtain ⟨p, _, rfl⟩ := he
  trivial

theorem setKeyValue_none_quiet (n : Node) (db : Db) (k v : Bytes) (ver : Int) (hs : db.strategy = .none) :
    ∀ e ∈ (n.setKeyValue db k v ver).2.2.2, e.Quiet := by
  simp only [Node.setKeyValue, Node.tick, Node.applyChange, hs]
  cases hsv : db.setValue { key := k, value := v, version := ver, opId := n.clock, resolve := false } with
  | mk db' rest =>
    cases rest with
    | mk resp ps =>
      cases resp with
      | set k' v' => exact quiet_pushes ps
      | versionError k' ov vv old ch st => intro e he; cases he

theorem replicateRequest_quiet (n : Node) (req : Request) (d : Option Bytes) (r : Resp) :
    ∀ e ∈ (n.replicateRequest req d r).2.2, e.Quiet := by
  have core : ∀ e ∈ (Node.replicateRequestCore n req d r).2.2, e.Quiet := by
    unfold Node.replicateRequestCore
    cases req <;> simp [Node.replicateWeb, Node.tick, Ev.Quiet]
  unfold Node.replicateRequest
  split
  · intro e he; cases he
  · split
    · split
      · intro e he; cases he
      · exact core
    · exact core

/-- **a secondary that executes the envelope stays quiet**: one acknowledgement on the link it came
from, notifications to its own watchers, one line for its own loop — nothing for any member, nothing
for the supervisor -/
theorem secondary_envelope_is_quiet (T : Node) (link : Sid) (id : Nat) (d k v : Bytes) (ver : Int) (dbT : Db) (fuel : Nat)
    (hauth : (T.session link).auth = true) (hdb : T.db? d = some dbT) (hs : dbT.strategy = .none)
    (w : WireOk d k v) (hv : fitsI32 ver = true) (hid : id < u64Bound) :
    ∀ e ∈ (Node.processRequestWith (Node.recurOf (fuel + 1)) T link (rpLine id (replicateMsg d k v ver))).2.2, e.Quiet := by
  have hmsg59 := replicateMsg_last d k v ver 59 (by decide) w.val_semi
  have hmsg10 := replicateMsg_last d k v ver 10 (by decide) (last_ne_of_not_mem v 10 w.val_nl)
  rw [processRequestWith_of_parse _ _ _ _ _ (parse_trim_rpLine id _ hid (replicateMsg_ne_nil d k v ver) hmsg59 hmsg10)]
  have inner : ∀ e ∈ (Node.recurOf (fuel + 1) T link (replicateMsg d k v ver)).2.2, e.Quiet := by
    simp only [Node.recurOf]
    rw [processRequestWith_of_parse _ _ _ _ _ (parse_trim_replicateMsg d k v ver w hv)]
    simp only [Node.processObj, hauth, hdb, Bool.not_true, Bool.false_eq_true, if_false]
    have hq := setKeyValue_none_quiet T dbT k v ver hs
    generalize T.setKeyValue dbT k v ver = res at hq
    obtain ⟨n1, db1, r1, e1⟩ := res
    simp only [] at hq ⊢
    have hq2 := replicateRequest_quiet (n1.setDb db1) (Request.replicateSet d k v ver) (T.session link).db r1
    generalize Node.replicateRequest (n1.setDb db1) (Request.replicateSet d k v ver) (T.session link).db r1 = rr at hq2
    obtain ⟨n2, r2, e2⟩ := rr
    intro e he
    simp only [List.mem_append] at he
    rcases he with he | he
    · exact hq e he
    · exact hq2 e he
  have hnoenv : Bytes.startsWith (Bytes.trimBoth 10 (replicateMsg d k v ver)) b!"rp " = false := by
    rw [trimBoth_id 10 _ (by rw [replicateMsg_shape]; simp) hmsg10, replicateMsg_shape]
    simp [Bytes.startsWith]
  simp only [Node.processObj, hnoenv, Bool.false_eq_true, if_false]
  generalize Node.recurOf (fuel + 1) T link (replicateMsg d k v ver) = res at inner
  obtain ⟨n1, r1, e1⟩ := res
  simp only [] at inner ⊢
  have hq2 := replicateRequest_quiet n1 (Request.replicateRequest (replicateMsg d k v ver) id) (T.session link).db r1
  generalize Node.replicateRequest n1 (Request.replicateRequest (replicateMsg d k v ver) id) (T.session link).db r1 = rr at hq2
  obtain ⟨n2, r2, e2⟩ := rr
  intro e he
  simp only [List.mem_append, List.mem_cons] at he
  rcases he with (he | he) | he
  · rw [he]; trivial
  · exact inner e he
  · exact hq2 e he

/-- the loop's handling of the envelope of a replicated write on a node that holds the database: the
sending half runs with the oplog write done -/
theorem replStep_of_envelope (n : Node) (m : Meta) (id : Nat) (d k v : Bytes) (ver : Int) (db : Db)
    (hdb : n.db? d = some db) (w : WireOk d k v) (hv : fitsI32 ver = true) (hid : id < u64Bound) :
    (n.replStep m (rpLine id (replicateMsg d k v ver))).2.2 = (n.replSend true id (replicateMsg d k v ver)).2 := by
  have hmsg59 := replicateMsg_last d k v ver 59 (by decide) w.val_semi
  unfold Node.replStep
  rw [parse_rpLine id _ hid (replicateMsg_ne_nil d k v ver) hmsg59]
  simp only [parse_replicateMsg d k v ver w hv, hdb, Option.map_some]

/-- **the burst of one accepted client write, end to end** (databases without a conflict strategy).
The command itself puts ONE line on the primary's replication channel (nothing for a member,
nothing for the supervisor: `primary_set_emits`); the loop queues THAT line once for every connected
secondary and for nobody else; a secondary that executes it emits an acknowledgement on the link,
notifications to its own watchers and a line for its own loop, which its loop drops; the primary's
handling of an acknowledgement emits nothing.  No forward, one copy per secondary, one
acknowledgement per copy, then silence. -/
theorem C14_write_burst (recur : Node → Sid → Bytes → Node × Out) (P : Node) (m : Meta) (w : WReq) (dbP : Db)
    (hnP : NamesOk P) (hrole : P.role = .primary)
    (hacc : P.safeAccess w.sid w.key .write = .granted dbP) (hsP : dbP.strategy = .none)
    (hwire : WireOk dbP.name w.key w.value) (hv : fitsI32 w.ver = true) (hclock : P.clock + 1 < u64Bound)
    (hfresh : AL.get? P.pending (P.clock + 1) = none)
    (hok : ∃ k v, (dbP.setValue { key := w.key, value := w.value, version := w.ver, opId := P.clock, resolve := false }).2.1 = .set k v) :
    let P' := (primaryStep recur P w).1
    let env := rpLine (P.clock + 1) (replicateMsg dbP.name w.key w.value w.ver)
    -- the command: one envelope for the loop
    replLines (primaryStep recur P w).2.2 = [env] ∧
    -- the loop: one copy per connected secondary, each of them the envelope
    (memberSends (P'.replStep m env).2.2).map (·.1) =
        ((P.members.filter fun (name, mem) => mem.role = .secoundary && name != P.addr).filter (·.2.connected)).map (·.2.name) ∧
    (∀ p ∈ memberSends (P'.replStep m env).2.2, p.2 = env) ∧
    -- a secondary: quiet when it executes the envelope, silent when its loop handles what that left
    (∀ (T : Node) (link : Sid) (dbT : Db) (fuel : Nat), (T.session link).auth = true → T.db? dbP.name = some dbT → dbT.strategy = .none →
        ∀ e ∈ (Node.processRequestWith (Node.recurOf (fuel + 1)) T link env).2.2, e.Quiet) ∧
    (∀ (T : Node) (mT : Meta) (line : Bytes), T.role = .secoundary → memberSends (T.replStep mT line).2.2 = []) ∧
    -- the acknowledgement: silent
    (∀ (fuel : Node → Sid → Bytes → Node × Out) (n : Node) (s : Sid) (op : Nat) (server : Bytes),
        (n.processObj fuel s (.acknowledge op server)).2.2 = []) := by
  intro P' env
  have hP := (primary_set_emits recur P w.sid w.key w.value w.ver dbP hnP hrole hacc hsP).1 hok
  obtain ⟨hdbs, hlines, hr, hpend, hmem, haddr⟩ := hP
  have hdbs' : P'.dbs = AL.put P.dbs dbP.name (dbP.setValue { key := w.key, value := w.value, version := w.ver, opId := P.clock, resolve := false }).1 := hdbs
  have hfound : P'.db? dbP.name = some (dbP.setValue { key := w.key, value := w.value, version := w.ver, opId := P.clock, resolve := false }).1 := by
    show AL.get? P'.dbs dbP.name = _
    rw [hdbs']; simp
  have hstep := replStep_of_envelope P' m (P.clock + 1) dbP.name w.key w.value w.ver _ hfound hwire hv hclock
  have hrole' : P'.role = .primary := by
    have : P'.role = P.role := hr
    rw [this]; exact hrole
  have hpend' : PendOk P' (P.clock + 1) (replicateMsg dbP.name w.key w.value w.ver) := by
    intro p hp
    have : P'.pending = P.pending := hpend
    rw [this, hfresh] at hp; cases hp
  refine ⟨hlines, ?_, ?_, ?_, ?_, ?_⟩
  · rw [hstep, C04_fanout_reaches_every_secondary P' _ _ hrole']
    have h1 : P'.members = P.members := hmem
    have h2 : P'.addr = P.addr := haddr
    rw [h1, h2]
  · rw [hstep]; exact loop_copies_are_the_envelope P' _ _ hpend'
  · intro T link dbT fuel hauth hdbT hsT
    exact secondary_envelope_is_quiet T link (P.clock + 1) dbP.name w.key w.value w.ver dbT fuel hauth hdbT hsT hwire hv hclock
  · intro T mT line hT; exact C14_secondary_never_fans_out T mT line hT
  · intro fuel n s op server; exact C14_ack_is_silent fuel n s op server

/-! ### non-vacuity: a primary with one connected and one disconnected secondary -/

def c14P : Node :=
  { c04P with members := [(b!"n1", { name := b!"n1", role := .primary, connected := false }),
                          (b!"n2", { name := b!"n2", role := .secoundary, connected := true }),
                          (b!"n3", { name := b!"n3", role := .secoundary, connected := false })] }

/-- the hypotheses of `C14_write_burst` hold of a concrete state and the burst is what the theorem
says: one envelope, one copy (to `n2`, the connected secondary), which is that envelope -/
example :
    let w : WReq := ⟨1, b!"a", b!"two words", -1⟩
    let env := rpLine 6 (replicateMsg b!"t" b!"a" b!"two words" (-1))
    c14P.safeAccess 1 b!"a" .write = .granted (Db.new b!"t" 1 .none) ∧ AL.get? c14P.pending 6 = none ∧
    replLines (primaryStep (Node.recurOf 3) c14P w).2.2 = [env] ∧
    memberSends ((primaryStep (Node.recurOf 3) c14P w).1.replStep {} env).2.2 = [(b!"n2", env)] := by
  refine ⟨?_, ?_, ?_, ?_⟩ <;> rfl

end Nun
