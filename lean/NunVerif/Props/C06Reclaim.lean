import NunVerif.Proofs.DiskInvOps
/-!
# C06 — a space-reclaiming snapshot establishes `DiskInv` from any state

`RInv`: the loop invariant (keys still to visit are untouched and absent from the NEW files; every
other key is gone or clean with its record).  `C06_reclaim_inv`: afterwards memory and the new files
are linked, every entry is clean, tombstones are gone, the live data is unchanged.
-/
namespace Nun

/-- the invariant of the loop of a space-reclaiming snapshot: the keys still to visit are untouched and have no record in the NEW files;
every other key is either gone or clean with its record -/
structure RInv (name : Bytes) (m : KV) (fs : Fs) (rs : List KRec) (vs : List Bytes) (pending : List (Bytes × Entry)) : Prop where
  files : FilesOk name fs rs vs
  own : ∀ r ∈ rs, r.bkey = r.key
  pend : ∀ p ∈ pending, AL.get? m p.1 = some p.2 ∧ offOf rs p.1 = none
  done : ∀ k, k ∉ pending.map (·.1) → ∀ e, AL.get? m k = some e →
    e.state = .ok ∧ offOf rs k = some e.kaddr ∧ ∃ r, getRec rs k = some r ∧ r.ver = e.version ∧ r.v = e.value
  known : ∀ k, offOf rs k ≠ none → ∃ e, AL.get? m k = some e

theorem snapKey_reclaim_step (name : Bytes) (s : SnapSt) (rs : List KRec) (vs : List Bytes) (k : Bytes) (e : Entry) (t : List (Bytes × Entry))
    (hnd : (((k, e) :: t).map (·.1)).Nodup)
    (hinv : RInv name s.db.map s.fs rs vs ((k, e) :: t)) (hva : s.vaddr = (encVals vs).length) (hka : s.kaddr = (encRecs rs).length)
    (hge : GoodEntry k e) (hfit : s.vaddr < 18446744073709551616) :
    ∃ rs' vs', RInv name (snapKey true name s k e).db.map (snapKey true name s k e).fs rs' vs' t ∧
      (snapKey true name s k e).vaddr = (encVals vs').length ∧ (snapKey true name s k e).kaddr = (encRecs rs').length ∧
      (encVals vs').length ≤ (encVals vs).length + (8 + e.value.length + 4) ∧
      (∀ k', liveView (snapKey true name s k e).db.map k' = liveView s.db.map k') := by
  simp only [List.map_cons, List.nodup_cons] at hnd
  obtain ⟨hget, hoff⟩ := hinv.pend (k, e) List.mem_cons_self
  have hnotin : k ∉ rs.map (·.key) := (offOf_none_iff rs k).1 hoff
  have hpend_t : ∀ p ∈ t, p.1 ≠ k := fun p hp h => hnd.1 (List.mem_map.2 ⟨p, hp, h⟩)
  by_cases hd : e.state = .deleted
  · -- a tombstone is not copied; it leaves memory too
    have hs' : snapKey true name s k e = { s with db := { s.db with map := AL.erase s.db.map k } } := by
      simp [snapKey, hd, Db.getValue, hget]
    rw [hs']
    refine ⟨rs, vs, ?_, hva, hka, by omega, ?_⟩
    · exact {
        files := hinv.files
        own := hinv.own
        pend := by
          intro p hp
          obtain ⟨h1, h2⟩ := hinv.pend p (List.mem_cons_of_mem _ hp)
          exact ⟨by rw [AL.get?_erase_other _ (Ne.symm (hpend_t p hp))]; exact h1, h2⟩
        done := by
          intro k' hk' e' hg'
          by_cases hkk : k' = k
          · subst hkk; rw [AL.get?_erase_same] at hg'; cases hg'
          · rw [AL.get?_erase_other _ (Ne.symm hkk)] at hg'
            exact hinv.done k' (by simp only [List.map_cons, List.mem_cons, not_or]; exact ⟨hkk, hk'⟩) e' hg'
        known := by
          intro k' ho
          have hkk : k' ≠ k := by intro h; subst h; exact ho hoff
          obtain ⟨e', he'⟩ := hinv.known k' ho
          exact ⟨e', by rw [AL.get?_erase_other _ (Ne.symm hkk)]; exact he'⟩ }
    · intro k'
      by_cases hkk : k' = k
      · subst hkk; simp [liveView, hget, hd]
      · simp only [liveView]; rw [AL.get?_erase_other _ (Ne.symm hkk)]
  · -- every other entry is appended to the new files
    have hs' : snapKey true name s k e =
        { db := s.db.setValueVersion k e.value e.version .ok s.vaddr s.kaddr s.clock,
          fs := (s.fs.append (valuesFile name) (encValue e.value)).append (keysFile name) (encKey k e.version s.vaddr),
          vaddr := s.vaddr + (8 + e.value.length + 4), kaddr := s.kaddr + keyRecSize k.length, clock := s.clock + 1 } := by
      cases hst : e.state <;> simp_all [snapKey]
    rw [hs']
    have hkf : ((s.fs.append (valuesFile name) (encValue e.value)).append (keysFile name) (encKey k e.version s.vaddr)).read (keysFile name)
        = some (encRecs (rs ++ [⟨k, k, e.version, s.vaddr, e.value⟩])) := by
      rw [read_append_same, read_append_other _ _ _ _ (keys_ne_values name).symm, hinv.files.keys, encRecs_snoc]; rfl
    have hvf : ((s.fs.append (valuesFile name) (encValue e.value)).append (keysFile name) (encKey k e.version s.vaddr)).read (valuesFile name)
        = some (encVals (vs ++ [e.value])) := by
      rw [read_append_other _ _ _ _ (keys_ne_values name), read_append_same, hinv.files.values, encVals_snoc]; rfl
    have hnewrec : GoodRec (encVals (vs ++ [e.value])) ⟨k, k, e.version, s.vaddr, e.value⟩ :=
      { klen := hge.klen, kutf := hge.kutf, verLo := hge.verLo, verHi := hge.verHi, vaFit := hfit, vlen := hge.vlen, vutf := hge.vutf,
        val := ⟨encVals vs, [], by rw [encVals_snoc]; simp, hva.symm⟩ }
    have hoff_other : ∀ k', k' ≠ k → offOf (rs ++ [⟨k, k, e.version, s.vaddr, e.value⟩]) k' = offOf rs k' := by
      intro k' hk'
      by_cases hm : k' ∈ rs.map (·.key)
      · exact offOf_append_mem rs _ k' hm
      · rw [(offOf_none_iff rs k').2 hm, offOf_none_iff]
        simp only [List.map_append, List.map_cons, List.map_nil, List.mem_append, List.mem_singleton, not_or]
        exact ⟨hm, hk'⟩
    have hrec_other : ∀ k', k' ≠ k → getRec (rs ++ [⟨k, k, e.version, s.vaddr, e.value⟩]) k' = getRec rs k' := by
      intro k' hk'
      unfold getRec
      rw [List.find?_append]
      simp only [List.find?_cons, List.find?_nil]
      have : ¬ k = k' := fun h => hk' h.symm
      simp [this]
    refine ⟨rs ++ [⟨k, k, e.version, s.vaddr, e.value⟩], vs ++ [e.value], ?_, ?_, ?_, ?_, ?_⟩
    · exact {
        files := {
          keys := hkf
          values := hvf
          nodup := by
            rw [List.map_append, List.nodup_append]
            refine ⟨hinv.files.nodup, by simp, ?_⟩
            intro a ha b hb; simp at hb; subst hb; intro hab; subst hab; exact hnotin ha
          good := by
            intro r hr
            rcases List.mem_append.1 hr with h | h
            · rw [encVals_snoc]; exact goodRec_append _ _ _ (hinv.files.good r h)
            · simp at h; subst h; exact hnewrec
          goodVals := by
            intro v hv
            rcases List.mem_append.1 hv with h | h
            · exact hinv.files.goodVals v h
            · simp at h; subst h; exact ⟨hge.vlen, hge.vutf⟩
          bk := by
            intro r hr
            rcases List.mem_append.1 hr with h | h
            · exact hinv.files.bk r h
            · simp at h; subst h; exact Or.inl rfl }
        own := by
          intro r hr
          rcases List.mem_append.1 hr with h | h
          · exact hinv.own r h
          · simp at h; subst h; rfl
        pend := by
          intro p hp
          obtain ⟨h1, h2⟩ := hinv.pend p (List.mem_cons_of_mem _ hp)
          have hne := hpend_t p hp
          exact ⟨by simp only [Db.setValueVersion]; rw [AL.get?_put_other _ _ (Ne.symm hne)]; exact h1, by rw [hoff_other p.1 hne]; exact h2⟩
        done := by
          intro k' hk' e' hg'
          by_cases hkk : k' = k
          · subst hkk
            simp only [Db.setValueVersion, AL.get?_put_same, Option.some.injEq] at hg'
            subst hg'
            refine ⟨rfl, ?_, _, getRec_append_new rs ⟨k', k', e.version, s.vaddr, e.value⟩ hnotin, rfl, rfl⟩
            simp only []
            rw [hka]; exact offOf_append_new rs ⟨k', k', e.version, s.vaddr, e.value⟩ hnotin
          · simp only [Db.setValueVersion] at hg'
            rw [AL.get?_put_other _ _ (Ne.symm hkk)] at hg'
            rw [hoff_other k' hkk, hrec_other k' hkk]
            exact hinv.done k' (by simp only [List.map_cons, List.mem_cons, not_or]; exact ⟨hkk, hk'⟩) e' hg'
        known := by
          intro k' ho
          by_cases hkk : k' = k
          · subst hkk; exact ⟨_, by simp only [Db.setValueVersion]; exact AL.get?_put_same _ _ _⟩
          · rw [hoff_other k' hkk] at ho
            obtain ⟨e', he'⟩ := hinv.known k' ho
            exact ⟨e', by simp only [Db.setValueVersion]; rw [AL.get?_put_other _ _ (Ne.symm hkk)]; exact he'⟩ }
    · show s.vaddr + (8 + e.value.length + 4) = _
      rw [encVals_snoc, List.length_append, C06_value_record_size, hva]
    · show s.kaddr + keyRecSize k.length = _
      rw [encRecs_snoc, List.length_append, KRec.enc_length, hka]
    · rw [encVals_snoc, List.length_append, C06_value_record_size]; exact Nat.le_refl _
    · intro k'
      by_cases hkk : k' = k
      · subst hkk; simp [liveView, Db.setValueVersion, hget, hd]
      · simp only [liveView, Db.setValueVersion]; rw [AL.get?_put_other _ _ (Ne.symm hkk)]

theorem reclaimFold (name : Bytes) (l : List (Bytes × Entry)) : ∀ (s : SnapSt) (rs : List KRec) (vs : List Bytes),
    (l.map (·.1)).Nodup → RInv name s.db.map s.fs rs vs l → s.vaddr = (encVals vs).length → s.kaddr = (encRecs rs).length →
    (∀ p ∈ l, GoodEntry p.1 p.2) → (encVals vs).length + growth l < 18446744073709551616 →
    ∃ rs' vs', let s' := l.foldl (fun s (p : Bytes × Entry) => snapKey true name s p.1 p.2) s
      RInv name s'.db.map s'.fs rs' vs' [] ∧ (∀ k, liveView s'.db.map k = liveView s.db.map k) := by
  induction l with
  | nil => intro s rs vs _ h _ _ _ _; exact ⟨rs, vs, h, fun _ => rfl⟩
  | cons p t ih =>
    obtain ⟨k, e⟩ := p
    intro s rs vs hnd hinv hva hka hg hfit
    simp only [growth] at hfit
    obtain ⟨rs1, vs1, h1, h2, h3, h4, h5⟩ := snapKey_reclaim_step name s rs vs k e t hnd hinv hva hka (hg (k, e) List.mem_cons_self)
      (by rw [hva]; omega)
    simp only [List.map_cons, List.nodup_cons] at hnd
    obtain ⟨rs2, vs2, g1, g2⟩ := ih (snapKey true name s k e) rs1 vs1 hnd.2 h1 h2 h3 (fun p hp => hg p (List.mem_cons_of_mem _ hp)) (by omega)
    exact ⟨rs2, vs2, by simpa using g1, fun k' => by simp only [List.foldl_cons]; rw [g2, h5]⟩

/-- **a space-reclaiming snapshot establishes the invariant** from ANY previous state of memory and disk:
afterwards every entry is clean and linked to its record in the new files, tombstones are gone -/
theorem C06_reclaim_inv (db : Db) (fs : Fs) (order : List Bytes) (clock : Nat)
    (hn : AL.NoDupKeys db.map) (hgood : ∀ k e, AL.get? db.map k = some e → GoodEntry k e)
    (hfit : growth db.map < 18446744073709551616) :
    ∃ rs vs, DiskInv db.name (snapshotDb db fs true order clock).1.map (snapshotDb db fs true order clock).2.1 rs vs ∧
      (∀ k, CleanKey (snapshotDb db fs true order clock).1.map rs k) ∧
      (∀ k, liveView (snapshotDb db fs true order clock).1.map k = liveView db.map k) := by
  obtain ⟨htnd, htmem⟩ := snapOrder_reclaim_spec db order hn
  have hlam : (fun (s : SnapSt) (x : Bytes × Entry) => match x with | (k, e) => snapKey true db.name s k e)
      = fun s p => snapKey true db.name s p.1 p.2 := by funext s x; obtain ⟨k, e⟩ := x; rfl
  have hsnap : snapshotDb db fs true order clock =
      (((snapOrder db true order).foldl (fun s (p : Bytes × Entry) => snapKey true db.name s p.1 p.2)
          ({ db := db, fs := freshFile (freshFile fs (keysFile db.name)) (valuesFile db.name),
             vaddr := (freshFile (freshFile fs (keysFile db.name)) (valuesFile db.name)).size (valuesFile db.name),
             kaddr := (freshFile (freshFile fs (keysFile db.name)) (valuesFile db.name)).size (keysFile db.name), clock := clock } : SnapSt)).db,
       ((snapOrder db true order).foldl (fun s (p : Bytes × Entry) => snapKey true db.name s p.1 p.2)
          ({ db := db, fs := freshFile (freshFile fs (keysFile db.name)) (valuesFile db.name),
             vaddr := (freshFile (freshFile fs (keysFile db.name)) (valuesFile db.name)).size (valuesFile db.name),
             kaddr := (freshFile (freshFile fs (keysFile db.name)) (valuesFile db.name)).size (keysFile db.name), clock := clock } : SnapSt)).fs.writeMeta db,
       ((snapOrder db true order).foldl (fun s (p : Bytes × Entry) => snapKey true db.name s p.1 p.2)
          ({ db := db, fs := freshFile (freshFile fs (keysFile db.name)) (valuesFile db.name),
             vaddr := (freshFile (freshFile fs (keysFile db.name)) (valuesFile db.name)).size (valuesFile db.name),
             kaddr := (freshFile (freshFile fs (keysFile db.name)) (valuesFile db.name)).size (keysFile db.name), clock := clock } : SnapSt)).clock) := by
    rw [← hlam]; rfl
  rw [hsnap]
  simp only []
  have hk0 : (freshFile (freshFile fs (keysFile db.name)) (valuesFile db.name)).read (keysFile db.name) = some [] := by
    rw [freshFile_other _ _ _ (keys_ne_values db.name).symm, freshFile_same]
  have hv0 : (freshFile (freshFile fs (keysFile db.name)) (valuesFile db.name)).read (valuesFile db.name) = some [] := freshFile_same _ _
  have hinit : RInv db.name db.map (freshFile (freshFile fs (keysFile db.name)) (valuesFile db.name)) [] [] (snapOrder db true order) :=
    { files := {
        keys := hk0
        values := hv0
        nodup := by simp
        good := by intro r hr; cases hr
        goodVals := by intro v hv; cases hv
        bk := by intro r hr; cases hr }
      own := by intro r hr; cases hr
      pend := by
        intro p hp
        obtain ⟨k, e⟩ := p
        exact ⟨(AL.mem_iff_get?_of_noDup db.map k e hn).1 ((htmem (k, e)).1 hp), rfl⟩
      done := by
        intro k hk e hg
        exact absurd (List.mem_map.2 ⟨(k, e), (htmem (k, e)).2 (AL.mem_of_get? db.map k e hg), rfl⟩) hk
      known := by intro k ho; exact absurd rfl ho }
  have hgrow : (encVals ([] : List Bytes)).length + growth (snapOrder db true order) < 18446744073709551616 := by
    have h1 : growth (snapOrder db true order) = growth db.map := by
      unfold snapOrder
      have hf' : (db.map.filter fun (x : Bytes × Entry) => match x with | (_, e) => e.state != .ok || true) = db.map := by
        apply List.filter_eq_self.2; intro a _; obtain ⟨_, _⟩ := a; simp
      rw [hf', growth_sort]
    simp [encVals, h1]; exact hfit
  obtain ⟨rs, vs, h1, h2⟩ := reclaimFold db.name (snapOrder db true order)
    ({ db := db, fs := freshFile (freshFile fs (keysFile db.name)) (valuesFile db.name),
       vaddr := (freshFile (freshFile fs (keysFile db.name)) (valuesFile db.name)).size (valuesFile db.name),
       kaddr := (freshFile (freshFile fs (keysFile db.name)) (valuesFile db.name)).size (keysFile db.name), clock := clock } : SnapSt) [] []
    htnd hinit (by simp [Fs.size, hv0, encVals]) (by simp [Fs.size, hk0, encRecs])
    (by intro p hp; obtain ⟨k, e⟩ := p; exact hgood k e ((AL.mem_iff_get?_of_noDup db.map k e hn).1 ((htmem (k, e)).1 hp))) hgrow
  simp only [] at h1 h2
  generalize ((snapOrder db true order).foldl (fun s (p : Bytes × Entry) => snapKey true db.name s p.1 p.2)
      ({ db := db, fs := freshFile (freshFile fs (keysFile db.name)) (valuesFile db.name),
         vaddr := (freshFile (freshFile fs (keysFile db.name)) (valuesFile db.name)).size (valuesFile db.name),
         kaddr := (freshFile (freshFile fs (keysFile db.name)) (valuesFile db.name)).size (keysFile db.name), clock := clock } : SnapSt)) = S at h1 h2 ⊢
  have hdone := fun k e hg => h1.done k (by simp) e hg
  refine ⟨rs, vs, ?_, ?_, h2⟩
  · exact {
      keys := by rw [read_writeMeta_other _ _ _ (keys_ne_meta db.name)]; exact h1.files.keys
      values := by rw [read_writeMeta_other _ _ _ (values_ne_meta db.name)]; exact h1.files.values
      nodup := h1.files.nodup
      good := h1.files.good
      goodVals := h1.files.goodVals
      fresh := by intro k e hg hs; rw [(hdone k e hg).1] at hs; cases hs
      stored := by intro k e hg _; exact ⟨(hdone k e hg).2.1, fun _ => (hdone k e hg).2.2⟩
      known := by
        intro k ho _
        obtain ⟨e, he⟩ := h1.known k ho
        exact ⟨e, he, by rw [(hdone k e he).1]; decide⟩
      bk := h1.files.bk }
  · intro k e hg
    exact Or.inl ⟨(hdone k e hg).1, (hdone k e hg).2.2⟩

end Nun
