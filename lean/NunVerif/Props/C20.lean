import NunVerif.Model.Session
import NunVerif.Proofs.AL
import NunVerif.Props.C17
/-!
# C20 — HTTP replies line up, entry by entry, with the commands that caused them

`httpLoop` / `Node.http` (Model/Session.lean) model `http_ops::process_commands` over the `;`-split
body. All theorems hold for every body, every node state and every session id.
-/
namespace Nun

/-- the non-blank statements of a body, trimmed — the commands the request runs -/
def httpCommands (stmts : List Bytes) : List Bytes := (stmts.map Bytes.trimWs).filter (· != [])

/-- running commands one after the other on an ordinary session -/
def runCommands (sid : Sid) : List Bytes → Node → Node
  | [], n => n
  | c :: cs, n => runCommands sid cs (n.exec sid c).1

/-- entry `i` by the property's own definition: command `i`, executed in the state the earlier
commands left, answers with its error text, else the first line it pushed itself, else `empty` -/
def entriesSpec (sid : Sid) : List Bytes → Node → List Bytes
  | [], _ => []
  | c :: cs, n => httpEntry sid (n.exec sid c).2.1 (n.exec sid c).2.2 :: entriesSpec sid cs (n.exec sid c).1

theorem httpLoop_spec (sid : Sid) (stmts : List Bytes) :
    ∀ (n : Node) (resps : List Bytes) (evs : List Ev),
      (httpLoop sid stmts n resps evs).1 = runCommands sid (httpCommands stmts) n ∧
      (httpLoop sid stmts n resps evs).2.1 = resps ++ entriesSpec sid (httpCommands stmts) n := by
  induction stmts with
  | nil => intro n resps evs; simp [httpLoop, httpCommands, runCommands, entriesSpec]
  | cons s rest ih =>
    intro n resps evs
    unfold httpLoop
    by_cases hb : Bytes.trimWs s = []
    · simp only [hb, if_true]
      have : httpCommands (s :: rest) = httpCommands rest := by simp [httpCommands, hb]
      rw [this]; exact ih n resps evs
    · simp only [hb, if_false]
      have hc : httpCommands (s :: rest) = Bytes.trimWs s :: httpCommands rest := by
        simp [httpCommands, hb]
      rw [hc]
      cases hx : n.exec sid (Bytes.trimWs s) with
      | mk n' out =>
        obtain ⟨r, es⟩ := out
        simp only []
        obtain ⟨h1, h2⟩ := ih n' (resps ++ [httpEntry sid r es]) (evs ++ es.filter (evNotForSid sid))
        simp only [runCommands, entriesSpec, hx]
        exact ⟨h1, by rw [h2]; simp⟩

/-- **Executed once each, in order**: the node state after the statements of an HTTP body is the
state after running its non-blank statements one by one on an ordinary session. -/
theorem C20_executed_once_in_order (sid : Sid) (stmts : List Bytes) (n : Node) :
    (httpLoop sid stmts n [] []).1 = runCommands sid (httpCommands stmts) n :=
  (httpLoop_spec sid stmts n [] []).1

/-- **One entry per command, each produced by its own command**: the reply entries are exactly
`entriesSpec` — entry `i` depends only on command `i` and the state it ran in, never on lines an
earlier (refused or accepted) command left queued. Blank statements (empty or white space only)
and a trailing `;` contribute no entry. -/
theorem C20_aligned (sid : Sid) (stmts : List Bytes) (n : Node) :
    (httpLoop sid stmts n [] []).2.1 = entriesSpec sid (httpCommands stmts) n := by
  have := (httpLoop_spec sid stmts n [] []).2
  simpa using this

theorem entriesSpec_length (sid : Sid) (cs : List Bytes) : ∀ n, (entriesSpec sid cs n).length = cs.length := by
  induction cs with
  | nil => intro n; rfl
  | cons c cs ih => intro n; simp [entriesSpec, ih]

/-- the number of entries is the number of non-blank statements -/
theorem C20_entry_count (sid : Sid) (stmts : List Bytes) (n : Node) :
    (httpLoop sid stmts n [] []).2.1.length = (httpCommands stmts).length := by
  rw [C20_aligned, entriesSpec_length]

/-- when the request ends its session is gone (its sender is dropped with it) -/
theorem C20_session_released (n : Node) (sid : Sid) (body : Bytes) :
    AL.get? (n.http sid body).1.sessions sid = none := by
  unfold Node.http
  simp only []
  exact C17_close_removes_session _ sid

/-- `unwatch-all` leaves no registration of the session in any watcher list of the database -/
theorem unwatch_removes (db : Db) (k : Bytes) (sid : Sid) (k' : Bytes) (ss : List Sid)
    (h : AL.get? (db.unwatch k sid).watchers k' = some ss) :
    (k' = k → sid ∉ ss) ∧ (k' ≠ k → AL.get? db.watchers k' = some ss) := by
  unfold Db.unwatch at h
  simp only [AL.get?_put] at h
  constructor
  · intro hk
    subst hk
    simp only [if_true, Option.some.injEq] at h
    rw [← h]; simp
  · intro hk
    have : ¬ k = k' := fun e => hk e.symm
    simpa [this] using h

/-- non-vacuity / regression witness of the fixed defect: `get k; auth u p` with no database
selected — the second entry is the auth reply, not the stale `no-db-selected` line -/
example :
    let n : Node := { user := [117], pwd := [112], addr := [110], pid := 1, role := .primary, dbs := [], idName := [],
                      sessions := [], clock := 0, members := [], pending := [], toSnapshot := [], keysMap := [], oplogValid := true }
    (httpLoop 7 [[103, 101, 116, 32, 107], [32, 97, 117, 116, 104, 32, 117, 32, 112]] n [] []).2.1
      = [Gen.noDbSelectedMsg, [118, 97, 108, 105, 100, 32, 97, 117, 116, 104, 10]] := by
  decide

end Nun
