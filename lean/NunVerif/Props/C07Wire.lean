import NunVerif.Proofs.WireParse
import NunVerif.Props.C04Format
import NunVerif.Props.C07
/-!
# C07 — the lines of an election read back as what they were printed from

`election candidate <process id> <node>` carries the age comparison the whole election rests on: the
receiver must read the SAME process id (a `u128`) and the same node name the candidate printed.  Likewise
`set-primary <node>` / `set-secoundary <node>`, the role announcements.  Proved for every process id below
2^128 and every node name without blanks or line feeds.
-/
namespace Nun
open Bytes

theorem parseU128_ofNat (n : Nat) (h : n < u128Bound) : parseU128 (ofNat n) = some n := by
  obtain ⟨x, r, hx, hd⟩ := ofNat_head_digit n
  have hx43 : x ≠ 43 := by intro e; rw [e] at hd; simp [isDigit] at hd
  unfold parseU128
  rw [hx, parseUnsigned_digit _ _ _ hx43, ← hx, parseNat_ofNat]; simp [h]

def candidateLine (pid : Nat) (name : Bytes) : Bytes := b!"election candidate " ++ Bytes.ofNat pid ++ [32] ++ name

/-- **the candidacy reads back**: same process id, same node -/
theorem parse_candidateLine (pid : Nat) (name : Bytes) (hp : pid < u128Bound) (hnl : 10 ∉ name) (hsemi : name.getLast? ≠ some 59) (hne : name ≠ []) :
    Request.parse (candidateLine pid name) = .ok (.election pid name) := by
  unfold Request.parse
  have hshape : candidateLine pid name = b!"election" ++ 32 :: (b!"candidate" ++ 32 :: (Bytes.ofNat pid ++ 32 :: name)) := by simp [candidateLine]
  have hlast : (candidateLine pid name).getLast? ≠ some 59 := by
    rw [hshape, getLast?_sep, if_neg (by simp), getLast?_sep, if_neg (by simp), getLast?_sep, if_neg hne]
    exact hsemi
  rw [trimEnd_id 59 _ hlast, hshape]
  rw [splitn_cons 32 1 _ _ (by decide), splitn_cons 32 0 _ _ (by decide)]
  simp only [splitn]
  have hcmd : (b!"election" = ([] : Bytes)) = False := by simp
  simp only [hcmd, if_false]
  unfold parseArgs
  simp only [List.getElem?_cons_zero, List.getElem?_cons_succ, Option.getD_some]
  have h2 : splitn 32 2 (Bytes.ofNat pid ++ 32 :: name) = [Bytes.ofNat pid, name] := by
    rw [splitn_cons 32 0 _ _ (ofNat_not_mem pid 32 (by decide))]; simp [splitn]
  simp (decide := true) only [h2, List.getElem?_cons_zero, List.getElem?_cons_succ, Option.getD_some, Option.bind_some, if_false, if_true,
    parseU128_ofNat pid hp, noNl, dropByte_id 10 name hnl]

/-- what a node prints when it campaigns is the candidacy line of its own process id and address -/
theorem replicateRequestCore_election (n : Node) (pid : Nat) (name : Bytes) (sel : Option Bytes) (r : Resp) :
    n.replicateRequestCore (.election pid name) sel r =
      ((n.replicateWeb (candidateLine pid name)).1, .ok, (n.replicateWeb (candidateLine pid name)).2) := by
  unfold Node.replicateRequestCore candidateLine
  simp only []

/-- the role announcements read back with the node they name -/
theorem parse_setPrimaryLine (name : Bytes) (hsp : 32 ∉ name) (hnl : 10 ∉ name) (hsemi : name.getLast? ≠ some 59) (hne : name ≠ []) :
    Request.parse (b!"set-primary " ++ name) = .ok (.setPrimary name) := by
  unfold Request.parse
  have hshape : b!"set-primary " ++ name = b!"set-primary" ++ 32 :: name := by simp
  have hlast : (b!"set-primary " ++ name).getLast? ≠ some 59 := by
    rw [hshape, getLast?_sep, if_neg hne]; exact hsemi
  rw [trimEnd_id 59 _ hlast, hshape]
  rw [splitn_cons 32 1 _ _ (by decide), splitn_last 32 0 name hsp]
  have hcmd : (b!"set-primary" = ([] : Bytes)) = False := by simp
  simp only [hcmd, if_false]
  unfold parseArgs
  simp (decide := true) only [List.getElem?_cons_zero, List.getElem?_cons_succ, Option.getD_some, if_false, if_true, noNl, dropByte_id 10 name hnl]

theorem parse_setSecoundaryLine (name : Bytes) (hsp : 32 ∉ name) (hnl : 10 ∉ name) (hsemi : name.getLast? ≠ some 59) (hne : name ≠ []) :
    Request.parse (b!"set-secoundary " ++ name) = .ok (.setSecoundary name) := by
  unfold Request.parse
  have hshape : b!"set-secoundary " ++ name = b!"set-secoundary" ++ 32 :: name := by simp
  have hlast : (b!"set-secoundary " ++ name).getLast? ≠ some 59 := by
    rw [hshape, getLast?_sep, if_neg hne]; exact hsemi
  rw [trimEnd_id 59 _ hlast, hshape]
  rw [splitn_cons 32 1 _ _ (by decide), splitn_last 32 0 name hsp]
  have hcmd : (b!"set-secoundary" = ([] : Bytes)) = False := by simp
  simp only [hcmd, if_false]
  unfold parseArgs
  simp (decide := true) only [List.getElem?_cons_zero, List.getElem?_cons_succ, Option.getD_some, if_false, if_true, noNl, dropByte_id 10 name hnl]

/-! ### the candidacy line is the line the source prints (`Gen/Wire.lean`, interpreted) -/

theorem C07_candidate_line_is_generated (pid : Nat) (name : Bytes) :
    armFmt 2 [Bytes.ofNat pid, name] = some (candidateLine pid name) := by
  unfold armFmt; rw [C04_wire_arm_formats]; simp [fmtWith, candidateLine]

end Nun
