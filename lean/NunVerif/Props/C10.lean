import NunVerif.Model.Session
import NunVerif.Gen.PanicSites
/-!
# C10 — no client input can crash a handler or wedge the node

The model of the request path (`Request.parse`, `Node.processObj`, `Node.replicateRequest`,
`Node.processRequest`, `Node.close`, `Node.http`) is a set of total Lean functions with no panic
outcome: Lean's termination checker accepted them (structural recursion, `rp` nesting on fuel), so
every byte string gets a reply and a successor state in the model. What ties that to the code:

* the inventory below — every syntactic panic site (`unwrap`, `expect`, `panic!`, `unreachable!`,
  lock acquisitions excluded) in the functions of the request path, regenerated from the source on
  every run — is exactly the justified one (a new `unwrap` breaks this theorem);
* the fuzz correspondence (checks/c10.py): the real `process_request` runs under `catch_unwind`
  on the same lines as the model; an unwinding handler or a poisoned lock is a disagreement.
-/
namespace Nun

/-- Justification of each remaining site:
* `bo.rs::add_database::unwrap()` — `dbs.get(ADMIN_DB)`: the admin database is inserted by `Databases::new` and never removed;
* `bo.rs::from::unreachable!` — `ClusterRole::from(usize)`: only 0,1,2 are ever stored in `node_state`;
* `bo.rs::next_op_log_id::expect`, `db_ops.rs::create_init_dbs::expect` — system clock before 1970;
* `bo.rs::promote_member::unwrap()` — supervisor path, guarded by `has_cluster_memeber`; not reachable from a client line;
* `consensus_ops.rs::{apply_resolution, has_pendding_conflict, register_arbiter}::unwrap()` — `get_value` of a key just returned by `list_keys` (sequentially always present; a concurrent remove is C03's interleaving matter);
* `election_ops.rs::start_election::unwrap()` — guarded by `opp.is_some()`;
* `process_request.rs::process_request_obj::unwrap()` ×2 — `missing_dbs.last()` in the arm `1 =>` (exactly one element); `try_send` of the `rp` ack on a fresh clone of the sender (never full);
* `replication_ops.rs::replicate_request::expect` ×6 — selected database of a data command that did not answer an error (the guard layer returns an error without a selection; `snapshot` only when no names were given);
* `security.rs::apply_to_database_name_if_has_permission::unwrap()` — `key.unwrap()` behind `key == None ||`. -/
theorem C10_panic_sites_justified : Gen.panicSites = [
    (b!"bo.rs::add_database::unwrap()", 1),
    (b!"bo.rs::from::unreachable!", 1),
    (b!"bo.rs::next_op_log_id::expect", 1),
    (b!"bo.rs::promote_member::unwrap()", 1),
    (b!"consensus_ops.rs::apply_resolution::unwrap()", 1),
    (b!"consensus_ops.rs::has_pendding_conflict::unwrap()", 1),
    (b!"consensus_ops.rs::register_arbiter::unwrap()", 1),
    (b!"db_ops.rs::create_init_dbs::expect", 1),
    (b!"election_ops.rs::start_election::unwrap()", 1),
    (b!"process_request.rs::process_request_obj::unwrap()", 2),
    (b!"replication_ops.rs::replicate_request::expect", 6),
    (b!"security.rs::apply_to_database_name_if_has_permission::unwrap()", 1)] := by
  decide

/-- The `replicate_request` `expect`s are unreachable in the model's terms: a data command that
did not answer an error had a database selected when the line started. -/
theorem C10_replicate_needs_selection (fuel : Node → Sid → Bytes → Node × Out) (n : Node) (sid : Sid) (req : Request) (key : Bytes)
    (hreq : req = .get key ∨ req = .getSafe key ∨ req = .remove key ∨ req = .watch key ∨
            (∃ v ver, req = .set key v ver) ∨ (∃ i, req = .increment key i))
    (hd : (n.session sid).db = none) : (n.processObj fuel sid req).2.1.isError = true := by
  have hsa : ∀ kind, ∃ out : Out, n.safeAccess sid key kind = .refused out ∧ out.1.isError = true := by
    intro kind
    unfold Node.safeAccess
    by_cases hs : (Bytes.startsWith key Gen.securePrefix && !(n.session sid).auth) = true
    · exact ⟨(.error b!"To read security keys you must auth as an admin!", []), by simp [hs], by simp [Resp.isError]⟩
    · exact ⟨noDbSelected sid, by simp [hs, hd], by simp [noDbSelected, Resp.isError]⟩
  rcases hreq with rfl | rfl | rfl | rfl | ⟨v, ver, rfl⟩ | ⟨i, rfl⟩
  · obtain ⟨out, h, h1⟩ := hsa .read; simp only [Node.processObj, h, Node.withAccess]; exact h1
  · obtain ⟨out, h, h1⟩ := hsa .read; simp only [Node.processObj, h, Node.withAccess]; exact h1
  · obtain ⟨out, h, h1⟩ := hsa .remove; simp only [Node.processObj, h, Node.withAccess]; exact h1
  · obtain ⟨out, h, h1⟩ := hsa .read; simp only [Node.processObj, h, Node.withAccess]; exact h1
  · obtain ⟨out, h, h1⟩ := hsa .write; simp only [Node.processObj, h, Node.withAccess]; exact h1
  · obtain ⟨out, h, h1⟩ := hsa .increment; simp only [Node.processObj, h, Node.withAccess]; exact h1

end Nun
