import NunVerif.Gen.DiskRec
import NunVerif.Props.C06
/-!
# C06 / C11 — the key record and the value record of the data files, from the source

`Model/Disk.lean` writes `encKey` / `encValue` and reads them back in `loadLoop`; the byte-level
theorems of C06 (`C06RoundTrip`, `C06Incremental`, `C06Reclaim`, `DiskInv`) are about those
definitions.  This file derives them from the code: what `write_key` and `write_value` write, in
which order and how wide, is REGENERATED from `storage/disk.rs` on every run (`Gen/DiskRec.lean`)
and interpreted by a generic field-by-field writer, which is proved to produce exactly `encKey` /
`encValue` for every key, value, version and address; the size formula, the status code every call
of `write_value` passes, the offsets `update_key` patches inside a stored record, and the order in
which the loader reads the fields back into which buffers are pinned against the model's.
-/
namespace Nun

inductive Field
  | u (n : Nat)      -- usize / u64: 8 bytes little-endian
  | i (v : Int)      -- i32: 4 bytes two's complement little-endian
  | raw (b : Bytes)  -- the bytes of a text

/-- a record written field by field as a layout table says -/
def encLayout : List (Bytes × Nat) → (Bytes → Option Field) → Option Bytes
  | [], _ => some []
  | (name, w) :: rest, env =>
    match env name, w, encLayout rest env with
    | some (.u n), 8, some tl => some (le64 n ++ tl)
    | some (.i v), 4, some tl => some (le32i v ++ tl)
    | some (.raw b), 0, some tl => some (b ++ tl)
    | _, _, _ => none

/-- what the expressions of `write_key(keys_file, key, value, value_addr)` denote -/
def keyEnv (k : Bytes) (version : Int) (vaddr : Nat) (name : Bytes) : Option Field :=
  if name = b!"len" then some (.u k.length) else if name = b!"key.as_bytes()" then some (.raw k)
  else if name = b!"value.version" then some (.i version) else if name = b!"value_addr" then some (.u vaddr) else none

/-- what the expressions of `write_value(values_file, value, status)` denote -/
def valueEnv (v : Bytes) (status : Int) (name : Bytes) : Option Field :=
  if name = b!"value.value.len()" then some (.u v.length) else if name = b!"value_as_bytes" then some (.raw v)
  else if name = b!"status" then some (.i status) else none

/-! ### the generated tables, pinned -/

theorem C06_key_writer_layout :
    Gen.keyRecWriter = [(b!"len", 8), (b!"key.as_bytes()", 0), (b!"value.version", 4), (b!"value_addr", 8)] := by decide +kernel
theorem C06_value_writer_layout :
    Gen.valueRecWriter = [(b!"value.value.len()", 8), (b!"value_as_bytes", 0), (b!"status", 4)] := by decide +kernel
/-- every call of `write_value` passes `ValueStatus::Ok`, which is written as 0 -/
theorem C06_value_status_written :
    (∀ s ∈ Gen.writeValueCallStatuses, AL.get? Gen.statusCodes s = some 0) ∧ Gen.writeValueCallStatuses ≠ [] := by decide +kernel
theorem C06_disk_constants : Gen.diskSizes = [4, 8, 8] ∧ Gen.versionDeleted = -1 := by decide
/-- `get_key_disk_size` is the model's `keyRecSize` -/
theorem C06_key_disk_size_formula :
    Gen.keyDiskSizeTerms = [b!"U64_SIZE", b!"key_size", b!"ADDR_SIZE", b!"VERSION_SIZE"] ∧ ∀ n, keyRecSize n = 8 + n + 8 + 4 := by
  refine ⟨by decide +kernel, fun n => rfl⟩
/-- `update_key` patches the version and the value address at the END of the stored record: 12 bytes before the next one -/
theorem C06_update_key_offsets :
    Gen.updateKeyStart = b!"key_disk_addr + get_key_disk_size(key.len()) - (8 + VERSION_SIZE as u64)" ∧
    Gen.updateKeyWrites = [(b!"version", b!"start_at"), (b!"value_addr", b!"start_at + VERSION_SIZE as u64")] ∧
    8 + Gen.diskSizes.headD 0 = 12 := by decide +kernel
/-- the loader reads, per record: length, key, version, value address from the keys file; then — positioned at the value
address — length and value from the values file; the fixed buffers are 8, 8 and 4 bytes, the other two are sized by the length just read -/
theorem C06_loader_read_order :
    Gen.loaderReads = [(b!"keys_file", b!"length_buffer"), (b!"keys_file", b!"key_buffer"), (b!"keys_file", b!"version_buffer"),
                       (b!"keys_file", b!"value_addr_buffer"), (b!"values_file", b!"length_buffer"), (b!"values_file", b!"value_buffer")] ∧
    Gen.loaderSeeksTo = b!"value_addr" ∧
    Gen.loaderBuffers = [(b!"length_buffer", 8, b!"U64_SIZE"), (b!"value_addr_buffer", 8, b!"U64_SIZE"), (b!"version_buffer", 4, b!"VERSION_SIZE"),
                         (b!"key_buffer", 0, b!"key_length"), (b!"value_buffer", 0, b!"value_length")] := by decide +kernel

/-! ### the model's records ARE what the generated writers produce -/

/-- **for every key, version and value address**: interpreting the regenerated layout of `write_key` gives the model's key record -/
theorem C06_key_record_is_generated (k : Bytes) (version : Int) (vaddr : Nat) :
    encLayout Gen.keyRecWriter (keyEnv k version vaddr) = some (encKey k version vaddr) := by
  rw [C06_key_writer_layout]
  simp [encLayout, keyEnv, encKey]

/-- **for every value**: interpreting the regenerated layout of `write_value`, with the status its call sites pass, gives the model's value record -/
theorem C06_value_record_is_generated (v : Bytes) (s : Bytes) (hs : s ∈ Gen.writeValueCallStatuses) :
    ∃ code, AL.get? Gen.statusCodes s = some code ∧
      encLayout Gen.valueRecWriter (valueEnv v code) = some (encValue v) := by
  refine ⟨0, C06_value_status_written.1 s hs, ?_⟩
  rw [C06_value_writer_layout]
  simp [encLayout, valueEnv, encValue]

/-- non-vacuity: the key record of `("ab", version 3, value at 17)` as the generated layout writes it -/
example : encLayout Gen.keyRecWriter (keyEnv b!"ab" 3 17) = some [2, 0, 0, 0, 0, 0, 0, 0, 97, 98, 3, 0, 0, 0, 17, 0, 0, 0, 0, 0, 0, 0] := by
  decide +kernel

end Nun
