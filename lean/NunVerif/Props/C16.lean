import NunVerif.Model.Repl
import NunVerif.Proofs.AL
import NunVerif.Gen.Lits
set_option linter.unusedSimpArgs false
/-
  C16 — after any restart the oplog is either discarded or still decodes correctly.

  The metadata machine (`Meta`): in-memory key map and valid flag, the one-byte flag file, the
  keys file and the oplog files.  Its operations are the single writes the real code performs, so
  a kill between any two of them is simply a `restart` taken at that point of the sequence:

    register key          generate_key_id: new id = map length, flag file := 0 when it was valid
    write key t d o       register + the oplog append (the loop's handling of one data message)
    writeKeysFile         first half of snapshot_keys (keys file := in-memory map, when invalid)
    snapshotKeys          snapshot_keys
    restart               the start-up decision of main.rs

  The ghost history records, for every oplog record ever appended, the key it was written for.
  Main theorem: along EVERY sequence of these operations every record still present in an oplog
  file decodes — through the current in-memory key map — to exactly the key it was written for,
  and two keys never share an id.
-/
namespace Nun

/-! ### key ids -/

/-- ids handed out are below the map size and no two keys share one -/
def KInv (km : List (Bytes × Nat)) : Prop :=
  AL.NoDupKeys km ∧
  (∀ k i, AL.get? km k = some i → i < km.length) ∧
  (∀ k1 k2 i, AL.get? km k1 = some i → AL.get? km k2 = some i → k1 = k2)

theorem get?_append_single (km : List (Bytes × Nat)) (key : Bytes) (n : Nat) (k : Bytes) :
    AL.get? (km ++ [(key, n)]) k =
      match AL.get? km k with
      | some i => some i
      | none => if key = k then some n else none := by
  induction km with
  | nil => simp [AL.get?]
  | cons h t ih =>
    obtain ⟨hk, hv⟩ := h
    simp only [List.cons_append, AL.get?]
    split
    · rfl
    · exact ih

theorem kinv_nil : KInv [] := by
  refine ⟨by simp [AL.NoDupKeys], ?_, ?_⟩ <;> intro <;> simp [AL.get?]

theorem kinv_append (km : List (Bytes × Nat)) (key : Bytes) (h : KInv km) (hnew : AL.get? km key = none) :
    KInv (km ++ [(key, km.length)]) := by
  obtain ⟨hn, hb, hi⟩ := h
  refine ⟨?_, ?_, ?_⟩
  · unfold AL.NoDupKeys at *
    rw [List.map_append, List.nodup_append]
    refine ⟨hn, by simp, ?_⟩
    intro a ha b hb'
    simp at hb'
    subst hb'
    intro hab; subst hab
    exact ((AL.get?_none_iff_not_mem_keys km a).1 hnew) ha
  · intro k i hg
    rw [get?_append_single] at hg
    simp only [List.length_append, List.length_cons, List.length_nil]
    cases hk : AL.get? km k with
    | some j => rw [hk] at hg; simp at hg; have := hb k j hk; omega
    | none => rw [hk] at hg; simp at hg; omega
  · intro k1 k2 i h1 h2
    rw [get?_append_single] at h1 h2
    cases hk1 : AL.get? km k1 with
    | some j1 =>
      rw [hk1] at h1; simp at h1
      cases hk2 : AL.get? km k2 with
      | some j2 => rw [hk2] at h2; simp at h2; exact hi k1 k2 i (by rw [hk1, h1]) (by rw [hk2, h2])
      | none =>
        rw [hk2] at h2; simp at h2
        have := hb k1 j1 hk1; omega
    | none =>
      rw [hk1] at h1; simp at h1
      cases hk2 : AL.get? km k2 with
      | some j2 =>
        rw [hk2] at h2; simp at h2
        have := hb k2 j2 hk2; omega
      | none =>
        rw [hk2] at h2; simp at h2
        rw [← h1.1, ← h2.1]

/-- `id_keys_map`: the key an id stands for -/
def keyOfId (km : List (Bytes × Nat)) (i : Nat) : Option Bytes :=
  (km.find? (fun p => p.2 == i)).map (·.1)

/-- under `KInv` an id decodes to exactly the key it was registered for -/
theorem keyOfId_of_get? (km : List (Bytes × Nat)) (h : KInv km) (key : Bytes) (i : Nat)
    (hg : AL.get? km key = some i) : ∃ key', keyOfId km i = some key' ∧ AL.get? km key' = some i ∧ key' = key := by
  -- some pair with id i is found; its key maps to i as well (first occurrence), hence equals key
  have hmem : (key, i) ∈ km := AL.mem_of_get? km key i hg
  have hex : ∃ p, km.find? (fun p => p.2 == i) = some p := by
    cases hf : km.find? (fun p => p.2 == i) with
    | some p => exact ⟨p, rfl⟩
    | none =>
      rw [List.find?_eq_none] at hf
      have := hf (key, i) hmem
      simp at this
  obtain ⟨p, hp⟩ := hex
  have hpi : p.2 = i := by
    have := List.find?_some hp
    simpa using this
  have hpm : p ∈ km := List.mem_of_find?_eq_some hp
  have hgp : AL.get? km p.1 = some i := by
    have := AL.get?_of_mem_noDup km p.1 p.2 h.1 hpm
    rw [this, hpi]
  exact ⟨p.1, by simp [keyOfId, hp], hgp, h.2.2 p.1 key i hgp hg⟩

/-! ### the metadata machine -/

def OplogFs.Has (fs : OplogFs) (x : OpRec) : Prop := x ∈ fs.cur ∨ ∃ g ∈ fs.rot, x ∈ g

theorem append_has (fs : OplogFs) (single : Nat) (r : OpRec) (reopen : Bool) (x : OpRec)
    (h : (fs.append single r reopen).Has x) : fs.Has x ∨ x = r := by
  unfold OplogFs.append OplogFs.Has at *
  simp only [] at h
  split at h <;> split at h <;> (try split at h) <;> simp_all <;> grind

theorem append_last_mem (fs : OplogFs) (single : Nat) (r : OpRec) (reopen : Bool) :
    r ∈ (fs.append single r reopen).cur := by
  unfold OplogFs.append
  simp only []
  split <;> split <;> (try split) <;> simp_all

theorem restart_valid (m : Meta) (h : m.diskValid = true) :
    m.restart = { m with keysMap := m.keysFile.getD [], valid := true } := by
  simp only [Meta.restart, h, if_true]

theorem restart_invalid (m : Meta) (h : m.diskValid = false) :
    m.restart = { m with keysMap := [], valid := false, flagFile := some 0, oplog := {}, keysFile := none } := by
  simp only [Meta.restart, h]; rfl

theorem diskValid_ne (m : Meta) (h : m.diskValid = true) : m.flagFile ≠ some 0 := by
  intro hz; simp [Meta.diskValid, hz] at h

def Meta.disk (m : Meta) : Option Nat × Option (List (Bytes × Nat)) × OplogFs := (m.flagFile, m.keysFile, m.oplog)

/-- a start-up reads the files only -/
theorem restart_disk_only (m m' : Meta) (h : m.disk = m'.disk) : m.restart = m'.restart := by
  obtain ⟨o, km, v, ff, kf⟩ := m
  obtain ⟨o', km', v', ff', kf'⟩ := m'
  simp only [Meta.disk, Prod.mk.injEq] at h
  obtain ⟨h1, h2, h3⟩ := h
  subst h1; subst h2; subst h3
  rfl

/-- the shapes the files can have after any number of killed start-ups of `m` -/
def CrashShape (m c : Meta) : Prop :=
  (c.flagFile = m.flagFile ∧ c.oplog = m.oplog ∧ c.keysFile = m.keysFile) ∨
  (m.diskValid = false ∧ c.oplog = {} ∧ (c.keysFile = m.keysFile ∨ c.keysFile = none) ∧
    (c.flagFile = m.flagFile ∨ c.flagFile = some 0 ∨ c.flagFile = none))

theorem diskValid_congr (m c : Meta) (h : c.flagFile = m.flagFile) : c.diskValid = m.diskValid := by
  simp [Meta.diskValid, h]

theorem crashStart_valid (c : Meta) (k : Nat) (h : c.diskValid = true) : c.crashStart k = c := by
  simp [Meta.crashStart, Meta.restartTrace, h]

theorem crashStart_invalid (c : Meta) (k : Nat) (h : c.diskValid = false) :
    (c.crashStart k = c) ∨ ((c.crashStart k).oplog = {} ∧
      ((c.crashStart k).keysFile = c.keysFile ∨ (c.crashStart k).keysFile = none) ∧
      ((c.crashStart k).flagFile = c.flagFile ∨ (c.crashStart k).flagFile = some 0 ∨ (c.crashStart k).flagFile = none)) := by
  unfold Meta.crashStart Meta.restartTrace
  simp only [h, Bool.false_eq_true, if_false]
  cases c.keysFile.isSome <;>
  match k with
  | 0 => simp
  | 1 => simp [List.take, List.foldl, Meta.applyX]
  | 2 => simp [List.take, List.foldl, Meta.applyX]
  | 3 => simp [List.take, List.foldl, Meta.applyX]
  | k + 4 => simp [List.take, List.foldl, Meta.applyX]

theorem crashStart_shape (m c : Meta) (k : Nat) (hs : CrashShape m c) : CrashShape m (c.crashStart k) := by
  cases hv : c.diskValid with
  | true => rw [crashStart_valid c k hv]; exact hs
  | false =>
    rcases crashStart_invalid c k hv with he | ⟨ho, hkf, hf⟩
    · rw [he]; exact hs
    · rcases hs with ⟨hf0, ho0, hk0⟩ | ⟨hmv, ho0, hk0, hf0⟩
      · right
        refine ⟨by rw [← diskValid_congr m c hf0]; exact hv, ho, ?_, ?_⟩
        · rcases hkf with h | h
          · left; rw [h, hk0]
          · right; exact h
        · rcases hf with hf | hf | hf
          · left; rw [hf, hf0]
          · right; left; exact hf
          · right; right; exact hf
      · right
        refine ⟨hmv, ho, ?_, ?_⟩
        · rcases hkf with h | h
          · rw [h]; exact hk0
          · right; exact h
        · rcases hf with hf | hf | hf
          · rw [hf]; exact hf0
          · right; left; exact hf
          · right; right; exact hf

theorem crashStarts_shape (m c : Meta) (ks : List Nat) (h : CrashShape m c) : CrashShape m (ks.foldl Meta.crashStart c) := by
  induction ks generalizing c with
  | nil => exact h
  | cons k rest ih => exact ih _ (crashStart_shape m c k h)

/-- any number of start-ups killed part-way, then a complete one: the node ends like after one
uninterrupted start-up, or (last kill between deleting the flag and writing it back) with an
empty log, a missing flag and the key map of whatever keys file is left (the old one or none) -/
theorem restartCrashed_cases (m : Meta) (ks : List Nat) :
    m.restartCrashed ks = m.restart ∨
    ((m.restartCrashed ks).keysMap = (m.restartCrashed ks).keysFile.getD [] ∧ (m.restartCrashed ks).valid = true ∧
     (m.restartCrashed ks).oplog = {} ∧ (m.restartCrashed ks).flagFile = none ∧
     ((m.restartCrashed ks).keysFile = m.keysFile ∨ (m.restartCrashed ks).keysFile = none)) := by
  unfold Meta.restartCrashed
  have hs := crashStarts_shape m m ks (Or.inl ⟨rfl, rfl, rfl⟩)
  generalize ks.foldl Meta.crashStart m = c at hs
  rcases hs with ⟨hf, ho, hk⟩ | ⟨hmv, ho, hk, hf⟩
  · left; exact restart_disk_only c m (by simp [Meta.disk, hk, hf, ho])
  · have hinv : ∀ c : Meta, c.diskValid = false → c.restart = m.restart := by
      intro c hv
      rw [restart_invalid m hmv, restart_invalid c hv]
    rcases hf with hf | hf | hf
    · left; exact hinv c (by rw [diskValid_congr m c hf]; exact hmv)
    · left; exact hinv c (by simp [Meta.diskValid, hf])
    · right
      rw [restart_valid c (by simp [Meta.diskValid, hf])]
      exact ⟨rfl, rfl, ho, hf, hk⟩

structure MetaInv (m : Meta) : Prop where
  kinv : KInv m.keysMap
  finv : KInv (m.keysFile.getD [])
  flag : m.valid = true ↔ m.flagFile ≠ some 0
  covered : m.flagFile ≠ some 0 → m.keysFile.getD [] = m.keysMap

/-- record `r` decodes, through the in-memory key map, to `key` -/
def Decodes (m : Meta) (r : OpRec) (key : Bytes) : Prop := AL.get? m.keysMap key = some r.k

theorem metaInv_init : MetaInv {} := ⟨kinv_nil, kinv_nil, by simp, by simp⟩

theorem keyId_spec (m : Meta) (key : Bytes) :
    AL.get? (m.keyId key).1.keysMap key = some (m.keyId key).2 ∧ (m.keyId key).1.oplog = m.oplog ∧
    (∀ k i, AL.get? m.keysMap k = some i → AL.get? (m.keyId key).1.keysMap k = some i) := by
  unfold Meta.keyId
  cases hg : AL.get? m.keysMap key with
  | some id => simp [hg]
  | none =>
    simp only []
    split <;> (simp only [get?_append_single, hg]; refine ⟨by simp, trivial, ?_⟩; intro k i hk; simp [hk])

theorem keyId_inv (m : Meta) (key : Bytes) (h : MetaInv m) : MetaInv (m.keyId key).1 := by
  obtain ⟨hk, hf, hfl, hc⟩ := h
  unfold Meta.keyId
  cases hg : AL.get? m.keysMap key with
  | some id => exact ⟨hk, hf, hfl, hc⟩
  | none =>
    simp only []
    have hk' := kinv_append m.keysMap key hk hg
    by_cases hv : m.valid = true
    · simp only [hv, if_true]
      exact ⟨hk', hf, by simp, by simp⟩
    · simp only [hv]
      have hz : m.flagFile = some 0 := by
        by_cases hz : m.flagFile = some 0
        · exact hz
        · exact absurd (hfl.2 hz) hv
      refine ⟨hk', hf, ?_, ?_⟩
      · simp [hz]
      · intro hne; exact absurd hz hne

theorem restart_metaInv (m : Meta) (h : MetaInv m) : MetaInv m.restart := by
  obtain ⟨hk, hf, hfl, hc⟩ := h
  cases hv : m.diskValid with
  | true =>
    rw [restart_valid m hv]
    have hne := diskValid_ne m hv
    exact ⟨hf, hf, by simp [hne], by intro _; rfl⟩
  | false =>
    rw [restart_invalid m hv]
    exact ⟨kinv_nil, kinv_nil, by simp, by simp⟩

theorem restart_stable (m : Meta) (h : MetaInv m) (r : OpRec) (key : Bytes)
    (hd : Decodes m r key) (hh : m.restart.oplog.Has r) : Decodes m.restart r key := by
  unfold Decodes at *
  cases hv : m.diskValid with
  | true =>
    rw [restart_valid m hv]
    simp only []
    rw [h.covered (diskValid_ne m hv)]; exact hd
  | false =>
    rw [restart_invalid m hv] at hh
    simp [OplogFs.Has] at hh

/-- every operation preserves the invariant -/
theorem step_inv (m : Meta) (op : MOp) (h : MetaInv m) : MetaInv (m.step op) := by
  cases op with
  | register key => exact keyId_inv m key h
  | write key t d o =>
    obtain ⟨hk, hf, hfl, hc⟩ := keyId_inv m key h
    exact ⟨hk, hf, hfl, hc⟩
  | log r =>
    obtain ⟨hk, hf, hfl, hc⟩ := h
    exact ⟨hk, hf, hfl, hc⟩
  | restartCrashed ks =>
    have hr := restart_metaInv m h
    simp only [Meta.step]
    rcases restartCrashed_cases m ks with he | ⟨h1, h2, h3, h4, h5⟩
    · rw [he]; exact hr
    · have hfk : KInv ((m.restartCrashed ks).keysFile.getD []) := by
        rcases h5 with h5 | h5 <;> rw [h5]
        · exact h.finv
        · exact kinv_nil
      exact ⟨by rw [h1]; exact hfk, hfk, by simp [h2, h4], by intro _; rw [h1]⟩
  | writeKeysFile =>
    obtain ⟨hk, hf, hfl, hc⟩ := h
    simp only [Meta.step, Meta.writeKeysFile]
    split
    · rename_i hv
      have hz : m.flagFile = some 0 := by
        by_cases hz : m.flagFile = some 0
        · exact hz
        · have := hfl.2 hz; simp [this] at hv
      exact ⟨hk, by simpa using hk, hfl, by intro hne; exact absurd hz hne⟩
    · exact ⟨hk, hf, hfl, hc⟩
  | snapshotKeys =>
    obtain ⟨hk, hf, hfl, hc⟩ := h
    simp only [Meta.step, Meta.snapshotKeys]
    split
    · exact ⟨hk, by simpa using hk, by simp, by simp⟩
    · exact ⟨hk, hf, hfl, hc⟩
  | restart => exact restart_metaInv m h

/-- stability: whatever one operation does, a record still in the log afterwards keeps decoding
to the same key (a start-up that cannot guarantee this has discarded the log) -/
theorem step_stable (m : Meta) (op : MOp) (h : MetaInv m) (r : OpRec) (key : Bytes)
    (hd : Decodes m r key) (hh : (m.step op).oplog.Has r) : Decodes (m.step op) r key := by
  unfold Decodes at *
  cases op with
  | register key' => exact (keyId_spec m key').2.2 _ _ hd
  | write key' t d o => exact (keyId_spec m key').2.2 _ _ hd
  | writeKeysFile => simp only [Meta.step, Meta.writeKeysFile]; split <;> exact hd
  | snapshotKeys => simp only [Meta.step, Meta.snapshotKeys]; split <;> exact hd
  | restart => exact restart_stable m h r key hd hh
  | log r' => exact hd
  | restartCrashed ks =>
    simp only [Meta.step] at hh ⊢
    rcases restartCrashed_cases m ks with he | ⟨_, _, h3, _, _⟩
    · rw [he] at hh ⊢; exact restart_stable m h r key hd hh
    · rw [h3] at hh; simp [OplogFs.Has] at hh

/-- the record a data message appends is in the log and decodes to the key of the message -/
theorem write_decodes (m : Meta) (key : Bytes) (t d o : Nat) :
    let r : OpRec := { t, k := (m.keyId key).2, d, o }
    (m.step (.write key t d o)).oplog.Has r ∧ Decodes (m.step (.write key t d o)) r key := by
  refine ⟨?_, ?_⟩
  · simp only [Meta.step, Meta.writeOp, OplogFs.Has]
    left
    exact append_last_mem _ _ _ _
  · exact (keyId_spec m key).1

def runM (m : Meta) (ops : List MOp) : Meta := ops.foldl Meta.step m

/-- `r` is in the log after every step of the run -/
def StaysIn (r : OpRec) : Meta → List MOp → Prop
  | _, [] => True
  | m, op :: rest => (m.step op).oplog.Has r ∧ StaysIn r (m.step op) rest

theorem run_inv (m : Meta) (ops : List MOp) (h : MetaInv m) : MetaInv (runM m ops) := by
  induction ops generalizing m with
  | nil => exact h
  | cons op rest ih => exact ih _ (step_inv m op h)

theorem run_stable (m : Meta) (ops : List MOp) (h : MetaInv m) (r : OpRec) (key : Bytes)
    (hd : Decodes m r key) (hs : StaysIn r m ops) : Decodes (runM m ops) r key := by
  induction ops generalizing m with
  | nil => exact hd
  | cons op rest ih => exact ih _ (step_inv m op h) (step_stable m op h r key hd hs.1) hs.2

/-- **C16 (key part).** From the empty start, along every sequence of key registrations, data
messages, key-map writes, flag updates and restarts (a kill between two writes is a `restart` at
that point): a record appended for `key` decodes to exactly `key` — and to no other key — for as
long as it stays in the log, whatever happens in between. -/
theorem C16_record_decodes (before after : List MOp) (key : Bytes) (t d o : Nat) :
    let m0 := runM {} before
    let r : OpRec := { t, k := (m0.keyId key).2, d, o }
    let m1 := m0.step (.write key t d o)
    StaysIn r m1 after →
      keyOfId (runM m1 after).keysMap r.k = some key := by
  intro m0 r m1 hs
  have h0 : MetaInv m0 := run_inv {} before metaInv_init
  have h1 : MetaInv m1 := step_inv m0 _ h0
  have hd : Decodes m1 r key := (write_decodes m0 key t d o).2
  have hfin := run_stable m1 after h1 r key hd hs
  have hk := (run_inv m1 after h1).kinv
  obtain ⟨key', h1', _, h3⟩ := keyOfId_of_get? _ hk key r.k hfin
  rw [h1', h3]

/-- two keys never share an identifier, in any reachable state -/
theorem C16_key_ids_injective (ops : List MOp) (k1 k2 : Bytes) (i : Nat)
    (h1 : AL.get? (runM {} ops).keysMap k1 = some i) (h2 : AL.get? (runM {} ops).keysMap k2 = some i) : k1 = k2 :=
  (run_inv {} ops metaInv_init).kinv.2.2 k1 k2 i h1 h2

/-- the flag on disk says "valid" only when the keys file covers the in-memory map -/
theorem C16_flag_means_covered (ops : List MOp) :
    let m := runM {} ops
    m.flagFile ≠ some 0 → m.keysFile.getD [] = m.keysMap :=
  (run_inv {} ops metaInv_init).covered

/-- a start-up either keeps the log and the key map it had (valid flag) or discards the log -/
theorem C16_restart_keeps_or_discards (ops : List MOp) :
    let m := runM {} ops
    (m.restart.oplog = m.oplog ∧ m.restart.keysMap = m.keysMap ∧ m.restart.valid = true) ∨
    (m.restart.oplog = {} ∧ m.restart.valid = false ∧ m.restart.flagFile = some 0) := by
  intro m
  have h := run_inv {} ops metaInv_init
  cases hv : m.diskValid with
  | true =>
    left; rw [restart_valid m hv]
    exact ⟨rfl, h.covered (diskValid_ne m hv), rfl⟩
  | false =>
    right; rw [restart_invalid m hv]
    exact ⟨rfl, rfl, rfl⟩

/-! ### crash points: a kill between two writes is a run of the machine -/

def applyXs (m : Meta) (xs : List XOp) : Meta := xs.foldl Meta.applyX m

/-- the writes listed for an operation are what the operation does to the files -/
theorem trace_is_step (m : Meta) (op : MOp) (_h : MetaInv m) (hop : ∀ k, op ≠ .restartCrashed k) (hr : op ≠ .restart) :
    (applyXs m (m.trace op)).disk = (m.step op).disk := by
  cases op with
  | restart => exact absurd rfl hr
  | restartCrashed k => exact absurd rfl (hop k)
  | log r => rfl
  | register key =>
    simp only [Meta.trace, Meta.step, Meta.keyId, applyXs]
    cases hg : AL.get? m.keysMap key with
    | some id => simp [Meta.disk]
    | none => cases hv : m.valid <;> simp [Meta.disk, Meta.applyX]
  | write key t d o =>
    simp only [Meta.trace, Meta.step, Meta.keyId, applyXs]
    cases hg : AL.get? m.keysMap key with
    | some id => simp [Meta.disk, Meta.applyX, Meta.writeOp]
    | none => cases hv : m.valid <;> simp [Meta.disk, Meta.applyX, Meta.writeOp]
  | writeKeysFile =>
    simp only [Meta.trace, Meta.step, Meta.writeKeysFile, applyXs]
    cases hv : m.valid <;> simp [Meta.disk, Meta.applyX]
  | snapshotKeys =>
    simp only [Meta.trace, Meta.step, Meta.snapshotKeys, applyXs]
    cases hv : m.valid <;> simp [Meta.disk, Meta.applyX]

/-- **crash points.** Kill the node after ANY number `k` of the writes of ANY operation and start
it again: the resulting state is the state of a run of the machine (so everything proved for runs —
invariant, decoding, injectivity — holds after every crash point). -/
theorem crash_full (m : Meta) (op : MOp) (k : Nat) (h : MetaInv m) (hop : ∀ k, op ≠ .restartCrashed k) (hr : op ≠ .restart)
    (hk : (m.trace op).length ≤ k) : (applyXs m ((m.trace op).take k)).restart = runM m [op, .restart] := by
  rw [List.take_of_length_le hk]
  exact restart_disk_only _ _ (trace_is_step m op h hop hr)

theorem C16_crash_is_a_run (m : Meta) (op : MOp) (k : Nat) (h : MetaInv m) :
    ∃ ops : List MOp, (applyXs m ((m.trace op).take k)).restart = runM m ops := by
  cases op with
  | restart => exact ⟨[.restartCrashed [k]], by simp [runM, Meta.step, Meta.restartCrashed, Meta.crashStart, Meta.trace, applyXs]⟩
  | restartCrashed ks => exact ⟨[.restart], by simp [runM, Meta.step, Meta.trace, applyXs]⟩
  | log r =>
    match k with
    | 0 => exact ⟨[.restart], by simp [runM, Meta.step, applyXs]⟩
    | k + 1 => exact ⟨[.log r, .restart], by simp [runM, Meta.step, applyXs, Meta.trace, Meta.applyX]⟩
  | register key =>
    match k with
    | 0 => exact ⟨[.restart], by simp [runM, Meta.step, applyXs]⟩
    | k + 1 =>
      refine ⟨[.register key, .restart], crash_full m _ _ h (by intro k; simp) (by simp) ?_⟩
      simp only [Meta.trace]; split <;> simp
  | write key t d o =>
    by_cases hk : (m.trace (.write key t d o)).length ≤ k
    · exact ⟨_, crash_full m _ k h (by intro k; simp) (by simp) hk⟩
    · match k with
      | 0 => exact ⟨[.restart], by simp [runM, Meta.step, applyXs]⟩
      | k + 1 =>
        refine ⟨[.register key, .restart], ?_⟩
        have hr := crash_full m (.register key) 1 h (by intro k; simp) (by simp) (by simp only [Meta.trace]; split <;> simp)
        rw [← hr]
        simp only [Meta.trace] at hk ⊢
        split at hk <;> simp at hk
        rename_i hc
        have hk0 : k = 0 := by omega
        subst hk0
        simp [hc]
  | writeKeysFile =>
    match k with
    | 0 => exact ⟨[.restart], by simp [runM, Meta.step, applyXs]⟩
    | k + 1 =>
      refine ⟨[.writeKeysFile, .restart], crash_full m _ _ h (by intro k; simp) (by simp) ?_⟩
      simp only [Meta.trace]; split <;> simp
  | snapshotKeys =>
    by_cases hk : (m.trace .snapshotKeys).length ≤ k
    · exact ⟨_, crash_full m _ k h (by intro k; simp) (by simp) hk⟩
    · match k with
      | 0 => exact ⟨[.restart], by simp [runM, Meta.step, applyXs]⟩
      | k + 1 =>
        refine ⟨[.writeKeysFile, .restart], ?_⟩
        have hr := crash_full m .writeKeysFile 1 h (by intro k; simp) (by simp) (by simp only [Meta.trace]; split <;> simp)
        rw [← hr]
        simp only [Meta.trace] at hk ⊢
        split at hk <;> simp at hk
        rename_i hc
        have hk0 : k = 0 := by omega
        subst hk0
        simp [hc]

/-! ### the loop's step is the machine's `write` -/

/-- what the replication loop does to the metadata for a `replicate` / `replicate-remove` /
`replicate-increment` message of an existing database is exactly `Meta.step (.write …)` -/
theorem C16_loop_is_write (n : Node) (m : Meta) (line reqStr : Bytes) (opId : Nat) (req : Request)
    (key : Bytes) (dbn : Bytes) (d : Nat) (kind : Nat)
    (h1 : Request.parse line = .ok (.replicateRequest reqStr opId))
    (h2 : Request.parse reqStr = .ok req)
    (hreq : (∃ v ver, req = .replicateSet dbn key v ver ∧ kind = 0) ∨ (∃ v, req = .replicateIncrement dbn key v ∧ kind = 0) ∨
            (req = .replicateRemove dbn key ∧ kind = 1))
    (hdb : (n.db? dbn).map (·.id) = some d) :
    (n.replStep m line).2.1 = m.step (.write key opId d kind) := by
  unfold Node.replStep
  rw [h1]; simp only []; rw [h2]; simp only []
  rcases hreq with ⟨v, ver, rfl, rfl⟩ | ⟨v, rfl, rfl⟩ | ⟨rfl, rfl⟩ <;>
    (simp only [hdb, Meta.step]; cases n.role <;> simp)

theorem ite_mid {α β γ : Type} (c : Prop) [Decidable c] (a b : α) (x : β) (p q : γ) :
    (if c then (a, x, p) else (b, x, q)).2.1 = x := by split <;> rfl

theorem snapshot_fold (n : Node) (opId : Nat) (names : List Bytes) (m : Meta) (acc : Option Meta) (b : Bool) :
    ((names.foldl (fun (acc : Option Meta × Bool) name =>
            match acc.2, (n.db? name).map (·.id) with
            | true, some d => (some ((acc.1.getD m).writeOp { t := opId, k := 18446744073709551614, d := d, o := 3 }), true)
            | true, none => (acc.1, false)
            | false, some d => (some ((acc.1.getD m).writeOp { t := opId, k := 18446744073709551614, d := d, o := 3 }), false)
            | false, none => (acc.1, false)) (acc, b)).1.getD m) =
      runM (acc.getD m) (names.filterMap fun name => ((n.db? name).map (·.id)).map fun d => MOp.log { t := opId, k := 18446744073709551614, d := d, o := 3 }) := by
  induction names generalizing acc b with
  | nil => simp [runM]
  | cons name rest ih =>
    simp only [List.foldl_cons, List.filterMap_cons]
    cases hd : (n.db? name).map (·.id) with
    | none => cases b <;> simp only [Option.map_none] <;> exact ih _ _
    | some d =>
      cases b <;> simp only [Option.map_some] <;> rw [ih] <;> simp [runM, Meta.step]

/-- **the loop is the machine.** Whatever message the replication loop handles, what it does to the
metadata (key map, flag, oplog) is the run of `replMOps` — so every theorem about runs of the
machine is a theorem about the loop the driver executes (and the correspondence check compares with
the real `start_replication_thread`). -/
theorem C16_loop_is_machine (n : Node) (m : Meta) (line : Bytes) :
    (n.replStep m line).2.1 = runM m (n.replMOps line) := by
  unfold Node.replStep Node.replMOps
  cases h1 : Request.parse line with
  | error e => simp [runM]
  | ok r1 =>
    cases r1 <;> simp only [runM, List.foldl] <;> try rfl
    rename_i reqStr opId
    cases h2 : Request.parse reqStr with
    | error e => simp
    | ok req =>
      simp only []
      cases req
      case replicateSnapshot reclaim names =>
        simp only []
        have hs := snapshot_fold n opId names m none true
        simp only [Option.getD_none, runM, Option.map_map] at hs
        cases n.role <;> simp only [ite_mid, Option.map_map] <;> exact hs
      case replicateSet db key v ver =>
        simp only []
        cases hd : (n.db? db).map (·.id) <;> cases n.role <;> simp [runM, Meta.step, ite_mid]
      case replicateIncrement db key v =>
        simp only []
        cases hd : (n.db? db).map (·.id) <;> cases n.role <;> simp [runM, Meta.step, ite_mid]
      case replicateRemove db key =>
        simp only []
        cases hd : (n.db? db).map (·.id) <;> cases n.role <;> simp [runM, Meta.step, ite_mid]
      case createDb tok name strat =>
        simp only []
        cases hd : (n.db? name).map (·.id) <;> cases n.role <;> simp [runM, Meta.step, ite_mid]
      all_goals
        simp only []
        cases n.role <;> simp [runM] <;> done

/-! ### database ids -/

theorem foldl_max_ge (dbs : List (Bytes × Db)) (a : Nat) :
    a ≤ dbs.foldl (fun m p => max m p.2.id) a ∧ ∀ p ∈ dbs, p.2.id ≤ dbs.foldl (fun m p => max m p.2.id) a := by
  induction dbs generalizing a with
  | nil => simp
  | cons h t ih =>
    simp only [List.foldl_cons]
    have := ih (max a h.2.id)
    refine ⟨by omega, ?_⟩
    intro p hp
    rcases List.mem_cons.1 hp with rfl | hp
    · omega
    · exact this.2 p hp

/-- `next_database_id` is not the id of any existing database -/
theorem C16_next_db_id_fresh (dbs : List (Bytes × Db)) : ∀ p ∈ dbs, p.2.id < nextDbId dbs := by
  intro p hp
  unfold nextDbId
  cases dbs with
  | nil => simp at hp
  | cons h t =>
    simp only []
    have := (foldl_max_ge (h :: t) 0).2 p hp
    omega

/-- the id rule is the one in the source: both creation sites call `next_database_id` -/
theorem C16_db_id_rule_pin :
    Gen.createDbIdExpr = b!"dbs.next_database_id()" ∧ Gen.noMetaIdExpr = b!"dbs.next_database_id()" ∧
    Gen.nextDbIdBody = b!"{self.map.read().expect(\"couldnotgetlock\").values().map(|db|db.metadata.id).max().map_or(0,|id|id.saturating_add(1))}" := by
  decide +kernel

/-- the start-up decision the harness mirrors is the one in `src/bin/main.rs` -/
theorem C16_startup_pin :
    Gen.startupDecision = b!")=channel(100);letis_oplog_valid=disk_ops::is_oplog_valid();letkeys_map=ifis_oplog_valid{disk_ops::load_keys_map_from_disk()}else{disk_ops::Oplog::clean_op_log_metadata_files();disk_ops::mark_op_log_as_invalid_on_disk().unwrap();std::collections::HashMap::new()};letdbs=nundb::db_ops::create_init_dbs(" := by
  decide +kernel

/-- non-vacuity: a run in which a record survives a clean restart and still decodes, and a run in
which the kill comes before the keys snapshot and the log is discarded -/
example :
    let m := runM {} [.write b!"a" 5 1 0, .snapshotKeys, .restart]
    m.oplog.cur = [⟨5, 0, 1, 0⟩] ∧ keyOfId m.keysMap 0 = some b!"a" ∧ m.valid = true := by decide
example :
    let m := runM {} [.write b!"a" 5 1 0, .writeKeysFile, .restart]
    m.oplog.cur = [] ∧ m.valid = false ∧ m.flagFile = some 0 := by decide

end Nun
