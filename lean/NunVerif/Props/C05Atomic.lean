import NunVerif.Props.C05Format
import NunVerif.Props.C05
import NunVerif.Gen.Atomic
/-
  C05 — "writes accepted by the primary during the synchronisation are not lost" rests on a
  critical section: the supervisor reads the current values AND queues them for the rejoining node
  under the cluster lock, the same lock the replication loop takes to queue every accepted write
  (`replicate_message_to_secoundary`).  A write is therefore queued either before the read (the
  read sees it) or after the whole burst (it lands on top).  The model's `Node.supStep` takes the
  step atomically; `Gen.atomicSites` (regenerated from /repo/src on every run) says whether the
  source still does.
-/
namespace Nun

theorem C05_sync_is_one_critical_section :
    AL.get? Gen.atomicSites b!"sync-reads-and-queues-under-the-cluster-lock" = some true := by decide +kernel

theorem C05_fanout_is_one_critical_section :
    AL.get? Gen.atomicSites b!"fan-out-registers-and-queues-under-the-cluster-lock" = some true := by decide +kernel

end Nun
